(* ScannerProofs.v — the pushdown JSON scanner of Scanner.v accepts exactly the texts the
   recursive-descent recogniser of Grammar.v accepts (property C05).

   Plan (see the spike):
   1. a types-only machine ([apply_finds], [acc]) and the projection of [run]/[check] to it;
   2. skip lemmas for the self-looping states, token lemmas (numbers, strings, words);
   3. mutual induction on fuel: value / items / members;
   4. fuel facts for the recogniser;
   5. the reachable-stack invariant: no Panic;
   6. error positions. *)
From Coq Require Import List NArith Bool Arith Lia.
From Coq Require Import ZifyBool ZifyNat ZifyN.
From Coq Require Import Strings.Byte.
Import ListNotations.
From JS Require Import Common.Wire Json.Scanner Json.Grammar.

(* ================================================================== *)
(* 0. byte classes                                                     *)
(* ================================================================== *)
Ltac bsolve :=
  unfold ch, is_blank, is_digit, is_digit19, is_hex, is_ctl in *;
  repeat match goal with |- context [bN ?c] => generalize dependent (bN c); intros end;
  lia.

Lemma frev_rev {A} (l : list A) : frev l = rev l.
Proof. unfold frev. symmetry. apply rev_alt. Qed.

Lemma byte_eqb_ch a c : byte_eqb a c = ch c (Byte.to_N a).
Proof. unfold byte_eqb, ch, bN. apply N.eqb_sym. Qed.

Lemma skip_blank_head bs c r : skip_blank bs = c :: r -> is_blank c = false.
Proof.
  induction bs as [|d t IH]; cbn [skip_blank]; [discriminate|].
  destruct (is_blank d) eqn:E; [exact IH|].
  intros H; inversion H; subst; exact E.
Qed.

Lemma skip_blank_len bs : length (skip_blank bs) <= length bs.
Proof.
  induction bs as [|d t IH]; cbn [skip_blank]; [lia|].
  destruct (is_blank d); cbn [length]; lia.
Qed.

Lemma skip_blank_idem bs : skip_blank (skip_blank bs) = skip_blank bs.
Proof.
  induction bs as [|d t IH]; cbn [skip_blank]; [reflexivity|].
  destruct (is_blank d) eqn:E; [exact IH|]. cbn [skip_blank]. rewrite E. reflexivity.
Qed.

Lemma skip_blank_nb c r : is_blank c = false -> skip_blank (c :: r) = c :: r.
Proof. intros H. cbn [skip_blank]. rewrite H. reflexivity. Qed.

Lemma skip_digits_len bs : length (skip_digits bs) <= length bs.
Proof.
  induction bs as [|d t IH]; cbn [skip_digits]; [lia|].
  destruct (is_digit d); cbn [length]; lia.
Qed.

(* ================================================================== *)
(* 1. the types-only machine                                           *)
(* ================================================================== *)
Definition apply_found (s : list ev) (e : ev) : option (list ev) :=
  match e with
  | EndTop => Some s
  | _ =>
    if is_opening e then Some (e :: s)
    else match s with
         | [] => None
         | p :: rest =>
           if nonscalar_pair p e then Some rest
           else if scalar_pair p e then Some rest
           else None
         end
  end.

Fixpoint apply_finds (s : list ev) (fs : list ev) : option (list ev) :=
  match fs with
  | [] => Some s
  | e :: r => match apply_found s e with None => None | Some s' => apply_finds s' r end
  end.

Definition is_endtop (e : ev) : bool := match e with EndTop => true | _ => false end.
Definition mem_endtop (fs : list ev) : bool := existsb is_endtop fs.

(* the end-of-input rule on types *)
Fixpoint ttail (fuel : nat) (u : bool) (s : list ev) : bool :=
  match fuel with
  | O => false
  | S f =>
    match s with
    | [] => true
    | LiteralBegin :: rest => if u then false else ttail f u rest
    | _ => false
    end
  end.

Definition is_root (q : st) : bool := match q with FoundRootValue => true | _ => false end.

Definition eof_ok (k : ctl) (s : list ev) : bool :=
  (negb (is_root (c_st k)) && ttail 3 (c_unf k) s)%bool.

(* acceptance: run to the end of the input, then the end-of-input rule; an emitted EndTop
   (only with allow = true) accepts at once *)
Fixpoint acc (allow : bool) (k : ctl) (s : list ev) (bs : bytes) : bool :=
  match bs with
  | [] => eof_ok k s
  | c :: r =>
    match step allow k s c with
    | None => false
    | Some (k', fs) =>
      match apply_finds s fs with
      | None => false
      | Some s' => if mem_endtop fs then true else acc allow k' s' r
      end
    end
  end.

Lemma acc_cons allow k s c r :
  acc allow k s (c :: r) =
  match step allow k s c with
  | None => false
  | Some (k', fs) =>
    match apply_finds s fs with
    | None => false
    | Some s' => if mem_endtop fs then true else acc allow k' s' r
    end
  end.
Proof. reflexivity. Qed.

Lemma acc_nil allow k s : acc allow k s [] = eof_ok k s.
Proof. reflexivity. Qed.

(* two configurations that make the same move on [c] *)
Lemma acc_same_step allow k1 s1 k2 s2 c r :
  match step allow k1 s1 c with
  | None => None
  | Some (k', fs) => match apply_finds s1 fs with None => None | Some s' => Some (k', s', mem_endtop fs) end
  end =
  match step allow k2 s2 c with
  | None => None
  | Some (k', fs) => match apply_finds s2 fs with None => None | Some s' => Some (k', s', mem_endtop fs) end
  end ->
  acc allow k1 s1 (c :: r) = acc allow k2 s2 (c :: r).
Proof.
  intros H. rewrite !acc_cons.
  destruct (step allow k1 s1 c) as [[k1' fs1]|]; destruct (step allow k2 s2 c) as [[k2' fs2]|];
    try destruct (apply_finds s1 fs1); try destruct (apply_finds s2 fs2);
    try discriminate H; try reflexivity.
  inversion H; subst. reflexivity.
Qed.

(* ================================================================== *)
(* 2. projection of the real machine to the types-only machine         *)
(* ================================================================== *)
Lemma process_found_proj i stk e :
  match process_found i stk e with
  | None => apply_found (map fst stk) e = None
  | Some (stk', x) => apply_found (map fst stk) e = Some (map fst stk') /\ e_type x = e
  end.
Proof.
  unfold process_found, apply_found.
  destruct e; cbn [is_opening]; try (split; reflexivity);
  (destruct stk as [|[p b] rest]; cbn [map fst]; [reflexivity|];
   destruct (nonscalar_pair p _); [split; reflexivity|];
   destruct (scalar_pair p _); [split; reflexivity|reflexivity]).
Qed.

Lemma process_finds_proj i fs : forall stk acc0,
  match process_finds i stk fs acc0 with
  | None => apply_finds (map fst stk) fs = None
  | Some (stk', evs) =>
    apply_finds (map fst stk) fs = Some (map fst stk') /\
    map e_type evs = map e_type (rev acc0) ++ fs
  end.
Proof.
  induction fs as [|e r IH]; intros stk acc0; cbn [process_finds apply_finds].
  - split; [reflexivity|]. rewrite frev_rev, app_nil_r. reflexivity.
  - pose proof (process_found_proj i stk e) as H.
    destruct (process_found i stk e) as [[stk' x]|].
    + destruct H as [H1 H2]. rewrite H1.
      specialize (IH stk' (x :: acc0)).
      destruct (process_finds i stk' r (x :: acc0)) as [[s'' evs]|]; [|exact IH].
      destruct IH as [IH1 IH2]. split; [exact IH1|].
      rewrite IH2. cbn [rev]. rewrite map_app, <- app_assoc. cbn [map app]. rewrite H2. reflexivity.
    + rewrite H. reflexivity.
Qed.

Definition has_endtop (l : list lexev) : bool := mem_endtop (map e_type l).

Lemma mem_endtop_app a b : mem_endtop (a ++ b) = (mem_endtop a || mem_endtop b)%bool.
Proof. apply existsb_app. Qed.

Lemma mem_endtop_rev a : mem_endtop (rev a) = mem_endtop a.
Proof.
  induction a as [|x a IH]; [reflexivity|].
  cbn [rev]. rewrite mem_endtop_app, IH. cbn. rewrite orb_false_r. apply orb_comm.
Qed.

Lemma has_endtop_app a b : has_endtop (a ++ b) = (has_endtop a || has_endtop b)%bool.
Proof. unfold has_endtop. rewrite map_app. apply mem_endtop_app. Qed.

Lemma has_endtop_rev a : has_endtop (rev a) = has_endtop a.
Proof. unfold has_endtop. rewrite map_rev. apply mem_endtop_rev. Qed.

Lemma upto_endtop_snd l : snd (upto_endtop l) = has_endtop l.
Proof.
  induction l as [|e r IH]; [reflexivity|].
  cbn [upto_endtop]. unfold has_endtop in *. cbn [map mem_endtop existsb].
  destruct (upto_endtop r) as [l b]. cbn [snd] in IH.
  destruct (e_type e); cbn [is_endtop orb snd]; try exact IH. reflexivity.
Qed.

Lemma upto_endtop_fst l : has_endtop l = false -> fst (upto_endtop l) = l.
Proof.
  induction l as [|e r IH]; [reflexivity|].
  cbn [upto_endtop]. unfold has_endtop in *. cbn [map mem_endtop existsb].
  destruct (upto_endtop r) as [l b]. cbn [fst] in IH.
  destruct (e_type e); cbn [is_endtop orb fst]; intros H; try (rewrite (IH H); reflexivity).
  discriminate H.
Qed.

Definition verdict_of (evs : list lexev) (o : outcome) : verdict :=
  if has_endtop evs then VOk
  else match o with
       | Done => match evs with [] => VErr code_empty_json 0%N | _ => VOk end
       | Err c p => VErr c p
       | Panic => VPanic
       end.

Lemma check_verdict allow bs :
  check allow bs = verdict_of (fst (scan allow bs)) (snd (scan allow bs)).
Proof.
  unfold check. destruct (scan allow bs) as [evs o]. cbn [fst snd].
  pose proof (upto_endtop_snd evs) as H1. pose proof (upto_endtop_fst evs) as H2.
  destruct (upto_endtop evs) as [pre stopped]. cbn [fst snd] in *. subst stopped.
  unfold verdict_of. destruct (has_endtop evs); [reflexivity|].
  rewrite (H2 eq_refl). reflexivity.
Qed.

Definition finish (r : list lexev * outcome * cfg * N) : verdict :=
  let '(evs, o, k, idx) := r in
  match o with
  | Done => let t := tail 3 k idx idx (frev evs) in verdict_of (fst t) (snd t)
  | _ => verdict_of evs o
  end.

Lemma check_finish allow bs : check allow bs = finish (run allow cfg0 0%N bs []).
Proof.
  rewrite check_verdict. unfold scan, finish.
  destruct (run allow cfg0 0%N bs []) as [[[evs o] k] idx].
  destruct o; reflexivity.
Qed.

(* the events only grow *)
Lemma run_mono allow bs : forall k idx acc0,
  exists more, fst (fst (fst (run allow k idx bs acc0))) = rev acc0 ++ more.
Proof.
  induction bs as [|c r IH]; intros k idx acc0; cbn [run].
  - exists []. cbn [fst]. rewrite frev_rev, app_nil_r. reflexivity.
  - destruct (step allow (k_ctl k) (map fst (k_stk k)) c) as [[ctl' fs]|].
    + destruct (process_finds idx (k_stk k) fs []) as [[stk' evs]|].
      * destruct (IH (mkcfg ctl' stk') (N.succ idx) (frev evs ++ acc0)) as [more Hm].
        exists (rev (frev evs) ++ more). rewrite Hm, rev_app_distr, <- app_assoc. reflexivity.
      * exists []. cbn [fst]. rewrite frev_rev, app_nil_r. reflexivity.
    + exists []. cbn [fst]. rewrite frev_rev, app_nil_r. reflexivity.
Qed.

Lemma tail_spec f : forall k i sz acc0,
  exists more, fst (tail f k i sz acc0) = rev acc0 ++ more /\
               has_endtop more = false /\ (k_stk k = [] -> more = []).
Proof.
  induction f as [|f IH]; intros k i sz acc0; cbn [tail].
  - exists []. cbn [fst]. rewrite frev_rev, app_nil_r. auto.
  - destruct k as [kc stk]. cbn [k_stk k_ctl].
    destruct stk as [|[p b] rest].
    + exists []. cbn [fst]. rewrite frev_rev, app_nil_r. auto.
    + destruct p; try (exists []; cbn [fst]; rewrite frev_rev, app_nil_r; split; [reflexivity|split; [reflexivity|discriminate]]).
      destruct (c_unf kc).
      * exists []; cbn [fst]; rewrite frev_rev, app_nil_r; split; [reflexivity|split; [reflexivity|discriminate]].
      * destruct (IH (mkcfg kc rest) (N.succ i) sz (mkev LiteralEnd b (i - 1)%N :: acc0)) as [more [H1 [H2 H3]]].
        exists (mkev LiteralEnd b (i - 1)%N :: more). split; [|split].
        -- rewrite H1. cbn [rev]. rewrite <- app_assoc. reflexivity.
        -- unfold has_endtop in *. cbn. exact H2.
        -- discriminate.
Qed.

Lemma tail_done f : forall k i sz acc0,
  snd (tail f k i sz acc0) = Done <-> ttail f (c_unf (k_ctl k)) (map fst (k_stk k)) = true.
Proof.
  induction f as [|f IH]; intros k i sz acc0; cbn [tail ttail].
  - cbn [snd]. split; discriminate.
  - destruct k as [kc stk]. cbn [k_stk k_ctl].
    destruct stk as [|[p b] rest]; cbn [map fst].
    + cbn [snd]. split; reflexivity.
    + destruct p; try (cbn [snd]; split; discriminate).
      destruct (c_unf kc) eqn:Eu.
      * cbn [snd]; split; discriminate.
      * rewrite IH. cbn [k_stk k_ctl]. rewrite Eu. reflexivity.
Qed.

Lemma finish_endtop allow bs k idx acc0 :
  has_endtop acc0 = true -> finish (run allow k idx bs acc0) = VOk.
Proof.
  intros H. destruct (run_mono allow bs k idx acc0) as [more Hm].
  destruct (run allow k idx bs acc0) as [[[evs o] k'] idx']. cbn [fst] in Hm.
  assert (He : has_endtop evs = true).
  { rewrite Hm, has_endtop_app, has_endtop_rev, H. reflexivity. }
  unfold finish. destruct o.
  - destruct (tail_spec 3 k' idx' idx' (frev evs)) as [m2 [H1 _]].
    cbn zeta. unfold verdict_of. rewrite H1, has_endtop_app, has_endtop_rev, frev_rev, has_endtop_rev, He.
    reflexivity.
  - unfold verdict_of. rewrite He. reflexivity.
  - unfold verdict_of. rewrite He. reflexivity.
Qed.

(* ---- the link: check = VOk iff the types-only machine accepts ---- *)
Ltac unfold_step_in H :=
  unfold step in H; cbn [c_st c_unf] in H;
  unfold state0, found_value, begin_value, end_value, after_object_key, after_object_value, after_array_item,
    found_object_end, found_array_end, end_top, begin_string, expect, prepend, ret in H.

Ltac brk H :=
  repeat match type of H with
  | context [if ?b then _ else _] => destruct b eqn:?
  | context [match ?x with _ => _ end] => destruct x eqn:?
  | None = Some _ => discriminate H
  end.

Lemma step_root allow k s c k' fs : step allow k s c = Some (k', fs) ->
  (is_root (c_st k') = true -> is_root (c_st k) = true /\ fs = []) /\
  (is_root (c_st k) = true -> is_root (c_st k') = false -> fs <> []).
Proof.
  destruct k as [q u]. intros H.
  destruct q; unfold_step_in H; brk H;
    inversion H; subst; cbn [c_st is_root]; (split; [intros X; try discriminate X; split; reflexivity | intros X Y; try discriminate X; try discriminate Y; try discriminate]).
Qed.

Definition J (k : cfg) (acc0 : list lexev) : Prop :=
  has_endtop acc0 = false /\
  (is_root (c_st (k_ctl k)) = true -> acc0 = [] /\ k_stk k = []) /\
  (is_root (c_st (k_ctl k)) = false -> acc0 <> []).

Lemma frev_invol {A} (l : list A) : frev (frev l) = l.
Proof. rewrite !frev_rev. apply rev_involutive. Qed.

Lemma finish_done k idx acc0 : J k acc0 ->
  (finish (frev acc0, Done, k, idx) = VOk <-> eof_ok (k_ctl k) (map fst (k_stk k)) = true).
Proof.
  intros [J1 [J2 J3]]. unfold finish. rewrite frev_invol. cbn zeta.
  destruct (tail_spec 3 k idx idx acc0) as [more [H1 [H2 H3]]].
  pose proof (tail_done 3 k idx idx acc0) as Hd.
  unfold verdict_of, eof_ok. rewrite H1, has_endtop_app, has_endtop_rev, J1, H2. cbn [orb].
  destruct (is_root (c_st (k_ctl k))) eqn:Er; cbn [negb andb].
  - destruct (J2 eq_refl) as [-> Hs]. rewrite (H3 Hs). cbn [rev app].
    destruct (snd (tail 3 k idx idx [])); split; discriminate.
  - specialize (J3 eq_refl).
    assert (Hne : rev acc0 ++ more <> []).
    { intros E. apply app_eq_nil in E. destruct E as [E _].
      apply (f_equal (@rev _)) in E. rewrite rev_involutive in E. exact (J3 E). }
    rewrite <- Hd.
    destruct (snd (tail 3 k idx idx acc0)); destruct (rev acc0 ++ more); try congruence;
      split; congruence.
Qed.

Lemma link allow bs : forall k idx acc0, J k acc0 ->
  (finish (run allow k idx bs acc0) = VOk <-> acc allow (k_ctl k) (map fst (k_stk k)) bs = true).
Proof.
  induction bs as [|c r IH]; intros k idx acc0 HJ.
  - cbn [run acc]. apply finish_done. exact HJ.
  - cbn [run acc].
    destruct (step allow (k_ctl k) (map fst (k_stk k)) c) as [[ctl' fs]|] eqn:Es.
    + pose proof (process_finds_proj idx fs (k_stk k) []) as Hp.
      destruct (process_finds idx (k_stk k) fs []) as [[stk' evs]|] eqn:Ep.
      * destruct Hp as [Hp1 Hp2]. cbn [rev map app] in Hp2. rewrite Hp1.
        destruct (mem_endtop fs) eqn:Em.
        -- split; [reflexivity|]. intros _. apply finish_endtop.
           rewrite has_endtop_app, frev_rev, has_endtop_rev. unfold has_endtop at 1. rewrite Hp2, Em. reflexivity.
        -- apply (IH (mkcfg ctl' stk') (N.succ idx) (frev evs ++ acc0)).
           destruct HJ as [J1 [J2 J3]]. destruct (step_root _ _ _ _ _ _ Es) as [R1 R2].
           cbn [k_ctl k_stk]. split; [|split].
           ++ rewrite has_endtop_app, frev_rev, has_endtop_rev. unfold has_endtop at 1. rewrite Hp2, Em. exact J1.
           ++ intros X. destruct (R1 X) as [Rk Rf]. destruct (J2 Rk) as [-> Hs].
              rewrite Rf in Ep, Hp2. apply map_eq_nil in Hp2. subst evs.
              cbn [process_finds] in Ep. inversion Ep; subst stk'. split; [reflexivity|exact Hs].
           ++ intros X E. apply app_eq_nil in E. destruct E as [E1 E2].
              destruct (is_root (c_st (k_ctl k))) eqn:Er.
              ** apply (R2 eq_refl X). rewrite <- Hp2.
                 rewrite frev_rev in E1. apply (f_equal (@rev _)) in E1. rewrite rev_involutive in E1.
                 rewrite E1. reflexivity.
              ** exact (J3 eq_refl E2).
      * rewrite Hp. unfold finish, verdict_of.
        destruct HJ as [J1 _]. rewrite frev_rev, has_endtop_rev, J1. split; discriminate.
    + unfold finish, verdict_of.
      destruct HJ as [J1 _]. rewrite frev_rev, has_endtop_rev, J1. split; discriminate.
Qed.

Lemma check_acc allow bs : check allow bs = VOk <-> acc allow (mkctl FoundRootValue false) [] bs = true.
Proof.
  rewrite check_finish. apply (link allow bs cfg0 0%N []).
  split; [reflexivity|]. split; [intros _; split; reflexivity|]. cbn. discriminate.
Qed.

(* ================================================================== *)
(* 3. tokens                                                           *)
(* ================================================================== *)
Definition AE (allow : bool) (L : list ev) (r : bytes) : bool := acc allow (mkctl EndValue false) L r.
Definition cont (o : option bytes) (f : bytes -> bool) : bool :=
  match o with Some r => f r | None => false end.

(* one move of the machine, state known *)
Ltac astep := rewrite acc_cons; unfold step; cbn [c_st c_unf].
Ltac fin := unfold ret; cbn [apply_finds mem_endtop existsb app].
Ltac same := apply acc_same_step; unfold step; cbn [c_st c_unf].

(* ---- numbers ---- *)
Definition lex_exp_digits (r1 : bytes) : option bytes :=
  match r1 with d :: r' => if is_digit d then Some (skip_digits r') else None | [] => None end.
Definition lex_exp_sign (r : bytes) : bytes :=
  match r with s :: r' => if (ch s 43 || ch s 45)%bool then r' else r | [] => [] end.
Definition lex_exp (bs1 : bytes) : option bytes :=
  match bs1 with
  | c :: r => if (ch c 101 || ch c 69)%bool then lex_exp_digits (lex_exp_sign r) else Some bs1
  | [] => Some []
  end.
Definition lex_frac (bs : bytes) : option bytes :=
  match bs with
  | c :: r => if ch c 46 then lex_exp_digits r else Some bs
  | [] => Some []
  end.
Lemma lex_frac_exp_eq bs :
  lex_frac_exp bs = match lex_frac bs with None => None | Some bs1 => lex_exp bs1 end.
Proof. reflexivity. Qed.

Lemma num_E0 allow L r : acc allow (mkctl E0 false) L r = AE allow L (skip_digits r).
Proof.
  induction r as [|c t IH]; [reflexivity|].
  cbn [skip_digits]. destruct (is_digit c) eqn:E.
  - astep. rewrite E. fin. exact IH.
  - unfold AE. same. rewrite E. reflexivity.
Qed.

Lemma num_esign allow rest r :
  acc allow (mkctl ESign true) (LiteralBegin :: rest) r = cont (lex_exp_digits r) (AE allow (LiteralBegin :: rest)).
Proof.
  destruct r as [|c t]; [reflexivity|].
  astep. cbn [lex_exp_digits]. destruct (is_digit c); [|reflexivity]. fin. apply num_E0.
Qed.

Lemma num_se allow rest r :
  acc allow (mkctl SE true) (LiteralBegin :: rest) r =
  cont (lex_exp_digits (lex_exp_sign r)) (AE allow (LiteralBegin :: rest)).
Proof.
  destruct r as [|c t]; [reflexivity|].
  astep. cbn [lex_exp_sign]. destruct (ch c 43 || ch c 45)%bool.
  - fin. apply num_esign.
  - cbn [lex_exp_digits]. destruct (is_digit c); [|reflexivity]. fin. apply num_E0.
Qed.

Lemma num_dot0 allow rest r :
  acc allow (mkctl Dot0 false) (LiteralBegin :: rest) r =
  cont (lex_exp (skip_digits r)) (AE allow (LiteralBegin :: rest)).
Proof.
  induction r as [|c t IH]; [reflexivity|].
  cbn [skip_digits]. destruct (is_digit c) eqn:E.
  - astep. rewrite E. fin. exact IH.
  - cbn [lex_exp]. destruct (ch c 101 || ch c 69)%bool eqn:Ee.
    + astep. rewrite E, Ee. fin. apply num_se.
    + cbn [cont]. unfold AE. same. rewrite E, Ee. reflexivity.
Qed.

Lemma num_s0 allow rest r :
  acc allow (mkctl S0 false) (LiteralBegin :: rest) r =
  cont (lex_frac_exp r) (AE allow (LiteralBegin :: rest)).
Proof.
  rewrite lex_frac_exp_eq.
  destruct r as [|c t]; [reflexivity|].
  cbn [lex_frac]. destruct (ch c 46) eqn:Ed.
  - astep. unfold state0. rewrite Ed. fin.
    destruct t as [|d t']; [reflexivity|].
    astep. cbn [lex_exp_digits]. destruct (is_digit d); [|reflexivity]. fin. apply num_dot0.
  - cbn [lex_exp]. destruct (ch c 101 || ch c 69)%bool eqn:Ee.
    + astep. unfold state0. rewrite Ed, Ee. fin. apply num_se.
    + cbn [cont]. unfold AE. same. unfold state0. rewrite Ed, Ee. reflexivity.
Qed.

Lemma num_s1 allow rest r :
  acc allow (mkctl S1 false) (LiteralBegin :: rest) r =
  cont (lex_frac_exp (skip_digits r)) (AE allow (LiteralBegin :: rest)).
Proof.
  induction r as [|c t IH]; [reflexivity|].
  cbn [skip_digits]. destruct (is_digit c) eqn:E.
  - astep. rewrite E. fin. exact IH.
  - rewrite <- num_s0. same. rewrite E. reflexivity.
Qed.

Lemma num_neg allow rest r :
  acc allow (mkctl Neg true) (LiteralBegin :: rest) r =
  cont (lex_int r) (AE allow (LiteralBegin :: rest)).
Proof.
  destruct r as [|c t]; [reflexivity|].
  astep. cbn [lex_int]. destruct (ch c 48).
  - fin. apply num_s0.
  - destruct (is_digit19 c); [|reflexivity]. fin. apply num_s1.
Qed.

(* ---- strings ---- *)
Definition noeof (u : bool) (L : list ev) : Prop := ttail 3 u L = false.

Lemma eof_noeof q u L : noeof u L -> eof_ok (mkctl q u) L = false.
Proof. unfold noeof, eof_ok. cbn [c_st c_unf]. intros ->. apply andb_false_r. Qed.

Lemma noeof_lit rest : noeof true (LiteralBegin :: rest).
Proof. reflexivity. Qed.

Lemma str_hex allow q q' u L r : noeof u L ->
  (forall c, step allow (mkctl q u) L c = if is_hex c then ret q' u [] else None) ->
  acc allow (mkctl q u) L r =
  match r with h :: t => if is_hex h then acc allow (mkctl q' u) L t else false | [] => false end.
Proof.
  intros Hn Hs. destruct r as [|h t]; [apply eof_noeof; exact Hn|].
  rewrite acc_cons, Hs. destruct (is_hex h); [|reflexivity]. fin. reflexivity.
Qed.

Lemma str_body allow u L : noeof u L -> forall n r, length r <= n ->
  acc allow (mkctl InString u) L r = cont (lex_string_body r) (AE allow L).
Proof.
  intros Hn. induction n as [|n IH]; intros r Hl.
  - destruct r; [|cbn [length] in Hl; lia]. apply eof_noeof; exact Hn.
  - destruct r as [|c t]; [apply eof_noeof; exact Hn|].
    cbn [length] in Hl. astep. cbn [lex_string_body].
    destruct (ch c 34); [fin; reflexivity|].
    destruct (ch c 92).
    + fin. destruct t as [|e t']; [apply eof_noeof; exact Hn|].
      cbn [length] in Hl. astep.
      destruct (ch e 98 || ch e 102 || ch e 110 || ch e 114 || ch e 116 || ch e 92 || ch e 47 || ch e 34)%bool.
      * fin. apply IH. lia.
      * destruct (ch e 117); [|reflexivity]. fin.
        rewrite (str_hex allow InStringEscU InStringEscU1 u L t' Hn) by reflexivity.
        destruct t' as [|h1 t1]; [reflexivity|]. destruct (is_hex h1); [|destruct t1 as [|? [|? [|? ?]]]; reflexivity].
        rewrite (str_hex allow InStringEscU1 InStringEscU12 u L t1 Hn) by reflexivity.
        destruct t1 as [|h2 t2]; [reflexivity|]. destruct (is_hex h2); [|destruct t2 as [|? [|? ?]]; reflexivity].
        rewrite (str_hex allow InStringEscU12 InStringEscU123 u L t2 Hn) by reflexivity.
        destruct t2 as [|h3 t3]; [reflexivity|]. destruct (is_hex h3); [|destruct t3 as [|? ?]; reflexivity].
        rewrite (str_hex allow InStringEscU123 InString u L t3 Hn) by reflexivity.
        destruct t3 as [|h4 t4]; [reflexivity|]. destruct (is_hex h4); [|reflexivity].
        cbn [andb]. apply IH. cbn [length] in Hl. lia.
    + destruct (is_ctl c); [reflexivity|]. fin. apply IH. lia.
Qed.

Lemma str_ok allow u L r : noeof u L ->
  acc allow (mkctl InString u) L r = cont (lex_string_body r) (AE allow L).
Proof. intros Hn. apply (str_body allow u L Hn (length r)). lia. Qed.

(* ---- true / false / null ---- *)
Lemma word_step allow q q' n a rest r w :
  Byte.to_N a = n ->
  (forall c, step allow (mkctl q true) (LiteralBegin :: rest) c = expect c n q' true) ->
  (forall t, acc allow (mkctl q' true) (LiteralBegin :: rest) t = cont (strip_prefix w t) (AE allow (LiteralBegin :: rest))) ->
  is_root q = false ->
  acc allow (mkctl q true) (LiteralBegin :: rest) r = cont (strip_prefix (a :: w) r) (AE allow (LiteralBegin :: rest)).
Proof.
  intros Ha Hs Hn Hq. destruct r as [|c t].
  - unfold acc, eof_ok. cbn [c_st c_unf]. rewrite Hq. reflexivity.
  - rewrite acc_cons, Hs. cbn [strip_prefix]. rewrite byte_eqb_ch, Ha. unfold expect.
    destruct (ch c n); [|reflexivity]. fin. apply Hn.
Qed.

Lemma word_last allow q n a rest r :
  Byte.to_N a = n ->
  (forall c, step allow (mkctl q true) (LiteralBegin :: rest) c = if ch c n then ret EndValue false [] else None) ->
  is_root q = false ->
  acc allow (mkctl q true) (LiteralBegin :: rest) r = cont (strip_prefix [a] r) (AE allow (LiteralBegin :: rest)).
Proof.
  intros Ha Hs Hq. destruct r as [|c t].
  - unfold acc, eof_ok. cbn [c_st c_unf]. rewrite Hq. reflexivity.
  - rewrite acc_cons, Hs. cbn [strip_prefix]. rewrite byte_eqb_ch, Ha.
    destruct (ch c n); [|reflexivity]. fin. reflexivity.
Qed.

Lemma word_true allow rest r :
  acc allow (mkctl ST true) (LiteralBegin :: rest) r =
  cont (strip_prefix [x72; x75; x65] r) (AE allow (LiteralBegin :: rest)).
Proof.
  apply (word_step allow ST STr 114%N); try reflexivity. intros t.
  apply (word_step allow STr STru 117%N); try reflexivity. intros t'.
  apply (word_last allow STru 101%N); reflexivity.
Qed.

Lemma word_false allow rest r :
  acc allow (mkctl SF true) (LiteralBegin :: rest) r =
  cont (strip_prefix [x61; x6c; x73; x65] r) (AE allow (LiteralBegin :: rest)).
Proof.
  apply (word_step allow SF SFa 97%N); try reflexivity. intros t.
  apply (word_step allow SFa SFal 108%N); try reflexivity. intros t'.
  apply (word_step allow SFal SFals 115%N); try reflexivity. intros t''.
  apply (word_last allow SFals 101%N); reflexivity.
Qed.

Lemma word_null allow rest r :
  acc allow (mkctl SN true) (LiteralBegin :: rest) r =
  cont (strip_prefix [x75; x6c; x6c] r) (AE allow (LiteralBegin :: rest)).
Proof.
  apply (word_step allow SN SNu 117%N); try reflexivity. intros t.
  apply (word_step allow SNu SNul 108%N); try reflexivity. intros t'.
  apply (word_last allow SNul 108%N); reflexivity.
Qed.

(* ================================================================== *)
(* 4. structure: blanks, separators, containers                        *)
(* ================================================================== *)
Definition selfloop (q : st) : bool :=
  match q with
  | FoundRootValue | FoundObjectKeyBeginOrEmpty | FoundObjectKeyBegin | FoundObjectValueBegin
  | FoundArrayItemBeginOrEmpty | FoundArrayItemBegin
  | AfterObjectKey | AfterObjectValue | AfterArrayItem | SEndTop => true
  | _ => false
  end.

Lemma blank_self allow q u s c : selfloop q = true -> is_blank c = true ->
  step allow (mkctl q u) s c = Some (mkctl q u, []).
Proof.
  intros Hq Hb.
  destruct q; try discriminate Hq; unfold step; cbn [c_st c_unf];
    unfold found_value, begin_value, after_object_key, after_object_value, after_array_item, end_top;
    rewrite ?Hb; try reflexivity.
  assert (ch c 93 = false) as -> by bsolve. reflexivity.
Qed.

Lemma skip_self allow q u s bs : selfloop q = true ->
  acc allow (mkctl q u) s bs = acc allow (mkctl q u) s (skip_blank bs).
Proof.
  intros Hq. induction bs as [|c r IH]; [reflexivity|].
  cbn [skip_blank]. destruct (is_blank c) eqn:E; [|reflexivity].
  rewrite acc_cons, (blank_self allow q u s c Hq E). cbn [apply_finds mem_endtop existsb]. exact IH.
Qed.

(* ---- found_value by byte class ---- *)
Ltac fvsolve :=
  unfold found_value, begin_value;
  repeat match goal with
  | |- context [if ?b then _ else _] =>
    let E := fresh "E" in destruct b eqn:E; [try reflexivity; exfalso; bsolve|]
  end; try reflexivity.

Lemma fv_arr pre self u c : ch c 91 = true ->
  found_value pre self u c = ret FoundArrayItemBeginOrEmpty u (pre ++ [ArrayBegin]).
Proof. intros H. fvsolve. exfalso; bsolve. Qed.
Lemma fv_obj pre self u c : ch c 123 = true ->
  found_value pre self u c = ret FoundObjectKeyBeginOrEmpty u (pre ++ [ObjectBegin]).
Proof. intros H. fvsolve. exfalso; bsolve. Qed.
Lemma fv_str pre self u c : ch c 34 = true ->
  found_value pre self u c = ret InString true (pre ++ [LiteralBegin]).
Proof. intros H. fvsolve. exfalso; bsolve. Qed.
Lemma fv_t pre self u c : ch c 116 = true ->
  found_value pre self u c = ret ST true (pre ++ [LiteralBegin]).
Proof. intros H. fvsolve. exfalso; bsolve. Qed.
Lemma fv_f pre self u c : ch c 102 = true ->
  found_value pre self u c = ret SF true (pre ++ [LiteralBegin]).
Proof. intros H. fvsolve. exfalso; bsolve. Qed.
Lemma fv_n pre self u c : ch c 110 = true ->
  found_value pre self u c = ret SN true (pre ++ [LiteralBegin]).
Proof. intros H. fvsolve. exfalso; bsolve. Qed.
Lemma fv_neg pre self u c : ch c 45 = true ->
  found_value pre self u c = ret Neg true (pre ++ [LiteralBegin]).
Proof. intros H. fvsolve. exfalso; bsolve. Qed.
Lemma fv_zero pre self u c : ch c 48 = true ->
  found_value pre self u c = ret S0 u (pre ++ [LiteralBegin]).
Proof. intros H. fvsolve. exfalso; bsolve. Qed.
Lemma fv_d19 pre self u c : is_digit19 c = true ->
  found_value pre self u c = ret S1 u (pre ++ [LiteralBegin]).
Proof. intros H. fvsolve. exfalso; bsolve. Qed.
Lemma fv_none pre self u c :
  is_blank c = false -> ch c 91 = false -> ch c 123 = false -> ch c 34 = false ->
  ch c 116 = false -> ch c 102 = false -> ch c 110 = false -> ch c 45 = false ->
  ch c 48 = false -> is_digit19 c = false ->
  found_value pre self u c = None.
Proof.
  intros H1 H2 H3 H4 H5 H6 H7 H8 H9 H10. unfold found_value, begin_value.
  rewrite H1, H2, H3, H4, H5, H6, H7, H8, H9, H10. reflexivity.
Qed.

(* ---- value positions ---- *)
Definition vstart (q : st) (pre s : list ev) : Prop :=
  (q = FoundRootValue /\ pre = [] /\ s = []) \/
  (q = FoundArrayItemBegin /\ pre = [ArrayItemBegin] /\ exists t, s = ArrayBegin :: t) \/
  (q = FoundObjectValueBegin /\ pre = [ObjectValueBegin] /\ exists t, s = ObjectBegin :: t).

Lemma vstart_self q pre s : vstart q pre s -> selfloop q = true.
Proof. intros [[-> _]|[[-> _]|[-> _]]]; reflexivity. Qed.

Lemma vstart_eof q pre s : vstart q pre s -> eof_ok (mkctl q false) s = false.
Proof. intros [[-> [_ ->]]|[[-> [_ [t ->]]]|[-> [_ [t ->]]]]]; reflexivity. Qed.

Lemma vstart_step allow q pre s c : vstart q pre s ->
  step allow (mkctl q false) s c = found_value pre q false c.
Proof. intros [[-> [-> _]]|[[-> [-> _]]|[-> [-> _]]]]; reflexivity. Qed.

Definition opener (x : ev) : Prop := x = ArrayBegin \/ x = ObjectBegin \/ x = LiteralBegin.

Lemma vstart_open q pre s x : vstart q pre s -> opener x ->
  apply_finds s (pre ++ [x]) = Some (x :: pre ++ s) /\ mem_endtop (pre ++ [x]) = false.
Proof.
  intros [[_ [-> _]]|[[_ [-> _]]|[_ [-> _]]]] [-> | [-> | ->]]; split; reflexivity.
Qed.

Lemma acc_open allow q pre s c r q' u' x : vstart q pre s -> opener x ->
  found_value pre q false c = ret q' u' (pre ++ [x]) ->
  acc allow (mkctl q false) s (c :: r) = acc allow (mkctl q' u') (x :: pre ++ s) r.
Proof.
  intros Hv Hx Hf. rewrite acc_cons, (vstart_step allow q pre s c Hv), Hf. unfold ret.
  destruct (vstart_open q pre s x Hv Hx) as [-> ->]. reflexivity.
Qed.

(* a closed literal behaves like a closed container *)
Lemma close_lit allow q pre s r : vstart q pre s ->
  AE allow (LiteralBegin :: pre ++ s) r = AE allow (pre ++ s) r.
Proof.
  intros Hv. unfold AE. destruct r as [|c r].
  - destruct Hv as [[_ [-> ->]]|[[_ [-> [t ->]]]|[_ [-> [t ->]]]]]; reflexivity.
  - same. unfold end_value.
    destruct Hv as [[_ [-> ->]]|[[_ [-> [t ->]]]|[_ [-> [t ->]]]]]; cbn [app].
    + unfold end_top, prepend, ret. destruct (is_blank c); [reflexivity|]. destruct allow; reflexivity.
    + unfold after_array_item, found_array_end, prepend, ret.
      destruct (is_blank c); [reflexivity|]. destruct (ch c 44); [reflexivity|].
      destruct (ch c 93); reflexivity.
    + unfold after_object_value, found_object_end, prepend, ret.
      destruct (is_blank c); [reflexivity|]. destruct (ch c 44); [reflexivity|].
      destruct (ch c 125); reflexivity.
Qed.

(* ---- after an array item ---- *)
Definition k_after_item (allow : bool) (t : list ev) (r : bytes) : bool :=
  match skip_blank r with
  | d :: r' => if ch d 44 then acc allow (mkctl FoundArrayItemBegin false) (ArrayBegin :: t) r'
               else if ch d 93 then AE allow t r' else false
  | [] => false
  end.

Lemma after_item_state allow t r :
  acc allow (mkctl AfterArrayItem false) (ArrayBegin :: t) r = k_after_item allow t r.
Proof.
  rewrite skip_self by reflexivity. unfold k_after_item.
  destruct (skip_blank r) as [|d r'] eqn:Es; [reflexivity|].
  pose proof (skip_blank_head _ _ _ Es) as Hb.
  astep. unfold after_array_item, found_array_end. rewrite Hb.
  destruct (ch d 44); [reflexivity|]. destruct (ch d 93); reflexivity.
Qed.

Lemma after_item allow t r :
  AE allow (ArrayItemBegin :: ArrayBegin :: t) r = k_after_item allow t r.
Proof.
  unfold AE. destruct r as [|c r]; [reflexivity|].
  destruct (is_blank c) eqn:Hb.
  - astep. unfold end_value, after_array_item. rewrite Hb. unfold prepend, ret.
    cbn [apply_finds apply_found is_opening nonscalar_pair scalar_pair mem_endtop existsb is_endtop app orb].
    rewrite after_item_state. unfold k_after_item. cbn [skip_blank]. rewrite Hb. reflexivity.
  - unfold k_after_item. rewrite (skip_blank_nb c r Hb).
    astep. unfold end_value, after_array_item, found_array_end. rewrite Hb.
    destruct (ch c 44); [reflexivity|]. destruct (ch c 93); reflexivity.
Qed.

(* ---- after an object key / member ---- *)
Definition k_after_key (allow : bool) (t : list ev) (r : bytes) : bool :=
  match skip_blank r with
  | d :: r' => if ch d 58 then acc allow (mkctl FoundObjectValueBegin false) (ObjectBegin :: t) r' else false
  | [] => false
  end.

Lemma after_key_state allow t r :
  acc allow (mkctl AfterObjectKey false) (ObjectBegin :: t) r = k_after_key allow t r.
Proof.
  rewrite skip_self by reflexivity. unfold k_after_key.
  destruct (skip_blank r) as [|d r'] eqn:Es; [reflexivity|].
  pose proof (skip_blank_head _ _ _ Es) as Hb.
  astep. unfold after_object_key. rewrite Hb.
  destruct (ch d 58); reflexivity.
Qed.

Lemma after_key allow t r :
  AE allow (ObjectKeyBegin :: ObjectBegin :: t) r = k_after_key allow t r.
Proof.
  unfold AE. destruct r as [|c r]; [reflexivity|].
  destruct (is_blank c) eqn:Hb.
  - astep. unfold end_value, after_object_key. rewrite Hb. unfold prepend, ret.
    cbn [apply_finds apply_found is_opening nonscalar_pair scalar_pair mem_endtop existsb is_endtop app orb].
    rewrite after_key_state. unfold k_after_key. cbn [skip_blank]. rewrite Hb. reflexivity.
  - unfold k_after_key. rewrite (skip_blank_nb c r Hb).
    astep. unfold end_value, after_object_key. rewrite Hb.
    destruct (ch c 58); reflexivity.
Qed.

Definition k_after_member (allow : bool) (t : list ev) (r : bytes) : bool :=
  match skip_blank r with
  | d :: r' => if ch d 44 then acc allow (mkctl FoundObjectKeyBegin false) (ObjectBegin :: t) r'
               else if ch d 125 then AE allow t r' else false
  | [] => false
  end.

Lemma after_member_state allow t r :
  acc allow (mkctl AfterObjectValue false) (ObjectBegin :: t) r = k_after_member allow t r.
Proof.
  rewrite skip_self by reflexivity. unfold k_after_member.
  destruct (skip_blank r) as [|d r'] eqn:Es; [reflexivity|].
  pose proof (skip_blank_head _ _ _ Es) as Hb.
  astep. unfold after_object_value, found_object_end. rewrite Hb.
  destruct (ch d 44); [reflexivity|]. destruct (ch d 125); reflexivity.
Qed.

Lemma after_member allow t r :
  AE allow (ObjectValueBegin :: ObjectBegin :: t) r = k_after_member allow t r.
Proof.
  unfold AE. destruct r as [|c r]; [reflexivity|].
  destruct (is_blank c) eqn:Hb.
  - astep. unfold end_value, after_object_value. rewrite Hb. unfold prepend, ret.
    cbn [apply_finds apply_found is_opening nonscalar_pair scalar_pair mem_endtop existsb is_endtop app orb].
    rewrite after_member_state. unfold k_after_member. cbn [skip_blank]. rewrite Hb. reflexivity.
  - unfold k_after_member. rewrite (skip_blank_nb c r Hb).
    astep. unfold end_value, after_object_value, found_object_end. rewrite Hb.
    destruct (ch c 44); [reflexivity|]. destruct (ch c 125); reflexivity.
Qed.

(* ---- after '[' and '{' ---- *)
Lemma arr_open allow t r :
  acc allow (mkctl FoundArrayItemBeginOrEmpty false) (ArrayBegin :: t) r =
  match skip_blank r with
  | d :: r' => if ch d 93 then AE allow t r'
               else acc allow (mkctl FoundArrayItemBegin false) (ArrayBegin :: t) r
  | [] => false
  end.
Proof.
  rewrite skip_self by reflexivity.
  rewrite (skip_self allow FoundArrayItemBegin false (ArrayBegin :: t) r) by reflexivity.
  destruct (skip_blank r) as [|d r'] eqn:Es; [reflexivity|].
  pose proof (skip_blank_head _ _ _ Es) as Hb.
  destruct (ch d 93) eqn:E93.
  - astep. rewrite E93. reflexivity.
  - same. rewrite E93. unfold found_value, begin_value. rewrite Hb. reflexivity.
Qed.

Lemma obj_open allow t r :
  acc allow (mkctl FoundObjectKeyBeginOrEmpty false) (ObjectBegin :: t) r =
  match skip_blank r with
  | d :: r' => if ch d 125 then AE allow t r'
               else acc allow (mkctl FoundObjectKeyBegin false) (ObjectBegin :: t) r
  | [] => false
  end.
Proof.
  rewrite skip_self by reflexivity.
  rewrite (skip_self allow FoundObjectKeyBegin false (ObjectBegin :: t) r) by reflexivity.
  destruct (skip_blank r) as [|d r'] eqn:Es; [reflexivity|].
  pose proof (skip_blank_head _ _ _ Es) as Hb.
  destruct (ch d 125) eqn:E.
  - astep. rewrite Hb, E. reflexivity.
  - same. rewrite Hb, E. reflexivity.
Qed.

Lemma key_start allow t bs :
  acc allow (mkctl FoundObjectKeyBegin false) (ObjectBegin :: t) bs =
  match skip_blank bs with
  | q :: r => if ch q 34 then cont (lex_string_body r) (k_after_key allow t) else false
  | [] => false
  end.
Proof.
  rewrite skip_self by reflexivity.
  destruct (skip_blank bs) as [|q r] eqn:Es; [reflexivity|].
  pose proof (skip_blank_head _ _ _ Es) as Hb.
  astep. rewrite Hb. unfold begin_string. destruct (ch q 34); [|reflexivity].
  fin. cbn [apply_found is_opening]. rewrite str_ok by reflexivity.
  destruct (lex_string_body r); [|reflexivity]. cbn [cont]. apply after_key.
Qed.

(* ---- the simulation ---- *)
Definition sim_res (x : res) (lhs : bool) (k : bytes -> bool) : Prop :=
  match x with ROk r => lhs = k r | RFail => lhs = false | RFuel => True end.

Lemma sim_lit allow q pre s o : vstart q pre s ->
  sim_res (match o with Some r' => ROk r' | None => RFail end)
          (cont o (AE allow (LiteralBegin :: pre ++ s))) (AE allow (pre ++ s)).
Proof. intros Hv. destruct o; cbn [sim_res cont]; [apply (close_lit allow q); exact Hv|reflexivity]. Qed.

Section Sim.
Variable allow : bool.

Definition Pv (f : nat) : Prop := forall bs q pre s, vstart q pre s ->
  sim_res (rd_value f (skip_blank bs)) (acc allow (mkctl q false) s bs) (AE allow (pre ++ s)).
Definition Pi (f : nat) : Prop := forall bs t,
  sim_res (rd_items f (skip_blank bs))
          (acc allow (mkctl FoundArrayItemBegin false) (ArrayBegin :: t) bs) (AE allow t).
Definition Pm (f : nat) : Prop := forall bs t,
  sim_res (rd_members f (skip_blank bs))
          (acc allow (mkctl FoundObjectKeyBegin false) (ObjectBegin :: t) bs) (AE allow t).

Lemma sim_value f : Pi f -> Pm f -> Pv (S f).
Proof.
  intros IHi IHm bs q pre s Hv.
  rewrite (skip_self allow q false s bs (vstart_self q pre s Hv)).
  destruct (skip_blank bs) as [|c r] eqn:Es.
  - cbn [rd_value sim_res]. rewrite acc_nil. apply (vstart_eof q pre s Hv).
  - pose proof (skip_blank_head _ _ _ Es) as Hb. cbn [rd_value].
    destruct (ch c 91) eqn:E91.
    { rewrite (acc_open allow q pre s c r _ _ ArrayBegin Hv (or_introl eq_refl) (fv_arr _ _ _ _ E91)).
      rewrite arr_open.
      destruct (skip_blank r) as [|d r'] eqn:Er; [reflexivity|].
      destruct (ch d 93); [reflexivity|]. rewrite <- Er. apply IHi. }
    destruct (ch c 123) eqn:E123.
    { rewrite (acc_open allow q pre s c r _ _ ObjectBegin Hv (or_intror (or_introl eq_refl)) (fv_obj _ _ _ _ E123)).
      rewrite obj_open.
      destruct (skip_blank r) as [|d r'] eqn:Er; [reflexivity|].
      destruct (ch d 125); [reflexivity|]. rewrite <- Er. apply IHm. }
    assert (Hl : opener LiteralBegin) by (right; right; reflexivity).
    destruct (ch c 34) eqn:E34.
    { rewrite (acc_open allow q pre s c r _ _ LiteralBegin Hv Hl (fv_str _ _ _ _ E34)).
      rewrite str_ok by apply noeof_lit. apply (sim_lit allow q); exact Hv. }
    destruct (ch c 116) eqn:E116.
    { unfold w_true. cbn [strip_prefix]. rewrite byte_eqb_ch.
      change (Byte.to_N x74) with 116%N. rewrite E116.
      rewrite (acc_open allow q pre s c r _ _ LiteralBegin Hv Hl (fv_t _ _ _ _ E116)).
      rewrite word_true. apply (sim_lit allow q); exact Hv. }
    destruct (ch c 102) eqn:E102.
    { unfold w_false. cbn [strip_prefix]. rewrite byte_eqb_ch.
      change (Byte.to_N x66) with 102%N. rewrite E102.
      rewrite (acc_open allow q pre s c r _ _ LiteralBegin Hv Hl (fv_f _ _ _ _ E102)).
      rewrite word_false. apply (sim_lit allow q); exact Hv. }
    destruct (ch c 110) eqn:E110.
    { unfold w_null. cbn [strip_prefix]. rewrite byte_eqb_ch.
      change (Byte.to_N x6e) with 110%N. rewrite E110.
      rewrite (acc_open allow q pre s c r _ _ LiteralBegin Hv Hl (fv_n _ _ _ _ E110)).
      rewrite word_null. apply (sim_lit allow q); exact Hv. }
    cbn [lex_number].
    destruct (ch c 45) eqn:E45.
    { rewrite (acc_open allow q pre s c r _ _ LiteralBegin Hv Hl (fv_neg _ _ _ _ E45)).
      rewrite num_neg. apply (sim_lit allow q); exact Hv. }
    cbn [lex_int].
    destruct (ch c 48) eqn:E48.
    { rewrite (acc_open allow q pre s c r _ _ LiteralBegin Hv Hl (fv_zero _ _ _ _ E48)).
      rewrite num_s0. apply (sim_lit allow q); exact Hv. }
    destruct (is_digit19 c) eqn:E19.
    { rewrite (acc_open allow q pre s c r _ _ LiteralBegin Hv Hl (fv_d19 _ _ _ _ E19)).
      rewrite num_s1. apply (sim_lit allow q); exact Hv. }
    rewrite acc_cons, (vstart_step allow q pre s c Hv), fv_none by assumption. reflexivity.
Qed.

Lemma sim_items f : Pv f -> Pi f -> Pi (S f).
Proof.
  intros IHv IHi bs t. cbn [rd_items].
  assert (Hv : vstart FoundArrayItemBegin [ArrayItemBegin] (ArrayBegin :: t)).
  { right; left. split; [reflexivity|]. split; [reflexivity|]. exists t; reflexivity. }
  pose proof (IHv bs _ _ _ Hv) as H.
  destruct (rd_value f (skip_blank bs)) as [r1| |]; cbn [sim_res] in H |- *; [|exact H|exact I].
  cbn [app] in H. rewrite H, after_item. unfold k_after_item.
  destruct (skip_blank r1) as [|d r2]; [reflexivity|].
  destruct (ch d 44); [apply IHi|]. destruct (ch d 93); reflexivity.
Qed.

Lemma sim_members f : Pv f -> Pm f -> Pm (S f).
Proof.
  intros IHv IHm bs t. rewrite key_start. cbn [rd_members].
  destruct (skip_blank bs) as [|q r]; [reflexivity|].
  destruct (ch q 34); [|reflexivity].
  destruct (lex_string_body r) as [r1|]; [|reflexivity].
  cbn [cont]. unfold k_after_key.
  destruct (skip_blank r1) as [|col r2]; [reflexivity|].
  destruct (ch col 58); [|reflexivity].
  assert (Hv : vstart FoundObjectValueBegin [ObjectValueBegin] (ObjectBegin :: t)).
  { right; right. split; [reflexivity|]. split; [reflexivity|]. exists t; reflexivity. }
  pose proof (IHv r2 _ _ _ Hv) as H.
  destruct (rd_value f (skip_blank r2)) as [r3| |]; cbn [sim_res] in H |- *; [|exact H|exact I].
  cbn [app] in H. rewrite H, after_member. unfold k_after_member.
  destruct (skip_blank r3) as [|d r4]; [reflexivity|].
  destruct (ch d 44); [apply IHm|]. destruct (ch d 125); reflexivity.
Qed.

Lemma sim_all : forall f, Pv f /\ Pi f /\ Pm f.
Proof.
  induction f as [|f [IHv [IHi IHm]]].
  - split; [|split]; intros ?; intros; exact I.
  - split; [apply sim_value; assumption|].
    split; [apply sim_items; assumption|apply sim_members; assumption].
Qed.

Lemma sim_root f bs :
  sim_res (rd_value f (skip_blank bs)) (acc allow (mkctl FoundRootValue false) [] bs) (AE allow []).
Proof.
  apply (proj1 (sim_all f) bs FoundRootValue [] []). left. auto.
Qed.
End Sim.

(* ================================================================== *)
(* 5. the top level, and fuel                                          *)
(* ================================================================== *)
Lemma top_strict_end r : acc false (mkctl SEndTop false) [] r = all_blank r.
Proof.
  induction r as [|c r IH]; [reflexivity|].
  astep. unfold end_top, all_blank. cbn [forallb].
  destruct (is_blank c); [fin; exact IH|reflexivity].
Qed.

Lemma top_strict r : AE false [] r = all_blank r.
Proof.
  unfold AE. destruct r as [|c r]; [reflexivity|].
  astep. unfold end_value, end_top, all_blank. cbn [forallb].
  destruct (is_blank c); [fin; apply top_strict_end|reflexivity].
Qed.

Lemma top_allow_end r : acc true (mkctl SEndTop false) [] r = true.
Proof.
  induction r as [|c r IH]; [reflexivity|].
  astep. unfold end_top. destruct (is_blank c); [fin; exact IH|reflexivity].
Qed.

Lemma top_allow r : AE true [] r = true.
Proof.
  unfold AE. destruct r as [|c r]; [reflexivity|].
  astep. unfold end_value, end_top.
  destruct (is_blank c); [fin; apply top_allow_end|reflexivity].
Qed.

(* ---- tokens consume at least one byte ---- *)
Lemma lex_exp_digits_len r r' : lex_exp_digits r = Some r' -> length r' < length r.
Proof.
  destruct r as [|d t]; cbn [lex_exp_digits]; [discriminate|].
  destruct (is_digit d); [|discriminate]. intros H; inversion H; subst.
  pose proof (skip_digits_len t). cbn [length]. lia.
Qed.

Lemma lex_exp_sign_len r : length (lex_exp_sign r) <= length r.
Proof.
  destruct r as [|s t]; cbn [lex_exp_sign]; [lia|].
  destruct (ch s 43 || ch s 45)%bool; cbn [length]; lia.
Qed.

Lemma lex_exp_len bs r' : lex_exp bs = Some r' -> length r' <= length bs.
Proof.
  destruct bs as [|c t]; cbn [lex_exp].
  - intros H; inversion H; subst. lia.
  - destruct (ch c 101 || ch c 69)%bool.
    + intros H. apply lex_exp_digits_len in H. pose proof (lex_exp_sign_len t). cbn [length]. lia.
    + intros H; inversion H; subst. lia.
Qed.

Lemma lex_frac_len bs r' : lex_frac bs = Some r' -> length r' <= length bs.
Proof.
  destruct bs as [|c t]; cbn [lex_frac].
  - intros H; inversion H; subst. lia.
  - destruct (ch c 46).
    + intros H. apply lex_exp_digits_len in H. cbn [length]. lia.
    + intros H; inversion H; subst. lia.
Qed.

Lemma lex_frac_exp_len bs r' : lex_frac_exp bs = Some r' -> length r' <= length bs.
Proof.
  rewrite lex_frac_exp_eq. destruct (lex_frac bs) as [b1|] eqn:E; [|discriminate].
  intros H. apply lex_exp_len in H. apply lex_frac_len in E. lia.
Qed.

Lemma lex_int_len bs r' : lex_int bs = Some r' -> length r' < length bs.
Proof.
  destruct bs as [|c t]; cbn [lex_int]; [discriminate|].
  destruct (ch c 48).
  - intros H. apply lex_frac_exp_len in H. cbn [length]. lia.
  - destruct (is_digit19 c); [|discriminate].
    intros H. apply lex_frac_exp_len in H. pose proof (skip_digits_len t). cbn [length]. lia.
Qed.

Lemma lex_number_len bs r' : lex_number bs = Some r' -> length r' < length bs.
Proof.
  destruct bs as [|c t]; cbn [lex_number]; [discriminate|].
  destruct (ch c 45).
  - intros H. apply lex_int_len in H. cbn [length]. lia.
  - apply lex_int_len.
Qed.

Lemma lex_string_body_len : forall n r r', length r <= n ->
  lex_string_body r = Some r' -> length r' < length r.
Proof.
  induction n as [|n IH]; intros r r' Hl.
  - destruct r; [discriminate|cbn [length] in Hl; lia].
  - destruct r as [|c t]; [discriminate|]. cbn [length] in Hl. cbn [lex_string_body].
    destruct (ch c 34).
    + intros H; inversion H; subst. cbn [length]. lia.
    + destruct (ch c 92).
      * destruct t as [|e t']; [discriminate|]. cbn [length] in Hl.
        destruct (ch e 98 || ch e 102 || ch e 110 || ch e 114 || ch e 116 || ch e 92 || ch e 47 || ch e 34)%bool.
        -- intros H. apply IH in H; [|lia]. cbn [length]. lia.
        -- destruct (ch e 117); [|discriminate].
           destruct t' as [|h1 [|h2 [|h3 [|h4 t4]]]]; try discriminate.
           destruct (is_hex h1 && is_hex h2 && is_hex h3 && is_hex h4)%bool; [|discriminate].
           cbn [length] in Hl. intros H. apply IH in H; [|lia]. cbn [length]. lia.
      * destruct (is_ctl c); [discriminate|].
        intros H. apply IH in H; [|lia]. cbn [length]. lia.
Qed.

Lemma lex_string_len r r' : lex_string_body r = Some r' -> length r' < length r.
Proof. apply (lex_string_body_len (length r)). lia. Qed.

Lemma strip_prefix_len w : forall r r', strip_prefix w r = Some r' -> length r' + length w = length r.
Proof.
  induction w as [|a w IH]; intros r r'; cbn [strip_prefix].
  - intros H; inversion H; subst. cbn [length]. lia.
  - destruct r as [|b t]; [discriminate|]. destruct (byte_eqb a b); [|discriminate].
    intros H. apply IH in H. cbn [length]. lia.
Qed.

(* ---- a successful parse consumes bytes and needs no more fuel than it consumed ---- *)
Definition Lres (x : res) (n : nat) (again : nat -> res) : Prop :=
  forall r, x = ROk r -> length r < n /\ forall f', n - length r <= f' -> again f' = ROk r.
Definition Lv (f : nat) : Prop := forall bs, Lres (rd_value f bs) (length bs) (fun f' => rd_value f' bs).
Definition Li (f : nat) : Prop := forall bs, Lres (rd_items f bs) (length bs) (fun f' => rd_items f' bs).
Definition Lm (f : nat) : Prop := forall bs, Lres (rd_members f bs) (length bs) (fun f' => rd_members f' bs).

Lemma low_value f : Li f -> Lm f -> Lv (S f).
Proof.
  intros IHi IHm bs r H.
  destruct bs as [|c t]; cbn [rd_value] in H; [discriminate|].
  destruct (ch c 91) eqn:E91.
  { destruct (skip_blank t) as [|d r'] eqn:Es; [discriminate|].
    pose proof (skip_blank_len t) as Hl. rewrite Es in Hl. cbn [length] in Hl.
    destruct (ch d 93) eqn:E93.
    - inversion H; subst r'. split; [cbn [length]; lia|].
      intros [|f2] Hf; [cbn [length] in Hf; lia|]. cbn [rd_value]. rewrite E91, Es, E93. reflexivity.
    - rewrite <- Es in H. destruct (IHi (skip_blank t) r H) as [H1 H2]. rewrite Es in H1. cbn [length] in H1.
      split; [cbn [length] in *; lia|].
      intros [|f2] Hf; [cbn [length] in Hf; lia|]. cbn [rd_value]. rewrite E91, Es, E93, <- Es.
      apply H2. rewrite Es. cbn [length] in *. lia. }
  destruct (ch c 123) eqn:E123.
  { destruct (skip_blank t) as [|d r'] eqn:Es; [discriminate|].
    pose proof (skip_blank_len t) as Hl. rewrite Es in Hl. cbn [length] in Hl.
    destruct (ch d 125) eqn:E125.
    - inversion H; subst r'. split; [cbn [length]; lia|].
      intros [|f2] Hf; [cbn [length] in Hf; lia|]. cbn [rd_value]. rewrite E91, E123, Es, E125. reflexivity.
    - rewrite <- Es in H. destruct (IHm (skip_blank t) r H) as [H1 H2]. rewrite Es in H1. cbn [length] in H1.
      split; [cbn [length] in *; lia|].
      intros [|f2] Hf; [cbn [length] in Hf; lia|]. cbn [rd_value]. rewrite E91, E123, Es, E125, <- Es.
      apply H2. rewrite Es. cbn [length] in *. lia. }
  assert (Hlit : length r < length (c :: t) ->
                 length r < length (c :: t) /\
                 forall f', length (c :: t) - length r <= f' -> rd_value f' (c :: t) = ROk r).
  { intros Hlen. split; [exact Hlen|].
    intros [|f2] Hf; [lia|]. cbn [rd_value]. rewrite E91, E123. exact H. }
  apply Hlit. clear Hlit.
  destruct (ch c 34).
  { destruct (lex_string_body t) as [r1|] eqn:El; [|discriminate]. inversion H; subst r1.
    apply lex_string_len in El. cbn [length]. lia. }
  destruct (ch c 116).
  { destruct (strip_prefix w_true (c :: t)) as [r1|] eqn:El; [|discriminate]. inversion H; subst r1.
    apply strip_prefix_len in El. cbn [length w_true] in *. lia. }
  destruct (ch c 102).
  { destruct (strip_prefix w_false (c :: t)) as [r1|] eqn:El; [|discriminate]. inversion H; subst r1.
    apply strip_prefix_len in El. cbn [length w_false] in *. lia. }
  destruct (ch c 110).
  { destruct (strip_prefix w_null (c :: t)) as [r1|] eqn:El; [|discriminate]. inversion H; subst r1.
    apply strip_prefix_len in El. cbn [length w_null] in *. lia. }
  destruct (lex_number (c :: t)) as [r1|] eqn:El; [|discriminate]. inversion H; subst r1.
  apply lex_number_len in El. exact El.
Qed.

Lemma low_items f : Lv f -> Li f -> Li (S f).
Proof.
  intros IHv IHi bs r H. cbn [rd_items] in H.
  destruct (rd_value f bs) as [r1| |] eqn:Ev; try discriminate.
  destruct (IHv bs r1 Ev) as [V1 V2].
  destruct (skip_blank r1) as [|d r2] eqn:Es; [discriminate|].
  pose proof (skip_blank_len r1) as Hl. rewrite Es in Hl. cbn [length] in Hl.
  destruct (ch d 44) eqn:E44.
  - destruct (IHi (skip_blank r2) r H) as [I1 I2]. pose proof (skip_blank_len r2) as Hl2.
    split; [lia|].
    intros [|f2] Hf; [lia|]. cbn [rd_items]. rewrite (V2 f2) by lia. rewrite Es, E44. apply I2. lia.
  - destruct (ch d 93) eqn:E93; [|discriminate]. inversion H; subst r2.
    split; [lia|].
    intros [|f2] Hf; [lia|]. cbn [rd_items]. rewrite (V2 f2) by lia. rewrite Es, E44, E93. reflexivity.
Qed.

Lemma low_members f : Lv f -> Lm f -> Lm (S f).
Proof.
  intros IHv IHm bs r H. cbn [rd_members] in H.
  destruct bs as [|q t]; [discriminate|].
  destruct (ch q 34) eqn:Eq; [|discriminate].
  destruct (lex_string_body t) as [r1|] eqn:El; [|discriminate].
  pose proof (lex_string_len _ _ El) as Hl1.
  destruct (skip_blank r1) as [|col r2] eqn:Es1; [discriminate|].
  pose proof (skip_blank_len r1) as Hl2. rewrite Es1 in Hl2. cbn [length] in Hl2.
  destruct (ch col 58) eqn:Ec; [|discriminate].
  destruct (rd_value f (skip_blank r2)) as [r3| |] eqn:Ev; try discriminate.
  destruct (IHv (skip_blank r2) r3 Ev) as [V1 V2]. pose proof (skip_blank_len r2) as Hl3.
  destruct (skip_blank r3) as [|d r4] eqn:Es3; [discriminate|].
  pose proof (skip_blank_len r3) as Hl4. rewrite Es3 in Hl4. cbn [length] in Hl4.
  destruct (ch d 44) eqn:E44.
  - destruct (IHm (skip_blank r4) r H) as [I1 I2]. pose proof (skip_blank_len r4) as Hl5.
    split; [cbn [length]; lia|].
    intros [|f2] Hf; [cbn [length] in Hf; lia|]. cbn [rd_members]. rewrite Eq, El, Es1, Ec.
    rewrite (V2 f2) by (cbn [length] in Hf; lia). rewrite Es3, E44. apply I2. cbn [length] in Hf. lia.
  - destruct (ch d 125) eqn:E125; [|discriminate]. inversion H; subst r4.
    split; [cbn [length]; lia|].
    intros [|f2] Hf; [cbn [length] in Hf; lia|]. cbn [rd_members]. rewrite Eq, El, Es1, Ec.
    rewrite (V2 f2) by (cbn [length] in Hf; lia). rewrite Es3, E44, E125. reflexivity.
Qed.

Lemma low_all : forall f, Lv f /\ Li f /\ Lm f.
Proof.
  induction f as [|f [IHv [IHi IHm]]].
  - split; [|split]; intros bs r H; discriminate H.
  - split; [apply low_value; assumption|].
    split; [apply low_items; assumption|apply low_members; assumption].
Qed.

(* strongest true variants of "the fuel of rfc8259 is enough" *)
Theorem rd_value_len f bs r : rd_value f bs = ROk r -> length r < length bs.
Proof. intros H. exact (proj1 (proj1 (low_all f) bs r H)). Qed.

Theorem rd_fuel_ok f bs r : rd_value f bs = ROk r ->
  forall f', length bs - length r <= f' -> rd_value f' bs = ROk r.
Proof. intros H. exact (proj2 (proj1 (low_all f) bs r H)). Qed.

(* whenever some fuel accepts, the fuel rfc8259 uses accepts as well *)
Theorem rd_fuel_enough_ok : forall bs f f' r, rd_value f' bs = ROk r -> length bs < f ->
  rd_value f bs = ROk r.
Proof. intros bs f f' r H Hl. apply (rd_fuel_ok f' bs r H). lia. Qed.

Theorem rd_fuel_enough_accepting : forall bs f, length bs < f ->
  (exists f' r, rd_value f' bs = ROk r) -> rd_value f bs <> RFuel.
Proof.
  intros bs f Hl [f' [r H]]. rewrite (rd_fuel_enough_ok bs f f' r H Hl). discriminate.
Qed.

(* twice the length is always enough *)
Definition Av (f : nat) : Prop := forall bs, 2 * length bs < f -> rd_value f bs <> RFuel.
Definition Ai (f : nat) : Prop := forall bs, 2 * length bs + 1 < f -> rd_items f bs <> RFuel.
Definition Am (f : nat) : Prop := forall bs, 2 * length bs + 1 < f -> rd_members f bs <> RFuel.

Lemma big_value f : Ai f -> Am f -> Av (S f).
Proof.
  intros IHi IHm bs Hf. destruct bs as [|c t]; cbn [rd_value]; [discriminate|].
  cbn [length] in Hf.
  destruct (ch c 91).
  { destruct (skip_blank t) as [|d r'] eqn:Es; [discriminate|].
    destruct (ch d 93); [discriminate|]. rewrite <- Es. apply IHi. pose proof (skip_blank_len t). lia. }
  destruct (ch c 123).
  { destruct (skip_blank t) as [|d r'] eqn:Es; [discriminate|].
    destruct (ch d 125); [discriminate|]. rewrite <- Es. apply IHm. pose proof (skip_blank_len t). lia. }
  destruct (ch c 34); [destruct (lex_string_body t); discriminate|].
  destruct (ch c 116); [destruct (strip_prefix w_true (c :: t)); discriminate|].
  destruct (ch c 102); [destruct (strip_prefix w_false (c :: t)); discriminate|].
  destruct (ch c 110); [destruct (strip_prefix w_null (c :: t)); discriminate|].
  destruct (lex_number (c :: t)); discriminate.
Qed.

Lemma big_items f : Av f -> Ai f -> Ai (S f).
Proof.
  intros IHv IHi bs Hf. cbn [rd_items].
  destruct (rd_value f bs) as [r1| |] eqn:Ev.
  - apply rd_value_len in Ev.
    destruct (skip_blank r1) as [|d r2] eqn:Es; [discriminate|].
    pose proof (skip_blank_len r1) as Hl. rewrite Es in Hl. cbn [length] in Hl.
    pose proof (skip_blank_len r2) as Hl2.
    destruct (ch d 44); [apply IHi; lia|]. destruct (ch d 93); discriminate.
  - discriminate.
  - exfalso. apply (IHv bs); [lia|exact Ev].
Qed.

Lemma big_members f : Av f -> Am f -> Am (S f).
Proof.
  intros IHv IHm bs Hf. cbn [rd_members].
  destruct bs as [|q t]; [discriminate|]. cbn [length] in Hf.
  destruct (ch q 34); [|discriminate].
  destruct (lex_string_body t) as [r1|] eqn:El; [|discriminate].
  apply lex_string_len in El.
  destruct (skip_blank r1) as [|col r2] eqn:Es1; [discriminate|].
  pose proof (skip_blank_len r1) as Hl2. rewrite Es1 in Hl2. cbn [length] in Hl2.
  destruct (ch col 58); [|discriminate].
  pose proof (skip_blank_len r2) as Hl3.
  destruct (rd_value f (skip_blank r2)) as [r3| |] eqn:Ev.
  - apply rd_value_len in Ev.
    destruct (skip_blank r3) as [|d r4] eqn:Es3; [discriminate|].
    pose proof (skip_blank_len r3) as Hl4. rewrite Es3 in Hl4. cbn [length] in Hl4.
    pose proof (skip_blank_len r4) as Hl5.
    destruct (ch d 44); [apply IHm; lia|]. destruct (ch d 125); discriminate.
  - discriminate.
  - exfalso. apply (IHv (skip_blank r2)); [lia|exact Ev].
Qed.

Lemma big_all : forall f, Av f /\ Ai f /\ Am f.
Proof.
  induction f as [|f [IHv [IHi IHm]]].
  - split; [|split]; intros bs H; lia.
  - split; [apply big_value; assumption|].
    split; [apply big_items; assumption|apply big_members; assumption].
Qed.

Theorem rd_fuel_enough_double : forall bs f, 2 * length bs < f -> rd_value f bs <> RFuel.
Proof. intros bs f. apply (proj1 (big_all f)). Qed.

(* the statement "length bs < f -> rd_value f bs <> RFuel" is false *)
Example rd_fuel_enough_counterexample :
  let bs := [x5b; x5b; x5b; x5b] in length bs < 5 /\ rd_value 5 bs = RFuel.
Proof. vm_compute. split; [lia|reflexivity]. Qed.

(* ================================================================== *)
(* 6. the two equivalences                                             *)
(* ================================================================== *)
Lemma accept_iff allow bs (top : bytes -> bool) :
  (forall r, AE allow [] r = top r) ->
  (acc allow (mkctl FoundRootValue false) [] bs = true <->
   match rd_value (S (length bs)) (skip_blank bs) with ROk r => top r | _ => false end = true).
Proof.
  intros Htop.
  pose proof (sim_root allow (S (length bs)) bs) as H.
  destruct (rd_value (S (length bs)) (skip_blank bs)) as [r| |] eqn:E; cbn [sim_res] in H.
  - rewrite H, Htop. reflexivity.
  - rewrite H. reflexivity.
  - split; [|discriminate]. intros Ha. exfalso.
    pose proof (skip_blank_len bs) as Hl.
    pose proof (sim_root allow (S (2 * length (skip_blank bs))) bs) as H2.
    destruct (rd_value (S (2 * length (skip_blank bs))) (skip_blank bs)) as [r| |] eqn:E2; cbn [sim_res] in H2.
    + rewrite (rd_fuel_ok _ _ _ E2 (S (length bs))) in E by lia. discriminate.
    + congruence.
    + apply (rd_fuel_enough_double (skip_blank bs) (S (2 * length (skip_blank bs)))); [lia|exact E2].
Qed.

Theorem check_strict_iff : forall bs, check false bs = VOk <-> rfc8259 bs = true.
Proof. intros bs. rewrite check_acc. unfold rfc8259. apply accept_iff. apply top_strict. Qed.

Theorem check_trailing_iff : forall bs, check true bs = VOk <-> rfc8259_prefix bs = true.
Proof.
  intros bs. rewrite check_acc. unfold rfc8259_prefix.
  rewrite (accept_iff true bs (fun _ => true) top_allow). reflexivity.
Qed.

(* ================================================================== *)
(* 7. the reachable stacks: no Panic                                   *)
(* ================================================================== *)
(* a stack on which a value may start / has just been closed *)
Definition frame (a b : ev) : bool :=
  match a, b with
  | ArrayItemBegin, ArrayBegin | ObjectValueBegin, ObjectBegin => true
  | _, _ => false
  end.
Fixpoint vstk (s : list ev) : bool :=
  match s with
  | [] => true
  | a :: s1 => match s1 with b :: t => (frame a b && vstk t)%bool | [] => false end
  end.
Lemma vstk_cons a s1 :
  vstk (a :: s1) = match s1 with b :: t => (frame a b && vstk t)%bool | [] => false end.
Proof. reflexivity. Qed.

Definition in_obj (s : list ev) : bool := match s with ObjectBegin :: t => vstk t | _ => false end.
Definition in_arr (s : list ev) : bool := match s with ArrayBegin :: t => vstk t | _ => false end.
Definition in_lit (s : list ev) : bool := match s with LiteralBegin :: t => vstk t | _ => false end.
Definition in_key (s : list ev) : bool :=
  match s with ObjectKeyBegin :: ObjectBegin :: t => vstk t | _ => false end.

Definition inv (q : st) (s : list ev) : bool :=
  match q with
  | FoundRootValue | SEndTop => match s with [] => true | _ => false end
  | FoundObjectKeyBeginOrEmpty | FoundObjectKeyBegin | FoundObjectValueBegin
  | AfterObjectKey | AfterObjectValue => in_obj s
  | FoundArrayItemBeginOrEmpty | FoundArrayItemBegin | AfterArrayItem => in_arr s
  | EndValue => (vstk s || in_lit s || in_key s)%bool
  | InString | InStringEsc | InStringEscU | InStringEscU1 | InStringEscU12 | InStringEscU123 =>
    (in_lit s || in_key s)%bool
  | _ => in_lit s
  end.

Ltac brk_inv H :=
  repeat (first [ rewrite vstk_cons in H
                | match type of H with
                  | context [match ?x with _ => _ end] => destruct x
                  end ];
          unfold frame in H; cbn [inv in_obj in_arr in_lit in_key orb andb] in H; try discriminate H).

Lemma inv_step allow q u s c k' fs :
  inv q s = true -> step allow (mkctl q u) s c = Some (k', fs) ->
  exists s', apply_finds s fs = Some s' /\ inv (c_st k') s' = true.
Proof.
  intros Hi H.
  destruct q; cbn [inv] in Hi; unfold in_obj, in_arr, in_lit, in_key in Hi.
  all: brk_inv Hi.
  all: unfold_step_in H; cbn [app] in H; brk H; brk_inv Hi; inversion H; subst;
       (eexists; split; [reflexivity|]); cbn [c_st inv in_obj in_arr in_lit in_key vstk frame orb andb];
       rewrite ?orb_false_r in Hi; rewrite ?Hi; rewrite ?orb_true_r; try reflexivity.


Qed.

Definition invc (k : cfg) : Prop := inv (c_st (k_ctl k)) (map fst (k_stk k)) = true.

Definition r_out (r : list lexev * outcome * cfg * N) : outcome := snd (fst (fst r)).
Definition r_cfg (r : list lexev * outcome * cfg * N) : cfg := snd (fst r).
Definition r_idx (r : list lexev * outcome * cfg * N) : N := snd r.

Lemma run_inv allow bs : forall k idx acc0, invc k ->
  r_out (run allow k idx bs acc0) <> Panic /\
  (r_out (run allow k idx bs acc0) = Done -> invc (r_cfg (run allow k idx bs acc0))).
Proof.
  induction bs as [|c r IH]; intros k idx acc0 Hk; cbn [run].
  - split; [discriminate|]. intros _. exact Hk.
  - destruct (step allow (k_ctl k) (map fst (k_stk k)) c) as [[ctl' fs]|] eqn:Es.
    + destruct (k_ctl k) as [q u] eqn:Ek. unfold invc in Hk. rewrite Ek in Hk. cbn [c_st] in Hk.
      destruct (inv_step allow q u _ c ctl' fs Hk Es) as [s' [Ha Hi]].
      pose proof (process_finds_proj idx fs (k_stk k) []) as Hp.
      destruct (process_finds idx (k_stk k) fs []) as [[stk' evs]|].
      * destruct Hp as [Hp1 _]. rewrite Ha in Hp1. inversion Hp1; subst s'.
        apply IH. unfold invc. cbn [k_ctl k_stk]. exact Hi.
      * rewrite Ha in Hp. discriminate Hp.
    + split; discriminate.
Qed.

Lemma inv_two_lits q s : inv q (LiteralBegin :: LiteralBegin :: s) = false.
Proof. destruct q; destruct s; reflexivity. Qed.

Lemma tail_no_panic k i sz acc0 : invc k -> snd (tail 3 k i sz acc0) <> Panic.
Proof.
  unfold invc. destruct k as [[q u] stk]. cbn [k_ctl k_stk c_st]. intros Hk.
  cbn [tail k_stk k_ctl c_unf].
  destruct stk as [|[p b] rest]; [discriminate|].
  destruct p; try discriminate.
  destruct u; [discriminate|].
  destruct rest as [|[p2 b2] rest2]; [discriminate|].
  destruct p2; try discriminate.
  cbn [map fst] in Hk. rewrite inv_two_lits in Hk. discriminate Hk.
Qed.

Theorem scan_no_panic : forall allow bs, snd (scan allow bs) <> Panic.
Proof.
  intros allow bs. unfold scan.
  pose proof (run_inv allow bs cfg0 0%N [] eq_refl) as [H1 H2].
  destruct (run allow cfg0 0%N bs []) as [[[evs o] k] idx]. unfold r_out, r_cfg in *. cbn [fst snd] in *.
  destruct o.
  - apply tail_no_panic. apply H2. reflexivity.
  - discriminate.
  - exact H1.
Qed.

Theorem check_no_panic : forall allow bs, check allow bs <> VPanic.
Proof.
  intros allow bs. rewrite check_verdict. pose proof (scan_no_panic allow bs) as H.
  unfold verdict_of. destruct (has_endtop (fst (scan allow bs))); [discriminate|].
  destruct (snd (scan allow bs)); [destruct (fst (scan allow bs)); discriminate|discriminate|congruence].
Qed.

(* ================================================================== *)
(* 8. error positions                                                  *)
(* ================================================================== *)
Lemma run_pos allow bs : forall k idx acc0,
  (forall c p, r_out (run allow k idx bs acc0) = Err c p -> (idx <= p < idx + N.of_nat (length bs))%N) /\
  (r_out (run allow k idx bs acc0) = Done -> r_idx (run allow k idx bs acc0) = (idx + N.of_nat (length bs))%N).
Proof.
  induction bs as [|c r IH]; intros k idx acc0; cbn [run].
  - unfold r_out, r_idx; cbn [fst snd length]. split; [discriminate|]. intros _. lia.
  - destruct (step allow (k_ctl k) (map fst (k_stk k)) c) as [[ctl' fs]|].
    + destruct (process_finds idx (k_stk k) fs []) as [[stk' evs]|].
      * destruct (IH (mkcfg ctl' stk') (N.succ idx) (frev evs ++ acc0)) as [I1 I2].
        split.
        -- intros c0 p H. specialize (I1 c0 p H). cbn [length]. lia.
        -- intros H. rewrite (I2 H). cbn [length]. lia.
      * unfold r_out, r_idx; cbn [fst snd]. split; discriminate.
    + unfold r_out, r_idx; cbn [fst snd length]. split; [|discriminate].
      intros c0 p H. inversion H; subst. lia.
Qed.

Lemma tail_pos f : forall k i sz acc0 c p, snd (tail f k i sz acc0) = Err c p -> p = (sz - 1)%N.
Proof.
  induction f as [|f IH]; intros k i sz acc0 c p; cbn [tail]; [discriminate|].
  destruct (k_stk k) as [|[e b] rest]; [discriminate|].
  destruct e; try (intros H; inversion H; reflexivity).
  destruct (c_unf (k_ctl k)); [intros H; inversion H; reflexivity|]. apply IH.
Qed.

Lemma scan_err_pos allow bs c p : bs <> [] -> snd (scan allow bs) = Err c p -> N.to_nat p < length bs.
Proof.
  intros Hne. unfold scan.
  pose proof (run_pos allow bs cfg0 0%N []) as [H1 H2].
  destruct (run allow cfg0 0%N bs []) as [[[evs o] k] idx]. unfold r_out, r_idx in *. cbn [fst snd] in *.
  assert (Hl : 0 < length bs) by (destruct bs; [congruence|cbn [length]; lia]).
  destruct o.
  - intros H. apply tail_pos in H. rewrite (H2 eq_refl) in H. lia.
  - intros H. inversion H; subst. specialize (H1 c p eq_refl). lia.
  - discriminate.
Qed.

Theorem check_error_position : forall allow bs c p, check allow bs = VErr c p ->
  (N.to_nat p < length bs) \/ (p = 0%N /\ c = code_empty_json /\ all_blank bs = true).
Proof.
  intros allow bs c p H. destruct bs as [|b t].
  - right. destruct allow; vm_compute in H; inversion H; subst; repeat split; reflexivity.
  - left. rewrite check_verdict in H. unfold verdict_of in H.
    destruct (has_endtop (fst (scan allow (b :: t)))); [discriminate|].
    destruct (snd (scan allow (b :: t))) as [|c' p'|] eqn:Eo.
    + destruct (fst (scan allow (b :: t))); [|discriminate]. inversion H; subst. cbn [length]. lia.
    + inversion H; subst. apply (scan_err_pos allow (b :: t) c p); [discriminate|exact Eo].
    + discriminate.
Qed.
