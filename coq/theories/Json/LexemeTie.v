(* LexemeTie.v — the lexical event types of the three scanner models are the library's: every
   constructor carries the numeric code its name has in internal/lexeme/lex_event_type.go, and
   is_opening is LexEventType.IsOpening.  Gen/LexemeTables.v is regenerated from the source by
   tools/tabx on every run, so renumbering or re-classifying an event type in the library breaks
   these lemmas.  (The harness prints events by their numeric code; this file is what makes the
   comparison of printed codes a comparison of event TYPES.) *)
From Coq Require Import List String Bool NArith Arith.
Import ListNotations.
From JS Require Import Gen.LexemeTables.
From JS Require Json.Scanner Enum.EnumScanner SchemaScan.SchemaScanner.
Open Scope string_scope.

Fixpoint code_of (n : string) (t : list (string * nat)) : option nat :=
  match t with
  | [] => None
  | (m, c) :: r => if String.eqb m n then Some c else code_of n r
  end.
Definition opens (n : string) : bool := existsb (String.eqb n) opening_events.

Definition scanner_name (e : Scanner.ev) : string :=
  match e with
  | Scanner.LiteralBegin => "LiteralBegin"
  | Scanner.LiteralEnd => "LiteralEnd"
  | Scanner.ObjectBegin => "ObjectBegin"
  | Scanner.ObjectEnd => "ObjectEnd"
  | Scanner.ObjectKeyBegin => "ObjectKeyBegin"
  | Scanner.ObjectKeyEnd => "ObjectKeyEnd"
  | Scanner.ObjectValueBegin => "ObjectValueBegin"
  | Scanner.ObjectValueEnd => "ObjectValueEnd"
  | Scanner.ArrayBegin => "ArrayBegin"
  | Scanner.ArrayEnd => "ArrayEnd"
  | Scanner.ArrayItemBegin => "ArrayItemBegin"
  | Scanner.ArrayItemEnd => "ArrayItemEnd"
  | Scanner.EndTop => "EndTop"
  end.

Definition enumscanner_name (e : EnumScanner.ev) : string :=
  match e with
  | EnumScanner.LiteralBegin => "LiteralBegin"
  | EnumScanner.LiteralEnd => "LiteralEnd"
  | EnumScanner.ArrayBegin => "ArrayBegin"
  | EnumScanner.ArrayEnd => "ArrayEnd"
  | EnumScanner.ArrayItemBegin => "ArrayItemBegin"
  | EnumScanner.ArrayItemEnd => "ArrayItemEnd"
  | EnumScanner.InlineAnnotationBegin => "InlineAnnotationBegin"
  | EnumScanner.InlineAnnotationEnd => "InlineAnnotationEnd"
  | EnumScanner.InlineAnnotationTextBegin => "InlineAnnotationTextBegin"
  | EnumScanner.InlineAnnotationTextEnd => "InlineAnnotationTextEnd"
  | EnumScanner.MultiLineAnnotationBegin => "MultiLineAnnotationBegin"
  | EnumScanner.MultiLineAnnotationEnd => "MultiLineAnnotationEnd"
  | EnumScanner.MultiLineAnnotationTextBegin => "MultiLineAnnotationTextBegin"
  | EnumScanner.MultiLineAnnotationTextEnd => "MultiLineAnnotationTextEnd"
  | EnumScanner.NewLine => "NewLine"
  | EnumScanner.EndTop => "EndTop"
  end.

Definition schemascanner_name (e : SchemaScanner.ev) : string :=
  match e with
  | SchemaScanner.LiteralBegin => "LiteralBegin"
  | SchemaScanner.LiteralEnd => "LiteralEnd"
  | SchemaScanner.ObjectBegin => "ObjectBegin"
  | SchemaScanner.ObjectEnd => "ObjectEnd"
  | SchemaScanner.ObjectKeyBegin => "ObjectKeyBegin"
  | SchemaScanner.ObjectKeyEnd => "ObjectKeyEnd"
  | SchemaScanner.ObjectValueBegin => "ObjectValueBegin"
  | SchemaScanner.ObjectValueEnd => "ObjectValueEnd"
  | SchemaScanner.ArrayBegin => "ArrayBegin"
  | SchemaScanner.ArrayEnd => "ArrayEnd"
  | SchemaScanner.ArrayItemBegin => "ArrayItemBegin"
  | SchemaScanner.ArrayItemEnd => "ArrayItemEnd"
  | SchemaScanner.InlineAnnotationBegin => "InlineAnnotationBegin"
  | SchemaScanner.InlineAnnotationEnd => "InlineAnnotationEnd"
  | SchemaScanner.InlineAnnotationTextBegin => "InlineAnnotationTextBegin"
  | SchemaScanner.InlineAnnotationTextEnd => "InlineAnnotationTextEnd"
  | SchemaScanner.MultiLineAnnotationBegin => "MultiLineAnnotationBegin"
  | SchemaScanner.MultiLineAnnotationEnd => "MultiLineAnnotationEnd"
  | SchemaScanner.MultiLineAnnotationTextBegin => "MultiLineAnnotationTextBegin"
  | SchemaScanner.MultiLineAnnotationTextEnd => "MultiLineAnnotationTextEnd"
  | SchemaScanner.NewLine => "NewLine"
  | SchemaScanner.TypesShortcutBegin => "TypesShortcutBegin"
  | SchemaScanner.TypesShortcutEnd => "TypesShortcutEnd"
  | SchemaScanner.KeyShortcutBegin => "KeyShortcutBegin"
  | SchemaScanner.KeyShortcutEnd => "KeyShortcutEnd"
  | SchemaScanner.MixedValueBegin => "MixedValueBegin"
  | SchemaScanner.MixedValueEnd => "MixedValueEnd"
  | SchemaScanner.EndTop => "EndTop"
  end.

Theorem json_event_codes : forall e, code_of (scanner_name e) event_codes = Some (Scanner.ev_code e).
Proof. destruct e; vm_compute; reflexivity. Qed.
Theorem json_is_opening : forall e, Scanner.is_opening e = opens (scanner_name e).
Proof. destruct e; vm_compute; reflexivity. Qed.
Theorem enum_event_codes : forall e, code_of (enumscanner_name e) event_codes = Some (EnumScanner.ev_code e).
Proof. destruct e; vm_compute; reflexivity. Qed.
Theorem enum_is_opening : forall e, EnumScanner.is_opening e = opens (enumscanner_name e).
Proof. destruct e; vm_compute; reflexivity. Qed.
Theorem schema_event_codes : forall e, code_of (schemascanner_name e) event_codes = Some (N.to_nat (SchemaScanner.ev_code e)).
Proof. destruct e; vm_compute; reflexivity. Qed.
Theorem schema_is_opening : forall e, SchemaScanner.is_opening e = opens (schemascanner_name e).
Proof. destruct e; vm_compute; reflexivity. Qed.
(* the schema scanner model knows every event type of the library *)
Theorem schema_events_complete : forall n c, In (n, c) event_codes -> exists e, schemascanner_name e = n.
Proof.
  intros n c H. vm_compute in H.
  repeat (destruct H as [H|H]; [inversion H; subst; clear H; match goal with |- exists e, _ = ?s => idtac end|]); try contradiction.
  all: first [ now exists SchemaScanner.LiteralBegin | now exists SchemaScanner.LiteralEnd | now exists SchemaScanner.ObjectBegin | now exists SchemaScanner.ObjectEnd
             | now exists SchemaScanner.ObjectKeyBegin | now exists SchemaScanner.ObjectKeyEnd | now exists SchemaScanner.ObjectValueBegin | now exists SchemaScanner.ObjectValueEnd
             | now exists SchemaScanner.ArrayBegin | now exists SchemaScanner.ArrayEnd | now exists SchemaScanner.ArrayItemBegin | now exists SchemaScanner.ArrayItemEnd
             | now exists SchemaScanner.InlineAnnotationBegin | now exists SchemaScanner.InlineAnnotationEnd | now exists SchemaScanner.InlineAnnotationTextBegin
             | now exists SchemaScanner.InlineAnnotationTextEnd | now exists SchemaScanner.MultiLineAnnotationBegin | now exists SchemaScanner.MultiLineAnnotationEnd
             | now exists SchemaScanner.MultiLineAnnotationTextBegin | now exists SchemaScanner.MultiLineAnnotationTextEnd | now exists SchemaScanner.NewLine
             | now exists SchemaScanner.TypesShortcutBegin | now exists SchemaScanner.TypesShortcutEnd | now exists SchemaScanner.KeyShortcutBegin | now exists SchemaScanner.KeyShortcutEnd
             | now exists SchemaScanner.MixedValueBegin | now exists SchemaScanner.MixedValueEnd | now exists SchemaScanner.EndTop ].
Qed.
