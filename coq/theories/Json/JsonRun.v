(* JsonRun.v — wire front end of the JSON scanner model.  line = "<mode> <hex of the text>"
   modes: c/C Check (strict / trailing characters allowed), l/L Len, e/E NextLexeme stream. *)
From Coq Require Import List NArith Bool Arith.
From Coq Require Import Strings.Byte.
Import ListNotations.
From JS Require Import Common.Wire Json.Scanner.

Definition print_verdict (v : verdict) : bytes :=
  match v with
  | VOk => [x6f; x6b]
  | VErr c p => [x45] ++ print_nat c ++ [x40] ++ print_N p
  | VPanic => [x50; x41; x4e; x49; x43]
  end.
Definition print_ev (e : lexev) : bytes :=
  print_nat (ev_code (e_type e)) ++ [colon] ++ print_N (e_begin e) ++ [colon] ++ print_N (e_end e).
Definition print_outcome (o : outcome) : bytes :=
  match o with
  | Done => [x65; x6f; x66]
  | Err c p => [x45] ++ print_nat c ++ [x40] ++ print_N p
  | Panic => [x50; x41; x4e; x49; x43]
  end.

Definition json_events (allow : bool) (bs : bytes) : bytes :=
  let '(evs, o) := scan allow bs in
  let '(pre, stopped) := upto_endtop evs in
  join [comma] (map print_ev pre) ++ [bar] ++ (if stopped then [x65; x6f; x66] else print_outcome o).

Definition json_model_line (line : bytes) : bytes :=
  match split_on sp line with
  | [[m]; h] =>
    match unhex (match h with [x2d] => [] | _ => h end) with
    | None => [x42; x41; x44]
    | Some bs =>
      if byte_eqb m x63 then print_verdict (check false bs)
      else if byte_eqb m x43 then print_verdict (check true bs)
      else if byte_eqb m x6c then (let '(v, n) := doc_len false bs in match v with VOk => print_N n | _ => print_verdict v end)
      else if byte_eqb m x4c then (let '(v, n) := doc_len true bs in match v with VOk => print_N n | _ => print_verdict v end)
      else if byte_eqb m x65 then json_events false bs
      else if byte_eqb m x45 then json_events true bs
      else [x42; x41; x44]
    end
  | _ => [x42; x41; x44]
  end.
