(* Grammar.v — RFC 8259 as a specification, written without reference to the scanner:
   (1) a generative grammar: a JSON text is [render] of a value tree whose leaves are
       well-formed tokens, with arbitrary blanks at the structural gaps;
   (2) a reference recogniser: plain recursive descent with one byte of look-ahead
       ([rd_value]), three-valued (ok with the rest / malformed / out of fuel).
   The scanner theorems relate the pushdown machine of Scanner.v to (2); (1) and (2) are
   related to each other in GrammarProofs.v.  No proofs in this file. *)
From Coq Require Import List NArith Bool Arith.
From Coq Require Import Strings.Byte.
Import ListNotations.
From JS Require Import Common.Wire Json.Scanner.

(* ---------- tokens ---------- *)
Fixpoint skip_blank (bs : bytes) : bytes :=
  match bs with c :: r => if is_blank c then skip_blank r else bs | [] => [] end.
Fixpoint skip_digits (bs : bytes) : bytes :=
  match bs with c :: r => if is_digit c then skip_digits r else bs | [] => [] end.
Definition all_blank (bs : bytes) : bool := forallb is_blank bs.

(* number = [ minus ] int [ frac ] [ exp ], taken maximally; None = malformed or cut short *)
Definition lex_frac_exp (bs : bytes) : option bytes :=
  (* after the integer part *)
  let after_frac :=
    match bs with
    | c :: r => if ch c 46
                then match r with
                     | d :: r' => if is_digit d then Some (skip_digits r') else None
                     | [] => None
                     end
                else Some bs
    | [] => Some []
    end in
  match after_frac with
  | None => None
  | Some bs1 =>
    match bs1 with
    | c :: r =>
      if (ch c 101 || ch c 69)%bool
      then let r1 := match r with s :: r' => if (ch s 43 || ch s 45)%bool then r' else r | [] => [] end in
           match r1 with
           | d :: r' => if is_digit d then Some (skip_digits r') else None
           | [] => None
           end
      else Some bs1
    | [] => Some []
    end
  end.
Definition lex_int (bs : bytes) : option bytes :=
  match bs with
  | c :: r => if ch c 48 then lex_frac_exp r
              else if is_digit19 c then lex_frac_exp (skip_digits r)
              else None
  | [] => None
  end.
Definition lex_number (bs : bytes) : option bytes :=
  match bs with
  | c :: r => if ch c 45 then lex_int r else lex_int bs
  | [] => None
  end.

(* string body after the opening quote; returns the rest after the closing quote *)
Fixpoint lex_string_body (bs : bytes) : option bytes :=
  match bs with
  | [] => None
  | c :: r =>
    if ch c 34 then Some r
    else if ch c 92 then
      match r with
      | e :: r' =>
        if (ch e 98 || ch e 102 || ch e 110 || ch e 114 || ch e 116 || ch e 92 || ch e 47 || ch e 34)%bool
        then lex_string_body r'
        else if ch e 117 then
          match r' with
          | h1 :: h2 :: h3 :: h4 :: r'' =>
            if (is_hex h1 && is_hex h2 && is_hex h3 && is_hex h4)%bool then lex_string_body r'' else None
          | _ => None
          end
        else None
      | [] => None
      end
    else if is_ctl c then None
    else lex_string_body r
  end.

Fixpoint strip_prefix (w bs : bytes) : option bytes :=
  match w, bs with
  | [], _ => Some bs
  | a :: w', b :: bs' => if byte_eqb a b then strip_prefix w' bs' else None
  | _ :: _, [] => None
  end.
Definition w_true : bytes := [x74; x72; x75; x65].
Definition w_false : bytes := [x66; x61; x6c; x73; x65].
Definition w_null : bytes := [x6e; x75; x6c; x6c].

(* ---------- reference recogniser ---------- *)
Inductive res := ROk (rest : bytes) | RFail | RFuel.

(* rd_value: [bs] starts at a non-blank byte (callers skip blanks);
   rd_items / rd_members: after '[' resp. '{' or after a ',' *)
Fixpoint rd_value (fuel : nat) (bs : bytes) : res :=
  match fuel with
  | O => RFuel
  | S f =>
    match bs with
    | [] => RFail
    | c :: r =>
      if ch c 91 then
        (match skip_blank r with
         | d :: r' => if ch d 93 then ROk r' else rd_items f (skip_blank r)
         | [] => RFail
         end)
      else if ch c 123 then
        (match skip_blank r with
         | d :: r' => if ch d 125 then ROk r' else rd_members f (skip_blank r)
         | [] => RFail
         end)
      else if ch c 34 then
        (match lex_string_body r with Some r' => ROk r' | None => RFail end)
      else if ch c 116 then (match strip_prefix w_true bs with Some r' => ROk r' | None => RFail end)
      else if ch c 102 then (match strip_prefix w_false bs with Some r' => ROk r' | None => RFail end)
      else if ch c 110 then (match strip_prefix w_null bs with Some r' => ROk r' | None => RFail end)
      else (match lex_number bs with Some r' => ROk r' | None => RFail end)
    end
  end
with rd_items (fuel : nat) (bs : bytes) : res :=
  (* bs at the first byte of an item *)
  match fuel with
  | O => RFuel
  | S f =>
    match rd_value f bs with
    | ROk r =>
      match skip_blank r with
      | d :: r' => if ch d 44 then rd_items f (skip_blank r')
                   else if ch d 93 then ROk r' else RFail
      | [] => RFail
      end
    | x => x
    end
  end
with rd_members (fuel : nat) (bs : bytes) : res :=
  (* bs at the opening quote of a key *)
  match fuel with
  | O => RFuel
  | S f =>
    match bs with
    | q :: r =>
      if ch q 34 then
        match lex_string_body r with
        | Some r1 =>
          match skip_blank r1 with
          | col :: r2 =>
            if ch col 58 then
              match rd_value f (skip_blank r2) with
              | ROk r3 =>
                match skip_blank r3 with
                | d :: r4 => if ch d 44 then rd_members f (skip_blank r4)
                             else if ch d 125 then ROk r4 else RFail
                | [] => RFail
                end
              | x => x
              end
            else RFail
          | [] => RFail
          end
        | None => RFail
        end
      else RFail
    | [] => RFail
    end
  end.

(* one JSON value surrounded by blanks *)
Definition rfc8259 (bs : bytes) : bool :=
  match rd_value (S (length bs)) (skip_blank bs) with
  | ROk rest => all_blank rest
  | _ => false
  end.
(* the text begins with one complete JSON value (numbers maximal) *)
Definition rfc8259_prefix (bs : bytes) : bool :=
  match rd_value (S (length bs)) (skip_blank bs) with
  | ROk _ => true
  | _ => false
  end.

(* ---------- generative grammar ---------- *)
Definition is_number_token (t : bytes) : bool :=
  match lex_number t with Some [] => true | _ => false end.
Definition is_string_token (t : bytes) : bool :=
  match t with
  | q :: r => (ch q 34 && match lex_string_body r with Some [] => true | _ => false end)%bool
  | [] => false
  end.
Definition list_beq_bytes (a b : bytes) : bool :=
  match strip_prefix a b with Some [] => Nat.eqb (length a) (length b) | _ => false end.
Definition is_word_token (t : bytes) : bool :=
  (list_beq_bytes t w_true || list_beq_bytes t w_false || list_beq_bytes t w_null)%bool.

(* value tree with its layout: every [ws] field is a run of blanks *)
Inductive jv :=
| JTok (t : bytes)
| JArr0 (inner : bytes)                                  (* "[" blanks "]" *)
| JArr (items : list (bytes * jv * bytes))               (* "[" ws v ws "," ... "]" *)
| JObj0 (inner : bytes)
| JObj (members : list (bytes * bytes * bytes * bytes * jv * bytes)).
                                                          (* ws key ws ":" ws value ws *)

Fixpoint render (v : jv) : bytes :=
  match v with
  | JTok t => t
  | JArr0 w => [x5b] ++ w ++ [x5d]
  | JArr items =>
    [x5b] ++ join [x2c] (map (fun i => let '(w1, x, w2) := i in w1 ++ render x ++ w2) items) ++ [x5d]
  | JObj0 w => [x7b] ++ w ++ [x7d]
  | JObj ms =>
    [x7b] ++ join [x2c] (map (fun m => let '(w1, k, w2, w3, x, w4) := m in
                                        w1 ++ k ++ w2 ++ [x3a] ++ w3 ++ render x ++ w4) ms) ++ [x7d]
  end.

Fixpoint wf (v : jv) : bool :=
  match v with
  | JTok t => (is_number_token t || is_string_token t || is_word_token t)%bool
  | JArr0 w => all_blank w
  | JArr items =>
    (negb (Nat.eqb (length items) 0) &&
     forallb (fun i => let '(w1, x, w2) := i in (all_blank w1 && wf x && all_blank w2)%bool) items)%bool
  | JObj0 w => all_blank w
  | JObj ms =>
    (negb (Nat.eqb (length ms) 0) &&
     forallb (fun m => let '(w1, k, w2, w3, x, w4) := m in
                       (all_blank w1 && is_string_token k && all_blank w2 && all_blank w3 && wf x && all_blank w4)%bool) ms)%bool
  end.

Definition JsonText (bs : bytes) : Prop :=
  exists w1 v w2, all_blank w1 = true /\ wf v = true /\ all_blank w2 = true /\ bs = w1 ++ render v ++ w2.
