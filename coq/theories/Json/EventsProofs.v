(* EventsProofs.v — the lexical events of the JSON scanner model (Scanner.v): spans lie inside
   the input, the event sequence is properly nested (properties C06), and Len (doc_len) returns
   the length of the leading document without its trailing blanks (property C14).

   Plan:
   0. [pf]: process_finds without accumulator; a generic invariant principle for [run] that
      carries the consumed prefix of the input;
   1. spans: closings precede openings inside one step, stack entries begin before the index;
   2. nesting: replaying the events rebuilds exactly the scanner's stack;
   3. Len. *)
From Coq Require Import List NArith Bool Arith Lia.
From Coq Require Import ZifyBool ZifyNat ZifyN.
From Coq Require Import Strings.Byte.
Import ListNotations.
From JS Require Import Common.Wire Json.Scanner Json.Grammar Json.ScannerProofs.

(* ================================================================== *)
(* 0. generalities                                                     *)
(* ================================================================== *)
Fixpoint pf (i : N) (stk : list (ev * N)) (fs : list ev) : option (list (ev * N) * list lexev) :=
  match fs with
  | [] => Some (stk, [])
  | e :: r =>
    match process_found i stk e with
    | None => None
    | Some (stk', x) =>
      match pf i stk' r with
      | None => None
      | Some (s2, l) => Some (s2, x :: l)
      end
    end
  end.

Lemma process_finds_pf i fs : forall stk acc0,
  process_finds i stk fs acc0 =
  match pf i stk fs with None => None | Some (s2, l) => Some (s2, rev acc0 ++ l) end.
Proof.
  induction fs as [|e r IH]; intros stk acc0; cbn [process_finds pf].
  - rewrite frev_rev, app_nil_r. reflexivity.
  - destruct (process_found i stk e) as [[stk' x]|]; [|reflexivity].
    rewrite IH. destruct (pf i stk' r) as [[s2 l]|]; [|reflexivity].
    cbn [rev]. rewrite <- app_assoc. reflexivity.
Qed.

Lemma pf_app i f1 : forall f2 stk,
  pf i stk (f1 ++ f2) =
  match pf i stk f1 with
  | None => None
  | Some (s1, l1) => match pf i s1 f2 with None => None | Some (s2, l2) => Some (s2, l1 ++ l2) end
  end.
Proof.
  induction f1 as [|e r IH]; intros f2 stk; cbn [pf app].
  - destruct (pf i stk f2) as [[s2 l2]|]; reflexivity.
  - destruct (process_found i stk e) as [[stk' x]|]; [|reflexivity].
    rewrite IH. destruct (pf i stk' r) as [[s1 l1]|]; [|reflexivity].
    destruct (pf i s1 f2) as [[s2 l2]|]; reflexivity.
Qed.

Lemma pf_proj i fs : forall stk stk' evs, pf i stk fs = Some (stk', evs) ->
  apply_finds (map fst stk) fs = Some (map fst stk') /\ map e_type evs = fs.
Proof.
  intros stk stk' evs H. pose proof (process_finds_proj i fs stk []) as P.
  rewrite process_finds_pf, H in P. cbn [rev app map] in P. exact P.
Qed.

Definition r_evs (r : list lexev * outcome * cfg * N) : list lexev := fst (fst (fst r)).

Lemma idx_snoc (pre : bytes) c : N.succ (N.of_nat (length pre)) = N.of_nat (length (pre ++ [c])).
Proof. rewrite app_length. cbn [length]. lia. Qed.

Section RunInv.
Variable allow : bool.
Variable I : bytes -> cfg -> list lexev -> Prop.
Hypothesis Istep : forall pre k E c ctl' fs stk' evs,
  I pre k E -> step allow (k_ctl k) (map fst (k_stk k)) c = Some (ctl', fs) ->
  pf (N.of_nat (length pre)) (k_stk k) fs = Some (stk', evs) ->
  I (pre ++ [c]) (mkcfg ctl' stk') (E ++ evs).

Lemma run_invariant bs : forall pre k acc0, I pre k (rev acc0) ->
  exists pre' suf, pre ++ bs = pre' ++ suf /\
    I pre' (r_cfg (run allow k (N.of_nat (length pre)) bs acc0))
           (r_evs (run allow k (N.of_nat (length pre)) bs acc0)) /\
    r_idx (run allow k (N.of_nat (length pre)) bs acc0) = N.of_nat (length pre') /\
    (r_out (run allow k (N.of_nat (length pre)) bs acc0) = Done -> suf = []).
Proof.
  induction bs as [|c r IH]; intros pre k acc0 HI; cbn [run].
  - exists pre, []. unfold r_cfg, r_evs, r_idx, r_out. cbn [fst snd]. rewrite frev_rev. auto.
  - destruct (step allow (k_ctl k) (map fst (k_stk k)) c) as [[ctl' fs]|] eqn:Es.
    + rewrite process_finds_pf.
      destruct (pf (N.of_nat (length pre)) (k_stk k) fs) as [[stk' evs]|] eqn:Ep.
      * cbn [rev app]. rewrite (idx_snoc pre c).
        destruct (IH (pre ++ [c]) (mkcfg ctl' stk') (frev evs ++ acc0)) as [pre' [suf [H1 H2]]].
        { rewrite rev_app_distr, frev_rev, rev_involutive. eapply Istep; eassumption. }
        exists pre', suf. split; [|exact H2]. rewrite <- H1, <- app_assoc. reflexivity.
      * exists pre, (c :: r). unfold r_cfg, r_evs, r_idx, r_out. cbn [fst snd]. rewrite frev_rev.
        split; [reflexivity|]. split; [exact HI|]. split; [reflexivity|discriminate].
    + exists pre, (c :: r). unfold r_cfg, r_evs, r_idx, r_out. cbn [fst snd]. rewrite frev_rev.
      split; [reflexivity|]. split; [exact HI|]. split; [reflexivity|discriminate].
Qed.

Lemma run_invariant0 bs : I [] cfg0 [] ->
  exists pre' suf, bs = pre' ++ suf /\
    I pre' (r_cfg (run allow cfg0 0%N bs [])) (r_evs (run allow cfg0 0%N bs [])) /\
    r_idx (run allow cfg0 0%N bs []) = N.of_nat (length pre') /\
    (r_out (run allow cfg0 0%N bs []) = Done -> suf = []).
Proof. intros H. exact (run_invariant bs [] cfg0 [] H). Qed.
End RunInv.

(* the end-of-input rule delivers at most one more event *)
Lemma tail3_cases k i sz acc0 : invc k ->
  (k_stk k = [] /\ tail 3 k i sz acc0 = (rev acc0, Done)) \/
  (exists b, k_stk k = [(LiteralBegin, b)] /\ c_unf (k_ctl k) = false /\
             tail 3 k i sz acc0 = (rev acc0 ++ [mkev LiteralEnd b (i - 1)%N], Done)) \/
  (exists c p more, tail 3 k i sz acc0 = (rev acc0 ++ more, Err c p) /\
     (more = [] \/ exists b rest, k_stk k = (LiteralBegin, b) :: rest /\ more = [mkev LiteralEnd b (i - 1)%N])).
Proof.
  unfold invc. destruct k as [[q u] stk]. cbn [k_ctl k_stk c_st c_unf]. intros Hk.
  cbn [tail k_stk k_ctl c_unf].
  assert (E0 : forall c p, (frev acc0, Err c p) = (rev acc0 ++ [], Err c p)).
  { intros c p. rewrite frev_rev, app_nil_r. reflexivity. }
  destruct stk as [|[p b] rest].
  { left. rewrite frev_rev. auto. }
  right.
  destruct p; try (right; do 3 eexists; split; [apply E0|left; reflexivity]).
  destruct u; [right; do 3 eexists; split; [apply E0|left; reflexivity]|].
  destruct rest as [|[p2 b2] rest2].
  { left. exists b. rewrite frev_rev. cbn [rev]. auto. }
  right.
  assert (E1 : forall c p, (frev (mkev LiteralEnd b (i - 1)%N :: acc0), Err c p) =
                           (rev acc0 ++ [mkev LiteralEnd b (i - 1)%N], Err c p)).
  { intros c p. rewrite frev_rev. reflexivity. }
  destruct p2; try (do 3 eexists; split; [apply E1|right; do 2 eexists; split; reflexivity]).
  cbn [map fst] in Hk. rewrite inv_two_lits in Hk. discriminate Hk.
Qed.

(* ================================================================== *)
(* 1. spans                                                            *)
(* ================================================================== *)
Definition opn (e : ev) : bool := (is_opening e || is_endtop e)%bool.
(* the finds of one step: closing events first, then opening events / EndTop *)
Fixpoint shape (fs : list ev) : bool :=
  match fs with
  | [] => true
  | e :: r => if opn e then forallb opn r else shape r
  end.

Lemma step_shape allow k s c k' fs : step allow k s c = Some (k', fs) -> shape fs = true.
Proof.
  destruct k as [q u]. intros H.
  destruct q; unfold_step_in H; cbn [app] in H; brk H; inversion H; subst; reflexivity.
Qed.

Definition good (n : N) (e : lexev) : Prop := (e_begin e <= e_end e)%N /\ (e_end e < n)%N.
Definition below (n : N) (pb : ev * N) : Prop := (snd pb < n)%N.

Lemma good_mono n m e : (n <= m)%N -> good n e -> good m e.
Proof. unfold good. intros H [H1 H2]. split; lia. Qed.
Lemma below_mono n m pb : (n <= m)%N -> below n pb -> below m pb.
Proof. unfold below. lia. Qed.

Lemma process_found_open i stk e : opn e = true ->
  exists stk', process_found i stk e = Some (stk', mkev e i i) /\ (stk' = stk \/ stk' = (e, i) :: stk).
Proof.
  intros H. destruct e; try discriminate H; eexists; (split; [reflexivity|]); auto.
Qed.

Lemma process_found_close i stk e stk' x : opn e = false -> process_found i stk e = Some (stk', x) ->
  exists p b, stk = (p, b) :: stk' /\ e_type x = e /\ e_begin x = b /\
              (e_end x = i \/ e_end x = (i - 1)%N) /\
              (nonscalar_pair p e = true -> e_end x = i) /\
              (nonscalar_pair p e || scalar_pair p e)%bool = true.
Proof.
  intros Ho H.
  destruct e; try discriminate Ho; cbn [process_found is_opening] in H;
    (destruct stk as [|[p b] rest]; [discriminate H|]);
    (destruct (nonscalar_pair p _) eqn:E1;
     [|destruct (scalar_pair p _) eqn:E2; [|discriminate H]]);
    inversion H; subst; exists p, b; rewrite ?E1, ?E2; cbn [e_type e_begin e_end orb];
    repeat split; auto; discriminate.
Qed.

Lemma pf_open i : forall fs stk stk' evs, forallb opn fs = true ->
  Forall (below (N.succ i)) stk -> pf i stk fs = Some (stk', evs) ->
  Forall (good (N.succ i)) evs /\ Forall (below (N.succ i)) stk'.
Proof.
  induction fs as [|e r IH]; intros stk stk' evs Ho Hs H; cbn [pf] in H.
  - inversion H; subst. split; [constructor|exact Hs].
  - cbn [forallb] in Ho. apply andb_true_iff in Ho. destruct Ho as [Ho1 Ho2].
    destruct (process_found_open i stk e Ho1) as [s1 [Hp Hs1]]. rewrite Hp in H.
    destruct (pf i s1 r) as [[s2 l]|] eqn:Ep; [|discriminate H]. inversion H; subst.
    assert (Hs1' : Forall (below (N.succ i)) s1).
    { destruct Hs1 as [->| ->]; [exact Hs|]. constructor; [unfold below; cbn [snd]; lia|exact Hs]. }
    destruct (IH s1 stk' l Ho2 Hs1' Ep) as [G1 G2]. split; [|exact G2].
    constructor; [|exact G1]. unfold good. cbn [e_begin e_end]. lia.
Qed.

Lemma pf_spans i : forall fs stk stk' evs, shape fs = true ->
  Forall (below i) stk -> pf i stk fs = Some (stk', evs) ->
  Forall (good (N.succ i)) evs /\ Forall (below (N.succ i)) stk'.
Proof.
  induction fs as [|e r IH]; intros stk stk' evs Hsh Hs H.
  - cbn [pf] in H. inversion H; subst. split; [constructor|].
    eapply Forall_impl; [|exact Hs]. intros a. apply below_mono. lia.
  - cbn [shape] in Hsh. destruct (opn e) eqn:Ho.
    + apply (pf_open i (e :: r) stk stk' evs); [cbn [forallb]; rewrite Ho, Hsh; reflexivity| |exact H].
      eapply Forall_impl; [|exact Hs]. intros a. apply below_mono. lia.
    + cbn [pf] in H. destruct (process_found i stk e) as [[s1 x]|] eqn:Ep; [|discriminate H].
      destruct (pf i s1 r) as [[s2 l]|] eqn:Ep2; [|discriminate H]. inversion H; subst.
      destruct (process_found_close i stk e s1 x Ho Ep) as [p [b [Hst [_ [Hb [He _]]]]]].
      subst stk. inversion Hs as [|? ? Hb1 Hs1]; subst. unfold below in Hb1. cbn [snd] in Hb1.
      destruct (IH s1 stk' l Hsh Hs1 Ep2) as [G1 G2]. split; [|exact G2].
      constructor; [|exact G1]. unfold good. destruct He as [He|He]; rewrite He; lia.
Qed.

Definition Ispan (pre : bytes) (k : cfg) (E : list lexev) : Prop :=
  Forall (good (N.of_nat (length pre))) E /\ Forall (below (N.of_nat (length pre))) (k_stk k).

Lemma Ispan_step allow pre k E c ctl' fs stk' evs :
  Ispan pre k E -> step allow (k_ctl k) (map fst (k_stk k)) c = Some (ctl', fs) ->
  pf (N.of_nat (length pre)) (k_stk k) fs = Some (stk', evs) ->
  Ispan (pre ++ [c]) (mkcfg ctl' stk') (E ++ evs).
Proof.
  intros [H1 H2] Hs Hp. unfold Ispan. cbn [k_stk]. rewrite <- idx_snoc.
  destruct (pf_spans _ fs _ _ _ (step_shape _ _ _ _ _ _ Hs) H2 Hp) as [G1 G2].
  split; [|exact G2]. apply Forall_app. split; [|exact G1].
  eapply Forall_impl; [|exact H1]. intros a. apply good_mono. lia.
Qed.

Definition Iinv (pre : bytes) (k : cfg) (E : list lexev) : Prop := invc k.

Lemma Iinv_step allow pre k E c ctl' fs stk' evs :
  Iinv pre k E -> step allow (k_ctl k) (map fst (k_stk k)) c = Some (ctl', fs) ->
  pf (N.of_nat (length pre)) (k_stk k) fs = Some (stk', evs) ->
  Iinv (pre ++ [c]) (mkcfg ctl' stk') (E ++ evs).
Proof.
  unfold Iinv, invc. intros Hk Hs Hp. cbn [k_ctl k_stk].
  destruct (k_ctl k) as [q u] eqn:Ek. cbn [c_st] in Hk.
  destruct (inv_step allow q u _ c ctl' fs Hk Hs) as [s' [Ha Hi]].
  destruct (pf_proj _ _ _ _ _ Hp) as [P1 _]. rewrite Ha in P1. inversion P1; subst. exact Hi.
Qed.

Lemma scan_cases allow bs :
  scan allow bs =
  match r_out (run allow cfg0 0%N bs []) with
  | Done => tail 3 (r_cfg (run allow cfg0 0%N bs [])) (r_idx (run allow cfg0 0%N bs []))
                 (r_idx (run allow cfg0 0%N bs [])) (frev (r_evs (run allow cfg0 0%N bs [])))
  | o => (r_evs (run allow cfg0 0%N bs []), o)
  end.
Proof.
  unfold scan. destruct (run allow cfg0 0%N bs []) as [[[evs o] k] idx].
  unfold r_out, r_cfg, r_idx, r_evs. cbn [fst snd]. destruct o; reflexivity.
Qed.

Theorem spans_inside : forall allow bs evs o, scan allow bs = (evs, o) ->
  Forall (fun e => (e_begin e <= e_end e)%N /\ (N.to_nat (e_end e) < length bs)) evs.
Proof.
  intros allow bs evs o H.
  assert (G : Forall (good (N.of_nat (length bs))) evs).
  { rewrite scan_cases in H.
    destruct (run_invariant0 allow (fun p k E => Ispan p k E /\ Iinv p k E)) with (bs := bs)
      as [pre' [suf [Hb [[[S1 S2] Hi] [Hidx Hd]]]]].
    { intros pre k E c ctl' fs stk' evs0 [A B] Hs Hp. split.
      - eapply Ispan_step; eassumption.
      - eapply Iinv_step; eassumption. }
    { split; [split; constructor|reflexivity]. }
    assert (Hlen : (N.of_nat (length pre') <= N.of_nat (length bs))%N).
    { rewrite Hb, app_length. lia. }
    destruct (r_out (run allow cfg0 0%N bs [])) eqn:Eo.
    - rewrite frev_rev in H.
      destruct (tail3_cases (r_cfg (run allow cfg0 0%N bs [])) (r_idx (run allow cfg0 0%N bs []))
                  (r_idx (run allow cfg0 0%N bs [])) (rev (r_evs (run allow cfg0 0%N bs []))) Hi)
        as [[_ Ht]|[[b [Hk [_ Ht]]]|[c [p [more [Ht Hm]]]]]];
        rewrite Ht, rev_involutive in H; inversion H; subst evs.
      + eapply Forall_impl; [|exact S1]. intros a. apply good_mono. exact Hlen.
      + apply Forall_app. split.
        * eapply Forall_impl; [|exact S1]. intros a. apply good_mono. exact Hlen.
        * constructor; [|constructor]. rewrite Hk in S2. inversion S2 as [|? ? Hb1 _]; subst.
          unfold below in Hb1. cbn [snd] in Hb1. unfold good. cbn [e_begin e_end]. rewrite Hidx. lia.
      + apply Forall_app. split.
        * eapply Forall_impl; [|exact S1]. intros a. apply good_mono. exact Hlen.
        * destruct Hm as [->|[b [rest [Hk ->]]]]; [constructor|].
          constructor; [|constructor]. rewrite Hk in S2. inversion S2 as [|? ? Hb1 _]; subst.
          unfold below in Hb1. cbn [snd] in Hb1. unfold good. cbn [e_begin e_end]. rewrite Hidx. lia.
    - inversion H; subst evs. eapply Forall_impl; [|exact S1]. intros a. apply good_mono. exact Hlen.
    - inversion H; subst evs. eapply Forall_impl; [|exact S1]. intros a. apply good_mono. exact Hlen. }
  eapply Forall_impl; [|exact G]. intros a [G1 G2]. split; [exact G1|lia].
Qed.

(* ================================================================== *)
(* 2. nesting                                                          *)
(* ================================================================== *)
(* replay of an event sequence on a stack of (opening type, begin offset) *)
Fixpoint nest (stk : list (ev * N)) (evs : list lexev) : option (list (ev * N)) :=
  match evs with
  | [] => Some stk
  | x :: r =>
    if is_endtop (e_type x) then nest stk r
    else if is_opening (e_type x) then nest ((e_type x, e_begin x) :: stk) r
    else match stk with
         | [] => None
         | (p, b) :: rest =>
           if ((nonscalar_pair p (e_type x) || scalar_pair p (e_type x)) && N.eqb b (e_begin x))%bool
           then nest rest r else None
         end
  end.

Lemma nest_app a : forall stk b,
  nest stk (a ++ b) = match nest stk a with Some s => nest s b | None => None end.
Proof.
  induction a as [|x r IH]; intros stk b; cbn [app nest]; [reflexivity|].
  destruct (is_endtop (e_type x)); [apply IH|].
  destruct (is_opening (e_type x)); [apply IH|].
  destruct stk as [|[p b0] rest]; [reflexivity|].
  destruct ((nonscalar_pair p (e_type x) || scalar_pair p (e_type x)) && N.eqb b0 (e_begin x))%bool;
    [apply IH|reflexivity].
Qed.

Lemma process_found_nest i stk e stk' x : process_found i stk e = Some (stk', x) ->
  nest stk [x] = Some stk'.
Proof.
  intros H. destruct (opn e) eqn:Ho.
  - destruct (process_found_open i stk e Ho) as [s1 [Hp Hs]]. rewrite Hp in H. inversion H; subst.
    cbn [nest e_type e_begin].
    destruct e; try discriminate Ho; cbn [is_endtop is_opening];
      cbn [process_found is_opening] in Hp; inversion Hp; reflexivity.
  - destruct (process_found_close i stk e stk' x Ho H) as [p [b [Hst [Ht [Hb [_ [_ Hpair]]]]]]].
    subst stk. cbn [nest]. rewrite Ht, Hb, Hpair, N.eqb_refl.
    destruct e; try discriminate Ho; reflexivity.
Qed.

Lemma pf_nest i : forall fs stk stk' evs, pf i stk fs = Some (stk', evs) -> nest stk evs = Some stk'.
Proof.
  induction fs as [|e r IH]; intros stk stk' evs H; cbn [pf] in H.
  - inversion H; subst. reflexivity.
  - destruct (process_found i stk e) as [[s1 x]|] eqn:Ep; [|discriminate H].
    destruct (pf i s1 r) as [[s2 l]|] eqn:Ep2; [|discriminate H]. inversion H; subst.
    change (x :: l) with ([x] ++ l). rewrite nest_app, (process_found_nest _ _ _ _ _ Ep).
    apply (IH _ _ _ Ep2).
Qed.

Definition Inest (pre : bytes) (k : cfg) (E : list lexev) : Prop := nest [] E = Some (k_stk k).

Lemma Inest_step allow pre k E c ctl' fs stk' evs :
  Inest pre k E -> step allow (k_ctl k) (map fst (k_stk k)) c = Some (ctl', fs) ->
  pf (N.of_nat (length pre)) (k_stk k) fs = Some (stk', evs) ->
  Inest (pre ++ [c]) (mkcfg ctl' stk') (E ++ evs).
Proof.
  unfold Inest. intros H _ Hp. rewrite nest_app, H. cbn [k_stk]. apply (pf_nest _ _ _ _ _ Hp).
Qed.

(* the replay of the complete stream: what is left is what the scanner had left *)
Lemma scan_nest allow bs evs o : scan allow bs = (evs, o) ->
  exists stk, nest [] evs = Some stk /\ (o = Done -> stk = []).
Proof.
  intros H. rewrite scan_cases in H.
  destruct (run_invariant0 allow (fun p k E => Inest p k E /\ Iinv p k E)) with (bs := bs)
    as [pre' [suf [Hb [[Hn Hi] [Hidx Hd]]]]].
  { intros pre k E c ctl' fs stk' evs0 [A B] Hs Hp. split.
    - eapply Inest_step; eassumption.
    - eapply Iinv_step; eassumption. }
  { split; reflexivity. }
  unfold Inest in Hn.
  destruct (r_out (run allow cfg0 0%N bs [])) eqn:Eo.
  - rewrite frev_rev in H.
    destruct (tail3_cases (r_cfg (run allow cfg0 0%N bs [])) (r_idx (run allow cfg0 0%N bs []))
                (r_idx (run allow cfg0 0%N bs [])) (rev (r_evs (run allow cfg0 0%N bs []))) Hi)
      as [[Hk Ht]|[[b [Hk [_ Ht]]]|[c [p [more [Ht Hm]]]]]];
      rewrite Ht, rev_involutive in H; inversion H; subst evs.
    + exists []. rewrite Hn, Hk. auto.
    + exists []. rewrite nest_app, Hn, Hk. cbn. rewrite N.eqb_refl. auto.
    + destruct Hm as [->|[b [rest [Hk ->]]]].
      * rewrite app_nil_r. eexists. split; [exact Hn|discriminate].
      * exists rest. rewrite nest_app, Hn, Hk. cbn. rewrite N.eqb_refl. split; [reflexivity|discriminate].
  - inversion H; subst. eexists. split; [exact Hn|discriminate].
  - inversion H; subst. eexists. split; [exact Hn|discriminate].
Qed.

Theorem events_nested : forall allow bs evs o, scan allow bs = (evs, o) -> exists stk, nest [] evs = Some stk.
Proof.
  intros allow bs evs o H. destruct (scan_nest allow bs evs o H) as [stk [Hs _]]. exists stk. exact Hs.
Qed.

(* without trailing-text permission no EndTop is ever found *)
Lemma step_false_no_endtop k s c k' fs : step false k s c = Some (k', fs) -> mem_endtop fs = false.
Proof.
  destruct k as [q u]. intros H.
  destruct q; unfold_step_in H; cbn [app] in H; brk H; inversion H; subst; reflexivity.
Qed.

Definition Inoend (pre : bytes) (k : cfg) (E : list lexev) : Prop := has_endtop E = false.

Lemma Inoend_step pre k E c ctl' fs stk' evs :
  Inoend pre k E -> step false (k_ctl k) (map fst (k_stk k)) c = Some (ctl', fs) ->
  pf (N.of_nat (length pre)) (k_stk k) fs = Some (stk', evs) ->
  Inoend (pre ++ [c]) (mkcfg ctl' stk') (E ++ evs).
Proof.
  unfold Inoend. intros H Hs Hp. rewrite has_endtop_app, H. cbn [orb].
  destruct (pf_proj _ _ _ _ _ Hp) as [_ P2]. unfold has_endtop. rewrite P2.
  apply (step_false_no_endtop _ _ _ _ _ Hs).
Qed.

Lemma scan_false_no_endtop bs : has_endtop (fst (scan false bs)) = false.
Proof.
  rewrite scan_cases.
  destruct (run_invariant0 false Inoend Inoend_step bs eq_refl) as [pre' [suf [Hb [Hn _]]]].
  unfold Inoend in Hn.
  destruct (r_out (run false cfg0 0%N bs [])); try exact Hn.
  destruct (tail_spec 3 (r_cfg (run false cfg0 0%N bs [])) (r_idx (run false cfg0 0%N bs []))
              (r_idx (run false cfg0 0%N bs [])) (frev (r_evs (run false cfg0 0%N bs []))))
    as [more [H1 [H2 _]]].
  rewrite H1, has_endtop_app, has_endtop_rev, frev_rev, has_endtop_rev, Hn, H2. reflexivity.
Qed.

Theorem events_balanced_when_accepted : forall bs evs o,
  scan false bs = (evs, o) -> check false bs = VOk -> nest [] evs = Some [].
Proof.
  intros bs evs o H Hc. rewrite check_verdict, H in Hc. cbn [fst snd] in Hc.
  pose proof (scan_false_no_endtop bs) as Hn. rewrite H in Hn. cbn [fst] in Hn.
  unfold verdict_of in Hc. rewrite Hn in Hc.
  destruct (scan_nest false bs evs o H) as [stk [Hs Hd]].
  destruct o; try discriminate Hc. rewrite Hs, (Hd eq_refl). reflexivity.
Qed.

(* ================================================================== *)
(* 3. Len: step facts                                                 *)
(* ================================================================== *)
Definition lit_done (q : st) : bool := match q with EndValue | S1 | S0 | Dot0 | E0 => true | _ => false end.
Definition lit_num (q : st) : bool := match q with S1 | S0 | Dot0 | E0 => true | _ => false end.
Definition uinv (q : st) (u : bool) (s : list ev) : bool :=
  match s with LiteralBegin :: _ => (lit_done q || u)%bool | _ => true end.

Lemma uinv_step allow q u s c k' fs s' :
  inv q s = true -> uinv q u s = true -> step allow (mkctl q u) s c = Some (k', fs) ->
  apply_finds s fs = Some s' -> uinv (c_st k') (c_unf k') s' = true.
Proof.
  intros Hi Hu H Ha.
  destruct q; cbn [inv] in Hi; unfold in_obj, in_arr, in_lit, in_key in Hi.
  all: brk_inv Hi.
  all: unfold_step_in H; cbn [app] in H; brk H; brk_inv Hi; inversion H; subst;
       cbn in Ha; inversion Ha; subst; cbn [c_st c_unf uinv lit_done orb]; try reflexivity;
       cbn [uinv lit_done] in Hu; rewrite ?orb_false_r in Hu; try exact Hu; rewrite ?orb_true_r; try reflexivity.
all: try (destruct s' as [|[] ?]; reflexivity).
Qed.

Lemma step_num_digit allow k s c k' fs : step allow k s c = Some (k', fs) ->
  lit_num (c_st k') = true -> is_digit c = true.
Proof.
  destruct k as [q u]. intros H Hn.
  destruct q; unfold_step_in H; cbn [app] in H; brk H; inversion H; subst;
    cbn [c_st lit_num] in Hn; try discriminate Hn; try assumption; bsolve.
Qed.

Lemma step_false_true k s c x : step false k s c = Some x -> step true k s c = Some x.
Proof.
  destruct k as [q u]. intros H.
  destruct q; unfold_step_in H; unfold step; cbn [c_st c_unf];
  unfold state0, found_value, begin_value, end_value, after_object_key, after_object_value, after_array_item,
    found_object_end, found_array_end, end_top, begin_string, expect, prepend, ret;
  brk H; try exact H; try discriminate H.
Qed.

Definition ends_nonscalar (fs : list ev) : bool :=
  match rev fs with ArrayEnd :: _ | ObjectEnd :: _ => true | _ => false end.

Lemma step_to_empty q u s c k' fs :
  inv q s = true -> step false (mkctl q u) s c = Some (k', fs) ->
  apply_finds s fs = Some [] -> is_root (c_st k') = false ->
  (fs = [] /\ s = [] /\ is_blank c = true) \/ (fs = [LiteralEnd] /\ is_blank c = true) \/
  ends_nonscalar fs = true.
Proof.
  intros Hi H Ha Hr.
  destruct q; cbn [inv] in Hi; unfold in_obj, in_arr, in_lit, in_key in Hi.
  all: brk_inv Hi.
  all: unfold_step_in H; cbn [app] in H; brk H; brk_inv Hi; inversion H; subst;
       cbn in Ha; try discriminate Ha; cbn [c_st is_root] in Hr; try discriminate Hr;
       auto.
Qed.

(* ================================================================== *)
(* 4. Len: trimming, invariants, the theorems                          *)
(* ================================================================== *)
(* ---- trimming ---- *)
Definition trim_trailing_blanks (bs : bytes) : bytes := rev (trim_blank_rev (rev bs)).
Definition ends_closed (bs : bytes) : bool :=
  match trim_blank_rev (rev bs) with
  | c :: _ => (ch c 93 || ch c 125 || ch c 34)%bool
  | [] => false
  end.

Lemma trim_length bs : length (trim_trailing_blanks bs) = length (trim_blank_rev (rev bs)).
Proof. unfold trim_trailing_blanks. apply rev_length. Qed.

Lemma trim_blank_rev_app b : forall l, forallb is_blank b = true ->
  trim_blank_rev (b ++ l) = trim_blank_rev l.
Proof.
  induction b as [|c r IH]; intros l H; [reflexivity|].
  cbn [forallb] in H. apply andb_true_iff in H. destruct H as [H1 H2].
  cbn [app trim_blank_rev]. rewrite H1. apply IH. exact H2.
Qed.

Lemma all_blank_rev b : all_blank b = true -> forallb is_blank (rev b) = true.
Proof.
  unfold all_blank. rewrite !forallb_forall. intros H x Hx. apply H. apply in_rev. exact Hx.
Qed.

Lemma all_blank_app a b : all_blank (a ++ b) = (all_blank a && all_blank b)%bool.
Proof. apply forallb_app. Qed.

Lemma trim_app_blank a b : all_blank b = true ->
  trim_blank_rev (rev (a ++ b)) = trim_blank_rev (rev a).
Proof. intros H. rewrite rev_app_distr. apply trim_blank_rev_app. apply all_blank_rev. exact H. Qed.

Lemma firstn_length_app {A} (a b : list A) : firstn (length a) (a ++ b) = a.
Proof. induction a as [|x a IH]; cbn [length firstn app]; [destruct b; reflexivity|]. rewrite IH. reflexivity. Qed.

(* ---- length_loop ---- *)
Lemma length_loop_app A : forall B len, has_endtop A = false ->
  length_loop (A ++ B) len = length_loop B (length_loop A len).
Proof.
  induction A as [|x r IH]; intros B len H; [reflexivity|].
  unfold has_endtop in H. cbn [map mem_endtop existsb] in H. apply orb_false_iff in H. destruct H as [H1 H2].
  cbn [app length_loop]. destruct (e_type x); try (apply IH; exact H2). discriminate H1.
Qed.

Lemma length_loop_endtop A j B len : has_endtop A = false ->
  length_loop (A ++ mkev EndTop j j :: B) len = j.
Proof. intros H. rewrite length_loop_app by exact H. reflexivity. Qed.

Lemma length_loop_snoc A x len : has_endtop A = false -> is_endtop (e_type x) = false ->
  length_loop (A ++ [x]) len = (e_end x + 1)%N.
Proof.
  intros H Hx. rewrite length_loop_app by exact H. cbn [length_loop].
  destruct (e_type x); try reflexivity. discriminate Hx.
Qed.

(* ---- doc_len ---- *)
Lemma doc_len_fst allow bs : fst (doc_len allow bs) = check allow bs.
Proof.
  unfold doc_len, check. destruct (scan allow bs) as [evs o].
  pose proof (upto_endtop_snd evs) as H1. pose proof (upto_endtop_fst evs) as H2.
  destruct (upto_endtop evs) as [pre stopped]. cbn [fst snd] in *. subst stopped.
  destruct (has_endtop evs); [reflexivity|]. rewrite (H2 eq_refl).
  destruct o; try reflexivity. destruct evs; reflexivity.
Qed.

Definition len_of (allow : bool) (bs : bytes) : N :=
  N.of_nat (length (trim_blank_rev (frev (firstn (N.to_nat (length_loop (fst (scan allow bs)) 0%N)) bs)))).

Lemma doc_len_snd allow bs : check allow bs = VOk -> doc_len allow bs = (VOk, len_of allow bs).
Proof.
  intros H. rewrite <- doc_len_fst in H. revert H. unfold doc_len, len_of.
  destruct (scan allow bs) as [evs o]. cbn [fst].
  destruct (upto_endtop evs) as [pre stopped].
  destruct stopped; [reflexivity|].
  destruct o; cbn [fst]; try discriminate. destruct evs; [discriminate|reflexivity].
Qed.

Theorem len_error_when_no_document : forall bs, check true bs <> VOk ->
  exists c p, fst (doc_len true bs) = VErr c p.
Proof.
  intros bs H. rewrite doc_len_fst. pose proof (check_no_panic true bs) as Hp.
  destruct (check true bs) as [|c p|]; [congruence| |congruence]. exists c, p. reflexivity.
Qed.

(* ---- more invariants ---- *)
Definition Iroot (pre : bytes) (k : cfg) (E : list lexev) : Prop :=
  is_root (c_st (k_ctl k)) = true -> E = [] /\ k_stk k = [].

Lemma Iroot_step allow pre k E c ctl' fs stk' evs :
  Iroot pre k E -> step allow (k_ctl k) (map fst (k_stk k)) c = Some (ctl', fs) ->
  pf (N.of_nat (length pre)) (k_stk k) fs = Some (stk', evs) ->
  Iroot (pre ++ [c]) (mkcfg ctl' stk') (E ++ evs).
Proof.
  unfold Iroot. cbn [k_ctl k_stk]. intros H Hs Hp Hr.
  destruct (step_root _ _ _ _ _ _ Hs) as [R1 _]. destruct (R1 Hr) as [Rk Rf].
  subst fs. cbn [pf] in Hp. inversion Hp; subst. destruct (H Rk) as [-> ->]. auto.
Qed.

Definition Iu (pre : bytes) (k : cfg) (E : list lexev) : Prop :=
  uinv (c_st (k_ctl k)) (c_unf (k_ctl k)) (map fst (k_stk k)) = true.

Lemma Iu_step allow pre k E c ctl' fs stk' evs :
  Iinv pre k E -> Iu pre k E -> step allow (k_ctl k) (map fst (k_stk k)) c = Some (ctl', fs) ->
  pf (N.of_nat (length pre)) (k_stk k) fs = Some (stk', evs) ->
  Iu (pre ++ [c]) (mkcfg ctl' stk') (E ++ evs).
Proof.
  unfold Iinv, invc, Iu. cbn [k_ctl k_stk]. intros Hi Hu Hs Hp.
  destruct (k_ctl k) as [q u]. cbn [c_st c_unf] in *.
  destruct (pf_proj _ _ _ _ _ Hp) as [P1 _].
  exact (uinv_step allow q u _ c ctl' fs _ Hi Hu Hs P1).
Qed.

Definition Ilast (pre : bytes) (k : cfg) (E : list lexev) : Prop :=
  lit_num (c_st (k_ctl k)) = true -> exists p c, pre = p ++ [c] /\ is_digit c = true.

Lemma Ilast_step allow pre k E c ctl' fs stk' evs :
  Ilast pre k E -> step allow (k_ctl k) (map fst (k_stk k)) c = Some (ctl', fs) ->
  pf (N.of_nat (length pre)) (k_stk k) fs = Some (stk', evs) ->
  Ilast (pre ++ [c]) (mkcfg ctl' stk') (E ++ evs).
Proof.
  unfold Ilast. cbn [k_ctl]. intros _ Hs _ Hn. exists pre, c. split; [reflexivity|].
  exact (step_num_digit _ _ _ _ _ _ Hs Hn).
Qed.

(* where the last event ends, once the top-level value is complete *)
Definition Ilen (pre : bytes) (k : cfg) (E : list lexev) : Prop :=
  k_stk k = [] -> is_root (c_st (k_ctl k)) = false ->
  exists a b, pre = a ++ b /\ N.of_nat (length a) = length_loop E 0%N /\ all_blank b = true.

Lemma ends_nonscalar_split fs : ends_nonscalar fs = true ->
  exists f0 e, fs = f0 ++ [e] /\ (e = ArrayEnd \/ e = ObjectEnd).
Proof.
  unfold ends_nonscalar. intros H. destruct (rev fs) as [|e l] eqn:E; [discriminate H|].
  exists (rev l), e. split.
  - rewrite <- (rev_involutive fs), E. reflexivity.
  - destruct e; try discriminate H; auto.
Qed.

Lemma pf_ends_nonscalar i fs stk stk' evs : ends_nonscalar fs = true ->
  pf i stk fs = Some (stk', evs) ->
  exists l x, evs = l ++ [x] /\ e_end x = i /\ is_endtop (e_type x) = false.
Proof.
  intros He Hp. destruct (ends_nonscalar_split fs He) as [f0 [e [-> Hee]]].
  rewrite pf_app in Hp. destruct (pf i stk f0) as [[s1 l1]|]; [|discriminate Hp].
  cbn [pf] in Hp. destruct (process_found i s1 e) as [[s2 x]|] eqn:Ef; [|discriminate Hp].
  inversion Hp; subst. exists l1, x. split; [reflexivity|].
  assert (Ho : opn e = false) by (destruct Hee as [-> | ->]; reflexivity).
  destruct (process_found_close i s1 e stk' x Ho Ef) as [p [b [_ [Ht [_ [_ [Hn Hpair]]]]]]].
  rewrite Ht. split; [|destruct Hee as [-> | ->]; reflexivity].
  apply Hn. destruct Hee as [-> | ->]; destruct p; try discriminate Hpair; reflexivity.
Qed.

Lemma map_fst_nil {A B} (l : list (A * B)) : map fst l = [] -> l = [].
Proof. destruct l; [reflexivity|discriminate]. Qed.

Lemma Ilen_step pre k E c ctl' fs stk' evs :
  Iinv pre k E -> Ispan pre k E -> Inoend pre k E -> Ilen pre k E ->
  step false (k_ctl k) (map fst (k_stk k)) c = Some (ctl', fs) ->
  pf (N.of_nat (length pre)) (k_stk k) fs = Some (stk', evs) ->
  Ilen (pre ++ [c]) (mkcfg ctl' stk') (E ++ evs).
Proof.
  unfold Iinv, invc, Inoend, Ilen. cbn [k_ctl k_stk]. intros Hi [_ Hsp] Hn Hl Hs Hp Hk Hr.
  subst stk'. destruct (pf_proj _ _ _ _ _ Hp) as [P1 P2]. cbn [map] in P1.
  destruct (k_ctl k) as [q u] eqn:Ek. cbn [c_st] in Hi.
  destruct (step_to_empty q u _ c ctl' fs Hi Hs P1 Hr) as [[Hf [Hs0 Hb]]|[[Hf Hb]|He]].
  - rewrite Hf in Hp. cbn [pf] in Hp. inversion Hp; subst evs. rewrite app_nil_r.
    apply map_fst_nil in Hs0.
    assert (Hr0 : is_root q = false).
    { destruct (is_root q) eqn:Er; [|reflexivity]. exfalso.
      destruct (step_root _ _ _ _ _ _ Hs) as [_ R2]. apply (R2 Er Hr). exact Hf. }
    destruct (Hl Hs0 Hr0) as [a [b [Hpre [Hlen Hbl]]]].
    exists a, (b ++ [c]). split; [rewrite Hpre, app_assoc; reflexivity|]. split; [exact Hlen|].
    rewrite all_blank_app, Hbl. cbn. rewrite Hb. reflexivity.
  - rewrite Hf in Hp. cbn [pf] in Hp.
    destruct (process_found (N.of_nat (length pre)) (k_stk k) LiteralEnd) as [[s2 x]|] eqn:Ef; [|discriminate Hp].
    inversion Hp; subst s2 evs.
    destruct (process_found_close _ _ LiteralEnd _ _ eq_refl Ef) as [p [b [Hst [Ht [_ [He [_ Hpair]]]]]]].
    assert (Hend : e_end x = (N.of_nat (length pre) - 1)%N).
    { destruct He as [He|He]; [|exact He]. exfalso.
      cbn [process_found is_opening] in Ef. rewrite Hst in Ef.
      destruct (nonscalar_pair p LiteralEnd) eqn:E1; [destruct p; discriminate E1|].
      destruct (scalar_pair p LiteralEnd); [|discriminate Ef]. inversion Ef; subst x.
      cbn [e_end] in He. rewrite Hst in Hsp. inversion Hsp as [|? ? Hb1 _]; subst.
      unfold below in Hb1. cbn [snd] in Hb1. lia. }
    rewrite Hst in Hsp. inversion Hsp as [|? ? Hb1 _]; subst. unfold below in Hb1. cbn [snd] in Hb1.
    exists pre, [c]. split; [reflexivity|]. split.
    + rewrite length_loop_snoc; [rewrite Hend; lia|exact Hn|rewrite Ht; reflexivity].
    + cbn. rewrite Hb. reflexivity.
  - destruct (pf_ends_nonscalar _ _ _ _ _ He Hp) as [l [x [-> [Hx Hxt]]]].
    exists (pre ++ [c]), []. split; [rewrite app_nil_r; reflexivity|]. split; [|reflexivity].
    rewrite app_assoc, length_loop_snoc; [rewrite Hx, app_length; cbn [length]; lia| |exact Hxt].
    assert (Hne : has_endtop (l ++ [x]) = false).
    { unfold has_endtop. rewrite P2. apply (step_false_no_endtop _ _ _ _ _ Hs). }
    rewrite has_endtop_app in Hne |- *. apply orb_false_iff in Hne. destruct Hne as [Hne _].
    rewrite Hn, Hne. reflexivity.
Qed.

(* ---- the run over an accepted document ---- *)
Definition Iall (pre : bytes) (k : cfg) (E : list lexev) : Prop :=
  Iinv pre k E /\ Ispan pre k E /\ Inoend pre k E /\ Ilen pre k E /\ Iroot pre k E /\ Iu pre k E /\
  Ilast pre k E.

Lemma Iall_step pre k E c ctl' fs stk' evs :
  Iall pre k E -> step false (k_ctl k) (map fst (k_stk k)) c = Some (ctl', fs) ->
  pf (N.of_nat (length pre)) (k_stk k) fs = Some (stk', evs) ->
  Iall (pre ++ [c]) (mkcfg ctl' stk') (E ++ evs).
Proof.
  intros [A [B [C [D [F [G H]]]]]] Hs Hp.
  split; [eapply Iinv_step; eassumption|].
  split; [eapply Ispan_step; eassumption|].
  split; [eapply Inoend_step; eassumption|].
  split; [eapply Ilen_step; eassumption|].
  split; [eapply Iroot_step; eassumption|].
  split; [eapply Iu_step; eassumption|].
  eapply Ilast_step; eassumption.
Qed.

Lemma Iall0 : Iall [] cfg0 [].
Proof.
  split; [reflexivity|]. split; [split; constructor|]. split; [reflexivity|].
  split; [intros _ H; discriminate H|]. split; [intros _; split; reflexivity|].
  split; [reflexivity|]. intros H; discriminate H.
Qed.

Lemma accepted_run doc : check false doc = VOk ->
  exists E k, run false cfg0 0%N doc [] = (E, Done, k, N.of_nat (length doc)) /\ Iall doc k E /\
    is_root (c_st (k_ctl k)) = false /\
    ((k_stk k = [] /\ scan false doc = (E, Done)) \/
     (exists b, k_stk k = [(LiteralBegin, b)] /\ c_unf (k_ctl k) = false /\
                scan false doc = (E ++ [mkev LiteralEnd b (N.of_nat (length doc) - 1)%N], Done))).
Proof.
  intros Hc. rewrite check_verdict in Hc. pose proof (scan_false_no_endtop doc) as Hne.
  unfold verdict_of in Hc. rewrite Hne in Hc. pose proof (scan_cases false doc) as Hsc.
  destruct (run_invariant0 false Iall Iall_step doc Iall0) as [pre' [suf [Hb [HI [Hidx Hd]]]]].
  destruct (run false cfg0 0%N doc []) as [[[E o] k] idx].
  unfold r_out, r_cfg, r_idx, r_evs in *. cbn [fst snd] in *.
  destruct o.
  - specialize (Hd eq_refl). subst suf. rewrite app_nil_r in Hb. subst pre'. subst idx.
    exists E, k. split; [reflexivity|]. split; [exact HI|].
    destruct HI as [Hi [_ [_ [_ [Hroot _]]]]].
    rewrite frev_rev in Hsc.
    destruct (tail3_cases k (N.of_nat (length doc)) (N.of_nat (length doc)) (rev E) Hi)
      as [[Hk Ht]|[[b [Hk [Hu Ht]]]|[c [p [more [Ht _]]]]]];
      rewrite Ht, rev_involutive in Hsc; rewrite Hsc in Hc; cbn [fst snd] in Hc.
    + split.
      * destruct (is_root (c_st (k_ctl k))) eqn:Er; [|reflexivity].
        destruct (Hroot Er) as [HE _]. subst E. discriminate Hc.
      * left. auto.
    + split.
      * destruct (is_root (c_st (k_ctl k))) eqn:Er; [|reflexivity].
        destruct (Hroot Er) as [_ HE]. rewrite HE in Hk. discriminate Hk.
      * right. exists b. auto.
    + discriminate Hc.
  - rewrite Hsc in Hc. discriminate Hc.
  - rewrite Hsc in Hc. discriminate Hc.
Qed.

Lemma run_true_of_false bs : forall k idx acc0,
  r_out (run false k idx bs acc0) = Done -> run true k idx bs acc0 = run false k idx bs acc0.
Proof.
  induction bs as [|c r IH]; intros k idx acc0; cbn [run]; [reflexivity|].
  destruct (step false (k_ctl k) (map fst (k_stk k)) c) as [[ctl' fs]|] eqn:Es.
  - rewrite (step_false_true _ _ _ _ Es).
    destruct (process_finds idx (k_stk k) fs []) as [[stk' evs]|]; [apply IH|].
    unfold r_out; cbn [fst snd]. discriminate.
  - unfold r_out; cbn [fst snd]. discriminate.
Qed.

Lemma run_true_accepted doc : check false doc = VOk ->
  run true cfg0 0%N doc [] = run false cfg0 0%N doc [].
Proof.
  intros Hc. destruct (accepted_run doc Hc) as [E [k [HR _]]].
  apply run_true_of_false. rewrite HR. reflexivity.
Qed.

Theorem len_of_document_alone : forall doc, check false doc = VOk ->
  doc_len true doc = (VOk, N.of_nat (length (trim_trailing_blanks doc))) /\
  doc_len false doc = (VOk, N.of_nat (length (trim_trailing_blanks doc))).
Proof.
  intros doc Hc.
  assert (Hfalse : doc_len false doc = (VOk, N.of_nat (length (trim_trailing_blanks doc)))).
  { destruct (accepted_run doc Hc) as [E [k [HR [HI [Hr Hcase]]]]].
    rewrite (doc_len_snd false doc Hc). f_equal. unfold len_of. rewrite trim_length, frev_rev.
    destruct HI as [_ [[_ Hsp] [Hn [Hl _]]]].
    destruct Hcase as [[Hk Hs]|[b [Hk [Hu Hs]]]]; rewrite Hs; cbn [fst].
    - destruct (Hl Hk Hr) as [a [b [Hd [Hlen Hbl]]]].
      rewrite <- Hlen, Nat2N.id, Hd, firstn_length_app, trim_app_blank by exact Hbl. reflexivity.
    - rewrite length_loop_snoc; [|exact Hn|reflexivity]. cbn [e_end].
      rewrite Hk in Hsp. inversion Hsp as [|? ? Hb1 _]; subst. unfold below in Hb1. cbn [snd] in Hb1.
      replace (N.to_nat (N.of_nat (length doc) - 1 + 1)) with (length doc) by lia.
      rewrite firstn_all. reflexivity. }
  split; [|exact Hfalse].
  rewrite <- Hfalse. unfold doc_len, scan. rewrite (run_true_accepted doc Hc). reflexivity.
Qed.

(* ---- a document followed by foreign text ---- *)
Lemma run_app allow a : forall b k idx acc0,
  run allow k idx (a ++ b) acc0 =
  match r_out (run allow k idx a acc0) with
  | Done => run allow (r_cfg (run allow k idx a acc0)) (r_idx (run allow k idx a acc0)) b
                (frev (r_evs (run allow k idx a acc0)))
  | _ => run allow k idx a acc0
  end.
Proof.
  induction a as [|c r IH]; intros b k idx acc0.
  - cbn [app]. unfold r_out, r_cfg, r_idx, r_evs. cbn [run fst snd]. rewrite frev_invol. reflexivity.
  - cbn [app run].
    destruct (step allow (k_ctl k) (map fst (k_stk k)) c) as [[ctl' fs]|]; [|reflexivity].
    destruct (process_finds idx (k_stk k) fs []) as [[stk' evs]|]; [apply IH|reflexivity].
Qed.

Definition topst (q : st) : bool := match q with SEndTop | EndValue => true | _ => false end.

Lemma step_top_blank allow q u c : topst q = true -> is_blank c = true ->
  step allow (mkctl q u) [] c = Some (mkctl SEndTop u, []).
Proof.
  intros Hq Hb. destruct q; try discriminate Hq; unfold step; cbn [c_st c_unf];
    unfold end_value, end_top; rewrite Hb; reflexivity.
Qed.

Lemma step_top_foreign q u c : topst q = true -> is_blank c = false ->
  step true (mkctl q u) [] c = Some (mkctl SEndTop u, [EndTop]).
Proof.
  intros Hq Hb. destruct q; try discriminate Hq; unfold step; cbn [c_st c_unf];
    unfold end_value, end_top; rewrite Hb; reflexivity.
Qed.

Lemma run_top_blanks sep : forall q u idx, all_blank sep = true -> topst q = true ->
  exists q', topst q' = true /\ forall bs acc0,
    run true (mkcfg (mkctl q u) []) idx (sep ++ bs) acc0 =
    run true (mkcfg (mkctl q' u) []) (idx + N.of_nat (length sep))%N bs acc0.
Proof.
  induction sep as [|c r IH]; intros q u idx Hb Hq.
  - exists q. split; [exact Hq|]. intros bs acc0. cbn [app length]. f_equal. lia.
  - cbn [all_blank forallb] in Hb. apply andb_true_iff in Hb. destruct Hb as [Hb1 Hb2].
    destruct (IH SEndTop u (N.succ idx) Hb2 eq_refl) as [q' [Hq' Hrun]].
    exists q'. split; [exact Hq'|]. intros bs acc0. cbn [app run k_ctl k_stk map].
    rewrite (step_top_blank true q u c Hq Hb1). cbn [process_finds]. rewrite Hrun.
    cbn [length]. f_equal. lia.
Qed.

Lemma run_top_foreign q u idx c rest acc0 : topst q = true -> is_blank c = false ->
  run true (mkcfg (mkctl q u) []) idx (c :: rest) acc0 =
  run true (mkcfg (mkctl SEndTop u) []) (N.succ idx) rest (mkev EndTop idx idx :: acc0).
Proof.
  intros Hq Hb. cbn [run k_ctl k_stk map]. rewrite (step_top_foreign q u c Hq Hb). reflexivity.
Qed.

Lemma top_foreign_events q u sep c rest idx acc0 :
  topst q = true -> all_blank sep = true -> is_blank c = false ->
  exists more, r_evs (run true (mkcfg (mkctl q u) []) idx (sep ++ c :: rest) acc0) =
               rev acc0 ++ mkev EndTop (idx + N.of_nat (length sep))%N (idx + N.of_nat (length sep))%N :: more.
Proof.
  intros Hq Hs Hc. destruct (run_top_blanks sep q u idx Hs Hq) as [q' [Hq' Hrun]].
  rewrite Hrun, (run_top_foreign q' u _ c rest acc0 Hq' Hc).
  match goal with |- context [run true ?k ?i rest ?a] => destruct (run_mono true rest k i a) as [more Hm] end.
  exists more. unfold r_evs. rewrite Hm. cbn [rev]. rewrite <- app_assoc. reflexivity.
Qed.

Lemma step_litdone_blank allow q u c : lit_done q = true -> is_blank c = true ->
  step allow (mkctl q u) [LiteralBegin] c = Some (mkctl SEndTop u, [LiteralEnd]).
Proof.
  intros Hq Hb.
  assert (H1 : is_digit c = false) by bsolve.
  assert (H2 : ch c 46 = false) by bsolve.
  assert (H3 : (ch c 101 || ch c 69)%bool = false) by bsolve.
  destruct q; try discriminate Hq; unfold step; cbn [c_st c_unf];
    unfold state0; rewrite ?H1, ?H2, ?H3; unfold end_value, end_top, prepend, ret; rewrite Hb; reflexivity.
Qed.

Lemma step_endvalue_foreign u c : is_blank c = false ->
  step true (mkctl EndValue u) [LiteralBegin] c = Some (mkctl SEndTop u, [LiteralEnd; EndTop]).
Proof.
  intros Hb. unfold step; cbn [c_st c_unf]. unfold end_value, end_top, prepend, ret. rewrite Hb. reflexivity.
Qed.

Lemma scan_evs_prefix allow bs :
  exists more, fst (scan allow bs) = r_evs (run allow cfg0 0%N bs []) ++ more.
Proof.
  rewrite scan_cases. destruct (r_out (run allow cfg0 0%N bs [])).
  - destruct (tail_spec 3 (r_cfg (run allow cfg0 0%N bs [])) (r_idx (run allow cfg0 0%N bs []))
                (r_idx (run allow cfg0 0%N bs [])) (frev (r_evs (run allow cfg0 0%N bs []))))
      as [more [H1 _]].
    exists more. rewrite H1, frev_rev, rev_involutive. reflexivity.
  - exists []. rewrite app_nil_r. reflexivity.
  - exists []. rewrite app_nil_r. reflexivity.
Qed.

Lemma doc_len_endtop allow bs A j more :
  fst (scan allow bs) = A ++ mkev EndTop j j :: more -> has_endtop A = false ->
  doc_len allow bs = (VOk, N.of_nat (length (trim_blank_rev (rev (firstn (N.to_nat j) bs))))).
Proof.
  intros H HA. unfold doc_len. destruct (scan allow bs) as [evs o]. cbn [fst] in H. subst evs.
  pose proof (upto_endtop_snd (A ++ mkev EndTop j j :: more)) as H1.
  destruct (upto_endtop (A ++ mkev EndTop j j :: more)) as [pre stopped]. cbn [snd] in H1. subst stopped.
  rewrite has_endtop_app. replace (has_endtop (mkev EndTop j j :: more)) with true by reflexivity.
  rewrite orb_true_r, (length_loop_endtop A j more 0%N HA), frev_rev. reflexivity.
Qed.

Lemma digit_not_closer c : is_digit c = true ->
  is_blank c = false /\ (ch c 93 || ch c 125 || ch c 34)%bool = false.
Proof.
  intros H. unfold ch, is_blank, is_digit in *. cbv zeta in *.
  generalize dependent (bN c). intros n H. split; lia.
Qed.

(* the events up to and including EndTop, for every way the document may end *)
Lemma foreign_events doc sep rest c :
  check false doc = VOk -> all_blank sep = true -> is_blank c = false ->
  (sep <> [] \/ ends_closed doc = true) ->
  exists A more, has_endtop A = false /\
    r_evs (run true cfg0 0%N (doc ++ sep ++ c :: rest) []) =
    A ++ mkev EndTop (N.of_nat (length doc + length sep)) (N.of_nat (length doc + length sep)) :: more.
Proof.
  intros Hc Hs Hb Hsep.
  destruct (accepted_run doc Hc) as [E [k [HR [HI [Hr Hcase]]]]].
  rewrite run_app, (run_true_accepted doc Hc), HR.
  unfold r_out, r_cfg, r_idx, r_evs. cbn [fst snd].
  destruct HI as [Hi [_ [Hn [_ [_ [Hu Hlast]]]]]].
  unfold Iinv, invc, Iu, Ilast, Inoend in *.
  destruct k as [[q u] stk]. cbn [k_ctl k_stk c_st c_unf] in *.
  replace (N.of_nat (length doc + length sep)) with (N.of_nat (length doc) + N.of_nat (length sep))%N by lia.
  destruct Hcase as [[Hk _]|[b [Hk [Hu0 _]]]]; subst stk.
  - (* the value is closed *)
    assert (Hq : topst q = true) by (destruct q; try discriminate Hi; try discriminate Hr; reflexivity).
    destruct (top_foreign_events q u sep c rest (N.of_nat (length doc)) (frev E) Hq Hs Hb) as [more Hm].
    exists E, more. split; [exact Hn|]. unfold r_evs in Hm. rewrite Hm, frev_rev, rev_involutive. reflexivity.
  - (* a top-level literal is still open *)
    subst u. cbn [map fst uinv] in Hu. rewrite orb_false_r in Hu.
    destruct sep as [|s0 sep'].
    + destruct Hsep as [Hsep|Hec]; [congruence|].
      assert (Hq : q = EndValue).
      { destruct (lit_num q) eqn:En; [|destruct q; try discriminate Hu; try discriminate En; reflexivity].
        exfalso. destruct (Hlast eq_refl) as [p [cl [Hd Hdig]]]. destruct (digit_not_closer cl Hdig) as [D1 D2].
        unfold ends_closed in Hec. rewrite Hd, rev_app_distr in Hec. cbn [rev app trim_blank_rev] in Hec.
        rewrite D1, D2 in Hec. discriminate Hec. }
      subst q. cbn [app run k_ctl k_stk map fst length].
      rewrite (step_endvalue_foreign false c Hb). cbn [process_finds process_found is_opening nonscalar_pair scalar_pair].
      match goal with |- context [run true ?k ?i rest ?a] => destruct (run_mono true rest k i a) as [more Hm] end.
      rewrite Hm. exists (E ++ [mkev LiteralEnd b (N.of_nat (length doc) - 1)%N]), more.
      split; [rewrite has_endtop_app, Hn; reflexivity|].
      rewrite rev_app_distr, !frev_rev, rev_involutive. cbn [rev app]. rewrite <- !app_assoc.
      cbn [app]. replace (N.of_nat (length doc) + N.of_nat 0)%N with (N.of_nat (length doc)) by lia.
      reflexivity.
    + cbn [all_blank forallb] in Hs. apply andb_true_iff in Hs. destruct Hs as [Hs1 Hs2].
      cbn [app run k_ctl k_stk map fst].
      rewrite (step_litdone_blank true q false s0 Hu Hs1).
      cbn [process_finds process_found is_opening nonscalar_pair scalar_pair].
      destruct (top_foreign_events SEndTop false sep' c rest (N.succ (N.of_nat (length doc)))
                  (frev (frev [mkev LiteralEnd b (N.of_nat (length doc) - 1)%N]) ++ frev E) eq_refl Hs2 Hb) as [more Hm].
      unfold r_evs in Hm. rewrite Hm.
      exists (E ++ [mkev LiteralEnd b (N.of_nat (length doc) - 1)%N]), more.
      split; [rewrite has_endtop_app, Hn; reflexivity|].
      rewrite rev_app_distr, !frev_rev, rev_involutive. cbn [rev app length]. rewrite <- !app_assoc.
      cbn [app].
      replace (N.succ (N.of_nat (length doc)) + N.of_nat (length sep'))%N
        with (N.of_nat (length doc) + N.of_nat (S (length sep')))%N by lia.
      reflexivity.
Qed.

Theorem len_of_document_then_foreign : forall doc sep rest c,
  check false doc = VOk ->
  all_blank sep = true -> is_blank c = false ->
  (sep <> [] \/ ends_closed doc = true) ->
  fst (doc_len true (doc ++ sep ++ c :: rest)) = VOk /\
  snd (doc_len true (doc ++ sep ++ c :: rest)) = N.of_nat (length (trim_trailing_blanks doc)).
Proof.
  intros doc sep rest c Hc Hs Hb Hsep.
  destruct (foreign_events doc sep rest c Hc Hs Hb Hsep) as [A [more [HA Hev]]].
  destruct (scan_evs_prefix true (doc ++ sep ++ c :: rest)) as [more2 Hsc].
  rewrite Hev, <- app_assoc in Hsc. cbn [app] in Hsc.
  rewrite (doc_len_endtop true _ A _ _ Hsc HA). cbn [fst snd]. split; [reflexivity|].
  rewrite Nat2N.id, app_assoc, <- app_length, firstn_length_app, trim_app_blank by exact Hs.
  rewrite trim_length. reflexivity.
Qed.
