(* ViableProofs.v — the position Document.Check (strict mode) reports is the offset of the
   first byte that cannot continue the text (property C17, parsing half).

   A byte string is [viable] when some continuation turns it into one RFC 8259 JSON text.
   1. [trun]: the types-only pushdown machine as a left-to-right fold; [run] and [acc]
      of Scanner.v / ScannerProofs.v both factor through it (prefix determinism);
   2. completion: every configuration that satisfies the reachable-stack invariant [inv] of
      ScannerProofs.v accepts some suffix (finish the current token, then close the stack);
   3. the three theorems, and examples. *)
From Coq Require Import List NArith Bool Arith Lia.
From Coq Require Import Strings.Byte.
From Coq Require Strings.String.
Import ListNotations.
From JS Require Import Common.Wire Json.Scanner Json.Grammar Json.ScannerProofs.

(* a byte string that some continuation turns into one RFC 8259 JSON text *)
Definition viable (p : bytes) : Prop := exists suffix, rfc8259 (p ++ suffix) = true.

(* ================================================================== *)
(* 1. the types-only machine as a fold                                 *)
(* ================================================================== *)
Inductive tres := TDone (k : ctl) (s : list ev) | TErr (n : nat) | TPanic.

(* [n] = index of the next byte *)
Fixpoint trun (k : ctl) (s : list ev) (n : nat) (bs : bytes) : tres :=
  match bs with
  | [] => TDone k s
  | c :: r =>
    match step false k s c with
    | None => TErr n
    | Some (k', fs) =>
      match apply_finds s fs with
      | None => TPanic
      | Some s' => trun k' s' (S n) r
      end
    end
  end.

Definition k0 : ctl := mkctl FoundRootValue false.

Lemma trun_app a : forall k s n b,
  trun k s n (a ++ b) =
  match trun k s n a with TDone k' s' => trun k' s' (n + length a) b | x => x end.
Proof.
  induction a as [|c a IH]; intros k s n b; cbn [app trun length].
  - rewrite Nat.add_0_r. reflexivity.
  - destruct (step false k s c) as [[k' fs]|]; [|reflexivity].
    destruct (apply_finds s fs) as [s'|]; [|reflexivity].
    rewrite IH. replace (S n + length a) with (n + S (length a)) by lia. reflexivity.
Qed.

(* strict mode never emits EndTop *)
Lemma strict_no_endtop allow k s c k' fs :
  step allow k s c = Some (k', fs) -> allow = false -> mem_endtop fs = false.
Proof.
  destruct k as [q u]. intros H Ha.
  destruct q; unfold_step_in H; brk H; inversion H; subst; try reflexivity; discriminate.
Qed.

(* prefix determinism of acceptance *)
Lemma acc_trun a : forall k s n b,
  acc false k s (a ++ b) =
  match trun k s n a with TDone k' s' => acc false k' s' b | _ => false end.
Proof.
  induction a as [|c a IH]; intros k s n b; cbn [app trun]; [reflexivity|].
  rewrite acc_cons.
  destruct (step false k s c) as [[k' fs]|] eqn:Es; [|reflexivity].
  destruct (apply_finds s fs) as [s'|]; [|reflexivity].
  rewrite (strict_no_endtop false _ _ _ _ _ Es eq_refl). apply IH.
Qed.

Lemma acc_via a k s b k' s' :
  trun k s 0 a = TDone k' s' -> acc false k' s' b = true -> acc false k s (a ++ b) = true.
Proof. intros Ht Ha. rewrite (acc_trun a k s 0 b), Ht. exact Ha. Qed.

(* the real machine projects to the fold *)
Lemma run_trun bs : forall k n acc0,
  match trun (k_ctl k) (map fst (k_stk k)) n bs with
  | TDone k' s' =>
    r_out (run false k (N.of_nat n) bs acc0) = Done /\
    k_ctl (r_cfg (run false k (N.of_nat n) bs acc0)) = k' /\
    map fst (k_stk (r_cfg (run false k (N.of_nat n) bs acc0))) = s'
  | TErr m => r_out (run false k (N.of_nat n) bs acc0) = Err code_invalid_character (N.of_nat m)
  | TPanic => r_out (run false k (N.of_nat n) bs acc0) = Panic
  end.
Proof.
  induction bs as [|c r IH]; intros k n acc0; cbn [trun run].
  - unfold r_out, r_cfg; cbn [fst snd]. auto.
  - destruct (step false (k_ctl k) (map fst (k_stk k)) c) as [[ctl' fs]|].
    + pose proof (process_finds_proj (N.of_nat n) fs (k_stk k) []) as Hp.
      destruct (process_finds (N.of_nat n) (k_stk k) fs []) as [[stk' evs]|].
      * destruct Hp as [Hp _]. rewrite Hp. rewrite <- Nat2N.inj_succ.
        specialize (IH (mkcfg ctl' stk') (S n) (frev evs ++ acc0)).
        cbn [k_ctl k_stk] in IH. exact IH.
      * rewrite Hp. reflexivity.
    + reflexivity.
Qed.

(* an error of the fold splits the input at the offending byte *)
Lemma trun_err bs : forall k s n m, trun k s n bs = TErr m ->
  exists pre c rest k' s', bs = pre ++ c :: rest /\ m = n + length pre /\
     trun k s n pre = TDone k' s' /\ step false k' s' c = None.
Proof.
  induction bs as [|c r IH]; intros k s n m H; cbn [trun] in H; [discriminate|].
  destruct (step false k s c) as [[k1 fs]|] eqn:Es.
  - destruct (apply_finds s fs) as [s1|] eqn:Ea; [|discriminate].
    destruct (IH _ _ _ _ H) as (pre & c' & rest & k' & s' & Hb & Hm & Ht & Hs).
    exists (c :: pre), c', rest, k', s'. split; [rewrite Hb; reflexivity|].
    split; [cbn [length]; lia|].
    split; [|exact Hs]. cbn [trun]. rewrite Es, Ea. exact Ht.
  - inversion H; subst. exists [], c, r, k, s. cbn [length app trun].
    repeat split; try reflexivity; try assumption. lia.
Qed.

(* the reachable-stack invariant along the fold *)
Lemma trun_inv bs : forall k s n, inv (c_st k) s = true ->
  trun k s n bs <> TPanic /\
  forall k' s', trun k s n bs = TDone k' s' -> inv (c_st k') s' = true.
Proof.
  induction bs as [|c r IH]; intros k s n Hi; cbn [trun].
  - split; [discriminate|]. intros k' s' H; inversion H; subst; exact Hi.
  - destruct k as [q u]. cbn [c_st] in Hi.
    destruct (step false (mkctl q u) s c) as [[k1 fs]|] eqn:Es.
    + destruct (inv_step false q u s c k1 fs Hi Es) as [s1 [Ha Hi1]]. rewrite Ha.
      apply IH. exact Hi1.
    + split; discriminate.
Qed.

(* ================================================================== *)
(* 2. completion                                                       *)
(* ================================================================== *)
(* close the stack of open containers *)
Lemma close_stack u : forall n t, length t <= n -> vstk t = true ->
  exists suf, acc false (mkctl EndValue u) t suf = true.
Proof.
  induction n as [|n IH]; intros t Hl Hv.
  - destruct t; [|cbn [length] in Hl; lia]. exists []. reflexivity.
  - destruct t as [|a [|b t']]; [exists []; reflexivity|discriminate Hv|].
    rewrite vstk_cons in Hv. apply andb_true_iff in Hv. destruct Hv as [Hf Hv].
    cbn [length] in Hl. assert (Hl' : length t' <= n) by lia.
    destruct (IH t' Hl' Hv) as [suf Hs].
    destruct a; try discriminate Hf; destruct b; try discriminate Hf.
    + exists ([x7d] ++ suf).
      apply (acc_via [x7d] _ _ suf (mkctl EndValue u) t'); [reflexivity|exact Hs].
    + exists ([x5d] ++ suf).
      apply (acc_via [x5d] _ _ suf (mkctl EndValue u) t'); [reflexivity|exact Hs].
Qed.

Lemma close_vstk u t : vstk t = true -> exists suf, acc false (mkctl EndValue u) t suf = true.
Proof. apply (close_stack u (length t)). lia. Qed.

(* states in which a literal may end *)
Definition lit_end (q : st) : bool :=
  match q with EndValue | S0 | S1 | Dot0 | E0 => true | _ => false end.

Lemma complete_lit q u t : lit_end q = true -> vstk t = true ->
  exists suf, acc false (mkctl q u) (LiteralBegin :: t) suf = true.
Proof.
  intros Hq Hv.
  destruct t as [|a [|b t']]; [|discriminate Hv|].
  - exists [x20]. destruct q; try discriminate Hq; reflexivity.
  - rewrite vstk_cons in Hv. apply andb_true_iff in Hv. destruct Hv as [Hf Hv].
    destruct (close_vstk u t' Hv) as [suf Hs].
    destruct a; try discriminate Hf; destruct b; try discriminate Hf.
    + exists ([x7d] ++ suf).
      apply (acc_via [x7d] _ _ suf (mkctl EndValue u) t'); [|exact Hs].
      destruct q; try discriminate Hq; reflexivity.
    + exists ([x5d] ++ suf).
      apply (acc_via [x5d] _ _ suf (mkctl EndValue u) t'); [|exact Hs].
      destruct q; try discriminate Hq; reflexivity.
Qed.

(* an object key has just ended: ":0}" *)
Lemma complete_key u t : vstk t = true ->
  exists suf, acc false (mkctl EndValue u) (ObjectKeyBegin :: ObjectBegin :: t) suf = true.
Proof.
  intros Hv. destruct (close_vstk u t Hv) as [suf Hs].
  exists ([x3a; x30; x7d] ++ suf).
  apply (acc_via [x3a; x30; x7d] _ _ suf (mkctl EndValue u) t); [reflexivity|exact Hs].
Qed.

Lemma complete_litend q u s : lit_end q = true -> inv q s = true ->
  exists suf, acc false (mkctl q u) s suf = true.
Proof.
  intros Hq Hi.
  assert (H : vstk s = true \/ in_lit s = true \/ (q = EndValue /\ in_key s = true)).
  { destruct q; try discriminate Hq; cbn [inv] in Hi; auto.
    destruct (vstk s); [auto|]. destruct (in_lit s); [auto|]. cbn [orb] in Hi. auto. }
  destruct H as [H|[H|[-> H]]].
  - destruct q; try discriminate Hq.
    + apply close_vstk. exact H.
    + cbn [inv] in Hi. destruct s as [|[] t]; try discriminate Hi.
      apply complete_lit; [reflexivity|exact Hi].
    + cbn [inv] in Hi. destruct s as [|[] t]; try discriminate Hi.
      apply complete_lit; [reflexivity|exact Hi].
    + cbn [inv] in Hi. destruct s as [|[] t]; try discriminate Hi.
      apply complete_lit; [reflexivity|exact Hi].
    + cbn [inv] in Hi. destruct s as [|[] t]; try discriminate Hi.
      apply complete_lit; [reflexivity|exact Hi].
  - destruct s as [|[] t]; try discriminate H. apply complete_lit; [exact Hq|exact H].
  - destruct s as [|[] [|[] t]]; try discriminate H. apply complete_key. exact H.
Qed.

(* finish the token the machine is inside of *)
Definition lit_fin (q : st) : bytes :=
  match q with
  | InString => [x22]
  | InStringEsc => [x22; x22]
  | InStringEscU => [x30; x30; x30; x30; x22]
  | InStringEscU1 => [x30; x30; x30; x22]
  | InStringEscU12 => [x30; x30; x22]
  | InStringEscU123 => [x30; x22]
  | Neg | Dot | SE | ESign => [x30]
  | ST => [x72; x75; x65] | STr => [x75; x65] | STru => [x65]
  | SF => [x61; x6c; x73; x65] | SFa => [x6c; x73; x65] | SFal => [x73; x65] | SFals => [x65]
  | SN => [x75; x6c; x6c] | SNu => [x6c; x6c] | SNul => [x6c]
  | _ => []
  end.

Definition in_token (q : st) : bool :=
  match q with
  | InString | InStringEsc | InStringEscU | InStringEscU1 | InStringEscU12 | InStringEscU123
  | Neg | Dot | SE | ESign | ST | STr | STru | SF | SFa | SFal | SFals | SN | SNu | SNul => true
  | _ => false
  end.

Lemma lit_fin_ok q u s : in_token q = true -> inv q s = true ->
  exists q' u', trun (mkctl q u) s 0 (lit_fin q) = TDone (mkctl q' u') s /\
                lit_end q' = true /\ inv q' s = true.
Proof.
  intros Hq Hi.
  destruct q; try discriminate Hq; cbn [lit_fin].
  1-6: (exists EndValue, false; split; [reflexivity|split; [reflexivity|]];
        cbn [inv] in *; destruct (vstk s); destruct (in_lit s); destruct (in_key s);
        try reflexivity; discriminate Hi).
  1: (exists S0, false; split; [reflexivity|split; [reflexivity|exact Hi]]).
  1: (exists Dot0, false; split; [reflexivity|split; [reflexivity|exact Hi]]).
  1-2: (exists E0, false; split; [reflexivity|split; [reflexivity|exact Hi]]).
  all: (exists EndValue, false; split; [reflexivity|split; [reflexivity|]];
        cbn [inv] in *; rewrite Hi; destruct (vstk s); reflexivity).
Qed.

Lemma complete_token q u s : in_token q = true -> inv q s = true ->
  exists suf, acc false (mkctl q u) s suf = true.
Proof.
  intros Hq Hi.
  destruct (lit_fin_ok q u s Hq Hi) as (q' & u' & Ht & Hq' & Hi').
  destruct (complete_litend q' u' s Hq' Hi') as [suf Hs].
  exists (lit_fin q ++ suf). apply (acc_via _ _ _ _ _ _ Ht Hs).
Qed.

(* positions inside an object / an array *)
Lemma complete_obj q u u' t bs :
  vstk t = true ->
  trun (mkctl q u) (ObjectBegin :: t) 0 bs = TDone (mkctl EndValue u') t ->
  exists suf, acc false (mkctl q u) (ObjectBegin :: t) suf = true.
Proof.
  intros Hv Ht. destruct (close_vstk u' t Hv) as [suf Hs].
  exists (bs ++ suf). apply (acc_via _ _ _ _ _ _ Ht Hs).
Qed.

Lemma complete_arr q u u' t bs :
  vstk t = true ->
  trun (mkctl q u) (ArrayBegin :: t) 0 bs = TDone (mkctl EndValue u') t ->
  exists suf, acc false (mkctl q u) (ArrayBegin :: t) suf = true.
Proof.
  intros Hv Ht. destruct (close_vstk u' t Hv) as [suf Hs].
  exists (bs ++ suf). apply (acc_via _ _ _ _ _ _ Ht Hs).
Qed.

Theorem complete q u s : inv q s = true -> exists suf, acc false (mkctl q u) s suf = true.
Proof.
  intros Hi.
  destruct (in_token q) eqn:Et; [apply complete_token; assumption|].
  destruct (lit_end q) eqn:El; [apply complete_litend; assumption|].
  destruct q; try discriminate Et; try discriminate El; cbn [inv] in Hi.
  - (* FoundRootValue *) destruct s; [|discriminate Hi]. exists [x30; x20]. reflexivity.
  - (* FoundObjectKeyBeginOrEmpty *) destruct s as [|[] t]; try discriminate Hi.
    apply (complete_obj _ u u t [x7d] Hi). reflexivity.
  - (* FoundObjectKeyBegin *) destruct s as [|[] t]; try discriminate Hi.
    apply (complete_obj _ u false t [x22; x22; x3a; x30; x7d] Hi). reflexivity.
  - (* FoundObjectValueBegin *) destruct s as [|[] t]; try discriminate Hi.
    apply (complete_obj _ u u t [x30; x7d] Hi). reflexivity.
  - (* FoundArrayItemBeginOrEmpty *) destruct s as [|[] t]; try discriminate Hi.
    apply (complete_arr _ u u t [x5d] Hi). reflexivity.
  - (* FoundArrayItemBegin *) destruct s as [|[] t]; try discriminate Hi.
    apply (complete_arr _ u u t [x30; x5d] Hi). reflexivity.
  - (* AfterObjectKey *) destruct s as [|[] t]; try discriminate Hi.
    apply (complete_obj _ u u t [x3a; x30; x7d] Hi). reflexivity.
  - (* AfterObjectValue *) destruct s as [|[] t]; try discriminate Hi.
    apply (complete_obj _ u u t [x7d] Hi). reflexivity.
  - (* AfterArrayItem *) destruct s as [|[] t]; try discriminate Hi.
    apply (complete_arr _ u u t [x5d] Hi). reflexivity.
  - (* SEndTop *) destruct s; [|discriminate Hi]. exists []. reflexivity.
Qed.

(* ================================================================== *)
(* 3. viability in terms of the fold                                   *)
(* ================================================================== *)
Lemma rfc_acc bs : rfc8259 bs = true <-> acc false k0 [] bs = true.
Proof. rewrite <- check_strict_iff. apply check_acc. Qed.

Lemma reach_viable pre k s : trun k0 [] 0 pre = TDone k s -> viable pre.
Proof.
  intros Ht.
  destruct (trun_inv pre k0 [] 0 eq_refl) as [_ Hi]. specialize (Hi k s Ht).
  destruct k as [q u]. cbn [c_st] in Hi.
  destruct (complete q u s Hi) as [suf Hs].
  exists suf. apply rfc_acc. apply (acc_via _ _ _ _ _ _ Ht Hs).
Qed.

Lemma stuck_not_viable pre c k s :
  trun k0 [] 0 pre = TDone k s -> step false k s c = None -> ~ viable (pre ++ [c]).
Proof.
  intros Ht Hs [suf H]. apply rfc_acc in H.
  rewrite (acc_trun (pre ++ [c]) k0 [] 0 suf), trun_app, Ht in H.
  cbn [trun] in H. rewrite Hs in H. discriminate H.
Qed.

Lemma viable_firstn bs n : viable bs -> viable (firstn n bs).
Proof.
  intros [suf H]. exists (skipn n bs ++ suf). rewrite app_assoc, firstn_skipn. exact H.
Qed.

Lemma viable_firstn_le bs n m : n <= m -> viable (firstn m bs) -> viable (firstn n bs).
Proof.
  intros Hle H. replace (firstn n bs) with (firstn n (firstn m bs)).
  - apply viable_firstn. exact H.
  - rewrite firstn_firstn. rewrite Nat.min_l by exact Hle. reflexivity.
Qed.

Lemma skip_blank_app_blank p r : all_blank p = true -> skip_blank (p ++ r) = skip_blank r.
Proof.
  unfold all_blank. induction p as [|c p IH]; cbn [forallb app skip_blank]; [reflexivity|].
  intros H. apply andb_true_iff in H. destruct H as [Hc Hp]. rewrite Hc. apply IH. exact Hp.
Qed.

Lemma blank_viable p : all_blank p = true -> viable p.
Proof.
  intros H. exists [x30]. unfold rfc8259. rewrite (skip_blank_app_blank p [x30] H). reflexivity.
Qed.

Lemma firstn_pre {A} (a b : list A) : firstn (length a) (a ++ b) = a.
Proof.
  rewrite firstn_app, Nat.sub_diag, firstn_all. cbn [firstn]. apply app_nil_r.
Qed.

Lemma firstn_pre1 {A} (a : list A) c b : firstn (S (length a)) (a ++ c :: b) = a ++ [c].
Proof.
  rewrite firstn_app. rewrite firstn_all2 by lia.
  replace (S (length a) - length a) with 1 by lia. reflexivity.
Qed.

(* ================================================================== *)
(* 4. the end-of-input rule and the empty text                         *)
(* ================================================================== *)
Lemma tail_code f : forall k i sz acc0 c p,
  snd (tail f k i sz acc0) = Err c p -> c = code_unexpected_eof.
Proof.
  induction f as [|f IH]; intros k i sz acc0 c p; cbn [tail]; [discriminate|].
  destruct (k_stk k) as [|[e b] rest]; [discriminate|].
  destruct e; try (intros H; inversion H; reflexivity).
  destruct (c_unf (k_ctl k)); [intros H; inversion H; reflexivity|]. apply IH.
Qed.

(* a run from the root position that delivers no event has seen blanks only *)
Lemma run_root_noev bs : forall u idx,
  r_out (run false (mkcfg (mkctl FoundRootValue u) []) idx bs []) = Done ->
  fst (fst (fst (run false (mkcfg (mkctl FoundRootValue u) []) idx bs []))) = [] ->
  all_blank bs = true.
Proof.
  induction bs as [|c r IH]; intros u idx Ho He; [reflexivity|].
  unfold all_blank. cbn [forallb].
  destruct (is_blank c) eqn:Eb.
  - cbn [andb].
    assert (Erun : run false (mkcfg (mkctl FoundRootValue u) []) idx (c :: r) [] =
                   run false (mkcfg (mkctl FoundRootValue u) []) (N.succ idx) r []).
    { cbn [run k_ctl k_stk map]. rewrite (blank_self false FoundRootValue u [] c eq_refl Eb).
      reflexivity. }
    rewrite Erun in Ho, He. exact (IH u (N.succ idx) Ho He).
  - exfalso. cbn [run k_ctl k_stk map] in Ho, He.
    destruct (step false (mkctl FoundRootValue u) [] c) as [[k1 fs]|] eqn:Es;
      [|unfold r_out in Ho; cbn [fst snd] in Ho; discriminate Ho].
    assert (Hfs : fs <> []).
    { unfold step in Es. cbn [c_st c_unf] in Es. unfold found_value, begin_value in Es.
      rewrite Eb in Es. unfold ret in Es. brk Es; inversion Es; subst; discriminate. }
    pose proof (process_finds_proj idx fs [] []) as Hp.
    destruct (process_finds idx [] fs []) as [[stk' evs]|];
      [|unfold r_out in Ho; cbn [fst snd] in Ho; discriminate Ho].
    destruct Hp as [_ Hp]. cbn [rev map app] in Hp.
    destruct (run_mono false r (mkcfg k1 stk') (N.succ idx) (frev evs ++ [])) as [more Hm].
    rewrite Hm in He. apply app_eq_nil in He. destruct He as [He _].
    rewrite app_nil_r, frev_rev, rev_involutive in He. subst evs. cbn [map] in Hp.
    apply Hfs. symmetry. exact Hp.
Qed.

(* ================================================================== *)
(* 5. the theorems                                                     *)
(* ================================================================== *)
(* Document.Check (strict mode): the reported position is the offset of the first byte that
   cannot continue the text; when the input merely ends early it is the last byte *)
Theorem error_position_viable_prefix : forall bs c p, check false bs = VErr c p ->
     (c = code_invalid_character /\ (N.to_nat p < length bs)%nat /\
      viable (firstn (N.to_nat p) bs) /\ ~ viable (firstn (S (N.to_nat p)) bs))
  \/ (c = code_unexpected_eof /\ bs <> [] /\ p = N.of_nat (length bs - 1) /\ viable bs /\ rfc8259 bs = false)
  \/ (c = code_empty_json /\ p = 0%N /\ all_blank bs = true).
Proof.
  intros bs c p H.
  destruct bs as [|b0 t0].
  { right; right. vm_compute in H. inversion H; subst. repeat split; reflexivity. }
  remember (b0 :: t0) as bs eqn:Ebs.
  assert (Hne : bs <> []) by (subst bs; discriminate).
  assert (Hlen : 0 < length bs) by (subst bs; cbn [length]; lia).
  clear Ebs b0 t0.
  assert (Hrf : rfc8259 bs = false).
  { destruct (rfc8259 bs) eqn:E; [|reflexivity]. apply check_strict_iff in E. congruence. }
  rewrite check_finish in H.
  pose proof (run_trun bs cfg0 0 []) as Ht. cbn [k_ctl k_stk cfg0 map] in Ht.
  change (N.of_nat 0) with 0%N in Ht.
  pose proof (run_pos false bs cfg0 0%N []) as [_ P2].
  pose proof (run_root_noev bs false 0%N) as Hnoev.
  change (mkcfg (mkctl FoundRootValue false) []) with cfg0 in Hnoev.
  destruct (run false cfg0 0%N bs []) as [[[evs o] k] idx] eqn:Er.
  unfold r_out, r_cfg, r_idx in *. cbn [fst snd] in *.
  fold k0 in Ht.
  destruct (trun k0 [] 0 bs) as [k' s'|m|] eqn:Et.
  - (* all of bs consumed *)
    destruct Ht as [Ho _]. subst o. specialize (P2 eq_refl).
    unfold finish in H. cbn zeta in H.
    destruct (tail_spec 3 k idx idx (frev evs)) as [more [T1 _]].
    pose proof (tail_pos 3 k idx idx (frev evs)) as Tp.
    pose proof (tail_code 3 k idx idx (frev evs)) as Tc.
    destruct (tail 3 k idx idx (frev evs)) as [tevs to]. cbn [fst snd] in *.
    unfold verdict_of in H. destruct (has_endtop tevs); [discriminate H|].
    destruct to as [|c' p'|]; [| |discriminate H].
    + destruct tevs; [|discriminate H]. inversion H; subst c p.
      right; right. split; [reflexivity|]. split; [reflexivity|].
      symmetry in T1. apply app_eq_nil in T1. destruct T1 as [T1 _].
      rewrite !frev_rev, rev_involutive in T1. subst evs.
      apply Hnoev; reflexivity.
    + inversion H; subst c' p'. right; left.
      specialize (Tp c p eq_refl). specialize (Tc c p eq_refl).
      split; [exact Tc|]. split; [exact Hne|]. split; [lia|].
      split; [|exact Hrf]. exact (reach_viable bs k' s' Et).
  - (* a byte was refused *)
    subst o. unfold finish, verdict_of in H. destruct (has_endtop evs); [discriminate H|].
    inversion H; subst c p. left.
    destruct (trun_err bs k0 [] 0 m Et) as (pre & c0 & rest & k' & s' & Hb & Hm & Hpre & Hs).
    cbn [Nat.add] in Hm. subst m bs. rewrite Nat2N.id.
    split; [reflexivity|]. split; [rewrite app_length; cbn [length]; lia|].
    rewrite firstn_pre, firstn_pre1.
    split; [exact (reach_viable pre k' s' Hpre)|exact (stuck_not_viable pre c0 k' s' Hpre Hs)].
  - subst o. unfold finish, verdict_of in H. destruct (has_endtop evs); discriminate H.
Qed.

(* conversely: an input that is not viable is rejected at exactly its first non-viable prefix *)
Theorem non_viable_rejected_at_first : forall bs n, (n < length bs)%nat ->
  viable (firstn n bs) -> ~ viable (firstn (S n) bs) ->
  check false bs = VErr code_invalid_character (N.of_nat n).
Proof.
  intros bs n Hn Hv Hnv.
  destruct (check false bs) as [|c p|] eqn:Ec.
  - exfalso. apply check_strict_iff in Ec. apply Hnv. apply viable_firstn.
    exists []. rewrite app_nil_r. exact Ec.
  - destruct (error_position_viable_prefix bs c p Ec)
      as [[Hc [Hp [Hv' Hnv']]]|[[Hc [_ [_ [Hvb _]]]]|[Hc [_ Hb]]]].
    + subst c. f_equal.
      destruct (Nat.lt_trichotomy (N.to_nat p) n) as [Hlt|[Heq|Hgt]].
      * exfalso. apply Hnv'. apply (viable_firstn_le bs _ n); [lia|exact Hv].
      * rewrite <- Heq. symmetry. apply N2Nat.id.
      * exfalso. apply Hnv. apply (viable_firstn_le bs _ (N.to_nat p)); [lia|exact Hv'].
    + exfalso. apply Hnv. apply viable_firstn. exact Hvb.
    + exfalso. apply Hnv. apply viable_firstn. apply blank_viable. exact Hb.
  - exfalso. exact (check_no_panic false bs Ec).
Qed.

(* and a viable input that is not yet a text is reported as ending early, at its last byte
   (blank-only input aside) *)
Theorem viable_incomplete_reported_at_end : forall bs, viable bs -> rfc8259 bs = false ->
  all_blank bs = false ->
  check false bs = VErr code_unexpected_eof (N.of_nat (length bs - 1)).
Proof.
  intros bs Hv Hr Hb.
  destruct (check false bs) as [|c p|] eqn:Ec.
  - apply check_strict_iff in Ec. congruence.
  - destruct (error_position_viable_prefix bs c p Ec)
      as [[_ [_ [_ Hnv']]]|[[Hc [_ [Hp _]]]|[_ [_ Hb']]]].
    + exfalso. apply Hnv'. apply viable_firstn. exact Hv.
    + subst c p. reflexivity.
    + congruence.
  - exfalso. exact (check_no_panic false bs Ec).
Qed.

(* ================================================================== *)
(* 6. examples                                                         *)
(* ================================================================== *)
Import Coq.Strings.String.
Local Notation s2b x := (of_string x%string).

(* [1,] fails at 3, 01 at 1, {"a" 1} at 5; [1, ends early at 2, tru at 2, and the
   unterminated string (quote, a, b) at 2; with explicit suffix witnesses for the viable prefixes *)
Example viable_examples :
  (check false (s2b "[1,]") = VErr code_invalid_character 3 /\
   rfc8259 (s2b "[1," ++ s2b "0]") = true /\ ~ viable (s2b "[1,]")) /\
  (check false (s2b "01") = VErr code_invalid_character 1 /\
   rfc8259 (s2b "0" ++ s2b "") = true /\ ~ viable (s2b "01")) /\
  (check false (s2b "{""a"" 1}") = VErr code_invalid_character 5 /\
   rfc8259 (s2b "{""a"" " ++ s2b ":1}") = true /\ ~ viable (s2b "{""a"" 1")) /\
  (check false (s2b "[1,") = VErr code_unexpected_eof 2 /\
   rfc8259 (s2b "[1," ++ s2b "1]") = true /\ rfc8259 (s2b "[1,") = false) /\
  (check false (s2b "tru") = VErr code_unexpected_eof 2 /\
   rfc8259 (s2b "tru" ++ s2b "e") = true /\ rfc8259 (s2b "tru") = false) /\
  (check false (s2b """ab") = VErr code_unexpected_eof 2 /\
   rfc8259 (s2b """ab" ++ s2b """") = true /\ rfc8259 (s2b """ab") = false).
Proof.
  assert (NV : forall bs n, check false bs = VErr code_invalid_character n ->
                            ~ viable (firstn (S (N.to_nat n)) bs)).
  { intros bs n H.
    destruct (error_position_viable_prefix bs _ _ H) as [[_ [_ [_ Hnv]]]|[[Hc _]|[Hc _]]];
      [exact Hnv|discriminate Hc|discriminate Hc]. }
  repeat split; try (vm_compute; reflexivity).
  - exact (NV (s2b "[1,]") 3%N eq_refl).
  - exact (NV (s2b "01") 1%N eq_refl).
  - exact (NV (s2b "{""a"" 1}") 5%N eq_refl).
Qed.
