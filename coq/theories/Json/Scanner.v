(* Scanner.v — executable model of /repo/formats/json/scanner.go (the JSON document
   scanner) and of the three consumers in formats/json/json.go (Check, Len, NextLexeme).

   The Go scanner is a pushdown machine: [step] is one of 35 state functions, [stack]
   holds the opening lexical events not yet closed, [finds] queues the event types found
   by one step; Next() drains the queue (pushing opening events, popping and pairing
   closing ones, computing spans) before it reads the next byte.  Consequently every
   state function sees a stack to which all earlier finds have been applied, and may
   queue several finds itself, reading the *old* stack while doing so (stateEndValue looks
   at the top two entries).  The model keeps exactly this order.

   No proofs in this file. *)
From Coq Require Import List NArith Bool Arith.
From Coq Require Import Strings.Byte.
Import ListNotations.
From JS Require Import Common.Wire.

(* ---------- byte classes (bytes/byte.go) ---------- *)
Definition bN (c : byte) : N := Byte.to_N c.
Definition is_blank (c : byte) : bool :=
  let n := bN c in (N.eqb n 32 || N.eqb n 9 || N.eqb n 10 || N.eqb n 13)%bool.
Definition is_digit (c : byte) : bool := let n := bN c in (N.leb 48 n && N.leb n 57)%bool.
Definition is_digit19 (c : byte) : bool := let n := bN c in (N.leb 49 n && N.leb n 57)%bool.
Definition is_hex (c : byte) : bool :=
  let n := bN c in
  ((N.leb 48 n && N.leb n 57) || (N.leb 97 n && N.leb n 102) || (N.leb 65 n && N.leb n 70))%bool.
Definition is_ctl (c : byte) : bool := N.ltb (bN c) 32.
Definition ch (c : byte) (n : N) : bool := N.eqb (bN c) n.

(* ---------- lexical event types (internal/lexeme/lex_event_type.go; JSON subset + EndTop) ---------- *)
Inductive ev :=
| LiteralBegin | LiteralEnd | ObjectBegin | ObjectEnd | ObjectKeyBegin | ObjectKeyEnd
| ObjectValueBegin | ObjectValueEnd | ArrayBegin | ArrayEnd | ArrayItemBegin | ArrayItemEnd
| EndTop.

Definition ev_code (e : ev) : nat :=
  match e with
  | LiteralBegin => 0 | LiteralEnd => 1 | ObjectBegin => 2 | ObjectEnd => 3
  | ObjectKeyBegin => 4 | ObjectKeyEnd => 5 | ObjectValueBegin => 6 | ObjectValueEnd => 7
  | ArrayBegin => 8 | ArrayEnd => 9 | ArrayItemBegin => 10 | ArrayItemEnd => 11
  | EndTop => 27
  end.
Definition is_opening (e : ev) : bool :=
  match e with
  | LiteralBegin | ObjectBegin | ObjectKeyBegin | ObjectValueBegin | ArrayBegin | ArrayItemBegin => true
  | _ => false
  end.
Definition nonscalar_pair (p e : ev) : bool :=
  match p, e with ObjectBegin, ObjectEnd | ArrayBegin, ArrayEnd => true | _, _ => false end.
Definition scalar_pair (p e : ev) : bool :=
  match p, e with
  | LiteralBegin, LiteralEnd | ArrayItemBegin, ArrayItemEnd
  | ObjectKeyBegin, ObjectKeyEnd | ObjectValueBegin, ObjectValueEnd => true
  | _, _ => false
  end.

(* ---------- the 35 stored step functions ---------- *)
Inductive st :=
| FoundRootValue | FoundObjectKeyBeginOrEmpty | FoundObjectKeyBegin | FoundObjectValueBegin
| FoundArrayItemBeginOrEmpty | FoundArrayItemBegin
| EndValue | AfterObjectKey | AfterObjectValue | AfterArrayItem | SEndTop
| InString | InStringEsc | InStringEscU | InStringEscU1 | InStringEscU12 | InStringEscU123
| Neg | S1 | S0 | Dot | Dot0 | SE | ESign | E0
| ST | STr | STru | SF | SFa | SFal | SFals | SN | SNu | SNul.

(* control part of the scanner: step function, "unfinished literal" flag *)
Record ctl := mkctl { c_st : st; c_unf : bool }.

(* result of a state function on one byte: new control + queued finds, or the panic
   newDocumentErrorAtCharacter (ErrInvalidCharacter at this byte) *)
Definition sres := option (ctl * list ev).

Definition ret (s : st) (u : bool) (fs : list ev) : sres := Some (mkctl s u, fs).

(* scanBeginObject / scanBeginArray / scanBeginLiteral / scanContinue of stateBeginValue *)
Inductive bv := BVContinue | BVObject | BVArray | BVLiteral.

(* stateBeginValue: returns the opcode, the new step (None = unchanged) and flag *)
Definition begin_value (self : st) (u : bool) (c : byte) : option (bv * st * bool) :=
  if is_blank c then Some (BVContinue, self, u)
  else if ch c 123 then Some (BVObject, FoundObjectKeyBeginOrEmpty, u)
  else if ch c 91 then Some (BVArray, FoundArrayItemBeginOrEmpty, u)
  else if ch c 34 then Some (BVLiteral, InString, true)
  else if ch c 45 then Some (BVLiteral, Neg, true)
  else if ch c 48 then Some (BVLiteral, S0, u)
  else if ch c 116 then Some (BVLiteral, ST, true)
  else if ch c 102 then Some (BVLiteral, SF, true)
  else if ch c 110 then Some (BVLiteral, SN, true)
  else if is_digit19 c then Some (BVLiteral, S1, u)
  else None.

(* the stateFound*Begin wrappers: prefix the opening event of the position ([] at the root) *)
Definition found_value (pre : list ev) (self : st) (u : bool) (c : byte) : sres :=
  match begin_value self u c with
  | None => None
  | Some (BVContinue, s', u') => ret s' u' []
  | Some (BVObject, s', u') => ret s' u' (pre ++ [ObjectBegin])
  | Some (BVArray, s', u') => ret s' u' (pre ++ [ArrayBegin])
  | Some (BVLiteral, s', u') => ret s' u' (pre ++ [LiteralBegin])
  end.

(* stateEndTop *)
Definition end_top (allow : bool) (u : bool) (c : byte) : sres :=
  if is_blank c then ret SEndTop u []
  else if allow then ret SEndTop u [EndTop]
  else None.

(* stateFoundObjectEnd / stateFoundArrayEnd (the latter tests the stack *before* the
   queued ArrayEnd is applied) *)
Definition found_object_end (u : bool) : sres := ret EndValue u [ObjectEnd].
Definition found_array_end (stk : list ev) (u : bool) : sres :=
  match stk with
  | [] => ret SEndTop u [ArrayEnd]
  | _ => ret EndValue u [ArrayEnd]
  end.

Definition after_object_key (u : bool) (c : byte) : sres :=
  if is_blank c then ret AfterObjectKey u []
  else if ch c 58 then ret FoundObjectValueBegin u []
  else None.
Definition after_object_value (u : bool) (c : byte) : sres :=
  if is_blank c then ret AfterObjectValue u []
  else if ch c 44 then ret FoundObjectKeyBegin u []
  else if ch c 125 then found_object_end u
  else None.
Definition after_array_item (stk : list ev) (u : bool) (c : byte) : sres :=
  if is_blank c then ret AfterArrayItem u []
  else if ch c 44 then ret FoundArrayItemBegin u []
  else if ch c 93 then found_array_end stk u
  else None.

Definition prepend (fs : list ev) (r : sres) : sres :=
  match r with Some (k, fs') => Some (k, fs ++ fs') | None => None end.

(* stateEndValue; [stk] is the stack of open event types, top first *)
Definition end_value (allow : bool) (stk : list ev) (u : bool) (c : byte) : sres :=
  match stk with
  | [] => end_top allow u c
  | LiteralBegin :: rest =>
    match rest with
    | [] => prepend [LiteralEnd] (end_top allow u c)
    | ObjectKeyBegin :: _ => prepend [LiteralEnd; ObjectKeyEnd] (after_object_key u c)
    | ObjectValueBegin :: _ => prepend [LiteralEnd; ObjectValueEnd] (after_object_value u c)
    | ArrayItemBegin :: _ => prepend [LiteralEnd; ArrayItemEnd] (after_array_item stk u c)
    | _ => None
    end
  | ObjectKeyBegin :: _ => prepend [ObjectKeyEnd] (after_object_key u c)
  | ObjectValueBegin :: _ => prepend [ObjectValueEnd] (after_object_value u c)
  | ArrayItemBegin :: _ => prepend [ArrayItemEnd] (after_array_item stk u c)
  | _ => None
  end.

Definition begin_string (u : bool) (c : byte) (fs : list ev) : sres :=
  if ch c 34 then ret InString u fs else None.

Definition expect (c : byte) (n : N) (s : st) (u : bool) : sres :=
  if ch c n then ret s u [] else None.

Definition state0 (allow : bool) (stk : list ev) (u : bool) (c : byte) : sres :=
  if ch c 46 then ret Dot true []
  else if (ch c 101 || ch c 69)%bool then ret SE true []
  else end_value allow stk u c.

(* one state function call *)
Definition step (allow : bool) (k : ctl) (stk : list ev) (c : byte) : sres :=
  let u := c_unf k in
  match c_st k with
  | FoundRootValue => found_value [] FoundRootValue u c
  | FoundObjectKeyBeginOrEmpty =>
    if is_blank c then ret FoundObjectKeyBeginOrEmpty u []
    else if ch c 125 then found_object_end u
    else begin_string u c [ObjectKeyBegin]
  | FoundObjectKeyBegin =>
    if is_blank c then ret FoundObjectKeyBegin u []
    else begin_string u c [ObjectKeyBegin]
  | FoundObjectValueBegin => found_value [ObjectValueBegin] FoundObjectValueBegin u c
  | FoundArrayItemBeginOrEmpty =>
    if ch c 93 then found_array_end stk u
    else found_value [ArrayItemBegin] FoundArrayItemBeginOrEmpty u c
  | FoundArrayItemBegin => found_value [ArrayItemBegin] FoundArrayItemBegin u c
  | EndValue => end_value allow stk u c
  | AfterObjectKey => after_object_key u c
  | AfterObjectValue => after_object_value u c
  | AfterArrayItem => after_array_item stk u c
  | SEndTop => end_top allow u c
  | InString =>
    if ch c 34 then ret EndValue false []
    else if ch c 92 then ret InStringEsc u []
    else if is_ctl c then None
    else ret InString u []
  | InStringEsc =>
    if (ch c 98 || ch c 102 || ch c 110 || ch c 114 || ch c 116 || ch c 92 || ch c 47 || ch c 34)%bool
    then ret InString u []
    else if ch c 117 then ret InStringEscU u []
    else None
  | InStringEscU => if is_hex c then ret InStringEscU1 u [] else None
  | InStringEscU1 => if is_hex c then ret InStringEscU12 u [] else None
  | InStringEscU12 => if is_hex c then ret InStringEscU123 u [] else None
  | InStringEscU123 => if is_hex c then ret InString u [] else None
  | Neg =>
    if ch c 48 then ret S0 false []
    else if is_digit19 c then ret S1 false []
    else None
  | S1 => if is_digit c then ret S1 u [] else state0 allow stk u c
  | S0 => state0 allow stk u c
  | Dot => if is_digit c then ret Dot0 false [] else None
  | Dot0 =>
    if is_digit c then ret Dot0 u []
    else if (ch c 101 || ch c 69)%bool then ret SE true []
    else end_value allow stk u c
  | SE =>
    if (ch c 43 || ch c 45)%bool then ret ESign true []
    else if is_digit c then ret E0 false [] else None
  | ESign => if is_digit c then ret E0 false [] else None
  | E0 => if is_digit c then ret E0 u [] else end_value allow stk u c
  | ST => expect c 114 STr u
  | STr => expect c 117 STru u
  | STru => if ch c 101 then ret EndValue false [] else None
  | SF => expect c 97 SFa u
  | SFa => expect c 108 SFal u
  | SFal => expect c 115 SFals u
  | SFals => if ch c 101 then ret EndValue false [] else None
  | SN => expect c 117 SNu u
  | SNu => expect c 108 SNul u
  | SNul => if ch c 108 then ret EndValue false [] else None
  end.

(* ---------- processingFoundLexeme: the stack and the spans ---------- *)
Record lexev := mkev { e_type : ev; e_begin : N; e_end : N }.

(* i = s.index - 1.  Panic "Incorrect ending of the lexical event" / pop of an empty stack = None *)
Definition process_found (i : N) (stk : list (ev * N)) (e : ev) : option (list (ev * N) * lexev) :=
  match e with
  | EndTop => Some (stk, mkev EndTop i i)
  | _ =>
    if is_opening e then Some ((e, i) :: stk, mkev e i i)
    else
      match stk with
      | [] => None
      | (p, b) :: rest =>
        if nonscalar_pair p e then Some (rest, mkev e b i)
        else if scalar_pair p e then Some (rest, mkev e b (i - 1)%N)
        else None
      end
  end.

Fixpoint process_finds (i : N) (stk : list (ev * N)) (fs : list ev) (acc : list lexev)
  : option (list (ev * N) * list lexev) :=
  match fs with
  | [] => Some (stk, frev acc)
  | e :: r =>
    match process_found i stk e with
    | None => None
    | Some (stk', x) => process_finds i stk' r (x :: acc)
    end
  end.

(* ---------- whole run ---------- *)
Inductive outcome :=
| Done                         (* Next() returned ok=false: input exhausted, stack empty *)
| Err (code : nat) (pos : N) (* panic(DocumentError) *)
| Panic.                       (* an internal panic that is not a DocumentError *)

Definition code_invalid_character : nat := 301.
Definition code_unexpected_eof : nat := 303.

Record cfg := mkcfg { k_ctl : ctl; k_stk : list (ev * N) }.
Definition cfg0 : cfg := mkcfg (mkctl FoundRootValue false) [].

(* consume the remaining bytes; [idx] = index of the next byte *)
Fixpoint run (allow : bool) (k : cfg) (idx : N) (bs : bytes) (acc : list lexev)
  : list lexev * outcome * cfg * N :=
  match bs with
  | [] => (frev acc, Done, k, idx)
  | c :: r =>
    match step allow (k_ctl k) (map fst (k_stk k)) c with
    | None => (frev acc, Err code_invalid_character idx, k, idx)
    | Some (ctl', fs) =>
      match process_finds idx (k_stk k) fs [] with
      | None => (frev acc, Panic, k, idx)
      | Some (stk', evs) => run allow (mkcfg ctl' stk') (N.succ idx) r (frev evs ++ acc)
      end
    end
  end.

(* the end-of-input rule of Next(): each further call bumps index once more *)
Fixpoint tail (fuel : nat) (k : cfg) (index : N) (size : N) (acc : list lexev) : list lexev * outcome :=
  match fuel with
  | O => (frev acc, Panic)
  | S f =>
    match k_stk k with
    | [] => (frev acc, Done)
    | (LiteralBegin, b) :: rest =>
      if c_unf (k_ctl k) then (frev acc, Err code_unexpected_eof (size - 1)%N)
      else
        (* index++ ; processingFoundLexeme(LiteralEnd) with i = index - 1 *)
        tail f (mkcfg (k_ctl k) rest) (N.succ index) size (mkev LiteralEnd b (index - 1)%N :: acc)
    | _ => (frev acc, Err code_unexpected_eof (size - 1)%N)
    end
  end.

(* the complete event stream Next() delivers, and how it ends *)
Definition scan (allow : bool) (bs : bytes) : list lexev * outcome :=
  let '(evs, o, k, idx) := run allow cfg0 0%N bs [] in
  match o with
  | Done => tail 3 k idx idx (frev evs)
  | _ => (evs, o)
  end.

(* ---------- consumers (formats/json/json.go) ---------- *)
(* nextLexeme: EndTop is delivered together with io.EOF and ends the stream *)
Fixpoint upto_endtop (evs : list lexev) : list lexev * bool :=
  match evs with
  | [] => ([], false)
  | e :: r => match e_type e with
              | EndTop => ([], true)
              | _ => let '(l, b) := upto_endtop r in (e :: l, b)
              end
  end.

Definition code_empty_json : nat := 203.

(* Document.Check: None = nil error *)
Inductive verdict := VOk | VErr (code : nat) (pos : N) | VPanic.
Definition check (allow : bool) (bs : bytes) : verdict :=
  let '(evs, o) := scan allow bs in
  let '(pre, stopped) := upto_endtop evs in
  if stopped then VOk        (* at least the value's events precede EndTop *)
  else match o with
       | Done => match pre with [] => VErr code_empty_json 0%N | _ => VOk end
       | Err c p => VErr c p
       | Panic => VPanic
       end.

(* scanner.Length(): uint arithmetic; EndTop => End  (after the fix: the offset of the
   foreign byte; trailing blanks are trimmed below) *)
Fixpoint length_loop (evs : list lexev) (len : N) : N :=
  match evs with
  | [] => len
  | e :: r => match e_type e with
              | EndTop => e_end e
              | _ => length_loop r (e_end e + 1)%N
              end
  end.
Fixpoint trim_blank_rev (rbs : bytes) : bytes :=
  match rbs with
  | c :: r => if is_blank c then trim_blank_rev r else rbs
  | [] => []
  end.
Definition doc_len (allow : bool) (bs : bytes) : verdict * N :=
  let '(evs, o) := scan allow bs in
  let '(pre, stopped) := upto_endtop evs in
  let raw := length_loop evs 0%N in
  let n := N.of_nat (length (trim_blank_rev (frev (firstn (N.to_nat raw) bs)))) in
  if stopped then (VOk, n)
  else match o with
       | Done => match evs with [] => (VErr code_empty_json 0%N, 0%N) | _ => (VOk, n) end
       | Err c p => (VErr c p, 0%N)
       | Panic => (VPanic, 0%N)
       end.
