(* GrammarProofs.v — the generative RFC 8259 grammar of Grammar.v ([JsonText]) and the
   reference recursive-descent recogniser ([rfc8259]) define the same language; fuel facts
   for the recogniser.

   Main results: [grammar_sound], [grammar_complete], [rfc8259_iff_JsonText],
   [rd_fuel_monotone]; prefix variants [rfc8259_prefix_sound] / [rfc8259_prefix_complete].

   NOTE.  The statement  [forall bs f, length bs < f -> rd_value f bs <> RFuel]  is FALSE:
   every '[' costs two units of fuel ([rd_value] -> [rd_items] -> [rd_value]), so
   [rd_value 4 "[[["] = RFuel  ([rd_fuel_enough_counterexample],
   [rd_fuel_enough_as_stated_is_false]).  What is true, and proved here:
     - [rd_fuel_enough_tight]    : 0 < f, 2 * length bs <= S f  never runs out (tight);
     - [rd_fuel_enough_double]   : 2 * length bs < f  never runs out;
     - [rd_fuel_sufficient]      : whenever some fuel gives [ROk r], any fuel >= the number
                                   of consumed bytes gives the same [ROk r];
     - [rd_fuel_enough_ok], [rd_fuel_enough_accepted], [rd_fuel_out_rejects] :
                                   with [length bs < f], [RFuel] can only be returned on
                                   texts that are not accepted with any fuel;
     - [rfc8259_fuel_independent]: so the fuel [S (length bs)] used by [rfc8259] is enough. *)
From Coq Require Import List NArith Bool Arith Lia Wf_nat.
From Coq Require Import ZifyBool ZifyNat ZifyN.
From Coq Require Import Strings.Byte.
Import ListNotations.
From JS Require Import Common.Wire Json.Scanner Json.Grammar.

(* ------------------------------------------------------------------ *)
(* bytes *)

Lemma gp_to_N_inj : forall a b, Byte.to_N a = Byte.to_N b -> a = b.
Proof.
  intros a b H.
  assert (Hx : Byte.of_N (Byte.to_N a) = Byte.of_N (Byte.to_N b)) by (rewrite H; reflexivity).
  rewrite !Byte.of_to_N in Hx. congruence.
Qed.

Lemma byte_eqb_eq : forall a b, byte_eqb a b = true -> a = b.
Proof. intros a b H. unfold byte_eqb in H. apply N.eqb_eq in H. apply gp_to_N_inj. exact H. Qed.

Lemma ch_eq : forall c d n, ch c n = true -> Byte.to_N d = n -> c = d.
Proof.
  intros c d n H Hd. unfold ch, bN in H. apply N.eqb_eq in H. apply gp_to_N_inj. congruence.
Qed.

Ltac byte_lia := unfold is_blank, is_digit, is_digit19, is_hex, is_ctl, ch, bN in *; cbv zeta in *; lia.

Lemma ch_other : forall c n m, ch c n = true -> n <> m -> ch c m = false.
Proof. intros c n m H Hn. byte_lia. Qed.

Lemma digit19_digit : forall c, is_digit19 c = true -> is_digit c = true.
Proof. intros c H. byte_lia. Qed.
Lemma ch48_digit : forall c, ch c 48 = true -> is_digit c = true.
Proof. intros c H. byte_lia. Qed.

(* first byte of a value *)
Definition is_start (c : byte) : bool :=
  (ch c 91 || ch c 123 || ch c 34 || ch c 116 || ch c 102 || ch c 110 || ch c 45 || is_digit c)%bool.

Lemma start_not_blank : forall c, is_start c = true -> is_blank c = false.
Proof. intros c H. unfold is_start in H. byte_lia. Qed.
Lemma start_not_close : forall c, is_start c = true -> ch c 93 = false /\ ch c 125 = false /\ ch c 44 = false.
Proof. intros c H. unfold is_start in H. byte_lia. Qed.

(* a byte that cannot continue a number token *)
Definition nonext (c : byte) : bool := negb (is_digit c || ch c 46 || ch c 101 || ch c 69)%bool.
Definition tail_ok (rest : bytes) : bool :=
  match rest with [] => true | c :: _ => nonext c end.

Lemma blank_nonext : forall c, is_blank c = true -> nonext c = true.
Proof. intros c H. unfold nonext. byte_lia. Qed.

Lemma tail_ok_blank_app : forall w tp, all_blank w = true -> tail_ok tp = true -> tail_ok (w ++ tp) = true.
Proof.
  intros [|c w] tp Hw Htp; [exact Htp|].
  cbn [app tail_ok]. cbn [all_blank forallb] in Hw. apply andb_true_iff in Hw.
  apply blank_nonext. tauto.
Qed.

Lemma all_blank_tail_ok : forall w, all_blank w = true -> tail_ok w = true.
Proof. intros w Hw. rewrite <- (app_nil_r w). apply tail_ok_blank_app; auto. Qed.

(* ------------------------------------------------------------------ *)
(* blanks *)

Fixpoint takeblank (bs : bytes) : bytes :=
  match bs with c :: r => if is_blank c then c :: takeblank r else [] | [] => [] end.

Lemma takeblank_skip : forall bs, bs = takeblank bs ++ skip_blank bs.
Proof.
  induction bs as [|c r IH]; [reflexivity|].
  cbn [takeblank skip_blank]. destruct (is_blank c); [|reflexivity].
  cbn [app]. f_equal. exact IH.
Qed.

Lemma takeblank_blank : forall bs, all_blank (takeblank bs) = true.
Proof.
  induction bs as [|c r IH]; [reflexivity|].
  cbn [takeblank]. destruct (is_blank c) eqn:E; [|reflexivity].
  unfold all_blank in *. cbn [forallb]. rewrite E, IH. reflexivity.
Qed.

Lemma skip_blank_app : forall w bs, all_blank w = true -> skip_blank (w ++ bs) = skip_blank bs.
Proof.
  induction w as [|c w IH]; intros bs H; [reflexivity|].
  unfold all_blank in *. cbn [forallb] in H. apply andb_true_iff in H. destruct H as [Hc Hw].
  cbn [app skip_blank]. rewrite Hc. apply IH. exact Hw.
Qed.

Lemma skip_blank_nb : forall c r, is_blank c = false -> skip_blank (c :: r) = c :: r.
Proof. intros c r H. cbn [skip_blank]. rewrite H. reflexivity. Qed.

Lemma skip_blank_len : forall bs, length (skip_blank bs) <= length bs.
Proof.
  induction bs as [|c r IH]; [cbn; lia|].
  cbn [skip_blank]. destruct (is_blank c); cbn [length] in *; lia.
Qed.

Lemma all_blank_app : forall a b, all_blank (a ++ b) = (all_blank a && all_blank b)%bool.
Proof. intros a b. unfold all_blank. apply forallb_app. Qed.

(* ------------------------------------------------------------------ *)
(* digits *)

Fixpoint takedigits (bs : bytes) : bytes :=
  match bs with c :: r => if is_digit c then c :: takedigits r else [] | [] => [] end.

Definition nd (bs : bytes) : bool := match bs with [] => true | c :: _ => negb (is_digit c) end.

Lemma takedigits_skip : forall bs, bs = takedigits bs ++ skip_digits bs.
Proof.
  induction bs as [|c r IH]; [reflexivity|].
  cbn [takedigits skip_digits]. destruct (is_digit c); [|reflexivity].
  cbn [app]. f_equal. exact IH.
Qed.

Lemma skip_takedigits : forall bs, skip_digits (takedigits bs) = [].
Proof.
  induction bs as [|c r IH]; [reflexivity|].
  cbn [takedigits]. destruct (is_digit c) eqn:E; [|reflexivity].
  cbn [skip_digits]. rewrite E. exact IH.
Qed.

Lemma nd_skip_digits : forall bs, nd (skip_digits bs) = true.
Proof.
  induction bs as [|c r IH]; [reflexivity|].
  cbn [skip_digits]. destruct (is_digit c) eqn:E; [exact IH|].
  cbn [nd]. rewrite E. reflexivity.
Qed.

Lemma skip_digits_nd : forall bs, nd bs = true -> skip_digits bs = bs.
Proof.
  intros [|c r] H; [reflexivity|]. cbn [nd] in H. cbn [skip_digits].
  destruct (is_digit c); [discriminate|reflexivity].
Qed.

Lemma skip_digits_app : forall a rest, nd rest = true -> skip_digits (a ++ rest) = skip_digits a ++ rest.
Proof.
  induction a as [|c a IH]; intros rest H.
  - cbn [app skip_digits]. apply skip_digits_nd. exact H.
  - cbn [app skip_digits]. destruct (is_digit c); [apply IH; exact H|reflexivity].
Qed.

Lemma nd_app_l : forall a b, nd (a ++ b) = true -> nd a = true.
Proof. intros [|c a] b H; [reflexivity|exact H]. Qed.

Lemma skip_digits_len : forall bs, length (skip_digits bs) <= length bs.
Proof.
  induction bs as [|c r IH]; [cbn; lia|].
  cbn [skip_digits]. destruct (is_digit c); cbn [length] in *; lia.
Qed.

Lemma tail_ok_nd : forall rest, tail_ok rest = true -> nd rest = true.
Proof. intros [|c r] H; [reflexivity|]. cbn [tail_ok nd] in *. unfold nonext in H. byte_lia. Qed.

(* ------------------------------------------------------------------ *)
(* number tokens: the two phases of [lex_frac_exp] *)

Definition lex_frac (bs : bytes) : option bytes :=
  match bs with
  | c :: r => if ch c 46
              then match r with
                   | d :: r' => if is_digit d then Some (skip_digits r') else None
                   | [] => None
                   end
              else Some bs
  | [] => Some []
  end.

Definition lex_exp (bs1 : bytes) : option bytes :=
  match bs1 with
  | c :: r =>
    if (ch c 101 || ch c 69)%bool
    then let r1 := match r with s :: r' => if (ch s 43 || ch s 45)%bool then r' else r | [] => [] end in
         match r1 with
         | d :: r' => if is_digit d then Some (skip_digits r') else None
         | [] => None
         end
    else Some bs1
  | [] => Some []
  end.

Lemma lex_frac_exp_eq : forall bs,
  lex_frac_exp bs = match lex_frac bs with None => None | Some b => lex_exp b end.
Proof. intro bs. reflexivity. Qed.

(* heads that do not disturb the fraction / exponent phase *)
Definition hd_frac_ok (rest : bytes) : bool :=
  match rest with [] => true | c :: _ => negb (is_digit c || ch c 46) end.
Definition hd_exp_ok (rest : bytes) : bool :=
  match rest with [] => true | c :: _ => negb (is_digit c || ch c 101 || ch c 69) end.

Lemma hd_frac_nd : forall rest, hd_frac_ok rest = true -> nd rest = true.
Proof. intros [|c r] H; [reflexivity|]. cbn [hd_frac_ok nd] in *. lia. Qed.
Lemma hd_exp_nd : forall rest, hd_exp_ok rest = true -> nd rest = true.
Proof. intros [|c r] H; [reflexivity|]. cbn [hd_exp_ok nd] in *. lia. Qed.
Lemma tail_ok_frac : forall rest, tail_ok rest = true -> hd_frac_ok rest = true.
Proof. intros [|c r] H; [reflexivity|]. cbn [tail_ok hd_frac_ok] in *. unfold nonext in H. lia. Qed.
Lemma tail_ok_exp : forall rest, tail_ok rest = true -> hd_exp_ok rest = true.
Proof. intros [|c r] H; [reflexivity|]. cbn [tail_ok hd_exp_ok] in *. unfold nonext in H. lia. Qed.

Lemma lex_frac_app : forall t t1 rest,
  lex_frac t = Some t1 -> hd_frac_ok rest = true -> lex_frac (t ++ rest) = Some (t1 ++ rest).
Proof.
  intros t t1 rest H Hr. destruct t as [|c r].
  - cbn in H. injection H as <-. cbn [app]. destruct rest as [|c r]; [reflexivity|].
    cbn [hd_frac_ok] in Hr. cbn [lex_frac].
    destruct (ch c 46) eqn:E; [lia|reflexivity].
  - cbn [app lex_frac] in *. destruct (ch c 46) eqn:E.
    + destruct r as [|d r']; [discriminate|]. cbn [app].
      destruct (is_digit d); [|discriminate]. injection H as <-.
      rewrite skip_digits_app by (apply hd_frac_nd; exact Hr). reflexivity.
    + injection H as <-. reflexivity.
Qed.

Lemma lex_exp_app : forall t t1 rest,
  lex_exp t = Some t1 -> hd_exp_ok rest = true -> lex_exp (t ++ rest) = Some (t1 ++ rest).
Proof.
  intros t t1 rest H Hr. destruct t as [|c r].
  - cbn in H. injection H as <-. cbn [app]. destruct rest as [|c r]; [reflexivity|].
    cbn [hd_exp_ok] in Hr. cbn [lex_exp].
    destruct (ch c 101 || ch c 69)%bool eqn:E; [lia|reflexivity].
  - cbn [app lex_exp] in *. destruct (ch c 101 || ch c 69)%bool eqn:E.
    + cbv zeta in *. destruct r as [|s r']; [discriminate|]. cbn [app].
      destruct (ch s 43 || ch s 45)%bool.
      * destruct r' as [|d r'']; [discriminate|]. cbn [app].
        destruct (is_digit d); [|discriminate]. injection H as <-.
        rewrite skip_digits_app by (apply hd_exp_nd; exact Hr). reflexivity.
      * cbn [app]. destruct (is_digit s); [|discriminate]. injection H as <-.
        rewrite skip_digits_app by (apply hd_exp_nd; exact Hr). reflexivity.
    + injection H as <-. reflexivity.
Qed.

Lemma lex_frac_exp_app : forall t t1 rest,
  lex_frac_exp t = Some t1 -> tail_ok rest = true -> lex_frac_exp (t ++ rest) = Some (t1 ++ rest).
Proof.
  intros t t1 rest H Hr. rewrite lex_frac_exp_eq in *.
  destruct (lex_frac t) as [b|] eqn:E; [|discriminate].
  rewrite (lex_frac_app t b rest E) by (apply tail_ok_frac; exact Hr).
  apply lex_exp_app; [exact H|apply tail_ok_exp; exact Hr].
Qed.

Lemma lex_int_app : forall t t1 rest,
  lex_int t = Some t1 -> tail_ok rest = true -> lex_int (t ++ rest) = Some (t1 ++ rest).
Proof.
  intros t t1 rest H Hr. destruct t as [|c r]; [discriminate|].
  cbn [app lex_int] in *. destruct (ch c 48).
  - apply lex_frac_exp_app; assumption.
  - destruct (is_digit19 c); [|discriminate].
    rewrite skip_digits_app by (apply tail_ok_nd; exact Hr).
    apply lex_frac_exp_app; assumption.
Qed.

Lemma lex_number_app : forall t t1 rest,
  lex_number t = Some t1 -> tail_ok rest = true -> lex_number (t ++ rest) = Some (t1 ++ rest).
Proof.
  intros t t1 rest H Hr. destruct t as [|c r]; [discriminate|].
  cbn [app lex_number] in *. destruct (ch c 45).
  - apply lex_int_app; assumption.
  - change (c :: r ++ rest) with ((c :: r) ++ rest). apply lex_int_app; assumption.
Qed.

Lemma lex_number_start : forall c r x, lex_number (c :: r) = Some x -> (ch c 45 || is_digit c)%bool = true.
Proof.
  intros c r x H. cbn [lex_number] in H. destruct (ch c 45) eqn:E; [reflexivity|].
  cbn [lex_int] in H. cbn [orb].
  destruct (ch c 48) eqn:E0; [apply ch48_digit; exact E0|].
  destruct (is_digit19 c) eqn:E1; [apply digit19_digit; exact E1|discriminate].
Qed.

(* prefix extraction (soundness direction) *)
Lemma lex_exp_split : forall bs r, lex_exp bs = Some r ->
  exists t, bs = t ++ r /\ lex_exp t = Some [] /\ hd_frac_ok t = true.
Proof.
  intros bs r H. destruct bs as [|c r0].
  - cbn in H. injection H as <-. exists []. auto.
  - cbn [lex_exp] in H. destruct (ch c 101 || ch c 69)%bool eqn:E.
    + cbv zeta in H.
      assert (Hhd : forall x, hd_frac_ok (c :: x) = true) by (intro x; cbn [hd_frac_ok]; byte_lia).
      destruct r0 as [|s r']; [discriminate|].
      destruct (ch s 43 || ch s 45)%bool eqn:Es.
      * destruct r' as [|d r'']; [discriminate|].
        destruct (is_digit d) eqn:Ed; [|discriminate]. injection H as <-.
        exists (c :: s :: d :: takedigits r''). split; [|split].
        -- cbn [app]. do 3 f_equal. apply takedigits_skip.
        -- cbn [lex_exp]. rewrite E. cbv zeta. rewrite Es, Ed, skip_takedigits. reflexivity.
        -- apply Hhd.
      * destruct (is_digit s) eqn:Ed; [|discriminate]. injection H as <-.
        exists (c :: s :: takedigits r'). split; [|split].
        -- cbn [app]. do 2 f_equal. apply takedigits_skip.
        -- cbn [lex_exp]. rewrite E. cbv zeta. rewrite Es, Ed, skip_takedigits. reflexivity.
        -- apply Hhd.
    + injection H as <-. exists []. auto.
Qed.

Lemma lex_frac_split : forall bs r, lex_frac bs = Some r ->
  exists t, bs = t ++ r /\ lex_frac t = Some [].
Proof.
  intros bs r H. destruct bs as [|c r0].
  - cbn in H. injection H as <-. exists []. auto.
  - cbn [lex_frac] in H. destruct (ch c 46) eqn:E.
    + destruct r0 as [|d r']; [discriminate|].
      destruct (is_digit d) eqn:Ed; [|discriminate]. injection H as <-.
      exists (c :: d :: takedigits r'). split.
      * cbn [app]. do 2 f_equal. apply takedigits_skip.
      * cbn [lex_frac]. rewrite E, Ed, skip_takedigits. reflexivity.
    + injection H as <-. exists []. auto.
Qed.

Lemma lex_frac_exp_split : forall bs r, lex_frac_exp bs = Some r ->
  exists t, bs = t ++ r /\ lex_frac_exp t = Some [].
Proof.
  intros bs r H. rewrite lex_frac_exp_eq in H.
  destruct (lex_frac bs) as [b|] eqn:E; [|discriminate].
  destruct (lex_frac_split _ _ E) as (t1 & Hbs & Ht1).
  destruct (lex_exp_split _ _ H) as (t2 & Hb & Ht2 & Hhd).
  exists (t1 ++ t2). split.
  - rewrite Hbs, Hb, app_assoc. reflexivity.
  - rewrite lex_frac_exp_eq. rewrite (lex_frac_app t1 [] t2 Ht1 Hhd). exact Ht2.
Qed.

Lemma lex_int_split : forall bs r, lex_int bs = Some r ->
  exists t, bs = t ++ r /\ lex_int t = Some [].
Proof.
  intros bs r H. destruct bs as [|c r0]; [discriminate|].
  cbn [lex_int] in H. destruct (ch c 48) eqn:E0.
  - destruct (lex_frac_exp_split _ _ H) as (t & Hr0 & Ht).
    exists (c :: t). split; [cbn [app]; f_equal; exact Hr0|].
    cbn [lex_int]. rewrite E0. exact Ht.
  - destruct (is_digit19 c) eqn:E1; [|discriminate].
    destruct (lex_frac_exp_split _ _ H) as (t & Hs & Ht).
    exists (c :: takedigits r0 ++ t). split.
    + cbn [app]. f_equal. rewrite <- app_assoc, <- Hs. apply takedigits_skip.
    + cbn [lex_int]. rewrite E0, E1.
      assert (Hnd : nd t = true).
      { apply (nd_app_l t r). rewrite <- Hs. apply nd_skip_digits. }
      rewrite skip_digits_app by exact Hnd. rewrite skip_takedigits. exact Ht.
Qed.

Lemma lex_number_split : forall bs r, lex_number bs = Some r ->
  exists t, bs = t ++ r /\ is_number_token t = true.
Proof.
  intros bs r H. destruct bs as [|c r0]; [discriminate|].
  cbn [lex_number] in H. destruct (ch c 45) eqn:E.
  - destruct (lex_int_split _ _ H) as (t & Hr0 & Ht).
    exists (c :: t). split; [cbn [app]; f_equal; exact Hr0|].
    unfold is_number_token. cbn [lex_number]. rewrite E, Ht. reflexivity.
  - destruct (lex_int_split _ _ H) as (t & Hr0 & Ht).
    exists t. split; [exact Hr0|].
    destruct t as [|c' t']; [discriminate|].
    cbn [app] in Hr0. injection Hr0 as <- _.
    unfold is_number_token. cbn [lex_number]. rewrite E, Ht. reflexivity.
Qed.

Lemma lex_number_nonempty : forall t, is_number_token t = true -> t <> [].
Proof. intros t H ->. discriminate. Qed.

(* ------------------------------------------------------------------ *)
(* string tokens *)

Definition is_esc1 (e : byte) : bool :=
  (ch e 98 || ch e 102 || ch e 110 || ch e 114 || ch e 116 || ch e 92 || ch e 47 || ch e 34)%bool.

Lemma lsb_cons : forall c r,
  lex_string_body (c :: r) =
    if ch c 34 then Some r
    else if ch c 92 then
      match r with
      | e :: r' =>
        if is_esc1 e then lex_string_body r'
        else if ch e 117 then
          match r' with
          | h1 :: h2 :: h3 :: h4 :: r'' =>
            if (is_hex h1 && is_hex h2 && is_hex h3 && is_hex h4)%bool then lex_string_body r'' else None
          | _ => None
          end
        else None
      | [] => None
      end
    else if is_ctl c then None
    else lex_string_body r.
Proof. intros c r. reflexivity. Qed.

Lemma lsb_app_n : forall n t t1 rest, length t <= n ->
  lex_string_body t = Some t1 -> lex_string_body (t ++ rest) = Some (t1 ++ rest).
Proof.
  induction n as [|n IH]; intros t t1 rest Hn H.
  - destruct t as [|c r]; [discriminate|cbn [length] in Hn; lia].
  - destruct t as [|c r]; [discriminate|]. cbn [length] in Hn.
    cbn [app]. rewrite lsb_cons in *.
    destruct (ch c 34); [injection H as <-; reflexivity|].
    destruct (ch c 92).
    + destruct r as [|e r']; [discriminate|]. cbn [app]. cbn [length] in Hn.
      destruct (is_esc1 e); [apply IH; [lia|exact H]|].
      destruct (ch e 117); [|discriminate].
      destruct r' as [|h1 r']; [discriminate|].
      destruct r' as [|h2 r']; [discriminate|].
      destruct r' as [|h3 r']; [discriminate|].
      destruct r' as [|h4 r']; [discriminate|].
      cbn [app]. cbn [length] in Hn.
      destruct (is_hex h1 && is_hex h2 && is_hex h3 && is_hex h4)%bool; [|discriminate].
      apply IH; [lia|exact H].
    + destruct (is_ctl c); [discriminate|]. apply IH; [lia|exact H].
Qed.

Lemma lsb_app : forall t t1 rest,
  lex_string_body t = Some t1 -> lex_string_body (t ++ rest) = Some (t1 ++ rest).
Proof. intros t t1 rest. apply (lsb_app_n (length t)). lia. Qed.

Lemma lsb_split_n : forall n bs r, length bs <= n -> lex_string_body bs = Some r ->
  exists t, bs = t ++ r /\ lex_string_body t = Some [].
Proof.
  induction n as [|n IH]; intros bs r Hn H.
  - destruct bs as [|c r0]; [discriminate|cbn [length] in Hn; lia].
  - destruct bs as [|c r0]; [discriminate|]. cbn [length] in Hn.
    rewrite lsb_cons in H.
    destruct (ch c 34) eqn:E34.
    { injection H as <-. exists [c]. split; [reflexivity|]. rewrite lsb_cons, E34. reflexivity. }
    destruct (ch c 92) eqn:E92.
    + destruct r0 as [|e r']; [discriminate|]. cbn [length] in Hn.
      destruct (is_esc1 e) eqn:Ee.
      { destruct (IH r' r ltac:(lia) H) as (t & Hr' & Ht).
        exists (c :: e :: t). split; [cbn [app]; do 2 f_equal; exact Hr'|].
        rewrite lsb_cons, E34, E92, Ee. exact Ht. }
      destruct (ch e 117) eqn:Eu; [|discriminate].
      destruct r' as [|h1 r']; [discriminate|].
      destruct r' as [|h2 r']; [discriminate|].
      destruct r' as [|h3 r']; [discriminate|].
      destruct r' as [|h4 r']; [discriminate|].
      cbn [length] in Hn.
      destruct (is_hex h1 && is_hex h2 && is_hex h3 && is_hex h4)%bool eqn:Eh; [|discriminate].
      destruct (IH r' r ltac:(lia) H) as (t & Hr' & Ht).
      exists (c :: e :: h1 :: h2 :: h3 :: h4 :: t). split; [cbn [app]; do 6 f_equal; exact Hr'|].
      rewrite lsb_cons, E34, E92, Ee, Eu, Eh. exact Ht.
    + destruct (is_ctl c) eqn:Ec; [discriminate|].
      destruct (IH r0 r ltac:(lia) H) as (t & Hr' & Ht).
      exists (c :: t). split; [cbn [app]; f_equal; exact Hr'|].
      rewrite lsb_cons, E34, E92, Ec. exact Ht.
Qed.

Lemma lsb_split : forall bs r, lex_string_body bs = Some r ->
  exists t, bs = t ++ r /\ lex_string_body t = Some [].
Proof. intros bs r. apply (lsb_split_n (length bs)). lia. Qed.

Lemma lsb_len : forall bs r, lex_string_body bs = Some r -> length r < length bs.
Proof.
  intros bs r H. destruct (lsb_split _ _ H) as (t & -> & Ht).
  destruct t as [|c t]; [discriminate|]. rewrite app_length. cbn [length]. lia.
Qed.

(* ------------------------------------------------------------------ *)
(* words *)

Lemma strip_prefix_eq : forall w bs r, strip_prefix w bs = Some r -> bs = w ++ r.
Proof.
  induction w as [|a w IH]; intros bs r H.
  - cbn in H. injection H as <-. reflexivity.
  - destruct bs as [|b bs]; [discriminate|]. cbn [strip_prefix] in H.
    destruct (byte_eqb a b) eqn:E; [|discriminate].
    apply byte_eqb_eq in E. subst b. cbn [app]. f_equal. apply IH. exact H.
Qed.

Lemma list_beq_bytes_eq : forall a b, list_beq_bytes a b = true -> a = b.
Proof.
  intros a b H. unfold list_beq_bytes in H.
  destruct (strip_prefix a b) as [[|x y]|] eqn:E; try discriminate.
  apply strip_prefix_eq in E. rewrite app_nil_r in E. congruence.
Qed.

Lemma word_token_cases : forall t, is_word_token t = true -> t = w_true \/ t = w_false \/ t = w_null.
Proof.
  intros t H. unfold is_word_token in H.
  destruct (list_beq_bytes t w_true) eqn:E1; [left; apply list_beq_bytes_eq; exact E1|].
  destruct (list_beq_bytes t w_false) eqn:E2; [right; left; apply list_beq_bytes_eq; exact E2|].
  destruct (list_beq_bytes t w_null) eqn:E3; [right; right; apply list_beq_bytes_eq; exact E3|].
  discriminate.
Qed.

(* ------------------------------------------------------------------ *)
(* join *)

Lemma join_cons2 : forall (sep x y : bytes) l, join sep (x :: y :: l) = x ++ sep ++ join sep (y :: l).
Proof. intros. cbn [join flat_map]. rewrite <- app_assoc. reflexivity. Qed.

Lemma join_one : forall (sep x : bytes), join sep [x] = x.
Proof. intros. cbn [join flat_map]. apply app_nil_r. Qed.

(* ------------------------------------------------------------------ *)
(* unfolding the recogniser *)

Lemma rd_value_S : forall f bs, rd_value (S f) bs =
    match bs with
    | [] => RFail
    | c :: r =>
      if ch c 91 then
        (match skip_blank r with
         | d :: r' => if ch d 93 then ROk r' else rd_items f (skip_blank r)
         | [] => RFail
         end)
      else if ch c 123 then
        (match skip_blank r with
         | d :: r' => if ch d 125 then ROk r' else rd_members f (skip_blank r)
         | [] => RFail
         end)
      else if ch c 34 then
        (match lex_string_body r with Some r' => ROk r' | None => RFail end)
      else if ch c 116 then (match strip_prefix w_true bs with Some r' => ROk r' | None => RFail end)
      else if ch c 102 then (match strip_prefix w_false bs with Some r' => ROk r' | None => RFail end)
      else if ch c 110 then (match strip_prefix w_null bs with Some r' => ROk r' | None => RFail end)
      else (match lex_number bs with Some r' => ROk r' | None => RFail end)
    end.
Proof. intros. reflexivity. Qed.

Lemma rd_items_S : forall f bs, rd_items (S f) bs =
    match rd_value f bs with
    | ROk r =>
      match skip_blank r with
      | d :: r' => if ch d 44 then rd_items f (skip_blank r')
                   else if ch d 93 then ROk r' else RFail
      | [] => RFail
      end
    | x => x
    end.
Proof. intros. reflexivity. Qed.

Lemma rd_members_S : forall f bs, rd_members (S f) bs =
    match bs with
    | q :: r =>
      if ch q 34 then
        match lex_string_body r with
        | Some r1 =>
          match skip_blank r1 with
          | col :: r2 =>
            if ch col 58 then
              match rd_value f (skip_blank r2) with
              | ROk r3 =>
                match skip_blank r3 with
                | d :: r4 => if ch d 44 then rd_members f (skip_blank r4)
                             else if ch d 125 then ROk r4 else RFail
                | [] => RFail
                end
              | x => x
              end
            else RFail
          | [] => RFail
          end
        | None => RFail
        end
      else RFail
    | [] => RFail
    end.
Proof. intros. reflexivity. Qed.

Lemma rd_value_0 : forall bs, rd_value 0 bs = RFuel. Proof. reflexivity. Qed.
Lemma rd_items_0 : forall bs, rd_items 0 bs = RFuel. Proof. reflexivity. Qed.
Lemma rd_members_0 : forall bs, rd_members 0 bs = RFuel. Proof. reflexivity. Qed.

(* ------------------------------------------------------------------ *)
(* fuel monotonicity *)

Definition mono_v (f : nat) := forall bs r, rd_value f bs = ROk r -> forall f', f <= f' -> rd_value f' bs = ROk r.
Definition mono_i (f : nat) := forall bs r, rd_items f bs = ROk r -> forall f', f <= f' -> rd_items f' bs = ROk r.
Definition mono_m (f : nat) := forall bs r, rd_members f bs = ROk r -> forall f', f <= f' -> rd_members f' bs = ROk r.

Lemma mono_all : forall f, mono_v f /\ mono_i f /\ mono_m f.
Proof.
  induction f as [|f (IHv & IHi & IHm)].
  - repeat split; intros bs r H; discriminate.
  - split; [|split].
    + intros bs r H f' Hf. destruct f' as [|f']; [lia|]. assert (Hf' : f <= f') by lia.
      rewrite rd_value_S in *. destruct bs as [|c r0]; [discriminate|].
      destruct (ch c 91).
      { destruct (skip_blank r0) as [|d r']; [discriminate|].
        destruct (ch d 93); [exact H|]. apply (IHi _ _ H). exact Hf'. }
      destruct (ch c 123).
      { destruct (skip_blank r0) as [|d r']; [discriminate|].
        destruct (ch d 125); [exact H|]. apply (IHm _ _ H). exact Hf'. }
      exact H.
    + intros bs r H f' Hf. destruct f' as [|f']; [lia|]. assert (Hf' : f <= f') by lia.
      rewrite rd_items_S in *.
      destruct (rd_value f bs) as [r1| |] eqn:Ev; try discriminate.
      rewrite (IHv _ _ Ev f' Hf').
      destruct (skip_blank r1) as [|d r']; [discriminate|].
      destruct (ch d 44); [apply (IHi _ _ H); exact Hf'|exact H].
    + intros bs r H f' Hf. destruct f' as [|f']; [lia|]. assert (Hf' : f <= f') by lia.
      rewrite rd_members_S in *.
      destruct bs as [|q r0]; [discriminate|].
      destruct (ch q 34); [|discriminate].
      destruct (lex_string_body r0) as [r1|]; [|discriminate].
      destruct (skip_blank r1) as [|col r2]; [discriminate|].
      destruct (ch col 58); [|discriminate].
      destruct (rd_value f (skip_blank r2)) as [r3| |] eqn:Ev; try discriminate.
      rewrite (IHv _ _ Ev f' Hf').
      destruct (skip_blank r3) as [|d r4]; [discriminate|].
      destruct (ch d 44); [apply (IHm _ _ H); exact Hf'|exact H].
Qed.

Theorem rd_fuel_monotone : forall f bs r, rd_value f bs = ROk r -> forall f', f <= f' -> rd_value f' bs = ROk r.
Proof. intros f bs r H f' Hf. exact (proj1 (mono_all f) bs r H f' Hf). Qed.

Lemma rd_items_monotone : forall f bs r, rd_items f bs = ROk r -> forall f', f <= f' -> rd_items f' bs = ROk r.
Proof. intros f bs r H f' Hf. exact (proj1 (proj2 (mono_all f)) bs r H f' Hf). Qed.

Lemma rd_members_monotone : forall f bs r, rd_members f bs = ROk r -> forall f', f <= f' -> rd_members f' bs = ROk r.
Proof. intros f bs r H f' Hf. exact (proj2 (proj2 (mono_all f)) bs r H f' Hf). Qed.

(* ------------------------------------------------------------------ *)
(* render / wf in named pieces *)

Definition ritem (i : bytes * jv * bytes) : bytes := let '(w1, x, w2) := i in w1 ++ render x ++ w2.
Definition witem (i : bytes * jv * bytes) : bool :=
  let '(w1, x, w2) := i in (all_blank w1 && wf x && all_blank w2)%bool.
Definition rmem (m : bytes * bytes * bytes * bytes * jv * bytes) : bytes :=
  let '(w1, k, w2, w3, x, w4) := m in w1 ++ k ++ w2 ++ [x3a] ++ w3 ++ render x ++ w4.
Definition wmem (m : bytes * bytes * bytes * bytes * jv * bytes) : bool :=
  let '(w1, k, w2, w3, x, w4) := m in
  (all_blank w1 && is_string_token k && all_blank w2 && all_blank w3 && wf x && all_blank w4)%bool.

Lemma render_arr : forall items, render (JArr items) = x5b :: join [x2c] (map ritem items) ++ [x5d].
Proof. reflexivity. Qed.
Lemma render_obj : forall ms, render (JObj ms) = x7b :: join [x2c] (map rmem ms) ++ [x7d].
Proof. reflexivity. Qed.
Lemma wf_arr : forall items, wf (JArr items) = (negb (Nat.eqb (length items) 0) && forallb witem items)%bool.
Proof. reflexivity. Qed.
Lemma wf_obj : forall ms, wf (JObj ms) = (negb (Nat.eqb (length ms) 0) && forallb wmem ms)%bool.
Proof. reflexivity. Qed.

(* ------------------------------------------------------------------ *)
(* soundness: what the recogniser accepts is rendered by a well-formed tree *)

Definition snd_v (f : nat) := forall bs rest, rd_value f bs = ROk rest ->
  exists v, wf v = true /\ bs = render v ++ rest.
Definition snd_i (f : nat) := forall bs rest w, rd_items f bs = ROk rest -> all_blank w = true ->
  exists items, items <> [] /\ forallb witem items = true /\
                w ++ bs = join [x2c] (map ritem items) ++ x5d :: rest.
Definition snd_m (f : nat) := forall bs rest w, rd_members f bs = ROk rest -> all_blank w = true ->
  exists ms, ms <> [] /\ forallb wmem ms = true /\
             w ++ bs = join [x2c] (map rmem ms) ++ x7d :: rest.

Lemma nonempty_len : forall {A} (l : list A), l <> [] -> negb (Nat.eqb (length l) 0) = true.
Proof. intros A [|a l] H; [congruence|reflexivity]. Qed.

Lemma snd_value_step : forall f, snd_i f -> snd_m f -> snd_v (S f).
Proof.
  intros f IHi IHm bs rest H. rewrite rd_value_S in H.
  destruct bs as [|c r0]; [discriminate|].
  destruct (ch c 91) eqn:E91.
  { assert (Hc : c = x5b) by (apply (ch_eq c x5b 91 E91); reflexivity). subst c.
    destruct (skip_blank r0) as [|d r'] eqn:Es; [discriminate|].
    destruct (ch d 93) eqn:E93.
    - injection H as <-.
      assert (Hd : d = x5d) by (apply (ch_eq d x5d 93 E93); reflexivity). subst d.
      exists (JArr0 (takeblank r0)). split; [apply takeblank_blank|].
      cbn [render app]. f_equal. rewrite <- app_assoc. cbn [app]. rewrite <- Es. apply takeblank_skip.
    - rewrite <- Es in H.
      destruct (IHi _ _ (takeblank r0) H (takeblank_blank r0)) as (items & Hne & Hwf & Heq).
      rewrite <- takeblank_skip in Heq.
      exists (JArr items). split.
      + rewrite wf_arr, Hwf, (nonempty_len items Hne). reflexivity.
      + rewrite render_arr. cbn [app]. f_equal. rewrite <- app_assoc. exact Heq. }
  destruct (ch c 123) eqn:E123.
  { assert (Hc : c = x7b) by (apply (ch_eq c x7b 123 E123); reflexivity). subst c.
    destruct (skip_blank r0) as [|d r'] eqn:Es; [discriminate|].
    destruct (ch d 125) eqn:E125.
    - injection H as <-.
      assert (Hd : d = x7d) by (apply (ch_eq d x7d 125 E125); reflexivity). subst d.
      exists (JObj0 (takeblank r0)). split; [apply takeblank_blank|].
      cbn [render app]. f_equal. rewrite <- app_assoc. cbn [app]. rewrite <- Es. apply takeblank_skip.
    - rewrite <- Es in H.
      destruct (IHm _ _ (takeblank r0) H (takeblank_blank r0)) as (ms & Hne & Hwf & Heq).
      rewrite <- takeblank_skip in Heq.
      exists (JObj ms). split.
      + rewrite wf_obj, Hwf, (nonempty_len ms Hne). reflexivity.
      + rewrite render_obj. cbn [app]. f_equal. rewrite <- app_assoc. exact Heq. }
  destruct (ch c 34) eqn:E34.
  { destruct (lex_string_body r0) as [r'|] eqn:El; [|discriminate]. injection H as <-.
    destruct (lsb_split _ _ El) as (t & Hr0 & Ht).
    exists (JTok (c :: t)). split.
    - assert (Hk : is_string_token (c :: t) = true)
        by (unfold is_string_token; rewrite E34, Ht; reflexivity).
      cbn [wf]. rewrite Hk, orb_true_r. reflexivity.
    - cbn [render app]. f_equal. exact Hr0. }
  destruct (ch c 116).
  { destruct (strip_prefix w_true (c :: r0)) as [r'|] eqn:Ep; [|discriminate]. injection H as <-.
    exists (JTok w_true). split; [reflexivity|]. cbn [render]. apply strip_prefix_eq. exact Ep. }
  destruct (ch c 102).
  { destruct (strip_prefix w_false (c :: r0)) as [r'|] eqn:Ep; [|discriminate]. injection H as <-.
    exists (JTok w_false). split; [reflexivity|]. cbn [render]. apply strip_prefix_eq. exact Ep. }
  destruct (ch c 110).
  { destruct (strip_prefix w_null (c :: r0)) as [r'|] eqn:Ep; [|discriminate]. injection H as <-.
    exists (JTok w_null). split; [reflexivity|]. cbn [render]. apply strip_prefix_eq. exact Ep. }
  destruct (lex_number (c :: r0)) as [r'|] eqn:El; [|discriminate]. injection H as <-.
  destruct (lex_number_split _ _ El) as (t & Hbs & Ht).
  exists (JTok t). split; [cbn [wf]; rewrite Ht; reflexivity|exact Hbs].
Qed.

Lemma snd_items_step : forall f, snd_v f -> snd_i f -> snd_i (S f).
Proof.
  intros f IHv IHi bs rest w H Hw. rewrite rd_items_S in H.
  destruct (rd_value f bs) as [r1| |] eqn:Ev; try discriminate.
  destruct (IHv _ _ Ev) as (v & Hv & Hbs).
  destruct (skip_blank r1) as [|d r'] eqn:Es; [discriminate|].
  pose proof (takeblank_skip r1) as Hr1. rewrite Es in Hr1.
  pose proof (takeblank_blank r1) as Hb1.
  destruct (ch d 44) eqn:E44.
  - assert (Hd : d = x2c) by (apply (ch_eq d x2c 44 E44); reflexivity). subst d.
    destruct (IHi _ _ (takeblank r') H (takeblank_blank r')) as (items & Hne & Hwf & Heq).
    rewrite <- takeblank_skip in Heq.
    exists ((w, v, takeblank r1) :: items). split; [discriminate|]. split.
    + cbn [forallb witem]. rewrite Hw, Hv, Hb1, Hwf. reflexivity.
    + destruct items as [|i items]; [congruence|].
      cbn [map]. rewrite join_cons2. cbn [ritem]. cbn [map] in Heq.
      rewrite Hbs, Hr1 at 1. rewrite Heq. rewrite <- !app_assoc. reflexivity.
  - destruct (ch d 93) eqn:E93; [|discriminate]. injection H as <-.
    assert (Hd : d = x5d) by (apply (ch_eq d x5d 93 E93); reflexivity). subst d.
    exists [(w, v, takeblank r1)]. split; [discriminate|]. split.
    + cbn [forallb witem]. rewrite Hw, Hv, Hb1. reflexivity.
    + cbn [map]. rewrite join_one. cbn [ritem].
      rewrite Hbs, Hr1 at 1. rewrite <- !app_assoc. reflexivity.
Qed.

Lemma snd_members_step : forall f, snd_v f -> snd_m f -> snd_m (S f).
Proof.
  intros f IHv IHm bs rest w H Hw. rewrite rd_members_S in H.
  destruct bs as [|q r0]; [discriminate|].
  destruct (ch q 34) eqn:E34; [|discriminate].
  destruct (lex_string_body r0) as [r1|] eqn:El; [|discriminate].
  destruct (lsb_split _ _ El) as (t & Hr0 & Ht).
  destruct (skip_blank r1) as [|col r2] eqn:Es1; [discriminate|].
  pose proof (takeblank_skip r1) as Hr1. rewrite Es1 in Hr1.
  pose proof (takeblank_blank r1) as Hb1.
  destruct (ch col 58) eqn:E58; [|discriminate].
  assert (Hc : col = x3a) by (apply (ch_eq col x3a 58 E58); reflexivity). subst col.
  destruct (rd_value f (skip_blank r2)) as [r3| |] eqn:Ev; try discriminate.
  destruct (IHv _ _ Ev) as (v & Hv & Hbs).
  pose proof (takeblank_skip r2) as Hr2. rewrite Hbs in Hr2.
  pose proof (takeblank_blank r2) as Hb2.
  destruct (skip_blank r3) as [|d r4] eqn:Es3; [discriminate|].
  pose proof (takeblank_skip r3) as Hr3. rewrite Es3 in Hr3.
  pose proof (takeblank_blank r3) as Hb3.
  assert (Hk : is_string_token (q :: t) = true).
  { unfold is_string_token. rewrite E34, Ht. reflexivity. }
  assert (Hall : w ++ q :: r0 =
                 rmem (w, q :: t, takeblank r1, takeblank r2, v, takeblank r3) ++ d :: r4).
  { cbn [rmem]. rewrite Hr0. rewrite Hr1 at 1. rewrite Hr2 at 1. rewrite Hr3 at 1.
    repeat rewrite <- app_assoc. cbn [app]. repeat rewrite <- app_assoc. reflexivity. }
  destruct (ch d 44) eqn:E44.
  - assert (Hd : d = x2c) by (apply (ch_eq d x2c 44 E44); reflexivity). subst d.
    destruct (IHm _ _ (takeblank r4) H (takeblank_blank r4)) as (ms & Hne & Hwf & Heq).
    rewrite <- takeblank_skip in Heq.
    exists ((w, q :: t, takeblank r1, takeblank r2, v, takeblank r3) :: ms).
    split; [discriminate|]. split.
    + cbn [forallb wmem]. rewrite Hw, Hk, Hb1, Hb2, Hv, Hb3, Hwf. reflexivity.
    + destruct ms as [|m ms]; [congruence|].
      cbn [map]. rewrite join_cons2. cbn [map] in Heq.
      rewrite Hall, Heq. rewrite <- !app_assoc. reflexivity.
  - destruct (ch d 125) eqn:E125; [|discriminate]. injection H as <-.
    assert (Hd : d = x7d) by (apply (ch_eq d x7d 125 E125); reflexivity). subst d.
    exists [(w, q :: t, takeblank r1, takeblank r2, v, takeblank r3)].
    split; [discriminate|]. split.
    + cbn [forallb wmem]. rewrite Hw, Hk, Hb1, Hb2, Hv, Hb3. reflexivity.
    + cbn [map]. rewrite join_one. exact Hall.
Qed.

Lemma snd_all : forall f, snd_v f /\ snd_i f /\ snd_m f.
Proof.
  induction f as [|f (IHv & IHi & IHm)].
  - split; [|split]; intros bs rest; [intro H|intros w H|intros w H]; discriminate.
  - split; [|split].
    + apply snd_value_step; assumption.
    + apply snd_items_step; assumption.
    + apply snd_members_step; assumption.
Qed.

Lemma rd_value_sound : forall f bs rest, rd_value f bs = ROk rest ->
  exists v, wf v = true /\ bs = render v ++ rest.
Proof. intros f. exact (proj1 (snd_all f)). Qed.

Theorem grammar_sound : forall bs, rfc8259 bs = true -> JsonText bs.
Proof.
  intros bs H. unfold rfc8259 in H.
  destruct (rd_value (S (length bs)) (skip_blank bs)) as [rest| |] eqn:Ev; try discriminate.
  destruct (rd_value_sound _ _ _ Ev) as (v & Hv & Hbs).
  exists (takeblank bs), v, rest. split; [apply takeblank_blank|]. split; [exact Hv|]. split; [exact H|].
  rewrite <- Hbs. apply takeblank_skip.
Qed.

(* ------------------------------------------------------------------ *)
(* induction principle for the nested type [jv] *)

Section jv_ind2.
  Variable P : jv -> Prop.
  Hypothesis Htok : forall t, P (JTok t).
  Hypothesis Harr0 : forall w, P (JArr0 w).
  Hypothesis Harr : forall items, Forall (fun i => P (snd (fst i))) items -> P (JArr items).
  Hypothesis Hobj0 : forall w, P (JObj0 w).
  Hypothesis Hobj : forall ms, Forall (fun m => P (snd (fst m))) ms -> P (JObj ms).

  Fixpoint jv_ind2 (v : jv) : P v :=
    match v with
    | JTok t => Htok t
    | JArr0 w => Harr0 w
    | JArr items =>
      Harr items
        ((fix go (l : list (bytes * jv * bytes)) : Forall (fun i => P (snd (fst i))) l :=
            match l with
            | [] => Forall_nil _
            | i :: r => Forall_cons i (jv_ind2 (snd (fst i))) (go r)
            end) items)
    | JObj0 w => Hobj0 w
    | JObj ms =>
      Hobj ms
        ((fix go (l : list (bytes * bytes * bytes * bytes * jv * bytes)) : Forall (fun m => P (snd (fst m))) l :=
            match l with
            | [] => Forall_nil _
            | m :: r => Forall_cons m (jv_ind2 (snd (fst m))) (go r)
            end) ms)
    end.
End jv_ind2.

(* ------------------------------------------------------------------ *)
(* completeness *)

Lemma start_of_num : forall c, (ch c 45 || is_digit c)%bool = true -> is_start c = true.
Proof.
  intros c H. unfold is_start. apply orb_true_iff in H.
  destruct H as [H|H]; rewrite H, ?orb_true_r; reflexivity.
Qed.

Lemma render_start : forall v, wf v = true -> exists c t, render v = c :: t /\ is_start c = true.
Proof.
  intros v H. destruct v as [t|w|items|w|ms].
  - cbn [render]. cbn [wf] in H.
    destruct (is_number_token t) eqn:En.
    { destruct t as [|c r]; [discriminate|]. exists c, r. split; [reflexivity|].
      unfold is_number_token in En.
      destruct (lex_number (c :: r)) as [x|] eqn:El; [|discriminate].
      apply lex_number_start in El. apply start_of_num. exact El. }
    destruct (is_string_token t) eqn:Es.
    { destruct t as [|c r]; [discriminate|]. exists c, r. split; [reflexivity|].
      unfold is_string_token in Es. apply andb_true_iff in Es. destruct Es as [Es _].
      unfold is_start. rewrite Es, ?orb_true_r. reflexivity. }
    cbn [orb] in H. destruct (word_token_cases t H) as [-> | [-> | ->]];
      eexists; eexists; (split; [reflexivity|vm_compute; reflexivity]).
  - exists x5b. eexists. split; [reflexivity|vm_compute; reflexivity].
  - exists x5b. eexists. split; [apply render_arr|vm_compute; reflexivity].
  - exists x7b. eexists. split; [reflexivity|vm_compute; reflexivity].
  - exists x7b. eexists. split; [apply render_obj|vm_compute; reflexivity].
Qed.

Definition cmp_v (x : jv) : Prop :=
  wf x = true -> forall rest, tail_ok rest = true -> exists f, rd_value f (render x ++ rest) = ROk rest.

(* after a value: blanks, then ',' / ']' / '}' *)
Lemma tail_ok_sep : forall w c r, all_blank w = true -> (ch c 44 || ch c 93 || ch c 125)%bool = true ->
  tail_ok (w ++ c :: r) = true.
Proof.
  intros w c r Hw Hc. apply tail_ok_blank_app; [exact Hw|]. cbn [tail_ok]. unfold nonext. byte_lia.
Qed.

Lemma skip_blank_sep : forall w c r, all_blank w = true -> (ch c 44 || ch c 93 || ch c 125 || ch c 58)%bool = true ->
  skip_blank (w ++ c :: r) = c :: r.
Proof.
  intros w c r Hw Hc. rewrite skip_blank_app by exact Hw. apply skip_blank_nb. byte_lia.
Qed.

Lemma skip_blank_value : forall w x rest, all_blank w = true -> wf x = true ->
  skip_blank (w ++ render x ++ rest) = render x ++ rest.
Proof.
  intros w x rest Hw Hx. rewrite skip_blank_app by exact Hw.
  destruct (render_start x Hx) as (c & t & -> & Hc). cbn [app].
  apply skip_blank_nb. apply start_not_blank. exact Hc.
Qed.

Lemma cmp_items : forall items,
  Forall (fun i => cmp_v (snd (fst i))) items -> items <> [] -> forallb witem items = true ->
  forall rest, exists f,
    rd_items f (skip_blank (join [x2c] (map ritem items) ++ x5d :: rest)) = ROk rest.
Proof.
  induction items as [|i tl IH]; intros HF Hne Hwf rest; [congruence|].
  inversion HF as [|i' tl' Hi Htl]; subst i' tl'.
  destruct i as [[w1 x] w2]. cbn [fst snd] in Hi.
  cbn [forallb witem] in Hwf.
  apply andb_true_iff in Hwf. destruct Hwf as [Hwi Hwtl].
  apply andb_true_iff in Hwi. destruct Hwi as [Hwi Hw2].
  apply andb_true_iff in Hwi. destruct Hwi as [Hw1 Hx].
  destruct tl as [|j tl].
  - cbn [map]. rewrite join_one. cbn [ritem]. repeat rewrite <- app_assoc.
    rewrite skip_blank_value by assumption.
    destruct (Hi Hx (w2 ++ x5d :: rest)) as (f & Hf).
    { apply tail_ok_sep; [exact Hw2|reflexivity]. }
    exists (S f). rewrite rd_items_S, Hf.
    rewrite skip_blank_sep by (try exact Hw2; reflexivity). reflexivity.
  - destruct (IH Htl ltac:(discriminate) Hwtl rest) as (f2 & Hf2).
    cbn [map]. rewrite join_cons2. cbn [ritem]. repeat rewrite <- app_assoc.
    rewrite skip_blank_value by assumption. cbn [app].
    destruct (Hi Hx (w2 ++ x2c :: join [x2c] (ritem j :: map ritem tl) ++ x5d :: rest)) as (f1 & Hf1).
    { apply tail_ok_sep; [exact Hw2|reflexivity]. }
    exists (S (Nat.max f1 f2)). rewrite rd_items_S.
    rewrite (rd_fuel_monotone _ _ _ Hf1) by lia.
    rewrite skip_blank_sep by (try exact Hw2; reflexivity).
    change (ch x2c 44) with true. cbv iota.
    apply (rd_items_monotone f2); [exact Hf2|lia].
Qed.

Lemma cmp_members : forall ms,
  Forall (fun m => cmp_v (snd (fst m))) ms -> ms <> [] -> forallb wmem ms = true ->
  forall rest, exists f,
    rd_members f (skip_blank (join [x2c] (map rmem ms) ++ x7d :: rest)) = ROk rest.
Proof.
  induction ms as [|m tl IH]; intros HF Hne Hwf rest; [congruence|].
  inversion HF as [|m' tl' Hm Htl]; subst m' tl'.
  destruct m as [[[[[w1 k] w2] w3] x] w4]. cbn [fst snd] in Hm.
  cbn [forallb wmem] in Hwf.
  apply andb_true_iff in Hwf. destruct Hwf as [Hwm Hwtl].
  apply andb_true_iff in Hwm. destruct Hwm as [Hwm Hw4].
  apply andb_true_iff in Hwm. destruct Hwm as [Hwm Hx].
  apply andb_true_iff in Hwm. destruct Hwm as [Hwm Hw3].
  apply andb_true_iff in Hwm. destruct Hwm as [Hwm Hw2].
  apply andb_true_iff in Hwm. destruct Hwm as [Hw1 Hk].
  destruct k as [|q body]; [discriminate|].
  unfold is_string_token in Hk. apply andb_true_iff in Hk. destruct Hk as [Hq Hbody].
  destruct (lex_string_body body) as [[|y z]|] eqn:El; try discriminate.
  assert (Hqb : is_blank q = false) by byte_lia.
  (* shape of one member followed by [tailp] *)
  assert (Hstep : forall tailp sepc, (ch sepc 44 || ch sepc 93 || ch sepc 125)%bool = true ->
            forall f, rd_value f (render x ++ w4 ++ sepc :: tailp) = ROk (w4 ++ sepc :: tailp) ->
            rd_members (S f) (skip_blank (rmem (w1, q :: body, w2, w3, x, w4) ++ sepc :: tailp)) =
            if ch sepc 44 then rd_members f (skip_blank tailp)
            else if ch sepc 125 then ROk tailp else RFail).
  { intros tailp sepc Hsep f Hf. cbn [rmem]. repeat rewrite <- app_assoc.
    rewrite skip_blank_app by exact Hw1. cbn [app]. rewrite skip_blank_nb by exact Hqb.
    rewrite rd_members_S, Hq.
    rewrite (lsb_app body [] _ El). cbn [app].
    rewrite skip_blank_sep by (try exact Hw2; reflexivity).
    change (ch x3a 58) with true. cbv iota.
    rewrite skip_blank_value by assumption. rewrite Hf.
    rewrite skip_blank_sep by (try exact Hw4; rewrite Hsep; reflexivity). reflexivity. }
  destruct tl as [|j tl].
  - cbn [map]. rewrite join_one.
    destruct (Hm Hx (w4 ++ x7d :: rest)) as (f & Hf).
    { apply tail_ok_sep; [exact Hw4|reflexivity]. }
    exists (S f). rewrite (Hstep rest x7d) by (try exact Hf; reflexivity). reflexivity.
  - destruct (IH Htl ltac:(discriminate) Hwtl rest) as (f2 & Hf2).
    cbn [map]. rewrite join_cons2. repeat rewrite <- app_assoc. cbn [app].
    set (tailp := join [x2c] (rmem j :: map rmem tl) ++ x7d :: rest) in *.
    destruct (Hm Hx (w4 ++ x2c :: tailp)) as (f1 & Hf1).
    { apply tail_ok_sep; [exact Hw4|reflexivity]. }
    exists (S (Nat.max f1 f2)).
    rewrite (Hstep tailp x2c) by (try reflexivity; apply (rd_fuel_monotone _ _ _ Hf1); lia).
    change (ch x2c 44) with true. cbv iota.
    apply (rd_members_monotone f2); [exact Hf2|lia].
Qed.

Lemma rd_value_complete : forall v, cmp_v v.
Proof.
  induction v as [t|w|items IH|w|ms IH] using jv_ind2; intros Hwf rest Hrest.
  - (* token *)
    exists 1. cbn [render]. cbn [wf] in Hwf.
    destruct (is_number_token t) eqn:En.
    { destruct t as [|c r]; [discriminate|].
      unfold is_number_token in En.
      destruct (lex_number (c :: r)) as [[|y z]|] eqn:El; try discriminate.
      pose proof (lex_number_start _ _ _ El) as Hc.
      pose proof (lex_number_app _ _ rest El Hrest) as Happ. cbn [app] in Happ.
      cbn [app]. rewrite rd_value_S.
      replace (ch c 91) with false by byte_lia.
      replace (ch c 123) with false by byte_lia.
      replace (ch c 34) with false by byte_lia.
      replace (ch c 116) with false by byte_lia.
      replace (ch c 102) with false by byte_lia.
      replace (ch c 110) with false by byte_lia.
      rewrite Happ. reflexivity. }
    destruct (is_string_token t) eqn:Es.
    { destruct t as [|c r]; [discriminate|].
      unfold is_string_token in Es. apply andb_true_iff in Es. destruct Es as [Hq Hbody].
      destruct (lex_string_body r) as [[|y z]|] eqn:El; try discriminate.
      cbn [app]. rewrite rd_value_S.
      replace (ch c 91) with false by byte_lia.
      replace (ch c 123) with false by byte_lia.
      rewrite Hq, (lsb_app r [] rest El). reflexivity. }
    cbn [orb] in Hwf. destruct (word_token_cases t Hwf) as [-> | [-> | ->]]; reflexivity.
  - (* [] *)
    exists 1. cbn [render wf] in *. repeat rewrite <- app_assoc. cbn [app].
    rewrite rd_value_S. change (ch x5b 91) with true. cbv iota.
    rewrite skip_blank_sep by (try exact Hwf; reflexivity). reflexivity.
  - (* [items] *)
    rewrite wf_arr in Hwf. apply andb_true_iff in Hwf. destruct Hwf as [Hne Hwi].
    assert (Hne' : items <> []) by (intros ->; discriminate).
    destruct (cmp_items items IH Hne' Hwi rest) as (f & Hf).
    exists (S f). rewrite render_arr. cbn [app]. rewrite <- app_assoc. cbn [app].
    rewrite rd_value_S. change (ch x5b 91) with true. cbv iota.
    (* first byte of the first item is a value start, hence not ']' *)
    destruct items as [|[[w1 x] w2] tl]; [congruence|].
    assert (Hx : wf x = true).
    { cbn [forallb witem] in Hwi. apply andb_true_iff in Hwi. destruct Hwi as [Hwi _].
      apply andb_true_iff in Hwi. destruct Hwi as [Hwi _].
      apply andb_true_iff in Hwi. tauto. }
    assert (Hw1 : all_blank w1 = true).
    { cbn [forallb witem] in Hwi. apply andb_true_iff in Hwi. destruct Hwi as [Hwi _].
      apply andb_true_iff in Hwi. destruct Hwi as [Hwi _].
      apply andb_true_iff in Hwi. tauto. }
    destruct (render_start x Hx) as (c & t & Hrx & Hc).
    assert (Hsk : exists y, skip_blank (join [x2c] (map ritem ((w1, x, w2) :: tl)) ++ x5d :: rest) = c :: y).
    { destruct tl as [|j tl].
      - cbn [map]. rewrite join_one. cbn [ritem]. repeat rewrite <- app_assoc.
        rewrite skip_blank_value by assumption. rewrite Hrx. cbn [app]. eexists. reflexivity.
      - cbn [map]. rewrite join_cons2. cbn [ritem]. repeat rewrite <- app_assoc.
        rewrite skip_blank_value by assumption. rewrite Hrx. cbn [app]. eexists. reflexivity. }
    destruct Hsk as (y & Hsk). rewrite Hsk in *.
    destruct (start_not_close c Hc) as (H93 & _ & _). rewrite H93. exact Hf.
  - (* {} *)
    exists 1. cbn [render wf] in *. repeat rewrite <- app_assoc. cbn [app].
    rewrite rd_value_S. change (ch x7b 91) with false. change (ch x7b 123) with true. cbv iota.
    rewrite skip_blank_sep by (try exact Hwf; reflexivity). reflexivity.
  - (* {members} *)
    rewrite wf_obj in Hwf. apply andb_true_iff in Hwf. destruct Hwf as [Hne Hwi].
    assert (Hne' : ms <> []) by (intros ->; discriminate).
    destruct (cmp_members ms IH Hne' Hwi rest) as (f & Hf).
    exists (S f). rewrite render_obj. cbn [app]. rewrite <- app_assoc. cbn [app].
    rewrite rd_value_S. change (ch x7b 91) with false. change (ch x7b 123) with true. cbv iota.
    destruct ms as [|[[[[[w1 k] w2] w3] x] w4] tl]; [congruence|].
    assert (Hw1k : all_blank w1 = true /\ is_string_token k = true).
    { cbn [forallb wmem] in Hwi. apply andb_true_iff in Hwi. destruct Hwi as [Hwi _].
      do 4 (apply andb_true_iff in Hwi; destruct Hwi as [Hwi _]).
      apply andb_true_iff in Hwi. exact Hwi. }
    destruct Hw1k as [Hw1 Hk].
    destruct k as [|q body]; [discriminate|].
    unfold is_string_token in Hk. apply andb_true_iff in Hk. destruct Hk as [Hq _].
    assert (Hsk : exists y, ltac:(match type of Hf with rd_members _ ?z = _ => exact z end) = q :: y).
    { destruct tl as [|j tl].
      - cbn [map]. rewrite join_one. cbn [rmem]. repeat rewrite <- app_assoc.
        rewrite skip_blank_app by exact Hw1. cbn [app]. rewrite skip_blank_nb by byte_lia.
        eexists. reflexivity.
      - cbn [map]. rewrite join_cons2. cbn [rmem]. repeat rewrite <- app_assoc.
        rewrite skip_blank_app by exact Hw1. cbn [app]. rewrite skip_blank_nb by byte_lia.
        eexists. reflexivity. }
    destruct Hsk as (y & Hsk). rewrite Hsk in *.
    replace (ch q 125) with false by byte_lia. exact Hf.
Qed.

(* ------------------------------------------------------------------ *)
(* fuel: as many units as consumed bytes are sufficient *)

Lemma rd_value_len : forall f bs r, rd_value f bs = ROk r -> length r < length bs.
Proof.
  intros f bs r H. destruct (rd_value_sound _ _ _ H) as (v & Hv & ->).
  destruct (render_start v Hv) as (c & t & -> & _). rewrite app_length. cbn [length]. lia.
Qed.

Lemma skip_blank_cons_len : forall bs d r, skip_blank bs = d :: r -> length r < length bs.
Proof. intros bs d r H. pose proof (skip_blank_len bs) as Hl. rewrite H in Hl. cbn [length] in Hl. lia. Qed.

Definition suf_v (f' : nat) := forall bs r, rd_value f' bs = ROk r ->
  forall f, length bs - length r <= f -> rd_value f bs = ROk r.
Definition suf_i (f' : nat) := forall bs r, rd_items f' bs = ROk r ->
  length r < length bs /\ forall f, length bs - length r <= f -> rd_items f bs = ROk r.
Definition suf_m (f' : nat) := forall bs r, rd_members f' bs = ROk r ->
  length r < length bs /\ forall f, length bs - length r <= f -> rd_members f bs = ROk r.

Lemma suf_value_step : forall f', suf_i f' -> suf_m f' -> suf_v (S f').
Proof.
  intros f' IHi IHm bs r H f Hf.
  pose proof (rd_value_len _ _ _ H) as Hlen.
  destruct f as [|g]; [lia|].
  rewrite rd_value_S in *. destruct bs as [|c r0]; [discriminate|]. cbn [length] in *.
  pose proof (skip_blank_len r0) as Hsl.
  destruct (ch c 91).
  { destruct (skip_blank r0) as [|d r'] eqn:Es; [discriminate|].
    destruct (ch d 93); [exact H|]. rewrite <- Es in *.
    destruct (IHi _ _ H) as (Hl & Hs). apply Hs. lia. }
  destruct (ch c 123).
  { destruct (skip_blank r0) as [|d r'] eqn:Es; [discriminate|].
    destruct (ch d 125); [exact H|]. rewrite <- Es in *.
    destruct (IHm _ _ H) as (Hl & Hs). apply Hs. lia. }
  exact H.
Qed.

Lemma suf_items_step : forall f', suf_v f' -> suf_i f' -> suf_i (S f').
Proof.
  intros f' IHv IHi bs r H. rewrite rd_items_S in H.
  destruct (rd_value f' bs) as [r1| |] eqn:Ev; try discriminate.
  pose proof (rd_value_len _ _ _ Ev) as Hl1.
  destruct (skip_blank r1) as [|d r'] eqn:Es; [discriminate|].
  pose proof (skip_blank_cons_len _ _ _ Es) as Hl2.
  destruct (ch d 44) eqn:E44.
  - destruct (IHi _ _ H) as (Hl3 & Hs3).
    pose proof (skip_blank_len r') as Hl4.
    split; [lia|]. intros f Hf. destruct f as [|g]; [lia|].
    rewrite rd_items_S. rewrite (IHv _ _ Ev g) by lia. rewrite Es, E44. apply Hs3. lia.
  - destruct (ch d 93) eqn:E93; [|discriminate]. injection H as <-.
    split; [lia|]. intros f Hf. destruct f as [|g]; [lia|].
    rewrite rd_items_S. rewrite (IHv _ _ Ev g) by lia. rewrite Es, E44, E93. reflexivity.
Qed.

Lemma suf_members_step : forall f', suf_v f' -> suf_m f' -> suf_m (S f').
Proof.
  intros f' IHv IHm bs r H. rewrite rd_members_S in H.
  destruct bs as [|q r0]; [discriminate|]. cbn [length].
  destruct (ch q 34) eqn:E34; [|discriminate].
  destruct (lex_string_body r0) as [r1|] eqn:El; [|discriminate].
  pose proof (lsb_len _ _ El) as Hl0.
  destruct (skip_blank r1) as [|col r2] eqn:Es1; [discriminate|].
  pose proof (skip_blank_cons_len _ _ _ Es1) as Hl1.
  destruct (ch col 58) eqn:E58; [|discriminate].
  destruct (rd_value f' (skip_blank r2)) as [r3| |] eqn:Ev; try discriminate.
  pose proof (rd_value_len _ _ _ Ev) as Hl2.
  pose proof (skip_blank_len r2) as Hl2'.
  destruct (skip_blank r3) as [|d r4] eqn:Es3; [discriminate|].
  pose proof (skip_blank_cons_len _ _ _ Es3) as Hl3.
  destruct (ch d 44) eqn:E44.
  - destruct (IHm _ _ H) as (Hl4 & Hs4).
    pose proof (skip_blank_len r4) as Hl5.
    split; [lia|]. intros f Hf. destruct f as [|g]; [lia|].
    rewrite rd_members_S, E34, El, Es1, E58. rewrite (IHv _ _ Ev g) by lia.
    rewrite Es3, E44. apply Hs4. lia.
  - destruct (ch d 125) eqn:E125; [|discriminate]. injection H as <-.
    split; [lia|]. intros f Hf. destruct f as [|g]; [lia|].
    rewrite rd_members_S, E34, El, Es1, E58. rewrite (IHv _ _ Ev g) by lia.
    rewrite Es3, E44, E125. reflexivity.
Qed.

Lemma suf_all : forall f, suf_v f /\ suf_i f /\ suf_m f.
Proof.
  induction f as [|f (IHv & IHi & IHm)].
  - split; [|split]; intros bs r H; discriminate.
  - split; [|split].
    + apply suf_value_step; assumption.
    + apply suf_items_step; assumption.
    + apply suf_members_step; assumption.
Qed.

(* If some fuel accepts, any fuel at least the number of consumed bytes accepts, with the same rest. *)
Theorem rd_fuel_sufficient : forall f' bs r, rd_value f' bs = ROk r ->
  forall f, length bs - length r <= f -> rd_value f bs = ROk r.
Proof. intros f'. exact (proj1 (suf_all f')). Qed.

(* With more fuel than bytes, the answer is definitive for acceptance: [RFuel] (or [RFail])
   is returned only on texts that no amount of fuel accepts. *)
Theorem rd_fuel_enough_ok : forall bs f f' r, length bs < f ->
  rd_value f' bs = ROk r -> rd_value f bs = ROk r.
Proof. intros bs f f' r Hf H. apply (rd_fuel_sufficient f' bs r H). lia. Qed.

Corollary rd_fuel_out_rejects : forall bs f, length bs < f -> rd_value f bs = RFuel ->
  forall f' r, rd_value f' bs <> ROk r.
Proof.
  intros bs f Hf H f' r H'. rewrite (rd_fuel_enough_ok bs f f' r Hf H') in H. discriminate.
Qed.

(* ------------------------------------------------------------------ *)
(* the two definitions of the language agree *)

Theorem grammar_complete : forall bs, JsonText bs -> rfc8259 bs = true.
Proof.
  intros bs (w1 & v & w2 & Hw1 & Hv & Hw2 & ->). unfold rfc8259.
  rewrite skip_blank_value by assumption.
  destruct (rd_value_complete v Hv w2 (all_blank_tail_ok w2 Hw2)) as (f0 & Hf0).
  rewrite (rd_fuel_sufficient f0 _ _ Hf0); [exact Hw2|].
  rewrite !app_length. lia.
Qed.

Theorem rfc8259_iff_JsonText : forall bs, rfc8259 bs = true <-> JsonText bs.
Proof. intro bs. split; [apply grammar_sound|apply grammar_complete]. Qed.

(* prefix variant, for free: a text has a complete JSON value as a (maximal-munch) prefix iff
   it is blanks, a rendered tree, and a rest that does not continue a number token *)
Theorem rfc8259_prefix_sound : forall bs, rfc8259_prefix bs = true ->
  exists w1 v rest, all_blank w1 = true /\ wf v = true /\ bs = w1 ++ render v ++ rest.
Proof.
  intros bs H. unfold rfc8259_prefix in H.
  destruct (rd_value (S (length bs)) (skip_blank bs)) as [rest| |] eqn:Ev; try discriminate.
  destruct (rd_value_sound _ _ _ Ev) as (v & Hv & Hbs).
  exists (takeblank bs), v, rest. split; [apply takeblank_blank|]. split; [exact Hv|].
  rewrite <- Hbs. apply takeblank_skip.
Qed.

Theorem rfc8259_prefix_complete : forall w1 v rest,
  all_blank w1 = true -> wf v = true -> tail_ok rest = true ->
  rfc8259_prefix (w1 ++ render v ++ rest) = true.
Proof.
  intros w1 v rest Hw1 Hv Hrest. unfold rfc8259_prefix.
  rewrite skip_blank_value by assumption.
  destruct (rd_value_complete v Hv rest Hrest) as (f0 & Hf0).
  rewrite (rd_fuel_sufficient f0 _ _ Hf0); [reflexivity|].
  rewrite !app_length. lia.
Qed.

(* ------------------------------------------------------------------ *)
(* fuel: when does the recogniser never run out *)

(* The statement [forall bs f, length bs < f -> rd_value f bs <> RFuel] is false. *)
Lemma rd_fuel_enough_counterexample :
  length [x5b; x5b; x5b] < 4 /\ rd_value 4 [x5b; x5b; x5b] = RFuel.
Proof. split; [cbn; lia|vm_compute; reflexivity]. Qed.

Theorem rd_fuel_enough_as_stated_is_false :
  ~ (forall bs f, length bs < f -> rd_value f bs <> RFuel).
Proof.
  intro H. destruct rd_fuel_enough_counterexample as (Hl & Hr). exact (H _ _ Hl Hr).
Qed.

Definition nof_v (f : nat) := forall bs, 0 < f -> 2 * length bs <= S f -> rd_value f bs <> RFuel.
Definition nof_i (f : nat) := forall bs, 2 <= f -> 2 * length bs <= f -> rd_items f bs <> RFuel.
Definition nof_m (f : nat) := forall bs, 2 <= f -> 2 * length bs <= f -> rd_members f bs <> RFuel.

Lemma nof_value_step : forall f, nof_i f -> nof_m f -> nof_v (S f).
Proof.
  intros f IHi IHm bs _ Hf. rewrite rd_value_S.
  destruct bs as [|c r0]; [discriminate|]. cbn [length] in Hf.
  pose proof (skip_blank_len r0) as Hsl.
  destruct (ch c 91).
  { destruct (skip_blank r0) as [|d r'] eqn:Es; [discriminate|].
    destruct (ch d 93); [discriminate|]. rewrite <- Es in *.
    assert (1 <= length (skip_blank r0)) by (rewrite Es; cbn [length]; lia).
    apply IHi; lia. }
  destruct (ch c 123).
  { destruct (skip_blank r0) as [|d r'] eqn:Es; [discriminate|].
    destruct (ch d 125); [discriminate|]. rewrite <- Es in *.
    assert (1 <= length (skip_blank r0)) by (rewrite Es; cbn [length]; lia).
    apply IHm; lia. }
  destruct (ch c 34); [destruct (lex_string_body r0); discriminate|].
  destruct (ch c 116); [destruct (strip_prefix w_true (c :: r0)); discriminate|].
  destruct (ch c 102); [destruct (strip_prefix w_false (c :: r0)); discriminate|].
  destruct (ch c 110); [destruct (strip_prefix w_null (c :: r0)); discriminate|].
  destruct (lex_number (c :: r0)); discriminate.
Qed.

Lemma nof_items_step : forall f, nof_v f -> nof_i f -> nof_i (S f).
Proof.
  intros f IHv IHi bs Hf2 Hf. rewrite rd_items_S.
  destruct (rd_value f bs) as [r1| |] eqn:Ev; [|discriminate|exfalso; apply (IHv bs); [lia|lia|exact Ev]].
  pose proof (rd_value_len _ _ _ Ev) as Hl1.
  destruct (skip_blank r1) as [|d r'] eqn:Es; [discriminate|].
  pose proof (skip_blank_cons_len _ _ _ Es) as Hl2.
  pose proof (skip_blank_len r') as Hl3.
  destruct (ch d 44).
  - apply IHi; lia.
  - destruct (ch d 93); discriminate.
Qed.

Lemma nof_members_step : forall f, nof_v f -> nof_m f -> nof_m (S f).
Proof.
  intros f IHv IHm bs Hf2 Hf. rewrite rd_members_S.
  destruct bs as [|q r0]; [discriminate|]. cbn [length] in Hf.
  destruct (ch q 34); [|discriminate].
  destruct (lex_string_body r0) as [r1|] eqn:El; [|discriminate].
  pose proof (lsb_len _ _ El) as Hl0.
  destruct (skip_blank r1) as [|col r2] eqn:Es1; [discriminate|].
  pose proof (skip_blank_cons_len _ _ _ Es1) as Hl1.
  destruct (ch col 58); [|discriminate].
  pose proof (skip_blank_len r2) as Hl2'.
  destruct (rd_value f (skip_blank r2)) as [r3| |] eqn:Ev;
    [|discriminate|exfalso; apply (IHv (skip_blank r2)); [lia|lia|exact Ev]].
  pose proof (rd_value_len _ _ _ Ev) as Hl2.
  destruct (skip_blank r3) as [|d r4] eqn:Es3; [discriminate|].
  pose proof (skip_blank_cons_len _ _ _ Es3) as Hl3.
  pose proof (skip_blank_len r4) as Hl4.
  destruct (ch d 44).
  - apply IHm; lia.
  - destruct (ch d 125); discriminate.
Qed.

Lemma nof_all : forall f, nof_v f /\ nof_i f /\ nof_m f.
Proof.
  induction f as [|f (IHv & IHi & IHm)].
  - split; [|split]; intros bs H; lia.
  - split; [|split].
    + apply nof_value_step; assumption.
    + apply nof_items_step; assumption.
    + apply nof_members_step; assumption.
Qed.

(* tight: "[[[[" needs 7 = 2*4-1 units, [rd_value 6 "[[[["] = RFuel *)
Theorem rd_fuel_enough_tight : forall bs f, 0 < f -> 2 * length bs <= S f -> rd_value f bs <> RFuel.
Proof. intros bs f. exact (proj1 (nof_all f) bs). Qed.

Lemma rd_fuel_enough_tight_witness :
  rd_value 6 [x5b; x5b; x5b; x5b] = RFuel /\ rd_value 7 [x5b; x5b; x5b; x5b] = RFail.
Proof. split; vm_compute; reflexivity. Qed.

(* the intended theorem with the corrected bound *)
Theorem rd_fuel_enough_double : forall bs f, 2 * length bs < f -> rd_value f bs <> RFuel.
Proof. intros bs f H. apply rd_fuel_enough_tight; lia. Qed.

(* the intended theorem under the extra hypothesis that [bs] is acceptable at all *)
Theorem rd_fuel_enough_accepted : forall bs f, length bs < f ->
  (exists f' r, rd_value f' bs = ROk r) -> rd_value f bs <> RFuel.
Proof.
  intros bs f Hf (f' & r & H). rewrite (rd_fuel_enough_ok bs f f' r Hf H). discriminate.
Qed.

(* consequently [rfc8259] (fuel [S (length bs)]) decides the unfuelled language *)
Theorem rfc8259_fuel_independent : forall bs,
  rfc8259 bs = true <-> exists f rest, rd_value f (skip_blank bs) = ROk rest /\ all_blank rest = true.
Proof.
  intro bs. unfold rfc8259. split.
  - intro H. destruct (rd_value (S (length bs)) (skip_blank bs)) as [rest| |] eqn:Ev; try discriminate.
    exists (S (length bs)), rest. split; [exact Ev|exact H].
  - intros (f & rest & Hv & Hb).
    rewrite (rd_fuel_sufficient f _ _ Hv); [exact Hb|].
    pose proof (skip_blank_len bs). lia.
Qed.

(* ------------------------------------------------------------------ *)
Print Assumptions rd_fuel_monotone.
Print Assumptions grammar_complete.
Print Assumptions grammar_sound.
Print Assumptions rfc8259_iff_JsonText.
Print Assumptions rd_fuel_enough_as_stated_is_false.
Print Assumptions rd_fuel_enough_tight.
Print Assumptions rd_fuel_enough_double.
Print Assumptions rd_fuel_sufficient.
Print Assumptions rd_fuel_enough_ok.
Print Assumptions rd_fuel_enough_accepted.
Print Assumptions rfc8259_fuel_independent.
Print Assumptions rfc8259_prefix_sound.
Print Assumptions rfc8259_prefix_complete.
