(* RulePipeline.v — executable model of what Check does with the RULES of ONE annotated
   example node (property C08).  No proofs in this file.

   The model follows the Go code pass by pass, in the order the library runs it, over an
   ORDERED constraint map (insertion order; lookup by constraint type; Filter/Delete as in
   schema/constraints_gen.go):

     1. loader      loader/embedded_loader_for_rule.go (ruleValue, ruleValueLiteral),
                    constraint.NewConstraintFromRule + the constructors' value checks (c_*.go),
                    baseNode.AddConstraint (duplicate -> ErrDuplicateRule)        [load_rules]
     2. compileNode loader/compiler_basic.go: falseConstraints, orConstraint, enumConstraint,
                    precisionConstraint, typeConstraint (typeConstraintForJSONTypes with the
                    jsonTypesHandler entries and SetRealType/compatibleTypes of
                    schema/base_node.go; typeConstraintForUserType), allowedConstraintCheck,
                    anyConstraint, exclusiveMinimumConstraint, exclusiveMaximumConstraint,
                    checkPairConstraints, optionalConstraints, emptyArray          [compile_node]
     2b. CompileAllOf (loader/compiler_all_of.go, processNode/extendWith) for this node
                    — it runs between CompileBasic and the checker                  [all_of_pass]
     3. checker     checker/check_schema.go checkNode: checkCompatibilityOfConstraints (matrix
                    [compat] of Gen/RuleTables.v), checkLinksOfNode, then by node class:
                    checkLiteralNode -> validator.ValidateLiteralValue (checkNotAnEnum, then the
                    LiteralValidators in the order of the constraint type numbers),
                    checkArrayNode (item counts), checkAdditionalPropertiesConstraint [check_schema_node]

   Abstractions (what is NOT modelled is listed at the end of the file).
   * node: kind, position, number of children and what the rules look at in the example.
   * rule value: a JSON literal (bool / number / string / null), or an abstract array value
     (enum list, "or" list), or an object.  A string is its decoded contents.
   * user types: a fixed environment, "@t" is an integer type (`1`), "@o" an object type
     (`{"x": 1}`); every other "@name" is undefined.
   * result: [Ok] or the numeric code of /repo/errors/code.go (0 = ErrGeneric, what
     panics.Handle makes of a foreign Go error).

   Where the Go code ranges over a Go map (bannedConstraints in allowedConstraintCheck) the
   model walks the translated table [banned_with] in table order; every entry yields the same
   code (1117), so the code is unique anyway.  *)
From Coq Require Import List String Bool ZArith NArith Arith.
From Coq Require Import Strings.Byte.
From JS Require Import Common.Wire Gen.RuleTables Schema.RuleTables.
Import ListNotations.
Open Scope string_scope.

(* ------------------------------------------------------------------ data *)

Inductive nkind := NObject | NArray | NString | NInteger | NFloat | NBoolean | NNull.
Inductive npos := PRoot | PProperty | PItem.

(* exact decimal m / 10^e *)
Definition dec := (Z * nat)%type.
Definition dec_leb (a b : dec) : bool := Z.leb (fst a * 10 ^ Z.of_nat (snd b)) (fst b * 10 ^ Z.of_nat (snd a)).
Definition dec_ltb (a b : dec) : bool := Z.ltb (fst a * 10 ^ Z.of_nat (snd b)) (fst b * 10 ^ Z.of_nat (snd a)).

Record node := {
  n_kind : nkind;
  n_pos : npos;
  n_children : nat;         (* number of children of an object / array example *)
  n_num : dec;              (* value of a numeric example *)
  n_strlen : nat;           (* length of the decoded string example *)
  n_frac : nat;             (* number of fractional digits of a numeric example (json.Number.LengthOfFractionalPart) *)
  n_matches : bool;         (* the string example matches the regex of the regex rule *)
  n_in_enum : bool;         (* the example is one of the values of the enum rule *)
  n_formats : list string   (* the format types ("email" "uri" "uuid" "date" "datetime") the string example conforms to *)
}.

Inductive rvalue :=
| VBool (b : bool)                                     (* true / false *)
| VNum (d : dec)                                       (* a number literal; written without sign/fraction iff fst d >= 0 and snd d = 0 *)
| VStr (s : string)                                    (* "s" *)
| VNull                                                (* null *)
| VEnumList                                            (* an array of distinct literals *)
| VOrList (user : bool) (count : nat) (fits : bool)  (* an array of [count] type names (JSON type names or defined user types):
                                                          [user] = some name is a user type, [fits] = some alternative has the kind of the example *)
| VObject.                                             (* {} *)

Definition rule := (string * rvalue)%type.

(* constraints kept in the map *)
Inductive cval :=
| CNat (n : nat)                    (* minLength maxLength minItems maxItems precision *)
| CBound (d : dec) (excl : bool)    (* min max, with the flag set by SetExclusive *)
| CBool (b : bool)                  (* exclusiveMinimum exclusiveMaximum optional nullable const *)
| CType (v : rvalue)                (* type: the literal as written *)
| CTypes (user : bool) (count : nat) (known : bool) (fits : bool)   (* types list: from "or" or from a type reference *)
| CAddProps (user_type : option string)   (* additionalProperties; Some name = "must be user type name" *)
| CAllOf (name : string)
| CMark.                            (* or enum regex any email uri uuid date datetime *)

Inductive result (A : Type) := Ok (a : A) | Err (code : N).
Arguments Ok {A} a.
Arguments Err {A} code.
Definition bind {A B} (r : result A) (f : A -> result B) : result B :=
  match r with Ok a => f a | Err e => Err e end.
Notation "'do' x <- r ; f" := (bind r (fun x => f)) (at level 200, x name, r at level 100, f at level 200).
Definition is_ok {A} (r : result A) : bool := match r with Ok _ => true | Err _ => false end.

(* error codes, /repo/errors/code.go *)
Definition ErrGeneric : N := 0.
Definition ErrUnknownType : N := 102.
Definition ErrUnknownJSchemaType : N := 103.
Definition ErrDuplicateRule : N := 501.
Definition ErrUnknownRule : N := 601.
Definition ErrConstraintValidation : N := 602.
Definition ErrConstraintStringLengthValidation : N := 603.
Definition ErrInvalidValueOfConstraint : N := 604.
Definition ErrZeroPrecision : N := 605.
Definition ErrEmptyEmail : N := 606.
Definition ErrInvalidEmail : N := 607.
Definition ErrConstraintMinItemsValidation : N := 608.
Definition ErrConstraintMaxItemsValidation : N := 609.
Definition ErrDoesNotMatchAnyOfTheEnumValues : N := 610.
Definition ErrDoesNotMatchRegularExpression : N := 611.
Definition ErrInvalidUri : N := 612.
Definition ErrInvalidDateTime : N := 613.
Definition ErrInvalidUuid : N := 614.
Definition ErrInvalidDate : N := 616.
Definition ErrValueOfOneConstraintGreaterThanAnother : N := 617.
Definition ErrValueOfOneConstraintGreaterOrEqualToAnother : N := 618.
Definition ErrInvalidSchemaNameInAllOfRule : N := 702.
Definition ErrUnacceptableUserTypeInAllOfRule : N := 704.
Definition ErrLoader : N := 801.
Definition ErrIncorrectRuleValueType : N := 802.
Definition ErrInvalidValueInEnumRule : N := 806.
Definition ErrUnacceptableValueInAllOfRule : N := 808.
Definition ErrArrayWasExpectedInOrRule : N := 901.
Definition ErrEmptyArrayInOrRule : N := 902.
Definition ErrOneElementInArrayInOrRule : N := 903.
Definition ErrIncorrectArrayItemTypeInOrRule : N := 904.
Definition ErrRuleOptionalAppliesOnlyToObjectProperties : N := 1101.
Definition ErrCannotSpecifyOtherRulesWithTypeReference : N := 1102.
Definition ErrShouldBeNoOtherRulesInSetWithOr : N := 1103.
Definition ErrShouldBeNoOtherRulesInSetWithEnum : N := 1104.
Definition ErrShouldBeNoOtherRulesInSetWithAny : N := 1105.
Definition ErrInvalidNestedElementsFoundForTypeAny : N := 1106.
Definition ErrInvalidChildNodeTogetherWithTypeReference : N := 1107.
Definition ErrInvalidChildNodeTogetherWithOrRule : N := 1108.
Definition ErrConstraintMinNotFound : N := 1109.
Definition ErrConstraintMaxNotFound : N := 1110.
Definition ErrInvalidValueInTheTypeRule : N := 1111.
Definition ErrNotFoundRulePrecision : N := 1112.
Definition ErrNotFoundRuleEnum : N := 1113.
Definition ErrNotFoundRuleOr : N := 1114.
Definition ErrIncompatibleTypes : N := 1115.
Definition ErrUnexpectedConstraint : N := 1117.
Definition ErrIncorrectConstraintValueForEmptyArray : N := 1204.
Definition ErrIncorrectUserType : N := 1301.
Definition ErrTypeNotFound : N := 1302.

(* ------------------------------------------------------------------ the ordered constraint map
   schema/constraints_gen.go: [order] + [data]; the keys of a map are pairwise distinct. *)
Definition cmap := list (string * cval).

Fixpoint lookup (k : string) (m : cmap) : option cval :=          (* Get *)
  match m with
  | [] => None
  | (k', v) :: r => if k' =? k then Some v else lookup k r
  end.
Definition has (k : string) (m : cmap) : bool :=                  (* Has *)
  match lookup k m with Some _ => true | None => false end.
Fixpoint delete (k : string) (m : cmap) : cmap :=                 (* Delete: the first (only) entry *)
  match m with
  | [] => []
  | (k', v) :: r => if k' =? k then r else (k', v) :: delete k r
  end.
Definition mfilter (f : string -> cval -> bool) (m : cmap) : cmap :=   (* Filter *)
  filter (fun p => f (fst p) (snd p)) m.
Fixpoint update (k : string) (f : cval -> cval) (m : cmap) : cmap :=   (* in-place mutation through the stored pointer *)
  match m with
  | [] => []
  | (k', v) :: r => if k' =? k then (k', f v) :: r else (k', v) :: update k f r
  end.
(* baseNode.AddConstraint *)
Definition add (k : string) (v : cval) (m : cmap) : result cmap :=
  if has k m then Err ErrDuplicateRule else Ok (app m [(k, v)]).
Definition size (m : cmap) : nat := List.length m.               (* NumberOfConstraints *)

(* ------------------------------------------------------------------ small helpers *)
Definition is_branch (k : nkind) : bool := match k with NObject | NArray => true | _ => false end.
Definition nkind_eqb (a b : nkind) : bool :=
  match a, b with
  | NObject, NObject | NArray, NArray | NString, NString | NInteger, NInteger
  | NFloat, NFloat | NBoolean, NBoolean | NNull, NNull => true
  | _, _ => false
  end.
Definition jk (k : nkind) : jkind :=
  match k with
  | NObject => KObject | NArray => KArray | NString => KString | NInteger => KInteger
  | NFloat => KFloat | NBoolean => KBoolean | NNull => KNull
  end.
Definition kind_index (k : nkind) : nat :=
  match k with
  | NObject => 0 | NArray => 1 | NString => 2 | NInteger => 3 | NFloat => 4 | NBoolean => 5 | NNull => 6
  end.
(* Constraint.IsJsonTypeCompatible, through the translated matrix *)
Definition compat_ok (c : string) (k : nkind) : bool :=
  match lookup_row c compat with
  | Some row => nth (kind_index k) row false
  | None => false
  end.

Definition mem (s : string) (l : list string) : bool := existsb (String.eqb s) l.

(* bytes.IsUserTypeName: '@' followed by at least one name byte (the name bytes themselves are not modelled) *)
Definition is_user_type_name (s : string) : bool :=
  String.prefix "@" s && Nat.leb 2 (String.length s).

(* the user types of the environment and the kind of their root node *)
Definition user_type_kind (s : string) : option nkind :=
  if s =? "@t" then Some NInteger else if s =? "@o" then Some NObject else None.

(* jschema.IsValidType, /repo/type.go *)
Definition valid_schema_types : list string :=
  ["string"; "integer"; "float"; "decimal"; "boolean"; "object"; "array"; "null"; "email"; "uri"; "uuid";
   "date"; "datetime"; "enum"; "mixed"; "any"; "comment"].

(* the text Unquote() sees for a literal; a number never spells a name *)
Definition literal_text (v : rvalue) : option string :=
  match v with
  | VBool true => Some "true"
  | VBool false => Some "false"
  | VNull => Some "null"
  | VStr s => Some s
  | _ => None
  end.
Definition is_literal (v : rvalue) : bool :=
  match v with VBool _ | VNum _ | VStr _ | VNull => true | _ => false end.

(* ------------------------------------------------------------------ 1. the rule loader *)

(* bytes.ParseUint: decimal digits only *)
Definition parse_uint (v : rvalue) : option nat :=
  match v with
  | VNum (m, O) => if Z.leb 0 m then Some (Z.to_nat m) else None
  | _ => None
  end.

(* constraint.NewConstraintFromRule and the constructors; the value is a literal here *)
(* fix 6af6f9e: "comment" is the AST type of a comment inside an enum; no value has it, so additionalProperties refuses it *)
Definition addprops_type_name (t : string) : bool := mem t valid_schema_types && negb (t =? "comment").
Arguments addprops_type_name : simpl never.

Definition new_constraint (name : string) (v : rvalue) : result cval :=
  if (name =? "minLength") || (name =? "maxLength") || (name =? "minItems") || (name =? "maxItems") then
    match parse_uint v with Some n => Ok (CNat n) | None => Err ErrInvalidValueOfConstraint end
  else if name =? "precision" then
    match parse_uint v with
    | Some O => Err ErrZeroPrecision
    | Some n => Ok (CNat n)
    | None => Err ErrInvalidValueOfConstraint
    end
  else if (name =? "min") || (name =? "max") then
    match v with VNum d => Ok (CBound d false) | _ => Err ErrGeneric end       (* json.NewNumber's plain Go error *)
  else if (name =? "exclusiveMinimum") || (name =? "exclusiveMaximum") || (name =? "optional")
          || (name =? "nullable") || (name =? "const") then
    match v with VBool b => Ok (CBool b) | _ => Err ErrInvalidValueOfConstraint end
  else if name =? "type" then Ok (CType v)                                      (* NewType keeps the bytes *)
  else if name =? "additionalProperties" then
    match literal_text v with
    | Some t =>
      if (t =? "any") || (t =? "true") || (t =? "false") then Ok (CAddProps None)
      else if is_user_type_name t then Ok (CAddProps (Some t))
      else if addprops_type_name t then Ok (CAddProps None)
      else Err ErrUnknownJSchemaType
    | None => Err ErrUnknownJSchemaType
    end
  else if name =? "regex" then
    match v with
    | VStr _ | VNull => Ok CMark       (* json.Unmarshal(null, &str) leaves "": the empty expression, which matches every string *)
    | _ => Err ErrGeneric              (* encoding/json's error; a string is assumed to be an expression that compiles *)
    end
  else Err ErrUnknownRule.

(* ruleLoader.ruleValue + ruleValueLiteral for one written rule *)
Definition load_rule (m : cmap) (r : rule) : result cmap :=
  let (name, v) := r in
  if name =? "or" then
    do m1 <- add "types" (match v with VOrList u c a => CTypes u c true a | _ => CTypes false 0 true false end) m;
    do m2 <- add "or" CMark m1;
    match v with
    | VOrList _ O _ => Err ErrEmptyArrayInOrRule
    | VOrList _ (S O) _ => Err ErrOneElementInArrayInOrRule
    | VOrList _ _ _ => Ok m2
    | VEnumList => Err ErrIncorrectArrayItemTypeInOrRule    (* an array whose items are not type names; out of the modelled inputs *)
    | _ => Err ErrArrayWasExpectedInOrRule
    end
  else if name =? "enum" then
    do m1 <- add "enum" CMark m;
    match v with
    | VEnumList | VOrList _ _ _ => Ok m1                     (* any array of distinct literals *)
    | _ => Err ErrInvalidValueInEnumRule
    end
  else if name =? "allOf" then
    do m1 <- add "allOf" (match v with VStr s => CAllOf s | _ => CAllOf "" end) m;
    match v with
    | VStr s => if is_user_type_name s then Ok m1 else Err ErrInvalidSchemaNameInAllOfRule
    | _ => Err ErrUnacceptableValueInAllOfRule               (* array forms of allOf are not modelled *)
    end
  else if negb (is_literal v) then Err ErrIncorrectRuleValueType
  else
    do c <- new_constraint name v;
    add name c m.

(* a left-to-right fold that stops at the first error *)
Fixpoint load_rules (m : cmap) (rs : list rule) : result cmap :=
  match rs with
  | [] => Ok m
  | r :: rest => do m' <- load_rule m r; load_rules m' rest
  end.

(* ------------------------------------------------------------------ 2. compileNode *)

Definition false_constraints (m : cmap) : result cmap :=
  Ok (mfilter (fun k c =>
        if (k =? "nullable") || (k =? "const")
        then match c with CBool false => false | _ => true end
        else true) m).

Definition dec1 (b : bool) (n : nat) : nat := if b then n - 1 else n.

(* the text compared in the or / enum passes is the raw literal: only a quoted string can match *)
Definition raw_is_string (v : rvalue) (s : string) : bool :=
  match v with VStr t => t =? s | _ => false end.
(* Bytes().Unquote().String() *)
Definition unquoted_is (v : rvalue) (s : string) : bool :=
  match literal_text v with Some t => t =? s | None => false end.

Definition or_constraint (n : node) (m : cmap) : result cmap :=
  if negb (has "or" m) then Ok m
  else
    match lookup "types" m with
    | None => Err ErrLoader
    | Some tl =>
      let c := size m - 1 in
      let c := dec1 (has "or" m) c in
      let c := dec1 (has "optional" m) c in
      let c := dec1 (has "nullable" m) c in
      do c <- match lookup "type" m with
              | Some (CType v) => if raw_is_string v "mixed" then Ok (c - 1) else Err ErrInvalidValueInTheTypeRule
              | Some _ => Ok (c - 1)
              | None => Ok c
              end;
      if negb (Nat.eqb c 0) then Err ErrShouldBeNoOtherRulesInSetWithOr
      else
        (* ensureCanUseORConstraint / checkBranchNodeWithOrConstraint *)
        if is_branch (n_kind n) && negb (Nat.eqb (n_children n) 0) then Err ErrInvalidChildNodeTogetherWithOrRule
        else if is_branch (n_kind n) && (match tl with CTypes true _ _ _ => true | _ => false end)
        then Err ErrInvalidChildNodeTogetherWithOrRule
        else Ok (delete "or" m)
    end.

Definition enum_constraint (m : cmap) : result cmap :=
  if negb (has "enum" m) then Ok m
  else
    let c := size m - 1 in
    let c := dec1 (has "optional" m) c in
    let c := dec1 (has "const" m) c in
    let c := dec1 (has "nullable" m) c in
    do c <- match lookup "type" m with
            | Some (CType v) => if raw_is_string v "enum" then Ok (c - 1) else Err ErrInvalidValueInTheTypeRule
            | Some _ => Ok (c - 1)
            | None => Ok c
            end;
    if negb (Nat.eqb c 0) then Err ErrShouldBeNoOtherRulesInSetWithEnum else Ok m.

Definition precision_constraint (m : cmap) : result cmap :=
  if negb (has "precision" m) then Ok m
  else match lookup "type" m with
       | Some (CType v) => if unquoted_is v "decimal" then Ok m else Err ErrUnexpectedConstraint
       | _ => Ok m
       end.

(* json.NewJsonType *)
Definition json_type_of_name (s : string) : option nkind :=
  if s =? "object" then Some NObject else if s =? "array" then Some NArray
  else if s =? "string" then Some NString else if s =? "integer" then Some NInteger
  else if s =? "float" then Some NFloat else if s =? "boolean" then Some NBoolean
  else if s =? "null" then Some NNull else None.

(* schema/base_node.go compatibleTypes: SetRealType succeeds iff the name is a key and the node's json type is listed *)
Definition set_real_type (s : string) (k : nkind) : bool :=
  if (s =? "mixed") || (s =? "any") then true
  else if s =? "enum" then negb (is_branch k)
  else if s =? "decimal" then nkind_eqb k NFloat
  else if (s =? "email") || (s =? "uri") || (s =? "uuid") || (s =? "date") || (s =? "datetime") then nkind_eqb k NString
  else match json_type_of_name s with Some t => nkind_eqb k t | None => false end.

Definition type_for_user_type (n : node) (name : string) (m : cmap) : result cmap :=
  let c := size m in
  let c := dec1 (has "optional" m) c in
  let c := dec1 (has "nullable" m) c in
  if negb (Nat.eqb c 1) then Err ErrCannotSpecifyOtherRulesWithTypeReference
  else if is_branch (n_kind n) then Err ErrInvalidChildNodeTogetherWithTypeReference
  else
    add "types" (match user_type_kind name with
                 | Some k => CTypes true 1 true (nkind_eqb k (n_kind n))
                 | None => CTypes true 1 false false
                 end) m.

Definition type_for_json_types (n : node) (val : option string) (m : cmap) : result cmap :=
  match val with
  | None => Err ErrUnknownType                        (* a number literal: json.NewJsonType panics *)
  | Some s =>
    do m1 <-
      (if s =? "mixed" then
         match lookup "types" m with
         | Some (CTypes _ c _ _) => if Nat.ltb c 2 then Err ErrNotFoundRuleOr else Ok m
         | _ => Err ErrNotFoundRuleOr
         end
       else if s =? "enum" then (if has "enum" m then Ok m else Err ErrNotFoundRuleEnum)
       else if s =? "any" then add "any" CMark m
       else if s =? "decimal" then (if has "precision" m then Ok m else Err ErrNotFoundRulePrecision)
       else if (s =? "email") || (s =? "uri") || (s =? "uuid") || (s =? "date") || (s =? "datetime") then add s CMark m
       else match json_type_of_name s with
            | Some t => if nkind_eqb t (n_kind n) then Ok m else Err ErrIncompatibleTypes
            | None => Err ErrUnknownType
            end);
    if set_real_type s (n_kind n) then Ok m1 else Err ErrIncompatibleTypes
  end.

Definition type_constraint (n : node) (m : cmap) : result cmap :=
  match lookup "type" m with
  | Some (CType v) =>
    let val := literal_text v in
    do m1 <- (match val with
              | Some s => if is_user_type_name s then type_for_user_type n s m else type_for_json_types n val m
              | None => type_for_json_types n val m
              end);
    Ok (delete "type" m1)
  | _ => Ok m
  end.

(* the Go code ranges over a map: which offending pair is reported is not determined; all give 1117 *)
Definition allowed_constraint_check (m : cmap) : result cmap :=
  if existsb (fun p => has (fst p) m && has (snd p) m) banned_with then Err ErrUnexpectedConstraint else Ok m.

Definition any_constraint (n : node) (m : cmap) : result cmap :=
  if negb (has "any" m) then Ok m
  else
    let c := size m - 1 in
    let c := dec1 (has "optional" m) c in
    let c := dec1 (has "nullable" m) c in
    let c := dec1 (has "const" m) c in
    if negb (Nat.eqb c 0) then Err ErrShouldBeNoOtherRulesInSetWithAny
    else if is_branch (n_kind n) && negb (Nat.eqb (n_children n) 0) then Err ErrInvalidNestedElementsFoundForTypeAny
    else Ok m.

Definition set_exclusive (c : cval) : cval :=
  match c with CBound d _ => CBound d true | _ => c end.

Definition exclusive_constraint (flag bound : string) (missing : N) (m : cmap) : result cmap :=
  match lookup flag m with
  | None => Ok m
  | Some f =>
    if negb (has bound m) then Err missing
    else
      let m1 := match f with CBool true => update bound set_exclusive m | _ => m end in
      Ok (delete flag m1)
  end.
Definition exclusive_minimum_constraint := exclusive_constraint "exclusiveMinimum" "min" ErrConstraintMinNotFound.
Definition exclusive_maximum_constraint := exclusive_constraint "exclusiveMaximum" "max" ErrConstraintMaxNotFound.

Definition check_min_and_max (m : cmap) : result cmap :=
  match lookup "min" m, lookup "max" m with
  | Some (CBound a xa), Some (CBound b xb) =>
    if xa || xb
    then (if dec_leb b a then Err ErrValueOfOneConstraintGreaterOrEqualToAnother else Ok m)
    else (if dec_ltb b a then Err ErrValueOfOneConstraintGreaterThanAnother else Ok m)
  | _, _ => Ok m
  end.
Definition check_nat_pair (lo hi : string) (m : cmap) : result cmap :=
  match lookup lo m, lookup hi m with
  | Some (CNat a), Some (CNat b) => if Nat.ltb b a then Err ErrValueOfOneConstraintGreaterThanAnother else Ok m
  | _, _ => Ok m
  end.
Definition check_pair_constraints (m : cmap) : result cmap :=
  do m1 <- check_min_and_max m;
  do m2 <- check_nat_pair "minLength" "maxLength" m1;
  check_nat_pair "minItems" "maxItems" m2.

Definition optional_constraints (n : node) (m : cmap) : result cmap :=
  if has "optional" m
  then match n_pos n with PProperty => Ok m | _ => Err ErrRuleOptionalAppliesOnlyToObjectProperties end
  else Ok m.       (* addRequiredKey touches the parent only *)

Definition nat_nonzero (c : option cval) : bool :=
  match c with Some (CNat (S _)) => true | _ => false end.
Definition empty_array (n : node) (m : cmap) : result cmap :=
  match n_kind n with
  | NArray =>
    if Nat.eqb (n_children n) 0 then
      if nat_nonzero (lookup "minItems" m) then Err ErrIncorrectConstraintValueForEmptyArray
      else if nat_nonzero (lookup "maxItems" m) then Err ErrIncorrectConstraintValueForEmptyArray
      else Ok m
    else Ok m
  | _ => Ok m
  end.

Definition compile_node (n : node) (m : cmap) : result cmap :=
  do m <- false_constraints m;
  do m <- or_constraint n m;
  do m <- enum_constraint m;
  do m <- precision_constraint m;
  do m <- type_constraint n m;
  do m <- allowed_constraint_check m;
  do m <- any_constraint n m;
  do m <- exclusive_minimum_constraint m;
  do m <- exclusive_maximum_constraint m;
  do m <- check_pair_constraints m;
  do m <- optional_constraints n m;
  empty_array n m.

(* ------------------------------------------------------------------ 2b. CompileAllOf.processNode / extendWith *)
Definition all_of_pass (n : node) (m : cmap) : result cmap :=
  match lookup "allOf" m with
  | Some (CAllOf name) =>
    match user_type_kind name with
    | None => Err ErrTypeNotFound
    | Some NObject =>
      match n_kind n with
      | NObject => Ok (delete "allOf" m)        (* the type has no additionalProperties rule and other keys *)
      | _ => Err ErrUnexpectedConstraint
      end
    | Some _ => Err ErrUnacceptableUserTypeInAllOfRule
    end
  | _ => Ok m
  end.

(* ------------------------------------------------------------------ 3. the schema checker for this node *)

(* ConstraintMap().Each in insertion order: the first incompatible constraint is reported (always 1117) *)
Definition check_compatibility (n : node) (m : cmap) : result cmap :=
  if forallb (fun p => compat_ok (fst p) (n_kind n)) m then Ok m else Err ErrUnexpectedConstraint.

(* fix d925ea9: "nullable" next to the list of types - the example may be null *)
Definition null_under_nullable (n : node) (m : cmap) : bool :=
  match lookup "nullable" m with Some (CBool true) => nkind_eqb (n_kind n) NNull | _ => false end.
Definition check_links (n : node) (m : cmap) : result cmap :=
  match lookup "types" m with
  | Some (CTypes _ _ known fits) =>
    if negb known then Err ErrTypeNotFound
    else if negb (fits || null_under_nullable n m) then Err ErrIncorrectUserType
    else Ok m
  | _ => Ok m
  end.

(* one LiteralValidator; None = passes *)
Definition validate_one (n : node) (k : string) (c : cval) : option N :=
  let fmt (code : N) := if mem k (n_formats n) then None else Some code in
  if k =? "minLength" then
    match c with CNat v => if Nat.ltb (n_strlen n) v then Some ErrConstraintStringLengthValidation else None | _ => None end
  else if k =? "maxLength" then
    match c with CNat v => if Nat.ltb v (n_strlen n) then Some ErrConstraintStringLengthValidation else None | _ => None end
  else if k =? "min" then
    match c with
    | CBound d true => if dec_leb (n_num n) d then Some ErrConstraintValidation else None
    | CBound d false => if dec_ltb (n_num n) d then Some ErrConstraintValidation else None
    | _ => None
    end
  else if k =? "max" then
    match c with
    | CBound d true => if dec_leb d (n_num n) then Some ErrConstraintValidation else None
    | CBound d false => if dec_ltb d (n_num n) then Some ErrConstraintValidation else None
    | _ => None
    end
  else if k =? "precision" then
    match c with CNat v => if Nat.ltb v (n_frac n) then Some ErrConstraintValidation else None | _ => None end
  else if k =? "email" then
    (if mem k (n_formats n) then None
     else if Nat.eqb (n_strlen n) 0 then Some ErrEmptyEmail else Some ErrInvalidEmail)
  else if k =? "enum" then (if n_in_enum n then None else Some ErrDoesNotMatchAnyOfTheEnumValues)
  else if k =? "regex" then (if n_matches n then None else Some ErrDoesNotMatchRegularExpression)
  else if k =? "uri" then fmt ErrInvalidUri
  else if k =? "date" then fmt ErrInvalidDate
  else if k =? "datetime" then fmt ErrInvalidDateTime
  else if k =? "uuid" then fmt ErrInvalidUuid
  else None.     (* const validates the example against itself; the others are not LiteralValidators *)

(* the keys are sorted by constraint type number before validating *)
Definition validation_order : list string :=
  ["minLength"; "maxLength"; "min"; "max"; "precision"; "email"; "enum"; "regex"; "uri"; "date"; "datetime"; "uuid"; "const"].

Fixpoint validate_in_order (n : node) (m : cmap) (ks : list string) : option N :=
  match ks with
  | [] => None
  | k :: rest =>
    match lookup k m with
    | Some c => match validate_one n k c with Some e => Some e | None => validate_in_order n m rest end
    | None => validate_in_order n m rest
    end
  end.

(* validator.ValidateLiteralValue for the node's own example: checkNotAnEnum compares the example's
   literal type with the type of the node that was built from it, so it always passes here *)
Definition validate_literal_value (n : node) (m : cmap) : result cmap :=
  let nullable := match lookup "nullable" m with Some (CBool true) => true | _ => false end in
  if nullable && nkind_eqb (n_kind n) NNull then Ok m
  else match validate_in_order n m validation_order with Some e => Err e | None => Ok m end.

(* checkLiteralNode: with a types list the checkers come from the named types (bare type names / a
   rule-less user type): once checkLinksOfNode found the kind among them, that alternative validates *)
Definition check_literal_node (n : node) (m : cmap) : result cmap :=
  if has "types" m then Ok m else validate_literal_value n m.

Definition check_array_node (n : node) (m : cmap) : result cmap :=
  do m <- match lookup "minItems" m with
          | Some (CNat v) => if Nat.ltb (n_children n) v then Err ErrConstraintMinItemsValidation else Ok m
          | _ => Ok m
          end;
  match lookup "maxItems" m with
  | Some (CNat v) => if Nat.ltb v (n_children n) then Err ErrConstraintMaxItemsValidation else Ok m
  | _ => Ok m
  end.

Definition check_additional_properties (m : cmap) : result cmap :=
  match lookup "additionalProperties" m with
  | Some (CAddProps (Some name)) =>
    match user_type_kind name with Some _ => Ok m | None => Err ErrTypeNotFound end
  | _ => Ok m
  end.

Definition check_schema_node (n : node) (m : cmap) : result cmap :=
  do m <- check_compatibility n m;
  do m <- check_links n m;
  match n_kind n with
  | NObject => check_additional_properties m
  | NArray => check_array_node n m
  | _ => check_literal_node n m
  end.

(* ------------------------------------------------------------------ the whole pipeline *)
Definition check_node (n : node) (rules : list rule) : result cmap :=
  do m <- load_rules [] rules;
  do m <- compile_node n m;
  do m <- all_of_pass n m;
  check_schema_node n m.

(* ------------------------------------------------------------------ wire front end
   line  :=  NODE "|" RULES
   NODE  :=  kind " " pos " " children " " mantissa " " scale " " strlen " " frac " " matches " " in_enum " " formats
             kind = o a s i f b n;  pos = r p i;  mantissa may be negative;  matches / in_enum = T F;
             formats = "-" or comma separated names
   RULES :=  empty, or rules separated by ";", each  name "=" value
   value :=  "T" | "F" | "Z" (null) | "N" mantissa "/" scale | "S" text | "E" (enum list)
           | "O" (T|F) "," count "," (T|F)   (or list: user, count, fits) | "J" (object)
   output:   "ok" or "E" code;  "BAD" for a line that does not parse *)
Definition str_of (bs : bytes) : string := string_of_list_byte bs.

Definition parse_kind (bs : bytes) : option nkind :=
  let s := str_of bs in
  if s =? "o" then Some NObject else if s =? "a" then Some NArray else if s =? "s" then Some NString
  else if s =? "i" then Some NInteger else if s =? "f" then Some NFloat else if s =? "b" then Some NBoolean
  else if s =? "n" then Some NNull else None.
Definition parse_pos (bs : bytes) : option npos :=
  let s := str_of bs in
  if s =? "r" then Some PRoot else if s =? "p" then Some PProperty else if s =? "i" then Some PItem else None.
Definition parse_flag (bs : bytes) : option bool :=
  let s := str_of bs in
  if s =? "T" then Some true else if s =? "F" then Some false else None.

Definition parse_node (bs : bytes) : option node :=
  match split_on sp bs with
  | [k; p; ch; mn; sc; sl; fr; mt; ie; fm] =>
    match parse_kind k, parse_pos p, parse_nat ch, parse_Z mn, parse_nat sc with
    | Some k, Some p, Some ch, Some mn, Some sc =>
      match parse_nat sl, parse_nat fr, parse_flag mt, parse_flag ie with
      | Some sl, Some fr, Some mt, Some ie =>
        Some {| n_kind := k; n_pos := p; n_children := ch; n_num := (mn, sc); n_strlen := sl; n_frac := fr;
                n_matches := mt; n_in_enum := ie;
                n_formats := if str_of fm =? "-" then [] else map str_of (split_on comma fm) |}
      | _, _, _, _ => None
      end
    | _, _, _, _, _ => None
    end
  | _ => None
  end.

Definition slash : byte := x2f.
Definition eqsign : byte := x3d.

Definition parse_value (bs : bytes) : option rvalue :=
  match bs with
  | [] => None
  | c :: r =>
    let t := str_of [c] in
    if t =? "T" then (match r with [] => Some (VBool true) | _ => None end)
    else if t =? "F" then (match r with [] => Some (VBool false) | _ => None end)
    else if t =? "Z" then Some VNull
    else if t =? "E" then Some VEnumList
    else if t =? "J" then Some VObject
    else if t =? "S" then Some (VStr (str_of r))
    else if t =? "N" then
      match split_on slash r with
      | [m; e] => match parse_Z m, parse_nat e with Some m, Some e => Some (VNum (m, e)) | _, _ => None end
      | _ => None
      end
    else if t =? "O" then
      match split_on comma r with
      | [u; c; a] => match parse_flag u, parse_nat c, parse_flag a with
                     | Some u, Some c, Some a => Some (VOrList u c a)
                     | _, _, _ => None
                     end
      | _ => None
      end
    else None
  end.

Definition parse_rule (bs : bytes) : option rule :=
  match split_on eqsign bs with
  | nm :: v :: rest => option_map (fun v => (str_of nm, v)) (parse_value (join [eqsign] (v :: rest)))
  | _ => None
  end.

Definition parse_rules (bs : bytes) : option (list rule) :=
  match bs with
  | [] => Some []
  | _ => all_some (map parse_rule (split_on semi bs))
  end.

Definition print_result (r : result cmap) : bytes :=
  match r with
  | Ok _ => of_string "ok"
  | Err c => app (of_string "E") (print_N c)
  end.

Definition rules_model_line (line : bytes) : bytes :=
  match split_on bar line with
  | [nb; rb] =>
    match parse_node nb, parse_rules rb with
    | Some n, Some rs => print_result (check_node n rs)
    | _, _ => of_string "BAD"
    end
  | _ => of_string "BAD"
  end.

(* ------------------------------------------------------------------ not modelled
   - the scanner (annotation syntax), comments, several nodes on one line (803/804), shortcuts
     (MixedValueNode), rule-sets {..} inside "or" (only arrays of type names), enum rule names
     (enum: @name), duplicate values in an enum list (810), array forms of allOf, user types other
     than "@t" (integer) and "@o" (object with one key), regex expressions that do not compile,
     invalid bytes in a user type name, the parent's required-keys bookkeeping, CheckRecursion. *)
