(* ShapeSelf.v — properties C04/C15, rule-free fragment: a schema accepts its own example.
   [example_value w] is the document that is the written schema [w] read as JSON: the same
   kind at every position, every property present, every array element present.
   The model's [find_member] returns the FIRST member with a key, so a schema object with a
   repeated key does not accept its own example ([example_dup_keys_refuted]); the library
   rejects such a schema at load time (error 402).  The theorems therefore carry the
   hypothesis [keys_distinct w = true].  No hypothesis on nullable containers is needed (and
   none ever was for the proofs below): the example of a nullable container is a container,
   not null; since fix 3827ce7 [validate_iff_shape] is unconditional as well. *)
From Coq Require Import List NArith Bool Arith Lia.
From Coq Require Import Strings.Byte.
Import ListNotations.
From JS Require Import Common.Wire Schema.Shape Schema.ShapeProofs.

Definition kind_value (k : skind) : jval :=
  match k with KStr => JStr | KInt => JInt | KFloat => JFloat | KBool => JBool | KNull => JNull end.

Fixpoint example_value (w : wnode) : jval :=
  match w with
  | WLit k _ _ => kind_value k
  | WObj ms _ _ => JObj (map (fun m => let '(k, _, x) := m in (k, example_value x)) ms)
  | WArr items _ _ => JArr (map example_value items)
  end.

(* at every object of the written schema the keys are pairwise different *)
Fixpoint nodup_keys (ks : list bytes) : bool :=
  match ks with
  | [] => true
  | k :: r => (negb (existsb (bytes_eqb k) r) && nodup_keys r)%bool
  end.

Definition wkeys (ms : list (bytes * option bool * wnode)) : list bytes :=
  map (fun m => fst (fst m)) ms.

Fixpoint keys_distinct (w : wnode) : bool :=
  match w with
  | WLit _ _ _ => true
  | WObj ms _ _ =>
    (nodup_keys (map (fun m => fst (fst m)) ms) && forallb (fun m => keys_distinct (snd m)) ms)%bool
  | WArr items _ _ => forallb keys_distinct items
  end.

(* ------------------------------------------------------------------ *)
(* the hypothesis is needed: a repeated key                            *)
(* ------------------------------------------------------------------ *)
Definition dup_schema : wnode :=
  WObj [([x61], None, WLit KStr false false); ([x61], None, WLit KInt false false)] false false.

Lemma dup_schema_not_distinct : keys_distinct dup_schema = false.
Proof. vm_compute. reflexivity. Qed.

Theorem example_dup_keys_refuted : forall optd,
  shape_ok (compile optd dup_schema) (example_value dup_schema) = false /\
  validate (compile optd dup_schema) (example_value dup_schema) = Some E_VALUE_TYPE.
Proof. intros [|]; split; vm_compute; reflexivity. Qed.

(* ------------------------------------------------------------------ *)
(* the compiled members / the example members, named                   *)
(* ------------------------------------------------------------------ *)
Definition cmember (optd : bool) (m : bytes * option bool * wnode) : bytes * bool * snode :=
  let '(key, mark, x) := m in (key, required optd mark, compile optd x).

Definition emember (m : bytes * option bool * wnode) : bytes * jval :=
  let '(k, _, x) := m in (k, example_value x).

Lemma compile_obj : forall optd ms nl an,
  compile optd (WObj ms nl an) = SObj (map (cmember optd) ms) nl an.
Proof. intros. reflexivity. Qed.

Lemma compile_arr : forall optd items nl an,
  compile optd (WArr items nl an) = SArr (map (compile optd) items) nl an.
Proof. intros. reflexivity. Qed.

Lemma example_obj : forall ms nl an, example_value (WObj ms nl an) = JObj (map emember ms).
Proof. intros. reflexivity. Qed.

Lemma example_arr : forall items nl an,
  example_value (WArr items nl an) = JArr (map example_value items).
Proof. intros. reflexivity. Qed.

Lemma keys_distinct_obj : forall ms nl an,
  keys_distinct (WObj ms nl an) =
  (nodup_keys (wkeys ms) && forallb (fun m => keys_distinct (snd m)) ms)%bool.
Proof. intros. reflexivity. Qed.

Lemma keys_distinct_arr : forall items nl an,
  keys_distinct (WArr items nl an) = forallb keys_distinct items.
Proof. intros. reflexivity. Qed.

(* ------------------------------------------------------------------ *)
(* literals                                                            *)
(* ------------------------------------------------------------------ *)
Lemma self_valid_lit : forall k nl an, validate (SLit k nl an) (kind_value k) = None.
Proof. intros k nl an. destruct an; destruct k; destruct nl; reflexivity. Qed.

(* ------------------------------------------------------------------ *)
(* objects                                                             *)
(* ------------------------------------------------------------------ *)
(* a sufficient condition for the member loop to accept *)
Lemma members_loop_accepts : forall ms dms,
  Forall (fun d => exists child, find_member (fst d) ms = Some child /\ validate child (snd d) = None) dms ->
  forall req, keys_present dms req = true -> members_loop ms dms req = None.
Proof.
  intros ms dms HF. induction HF as [|[key x] r Hx HF IH]; intros req Hk.
  - apply keys_present_nil in Hk. subst req. reflexivity.
  - cbn [members_loop]. cbn [fst snd] in Hx. destruct Hx as [child [Hf Hv]].
    rewrite Hf, Hv. apply IH. rewrite <- (keys_present_cons key x). exact Hk.
Qed.

Lemma existsb_false_in : forall (k : bytes) ks k', existsb (bytes_eqb k) ks = false ->
  In k' ks -> bytes_eqb k k' = false.
Proof.
  intros k ks k'. induction ks as [|a ks IH]; cbn [existsb In]; intros He Hi.
  - destruct Hi.
  - apply orb_false_iff in He. destruct He as [Ha He]. destruct Hi as [Hi|Hi].
    + subst a. exact Ha.
    + apply IH; assumption.
Qed.

Lemma in_wkeys : forall k mark x ms, In (k, mark, x) ms -> In k (wkeys ms).
Proof.
  intros k mark x ms H. unfold wkeys.
  change k with ((fun m : bytes * option bool * wnode => fst (fst m)) (k, mark, x)).
  apply in_map. exact H.
Qed.

(* with distinct keys, looking a written member's key up finds that member *)
Lemma find_member_compiled : forall optd k mark x ms,
  nodup_keys (wkeys ms) = true -> In (k, mark, x) ms ->
  find_member k (map (cmember optd) ms) = Some (compile optd x).
Proof.
  intros optd k mark x ms. induction ms as [|[[k0 mk0] x0] ms IH]; intros Hn Hi.
  - destruct Hi.
  - cbn [wkeys map fst nodup_keys] in Hn. fold (wkeys ms) in Hn.
    apply andb_true_iff in Hn. destruct Hn as [Hh Hn]. apply negb_true_iff in Hh.
    cbn [map cmember find_member]. destruct Hi as [Hi|Hi].
    + injection Hi as E1 E2 E3. subst k0 mk0 x0. rewrite bytes_eqb_refl. reflexivity.
    + rewrite (existsb_false_in k0 (wkeys ms) k Hh (in_wkeys k mark x ms Hi)).
      apply IH; assumption.
Qed.

(* every required key of the compiled object is a key of the example *)
Lemma existsb_key_in : forall k mark x ms, In (k, mark, x) ms ->
  existsb (fun d : bytes * jval => bytes_eqb (fst d) k) (map emember ms) = true.
Proof.
  intros k mark x ms H. apply existsb_exists. exists (emember (k, mark, x)). split.
  - apply in_map. exact H.
  - cbn [emember fst]. apply bytes_eqb_refl.
Qed.

Lemma required_keys_in : forall optd ms k, In k (required_keys (map (cmember optd) ms)) ->
  exists mark x, In (k, mark, x) ms.
Proof.
  intros optd ms k H. unfold required_keys in H. apply in_map_iff in H.
  destruct H as [cm [E H]]. apply filter_In in H. destruct H as [H _].
  apply in_map_iff in H. destruct H as [[[k0 mk0] x0] [E2 H]].
  subst cm. cbn [cmember fst] in E. subst k0. exists mk0, x0. exact H.
Qed.

Lemma example_keys_present : forall optd ms,
  keys_present (map emember ms) (required_keys (map (cmember optd) ms)) = true.
Proof.
  intros optd ms. unfold keys_present. apply forallb_forall. intros k Hk.
  destruct (required_keys_in optd ms k Hk) as [mark [x Hi]].
  eapply existsb_key_in. exact Hi.
Qed.

Definition self_ok (optd : bool) (w : wnode) : Prop :=
  keys_distinct w = true -> validate (compile optd w) (example_value w) = None.

Lemma self_valid_obj : forall optd ms nl an,
  Forall (fun m => self_ok optd (snd m)) ms -> self_ok optd (WObj ms nl an).
Proof.
  intros optd ms nl an HF Hd. rewrite compile_obj, example_obj.
  destruct an; [apply validate_any; reflexivity|].
  rewrite keys_distinct_obj in Hd. apply andb_true_iff in Hd. destruct Hd as [Hn Hc].
  rewrite validate_obj_obj. apply members_loop_accepts; [|apply example_keys_present].
  apply Forall_forall. intros d Hd. apply in_map_iff in Hd. destruct Hd as [[[k mark] x] [E Hi]].
  subst d. cbn [emember fst snd]. exists (compile optd x). split.
  - eapply find_member_compiled; [exact Hn|exact Hi].
  - rewrite Forall_forall in HF. apply (HF _ Hi).
    rewrite forallb_forall in Hc. apply (Hc _ Hi).
Qed.

(* ------------------------------------------------------------------ *)
(* arrays                                                              *)
(* ------------------------------------------------------------------ *)
Lemma self_valid_arr : forall optd items nl an,
  Forall (self_ok optd) items -> self_ok optd (WArr items nl an).
Proof.
  intros optd items nl an HF Hd. rewrite compile_arr, example_arr.
  destruct an; [apply validate_any; reflexivity|].
  rewrite keys_distinct_arr in Hd.
  apply array_elements_by_min_index. intros i x Hx.
  rewrite nth_error_map in Hx. destruct (nth_error items i) as [w|] eqn:Hw; [|discriminate Hx].
  cbn [option_map] in Hx. injection Hx as Hx. subst x.
  assert (Hlt : i < length items) by (apply nth_error_Some; rewrite Hw; discriminate).
  exists (compile optd w). rewrite map_length.
  replace (Nat.min i (length items - 1)) with i by lia.
  split; [rewrite nth_error_map, Hw; reflexivity|]. split.
  - destruct items as [|a items]; [cbn [length] in Hlt; lia|]. intros E. discriminate E.
  - apply nth_error_In in Hw. rewrite Forall_forall in HF. apply (HF _ Hw).
    rewrite forallb_forall in Hd. apply (Hd _ Hw).
Qed.

(* ------------------------------------------------------------------ *)
(* the theorems                                                        *)
(* ------------------------------------------------------------------ *)
(* no hypothesis on nullable containers: the example of a nullable container is a container *)
Theorem self_valid_all : forall optd w, keys_distinct w = true ->
  validate (compile optd w) (example_value w) = None.
Proof.
  intros optd w. change (self_ok optd w).
  induction w as [k nl an|ms nl an HF|items nl an HF] using wnode_ind2.
  - intros _. apply self_valid_lit.
  - apply self_valid_obj. exact HF.
  - apply self_valid_arr. exact HF.
Qed.

Theorem example_has_shape : forall optd w, keys_distinct w = true ->
  shape_ok (compile optd w) (example_value w) = true.
Proof.
  intros optd w Hd. apply validate_iff_shape. apply self_valid_all. exact Hd.
Qed.

(* the former statement carried [no_nullable_container (compile optd w) = true]; it was never
   used, so [self_valid] is now the same statement as [self_valid_all] *)
Theorem self_valid : forall optd w, keys_distinct w = true ->
  validate (compile optd w) (example_value w) = None.
Proof. exact self_valid_all. Qed.

Print Assumptions self_valid_all.
Print Assumptions example_has_shape.
Print Assumptions self_valid.
Print Assumptions example_dup_keys_refuted.
