(* Recursion.v — property C09: the recursion checker
   (/repo/notations/jschema/internal/checker/check_recusrion.go) against the specification
   "a type is legal iff it has a finite inhabitant".
   A type's schema is abstracted to what the checker looks at: literals, arrays and rule
   nodes are leaves (an array may be empty, so its items are not required - unless it has
   minItems = m >= 1: since fix fb8368b its first m positions are required like the properties
   of an object, and the check writes such an array as an object node with those positions
   as required properties and the others as optional ones); an object
   requires its non-optional properties; a type shortcut / or-list [@a | @b] is satisfied
   by any one alternative.  No proofs in this file. *)
From Coq Require Import List NArith Bool Arith.
Import ListNotations.

Definition tname := nat.

Inductive tnode :=
| TLeaf                                             (* LiteralNode, ArrayNode, MixedNode *)
| TObj (props : list (bool * tnode))                (* (optional?, property) *)
| TRef (names : list tname).                        (* MixedValueNode: @a | @b | ... *)

Definition env := list (tname * tnode).
Fixpoint lookup (g : env) (n : tname) : option tnode :=
  match g with
  | [] => None
  | (m, t) :: r => if Nat.eqb m n then Some t else lookup r n
  end.

Definition mem (n : tname) (l : list tname) : bool := existsb (Nat.eqb n) l.

(* ---------- the checker: depth-first, [visited] = names on the current path ---------- *)
(* true = no error.  [fuel] bounds the recursion (the Go code recurses on the call stack);
   out of fuel is reported as None. *)
Fixpoint check (fuel : nat) (g : env) (visited : list tname) (t : tnode) {struct fuel} : option bool :=
  match fuel with
  | O => None
  | S f =>
    match t with
    | TLeaf => Some true
    | TObj props =>
      (fix all (ps : list (bool * tnode)) : option bool :=
         match ps with
         | [] => Some true
         | (opt, p) :: r =>
           if opt then all r                         (* schema.IsOptionalNode: skipped *)
           else match check f g visited p with
                | Some true => all r
                | x => x                             (* first error is returned *)
                end
         end) props
    | TRef names =>
      (* checkMixedValueNode: an error only if every alternative fails (an empty list passes) *)
      (fix alts (ns : list tname) (any_ok : bool) (seen_one : bool) : option bool :=
         match ns with
         | [] => Some (any_ok || negb seen_one)
         | n :: r =>
           let res :=
             if mem n visited then Some false        (* visit() fails: recursion detected *)
             else match lookup g n with
                  | None => Some true                (* unknown type: t.Schema() == nil *)
                  | Some body => check f g (n :: visited) body
                  end in
           match res with
           | None => None
           | Some ok => alts r (any_ok || ok) true
           end
         end) names false false
    end
  end.

Fixpoint size (t : tnode) : nat :=
  match t with
  | TLeaf => 1
  | TObj props => S (fold_right (fun p n => size (snd p) + n) 0 props)
  | TRef ns => S (length ns)
  end.
Definition env_size (g : env) : nat := fold_right (fun p n => size (snd p) + n) 0 g.
(* enough fuel: every nested call either descends into a sub-node or enters a new type *)
Definition fuel_for (g : env) (t : tnode) : nat := S (size t + (S (length g)) * (S (env_size g))).

Definition check_recursion (g : env) (root : tnode) : option bool := check (fuel_for g root) g [] root.

(* fix 9a9fdc3: after the walk from the root, every named type is expanded once more as a root of its own,
   with its own name on the path (CheckRecursion: the loop over the sorted names; the verdict does not depend
   on the order, only which of several errors is reported does).  The first error ends the run. *)
Fixpoint check_names (g : env) (ns : list tname) : option bool :=
  match ns with
  | [] => Some true
  | n :: r =>
    match lookup g n with
    | None => check_names g r
    | Some body =>
      match check (fuel_for g body) g [n] body with
      | Some true => check_names g r
      | x => x
      end
    end
  end.
Definition check_all (g : env) (root : tnode) : option bool :=
  match check_recursion g root with
  | Some true => check_names g (map fst g)
  | x => x
  end.

(* ---------- the specification: finite inhabitants (least fixpoint) ---------- *)
Inductive Inhabited (g : env) : tnode -> Prop :=
| InhLeaf : Inhabited g TLeaf
| InhObj : forall props,
    (forall p, In (false, p) props -> Inhabited g p) -> Inhabited g (TObj props)
| InhRefEmpty : Inhabited g (TRef [])
| InhRef : forall names n body,
    In n names -> lookup g n = Some body -> Inhabited g body -> Inhabited g (TRef names)
| InhRefUnknown : forall names n,
    In n names -> lookup g n = None -> Inhabited g (TRef names).

(* every referenced name is defined (the link checker reports the others with code 1302) *)
Fixpoint closed_node (g : env) (t : tnode) : bool :=
  match t with
  | TLeaf => true
  | TObj props => forallb (fun p => closed_node g (snd p)) props
  | TRef ns => forallb (fun n => match lookup g n with Some _ => true | None => false end) ns
  end.
Definition closed (g : env) (root : tnode) : bool :=
  (closed_node g root && forallb (fun p => closed_node g (snd p)) g)%bool.

(* boolean version of the spec by iteration to the fixpoint, for the wire / oracle:
   [inh k g known t]: t has an inhabitant given the set [known] of types already shown inhabited *)
Fixpoint inh_node (g : env) (known : list tname) (t : tnode) : bool :=
  match t with
  | TLeaf => true
  | TObj props => forallb (fun p => (fst p || inh_node g known (snd p))%bool) props
  | TRef [] => true
  | TRef ns => existsb (fun n => match lookup g n with None => true | Some _ => mem n known end) ns
  end.
Fixpoint inh_iter (k : nat) (g : env) (known : list tname) : list tname :=
  match k with
  | O => known
  | S k' =>
    let known' := fold_right (fun p acc => if (negb (mem (fst p) acc) && inh_node g known (snd p))%bool then fst p :: acc else acc) known g in
    inh_iter k' g known'
  end.
Definition inhabited_b (g : env) (root : tnode) : bool :=
  inh_node g (inh_iter (S (length g)) g []) root.
(* the root and every defined type have a finite inhabitant *)
Definition inhabited_all_b (g : env) (root : tnode) : bool :=
  let known := inh_iter (S (length g)) g [] in
  (inh_node g known root && forallb (fun p => mem (fst p) known) g)%bool.

(* ---------- wire ----------
   node:  L | O n (opt node)^n | R n name^n          line:  <root node> ; <name> <node> ; <name> <node> ...
   output: <check_all: ok|E104|FUEL> <inhabited_all_b: T|F> <closed: T|F> *)
From Coq Require Import Strings.Byte.
From JS Require Import Common.Wire.

Fixpoint parse_t (fuel : nat) (ts : list bytes) : option (tnode * list bytes) :=
  match fuel with
  | O => None
  | S f =>
    match ts with
    | [k] :: r =>
      if byte_eqb k x4c then Some (TLeaf, r)
      else if byte_eqb k x4f then
        match r with
        | cnt :: r1 =>
          match parse_nat cnt with
          | Some n =>
            (fix props (n : nat) (ts : list bytes) (acc : list (bool * tnode)) :=
               match n with
               | O => Some (TObj (frev acc), ts)
               | S n' =>
                 match ts with
                 | o :: r2 =>
                   match parse_t f r2 with
                   | Some (x, r3) => props n' r3 ((match o with [x31] => true | _ => false end, x) :: acc)
                   | None => None
                   end
                 | [] => None
                 end
               end) n r1 []
          | None => None
          end
        | [] => None
        end
      else if byte_eqb k x52 then
        match r with
        | cnt :: r1 =>
          match parse_nat cnt with
          | Some n =>
            (fix names (n : nat) (ts : list bytes) (acc : list tname) :=
               match n with
               | O => Some (TRef (frev acc), ts)
               | S n' => match ts with
                         | nm :: r2 => match parse_nat nm with Some x => names n' r2 (x :: acc) | None => None end
                         | [] => None
                         end
               end) n r1 []
          | None => None
          end
        | [] => None
        end
      else None
    | _ => None
    end
  end.

Definition twords (bs : bytes) : list bytes :=
  filter (fun w => negb (Nat.eqb (length w) 0)) (split_on sp bs).

Definition parse_entry (bs : bytes) : option (tname * tnode) :=
  match twords bs with
  | nm :: rest =>
    match parse_nat nm, parse_t (S (length bs)) rest with
    | Some n, Some (t, []) => Some (n, t)
    | _, _ => None
    end
  | [] => None
  end.

Definition recursion_model_line (line : bytes) : bytes :=
  match split_on semi line with
  | rootb :: entries =>
    match parse_t (S (length rootb)) (twords rootb), all_some (map parse_entry (filter (fun e => negb (Nat.eqb (length (twords e)) 0)) entries)) with
    | Some (root, []), Some g =>
      (match check_all g root with
       | Some true => [x6f; x6b]
       | Some false => [x45; x31; x30; x34]
       | None => [x46; x55; x45; x4c]
       end) ++ [sp] ++ print_bool (inhabited_all_b g root) ++ [sp] ++ print_bool (closed g root)
    | _, _ => [x42; x41; x44]
    end
  | [] => [x42; x41; x44]
  end.
