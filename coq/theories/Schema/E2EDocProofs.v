(* E2EDocProofs.v - the document side of E2E.v, proved: for every JSON value tree [d] (any depth, any
   width, any layout of blanks) the document TEXT [w1 ++ render d ++ w2] yields, through the JSON scanner
   model and the conversion [E2E.doc_events], exactly the events [Machine.events j] the validator
   machine consumes, where [j = jval_of_jv d] is the abstract document the tree spells (scalars
   classified as json.Guess classifies the token, keys unquoted).

   D2  [json_scan_rendered]   the lexical events of the scanner over the text, written down explicitly
                              with their offsets ([json_events_of]); proved compositionally over [jv];
   D1  [doc_events_of_text]   the conversion of those events = [Machine.events j];
   D3  [jval_of_jv_total]     [jval_of_jv] is defined on every well-formed tree whose number tokens the
                              library's number type can classify ([numbers_guessable]: not 0e.. / -0e..
                              and the exponent within setExp's bound); [jval_of_jv_undefined_*]: outside
                              that class it is NOT defined and [doc_events] is DStuck;
   D4  [doc_lit_ends], [doc_key_ends]   the ELitEnd / EKeyEnd events against the tokens / keys in source order. *)
From Coq Require Import String.
From Coq Require Import List NArith ZArith Bool Arith Lia.
From Coq Require Import ZifyBool ZifyNat ZifyN.
From Coq Require Import Strings.Byte.
Import ListNotations.
From JS Require Import Common.Wire Schema.Shape Schema.Machine Schema.E2E Json.Grammar Json.Scanner.
From JS Require Import Json.ScannerProofs Json.EventsProofs.
From JS Require Json.GrammarProofs Text.Unquote Num.NumModel Num.NumSpec Num.NumProofs SchemaScan.Loader.

Local Open Scope N_scope.

(* ================================================================== *)
(* 0. definitions                                                      *)
(* ================================================================== *)
Fixpoint opt_all {A} (l : list (option A)) : option (list A) :=
  match l with
  | [] => Some []
  | Some a :: r => match opt_all r with Some t => Some (a :: t) | None => None end
  | None :: _ => None
  end.

(* the abstract document a value tree spells: scalars classified like json.Guess does on the token,
   keys unquoted like the validator reads them.  None when some scalar token has no kind. *)
Fixpoint jval_of_jv (d : Grammar.jv) : option jval :=
  match d with
  | Grammar.JTok t => scalar_of_token t
  | Grammar.JArr0 _ => Some (Shape.JArr [])
  | Grammar.JArr items =>
    match opt_all (map (fun i => let '(_, x, _) := i in jval_of_jv x) items) with
    | Some js => Some (Shape.JArr js)
    | None => None
    end
  | Grammar.JObj0 _ => Some (Shape.JObj [])
  | Grammar.JObj ms =>
    match opt_all (map (fun m => let '(_, k, _, _, x, _) := m in
                                 match jval_of_jv x with Some j => Some (Unquote.unquote k, j) | None => None end) ms) with
    | Some l => Some (Shape.JObj l)
    | None => None
    end
  end.

Definition len (b : bytes) : N := N.of_nat (List.length b).
Notation ritem := GrammarProofs.ritem.
Notation rmem := GrammarProofs.rmem.

Section Ev.
  Variable F : N -> Grammar.jv -> list lexev.
  Definition item_events (q : N) (i : bytes * Grammar.jv * bytes) : list lexev :=
    let '(w1, x, w2) := i in
    let q1 := q + len w1 in let q2 := q1 + len (render x) in
    [mkev ArrayItemBegin q1 q1] ++ F q1 x ++ [mkev ArrayItemEnd q1 (q2 - 1)].
  Fixpoint items_events (q : N) (l : list (bytes * Grammar.jv * bytes)) : list lexev :=
    match l with
    | [] => []
    | i :: r => item_events q i ++ items_events (q + len (ritem i) + 1) r
    end.
  Definition mem_events (q : N) (m : bytes * bytes * bytes * bytes * Grammar.jv * bytes) : list lexev :=
    let '(w1, k, w2, w3, x, w4) := m in
    let q1 := q + len w1 in let q2 := q1 + len k in let q3 := q2 + len w2 + 1 in
    let q4 := q3 + len w3 in let q5 := q4 + len (render x) in
    [mkev ObjectKeyBegin q1 q1; mkev ObjectKeyEnd q1 (q2 - 1); mkev ObjectValueBegin q4 q4] ++ F q4 x ++
    [mkev ObjectValueEnd q4 (q5 - 1)].
  Fixpoint mems_events (q : N) (l : list (bytes * bytes * bytes * bytes * Grammar.jv * bytes)) : list lexev :=
    match l with
    | [] => []
    | m :: r => mem_events q m ++ mems_events (q + len (rmem m) + 1) r
    end.
End Ev.

(* the lexical events of the value [v] rendered at offset [p]: the 12 event kinds with begin / end offsets *)
Fixpoint json_events_of (p : N) (v : Grammar.jv) : list lexev :=
  match v with
  | Grammar.JTok t => [mkev LiteralBegin p p; mkev LiteralEnd p (p + len t - 1)]
  | Grammar.JArr0 w => [mkev ArrayBegin p p; mkev ArrayEnd p (p + 1 + len w)]
  | Grammar.JArr items =>
    [mkev ArrayBegin p p] ++ items_events json_events_of (p + 1) items ++ [mkev ArrayEnd p (p + len (render v) - 1)]
  | Grammar.JObj0 w => [mkev ObjectBegin p p; mkev ObjectEnd p (p + 1 + len w)]
  | Grammar.JObj ms =>
    [mkev ObjectBegin p p] ++ mems_events json_events_of (p + 1) ms ++ [mkev ObjectEnd p (p + len (render v) - 1)]
  end.

(* ================================================================== *)
(* 1. transitions of [run] between classes of configurations           *)
(* ================================================================== *)
Lemma len_app a b : len (a ++ b) = len a + len b.
Proof. unfold len. rewrite app_length. lia. Qed.
Lemma len_cons c b : len (c :: b) = N.succ (len b).
Proof. unfold len. cbn [length]. lia. Qed.
Lemma len_nil : len [] = 0.
Proof. reflexivity. Qed.
Ltac len_solve := repeat (rewrite len_app || rewrite len_cons || rewrite len_nil); lia.

Definition Tr (P : cfg -> Prop) (idx : N) (bs : bytes) (evs : list lexev) (Q : cfg -> Prop) : Prop :=
  forall k, P k -> exists k', Q k' /\
    forall rest acc, run false k idx (bs ++ rest) acc = run false k' (idx + len bs) rest (rev evs ++ acc).

Lemma Tr_nil (P Q : cfg -> Prop) idx : (forall k, P k -> Q k) -> Tr P idx [] [] Q.
Proof.
  intros H k Hk. exists k. split; [apply H; exact Hk|]. intros rest acc.
  rewrite len_nil, N.add_0_r. reflexivity.
Qed.

Lemma Tr_trans P Q R i a b e1 e2 j :
  Tr P i a e1 Q -> j = i + len a -> Tr Q j b e2 R -> Tr P i (a ++ b) (e1 ++ e2) R.
Proof.
  intros H1 -> H2 k Hk. destruct (H1 k Hk) as [k1 [Hq K1]]. destruct (H2 k1 Hq) as [k2 [Hr K2]].
  exists k2. split; [exact Hr|]. intros rest acc.
  rewrite <- app_assoc, K1, K2, len_app, N.add_assoc, rev_app_distr, <- app_assoc. reflexivity.
Qed.

Lemma Tr_conv P Q i bs bs' evs evs' : Tr P i bs evs Q -> bs = bs' -> evs = evs' -> Tr P i bs' evs' Q.
Proof. intros H -> ->. exact H. Qed.
Lemma Tr_ev P Q i bs evs evs' : Tr P i bs evs Q -> evs = evs' -> Tr P i bs evs' Q.
Proof. intros H ->. exact H. Qed.

Lemma Tr_weaken (P P' Q Q' : cfg -> Prop) i bs evs :
  Tr P i bs evs Q -> (forall k, P' k -> P k) -> (forall k, Q k -> Q' k) -> Tr P' i bs evs Q'.
Proof.
  intros H HP HQ k Hk. destruct (H k (HP k Hk)) as [k' [Hq K]]. exists k'. split; [apply HQ; exact Hq|exact K].
Qed.

(* one byte: the step function and the processing of its finds *)
Lemma Tr_one (P Q : cfg -> Prop) idx c evs :
  (forall k, P k -> exists ctl' fs stk',
     step false (k_ctl k) (map fst (k_stk k)) c = Some (ctl', fs) /\
     pf idx (k_stk k) fs = Some (stk', evs) /\ Q (mkcfg ctl' stk')) ->
  Tr P idx [c] evs Q.
Proof.
  intros H k Hk. destruct (H k Hk) as [ctl' [fs [stk' [Hs [Hp Hq]]]]].
  exists (mkcfg ctl' stk'). split; [exact Hq|]. intros rest acc.
  cbn [app run]. rewrite Hs, process_finds_pf, Hp. cbn [rev app]. rewrite frev_rev.
  rewrite len_cons, len_nil. f_equal. lia.
Qed.

Lemma Tr_cons (P Q R : cfg -> Prop) idx c bs e1 e2 evs :
  Tr P idx [c] e1 Q -> Tr Q (N.succ idx) bs e2 R -> evs = e1 ++ e2 -> Tr P idx (c :: bs) evs R.
Proof.
  intros H1 H2 ->. change (c :: bs) with ([c] ++ bs).
  eapply Tr_trans; [exact H1| |exact H2]. rewrite len_cons, len_nil. lia.
Qed.

(* ---- classes of configurations ---- *)
Definition Is (k0 : cfg) (k : cfg) : Prop := k = k0.
Definition Cfg (q : st) (stk : list (ev * N)) : cfg -> Prop := Is (mkcfg (mkctl q false) stk).

Definition litdone (q : st) : Prop := q = EndValue \/ q = S0 \/ q = S1 \/ q = Dot0 \/ q = E0.
(* a value has just been read: a literal is still open (its LiteralEnd is found with the next byte, or at the
   end of the input), a container is closed *)
Definition VDone (lit : bool) (p : N) (stk : list (ev * N)) (k : cfg) : Prop :=
  if lit then exists q, litdone q /\ k = mkcfg (mkctl q false) ((LiteralBegin, p) :: stk)
  else k = mkcfg (mkctl EndValue false) stk.
Definition lit_end (lit : bool) (p e : N) : list lexev := if lit then [mkev LiteralEnd p e] else [].

(* value positions *)
Inductive vpos := PRoot | PItem (first : bool) | PVal.
Definition vp_st (v : vpos) : st :=
  match v with
  | PRoot => FoundRootValue
  | PItem true => FoundArrayItemBeginOrEmpty
  | PItem false => FoundArrayItemBegin
  | PVal => FoundObjectValueBegin
  end.
Definition pre_stk (v : vpos) (p : N) : list (ev * N) :=
  match v with PRoot => [] | PItem _ => [(ArrayItemBegin, p)] | PVal => [(ObjectValueBegin, p)] end.
Definition pre_evs (v : vpos) (p : N) : list lexev :=
  match v with PRoot => [] | PItem _ => [mkev ArrayItemBegin p p] | PVal => [mkev ObjectValueBegin p p] end.

Ltac blia := unfold GrammarProofs.nonext, GrammarProofs.is_start, is_blank, is_digit, is_digit19, is_hex, is_ctl, ch, bN in *;
             cbv zeta in *; lia.

(* ---- blanks ---- *)
Lemma all_blank_cons c w : all_blank (c :: w) = true -> is_blank c = true /\ all_blank w = true.
Proof. unfold all_blank. cbn [forallb]. intros H. apply andb_prop in H. exact H. Qed.

Lemma T_blank q stk idx c : selfloop q = true -> is_blank c = true ->
  Tr (Cfg q stk) idx [c] [] (Cfg q stk).
Proof.
  intros Hq Hb. apply Tr_one. intros k ->. cbn [k_ctl k_stk].
  exists (mkctl q false), [], stk. rewrite (blank_self false q false _ c Hq Hb).
  split; [reflexivity|]. split; reflexivity.
Qed.

Lemma T_blanks q stk w : selfloop q = true -> all_blank w = true -> forall idx,
  Tr (Cfg q stk) idx w [] (Cfg q stk).
Proof.
  intros Hq. induction w as [|c w IH]; intros Hw idx.
  - apply Tr_nil. auto.
  - destruct (all_blank_cons c w Hw) as [Hc Hw'].
    eapply Tr_cons; [apply T_blank; assumption|apply IH; exact Hw'|reflexivity].
Qed.

(* ================================================================== *)
(* 2. inside a token                                                   *)
(* ================================================================== *)
(* the part of [step] that continues a literal (or a key): no finds, the stack is not looked at *)
Definition lstep (k : ctl) (c : byte) : option ctl :=
  let u := c_unf k in
  match c_st k with
  | InString =>
    if ch c 34 then Some (mkctl EndValue false)
    else if ch c 92 then Some (mkctl InStringEsc u)
    else if is_ctl c then None
    else Some (mkctl InString u)
  | InStringEsc =>
    if (ch c 98 || ch c 102 || ch c 110 || ch c 114 || ch c 116 || ch c 92 || ch c 47 || ch c 34)%bool
    then Some (mkctl InString u)
    else if ch c 117 then Some (mkctl InStringEscU u)
    else None
  | InStringEscU => if is_hex c then Some (mkctl InStringEscU1 u) else None
  | InStringEscU1 => if is_hex c then Some (mkctl InStringEscU12 u) else None
  | InStringEscU12 => if is_hex c then Some (mkctl InStringEscU123 u) else None
  | InStringEscU123 => if is_hex c then Some (mkctl InString u) else None
  | Neg => if ch c 48 then Some (mkctl S0 false) else if is_digit19 c then Some (mkctl S1 false) else None
  | S1 => if is_digit c then Some (mkctl S1 u)
          else if ch c 46 then Some (mkctl Dot true)
          else if (ch c 101 || ch c 69)%bool then Some (mkctl SE true) else None
  | S0 => if ch c 46 then Some (mkctl Dot true)
          else if (ch c 101 || ch c 69)%bool then Some (mkctl SE true) else None
  | Dot => if is_digit c then Some (mkctl Dot0 false) else None
  | Dot0 => if is_digit c then Some (mkctl Dot0 u)
            else if (ch c 101 || ch c 69)%bool then Some (mkctl SE true) else None
  | SE => if (ch c 43 || ch c 45)%bool then Some (mkctl ESign true)
          else if is_digit c then Some (mkctl E0 false) else None
  | ESign => if is_digit c then Some (mkctl E0 false) else None
  | E0 => if is_digit c then Some (mkctl E0 u) else None
  | ST => if ch c 114 then Some (mkctl STr u) else None
  | STr => if ch c 117 then Some (mkctl STru u) else None
  | STru => if ch c 101 then Some (mkctl EndValue false) else None
  | SF => if ch c 97 then Some (mkctl SFa u) else None
  | SFa => if ch c 108 then Some (mkctl SFal u) else None
  | SFal => if ch c 115 then Some (mkctl SFals u) else None
  | SFals => if ch c 101 then Some (mkctl EndValue false) else None
  | SN => if ch c 117 then Some (mkctl SNu u) else None
  | SNu => if ch c 108 then Some (mkctl SNul u) else None
  | SNul => if ch c 108 then Some (mkctl EndValue false) else None
  | _ => None
  end.

Lemma lstep_step k c k' s : lstep k c = Some k' -> step false k s c = Some (k', []).
Proof.
  destruct k as [q u]. unfold lstep. cbn [c_st c_unf]. intros H.
  destruct q; try discriminate H; unfold step; cbn [c_st c_unf]; unfold state0, expect, ret;
    repeat match type of H with
    | context [if ?b then _ else _] => destruct b eqn:?
    end; try discriminate H; inversion H; subst; reflexivity.
Qed.

Fixpoint lrun (k : ctl) (bs : bytes) : option ctl :=
  match bs with
  | [] => Some k
  | c :: r => match lstep k c with Some k' => lrun k' r | None => None end
  end.

Lemma lrun_app a : forall k b, lrun k (a ++ b) = match lrun k a with Some k' => lrun k' b | None => None end.
Proof.
  induction a as [|c a IH]; intros k b; cbn [app lrun]; [reflexivity|].
  destruct (lstep k c); [apply IH|reflexivity].
Qed.

Lemma lrun_cons k c r k1 : lstep k c = Some k1 -> lrun k (c :: r) = lrun k1 r.
Proof. intros H. cbn [lrun]. rewrite H. reflexivity. Qed.
Ltac use_tests := repeat match goal with H : ?t = _ |- context [?t] => rewrite H end.
Ltac lstep_to k1 :=
  rewrite (lrun_cons _ _ _ k1); [|unfold lstep; cbn [c_st c_unf]; use_tests; cbn [orb andb]; reflexivity].

Lemma T_lrun bs : forall k k' stk idx, lrun k bs = Some k' ->
  Tr (Is (mkcfg k stk)) idx bs [] (Is (mkcfg k' stk)).
Proof.
  induction bs as [|c r IH]; intros k k' stk idx H; cbn [lrun] in H.
  - inversion H; subst. apply Tr_nil. auto.
  - destruct (lstep k c) as [k1|] eqn:E; [|discriminate H].
    eapply (Tr_cons _ _ _ _ _ _ [] []); [|apply (IH k1 k' stk); exact H|reflexivity].
    apply Tr_one. intros k0 ->. cbn [k_ctl k_stk]. exists k1, [], stk.
    rewrite (lstep_step _ _ _ _ E). split; [reflexivity|]. split; reflexivity.
Qed.

(* ---- strings ---- *)
Lemma lrun_string_n : forall n r u, (length r <= n)%nat -> lex_string_body r = Some [] ->
  lrun (mkctl InString u) r = Some (mkctl EndValue false).
Proof.
  induction n as [|n IH]; intros r u Hn H.
  - destruct r; [discriminate H|cbn [length] in Hn; lia].
  - destruct r as [|c r0]; [discriminate H|]. cbn [length] in Hn.
    rewrite GrammarProofs.lsb_cons in H. cbn [lrun]. unfold lstep at 1. cbn [c_st c_unf].
    destruct (ch c 34) eqn:E34.
    { inversion H; subst. reflexivity. }
    destruct (ch c 92) eqn:E92.
    + destruct r0 as [|e r']; [discriminate H|]. cbn [length] in Hn.
      cbn [lrun]. unfold lstep at 1. cbn [c_st c_unf]. unfold GrammarProofs.is_esc1 in H.
      destruct (ch e 98 || ch e 102 || ch e 110 || ch e 114 || ch e 116 || ch e 92 || ch e 47 || ch e 34)%bool.
      { apply IH; [lia|exact H]. }
      destruct (ch e 117); [|discriminate H].
      destruct r' as [|h1 r']; [discriminate H|].
      destruct r' as [|h2 r']; [discriminate H|].
      destruct r' as [|h3 r']; [discriminate H|].
      destruct r' as [|h4 r']; [discriminate H|].
      cbn [length] in Hn.
      destruct (is_hex h1) eqn:E1; [|discriminate H].
      destruct (is_hex h2) eqn:E2; [|discriminate H].
      destruct (is_hex h3) eqn:E3; [|discriminate H].
      destruct (is_hex h4) eqn:E4; [|discriminate H].
      cbn [andb] in H. cbn [lrun]. unfold lstep. cbn [c_st c_unf]. rewrite E1, E2, E3, E4.
      apply IH; [lia|exact H].
    + destruct (is_ctl c); [discriminate H|]. apply IH; [lia|exact H].
Qed.

Lemma lrun_string r u : lex_string_body r = Some [] -> lrun (mkctl InString u) r = Some (mkctl EndValue false).
Proof. apply (lrun_string_n (length r)). lia. Qed.

(* ---- numbers ---- *)
Lemma lrun_digits q u ds : q = S1 \/ q = Dot0 \/ q = E0 -> forallb is_digit ds = true ->
  lrun (mkctl q u) ds = Some (mkctl q u).
Proof.
  intros Hq. induction ds as [|c r IH]; intros H; [reflexivity|].
  cbn [forallb] in H. apply andb_prop in H. destruct H as [Hc Hr].
  cbn [lrun]. unfold lstep. cbn [c_st c_unf].
  destruct Hq as [-> | [-> | ->]]; rewrite Hc; apply IH; exact Hr.
Qed.

Lemma takedigits_digits bs : forallb is_digit (GrammarProofs.takedigits bs) = true.
Proof.
  induction bs as [|c r IH]; [reflexivity|]. cbn [GrammarProofs.takedigits].
  destruct (is_digit c) eqn:E; [|reflexivity]. cbn [forallb]. rewrite E. exact IH.
Qed.
Lemma skip_digits_nil_all r : skip_digits r = [] -> forallb is_digit r = true.
Proof.
  intros H. rewrite (GrammarProofs.takedigits_skip r), H, app_nil_r. apply takedigits_digits.
Qed.

Definition numdone (k : ctl) : Prop := exists q, litdone q /\ k = mkctl q false.

Lemma lrun_exp q t : q = S0 \/ q = S1 \/ q = Dot0 -> GrammarProofs.lex_exp t = Some [] ->
  exists k, lrun (mkctl q false) t = Some k /\ numdone k.
Proof.
  intros Hq H. destruct t as [|c r0].
  - eexists. split; [reflexivity|]. exists q. split; [|reflexivity].
    unfold litdone. destruct Hq as [-> | [-> | ->]]; auto.
  - cbn [GrammarProofs.lex_exp] in H. destruct (ch c 101 || ch c 69)%bool eqn:E; [|discriminate H].
    cbv zeta in H.
    assert (is_digit c = false) as Hd by blia. assert (ch c 46 = false) as H46 by blia.
    assert (Hfin : forall ds, skip_digits ds = [] ->
              exists k, lrun (mkctl E0 false) ds = Some k /\ numdone k).
    { intros ds Hds. rewrite (lrun_digits E0 false ds); [|auto|apply skip_digits_nil_all; exact Hds].
      eexists. split; [reflexivity|]. exists E0. unfold litdone. auto 6. }
    assert (S1step : lrun (mkctl q false) (c :: r0) = lrun (mkctl SE true) r0).
    { destruct Hq as [-> | [-> | ->]]; lstep_to (mkctl SE true); reflexivity. }
    rewrite S1step.
    destruct r0 as [|s r']; [discriminate H|].
    destruct (ch s 43 || ch s 45)%bool eqn:Es.
    + destruct r' as [|d r'']; [discriminate H|].
      destruct (is_digit d) eqn:Ed; [|discriminate H].
      lstep_to (mkctl ESign true). lstep_to (mkctl E0 false). apply Hfin. congruence.
    + destruct (is_digit s) eqn:Ed; [|discriminate H].
      lstep_to (mkctl E0 false). apply Hfin. congruence.
Qed.

Lemma lrun_frac_exp q t : q = S0 \/ q = S1 -> lex_frac_exp t = Some [] ->
  exists k, lrun (mkctl q false) t = Some k /\ numdone k.
Proof.
  intros Hq H. rewrite GrammarProofs.lex_frac_exp_eq in H.
  destruct (GrammarProofs.lex_frac t) as [b|] eqn:Ef; [|discriminate H].
  destruct t as [|c r0].
  - cbn in Ef. inversion Ef; subst. apply lrun_exp; [tauto|exact H].
  - cbn [GrammarProofs.lex_frac] in Ef. destruct (ch c 46) eqn:E46.
    + destruct r0 as [|d r']; [discriminate Ef|].
      destruct (is_digit d) eqn:Ed; [|discriminate Ef]. inversion Ef; subst b.
      assert (is_digit c = false) as Hd by blia.
      assert (S1step : lrun (mkctl q false) (c :: d :: r') = lrun (mkctl Dot true) (d :: r')).
      { destruct Hq as [-> | ->]; lstep_to (mkctl Dot true); reflexivity. }
      rewrite S1step. lstep_to (mkctl Dot0 false).
      rewrite (GrammarProofs.takedigits_skip r'), lrun_app.
      rewrite (lrun_digits Dot0 false); [|auto|apply takedigits_digits].
      apply lrun_exp; [auto|exact H].
    + inversion Ef; subst b. apply lrun_exp; [tauto|exact H].
Qed.

Lemma lrun_int c r : lex_int (c :: r) = Some [] ->
  exists q, (ch c 48 = true /\ q = S0 \/ is_digit19 c = true /\ q = S1) /\
    exists k, lrun (mkctl q false) r = Some k /\ numdone k.
Proof.
  cbn [lex_int]. intros H. destruct (ch c 48) eqn:E0.
  - exists S0. split; [auto|]. apply lrun_frac_exp; [auto|exact H].
  - destruct (is_digit19 c) eqn:E1; [|discriminate H].
    exists S1. split; [auto|].
    rewrite (GrammarProofs.takedigits_skip r), lrun_app.
    rewrite (lrun_digits S1 false); [|auto|apply takedigits_digits].
    apply lrun_frac_exp; [auto|exact H].
Qed.

(* ================================================================== *)
(* 3. the single-byte transitions                                      *)
(* ================================================================== *)
Definition pre_fs (v : vpos) : list ev :=
  match v with PRoot => [] | PItem _ => [ArrayItemBegin] | PVal => [ObjectValueBegin] end.

Lemma vp_step vp s c : ch c 93 = false ->
  step false (mkctl (vp_st vp) false) s c = found_value (pre_fs vp) (vp_st vp) false c.
Proof. intros H. destruct vp as [|[|]|]; unfold step; cbn [c_st c_unf vp_st pre_fs]; rewrite ?H; reflexivity. Qed.

Lemma vp_selfloop vp : selfloop (vp_st vp) = true.
Proof. destruct vp as [|[|]|]; reflexivity. Qed.

Lemma T_open vp stk idx c q' u' x : opener x -> ch c 93 = false ->
  found_value (pre_fs vp) (vp_st vp) false c = ret q' u' (pre_fs vp ++ [x]) ->
  Tr (Cfg (vp_st vp) stk) idx [c] (pre_evs vp idx ++ [mkev x idx idx])
     (Is (mkcfg (mkctl q' u') ((x, idx) :: pre_stk vp idx ++ stk))).
Proof.
  intros Hx Hc Hf. apply Tr_one. intros k ->. cbn [k_ctl k_stk].
  exists (mkctl q' u'), (pre_fs vp ++ [x]), ((x, idx) :: pre_stk vp idx ++ stk).
  rewrite (vp_step vp _ c Hc), Hf. split; [reflexivity|]. split; [|reflexivity].
  destruct Hx as [-> | [-> | ->]]; destruct vp as [|[|]|]; reflexivity.
Qed.

Lemma start_not_93 c : GrammarProofs.is_start c = true -> ch c 93 = false.
Proof. intros H. apply GrammarProofs.start_not_close in H. tauto. Qed.

Lemma T_tok vp t stk idx : Grammar.wf (Grammar.JTok t) = true ->
  Tr (Cfg (vp_st vp) stk) idx t (pre_evs vp idx ++ [mkev LiteralBegin idx idx])
     (VDone true idx (pre_stk vp idx ++ stk)).
Proof.
  intros Hw. cbn [Grammar.wf] in Hw.
  assert (Hop : opener LiteralBegin) by (unfold opener; auto).
  assert (G : forall c r q u k, ch c 93 = false ->
            found_value (pre_fs vp) (vp_st vp) false c = ret q u (pre_fs vp ++ [LiteralBegin]) ->
            lrun (mkctl q u) r = Some k -> numdone k ->
            Tr (Cfg (vp_st vp) stk) idx (c :: r) (pre_evs vp idx ++ [mkev LiteralBegin idx idx])
               (VDone true idx (pre_stk vp idx ++ stk))).
  { intros c r q u k Hc Hf Hl [q' [Hq' ->]].
    eapply Tr_cons; [apply (T_open vp stk idx c q u LiteralBegin Hop Hc Hf)| |symmetry; apply app_nil_r].
    eapply Tr_weaken; [apply (T_lrun r _ _ ((LiteralBegin, idx) :: pre_stk vp idx ++ stk) _ Hl)|intros k0 H0; exact H0|].
    intros k0 ->. cbn [VDone]. exists q'. split; [exact Hq'|reflexivity]. }
  assert (Dend : numdone (mkctl EndValue false)) by (exists EndValue; unfold litdone; auto).
  destruct (is_number_token t) eqn:En.
  { unfold is_number_token in En. destruct t as [|c r]; [discriminate En|].
    destruct (lex_number (c :: r)) as [[|]|] eqn:El; try discriminate En. clear En.
    cbn [lex_number] in El. destruct (ch c 45) eqn:E45.
    - destruct r as [|c2 r2]; [discriminate El|].
      destruct (lrun_int c2 r2 El) as [q [Hq [k [Hl Hk]]]].
      apply (G c (c2 :: r2) Neg true k); [blia|apply fv_neg; exact E45| |exact Hk].
      destruct Hq as [[H0 ->]|[H1 ->]].
      + lstep_to (mkctl S0 false). exact Hl.
      + assert (ch c2 48 = false) by blia. lstep_to (mkctl S1 false). exact Hl.
    - destruct (lrun_int c r El) as [q [Hq [k [Hl Hk]]]].
      destruct Hq as [[H0 ->]|[H1 ->]].
      + apply (G c r S0 false k); [blia|apply fv_zero; exact H0|exact Hl|exact Hk].
      + apply (G c r S1 false k); [blia|apply fv_d19; exact H1|exact Hl|exact Hk]. }
  destruct (is_string_token t) eqn:Es.
  { unfold is_string_token in Es. destruct t as [|c r]; [discriminate Es|].
    apply andb_prop in Es. destruct Es as [Eq Eb].
    destruct (lex_string_body r) as [[|]|] eqn:El; try discriminate Eb.
    apply (G c r InString true (mkctl EndValue false)); [blia|apply fv_str; exact Eq| |exact Dend].
    apply lrun_string. exact El. }
  cbn [orb] in Hw. destruct (GrammarProofs.word_token_cases t Hw) as [-> | [-> | ->]].
  - apply (G x74 [x72; x75; x65] ST true (mkctl EndValue false)); [reflexivity|apply fv_t; reflexivity|reflexivity|exact Dend].
  - apply (G x66 [x61; x6c; x73; x65] SF true (mkctl EndValue false)); [reflexivity|apply fv_f; reflexivity|reflexivity|exact Dend].
  - apply (G x6e [x75; x6c; x6c] SN true (mkctl EndValue false)); [reflexivity|apply fv_n; reflexivity|reflexivity|exact Dend].
Qed.

Lemma T_start_arr vp stk idx :
  Tr (Cfg (vp_st vp) stk) idx [x5b] (pre_evs vp idx ++ [mkev ArrayBegin idx idx])
     (Cfg FoundArrayItemBeginOrEmpty ((ArrayBegin, idx) :: pre_stk vp idx ++ stk)).
Proof. apply T_open; [unfold opener; auto|reflexivity|apply fv_arr; reflexivity]. Qed.
Lemma T_start_obj vp stk idx :
  Tr (Cfg (vp_st vp) stk) idx [x7b] (pre_evs vp idx ++ [mkev ObjectBegin idx idx])
     (Cfg FoundObjectKeyBeginOrEmpty ((ObjectBegin, idx) :: pre_stk vp idx ++ stk)).
Proof. apply T_open; [unfold opener; auto|reflexivity|apply fv_obj; reflexivity]. Qed.

Ltac one_step q' stk' :=
  apply Tr_one; intros ?k ->; cbn [k_ctl k_stk map fst];
  eexists (mkctl q' false), _, stk'; split; [reflexivity|]; split; reflexivity.

Lemma T_arr_empty_close a stk idx :
  Tr (Cfg FoundArrayItemBeginOrEmpty ((ArrayBegin, a) :: stk)) idx [x5d] [mkev ArrayEnd a idx] (Cfg EndValue stk).
Proof. one_step EndValue stk. Qed.
Lemma T_obj_empty_close a stk idx :
  Tr (Cfg FoundObjectKeyBeginOrEmpty ((ObjectBegin, a) :: stk)) idx [x7d] [mkev ObjectEnd a idx] (Cfg EndValue stk).
Proof. one_step EndValue stk. Qed.

(* ---- after a value: the byte that follows decides ---- *)
Lemma litdone_step q s c : litdone q -> GrammarProofs.nonext c = true ->
  step false (mkctl q false) s c = end_value false s false c.
Proof.
  intros Hq Hc. assert (is_digit c = false) by blia. assert (ch c 46 = false) by blia.
  assert ((ch c 101 || ch c 69)%bool = false) by blia.
  destruct Hq as [-> | [-> | [-> | [-> | ->]]]]; unfold step, state0; cbn [c_st c_unf]; use_tests; reflexivity.
Qed.

(* the step from a finished value whose enclosing opening event is [o] at [b] *)
Lemma VDone_step lit p o b stk c ctl' fs : GrammarProofs.nonext c = true ->
  (forall s, end_value false (o :: s) false c = Some (ctl', fs)) ->
  (forall s, end_value false (LiteralBegin :: o :: s) false c = Some (ctl', LiteralEnd :: fs)) ->
  forall k, VDone lit p ((o, b) :: stk) k ->
    step false (k_ctl k) (map fst (k_stk k)) c = Some (ctl', (if lit then [LiteralEnd] else []) ++ fs).
Proof.
  intros Hc H1 H2 k Hk. destruct lit; cbn [VDone] in Hk.
  - destruct Hk as [q [Hq ->]]. cbn [k_ctl k_stk map fst]. rewrite (litdone_step q _ c Hq Hc). apply H2.
  - subst k. cbn [k_ctl k_stk map fst]. unfold step. cbn [c_st c_unf]. apply H1.
Qed.

Lemma T_after_value lit p o b stk idx c q' fs stk' evs :
  GrammarProofs.nonext c = true ->
  (forall s, end_value false (o :: s) false c = Some (mkctl q' false, fs)) ->
  (forall s, end_value false (LiteralBegin :: o :: s) false c = Some (mkctl q' false, LiteralEnd :: fs)) ->
  pf idx ((o, b) :: stk) fs = Some (stk', evs) ->
  Tr (VDone lit p ((o, b) :: stk)) idx [c] (lit_end lit p (idx - 1) ++ evs) (Cfg q' stk').
Proof.
  intros Hc H1 H2 Hp. apply Tr_one. intros k Hk.
  exists (mkctl q' false), ((if lit then [LiteralEnd] else []) ++ fs), stk'.
  split; [apply (VDone_step lit p o b stk c _ fs Hc H1 H2 k Hk)|]. split; [|reflexivity].
  destruct lit; cbn [VDone] in Hk.
  - destruct Hk as [q [_ ->]]. cbn [k_stk app lit_end pf process_found is_opening nonscalar_pair scalar_pair].
    rewrite Hp. reflexivity.
  - subst k. cbn [k_stk app lit_end]. exact Hp.
Qed.

Ltac ev_tests := unfold end_value, after_array_item, after_object_value, after_object_key, found_array_end, found_object_end,
                   end_top, prepend, ret; use_tests; reflexivity.

Lemma blank_not c : is_blank c = true ->
  ch c 44 = false /\ ch c 93 = false /\ ch c 125 = false /\ ch c 58 = false.
Proof. intros H. repeat split; blia. Qed.

(* array items *)
Lemma T_item_blank lit p b stk idx c : is_blank c = true ->
  Tr (VDone lit p ((ArrayItemBegin, b) :: stk)) idx [c]
     (lit_end lit p (idx - 1) ++ [mkev ArrayItemEnd b (idx - 1)]) (Cfg AfterArrayItem stk).
Proof.
  intros Hb. apply (T_after_value lit p ArrayItemBegin b stk idx c AfterArrayItem [ArrayItemEnd]);
    [apply GrammarProofs.blank_nonext; exact Hb|intros s; ev_tests|intros s; ev_tests|reflexivity].
Qed.
Lemma T_item_comma lit p b stk idx :
  Tr (VDone lit p ((ArrayItemBegin, b) :: stk)) idx [x2c]
     (lit_end lit p (idx - 1) ++ [mkev ArrayItemEnd b (idx - 1)]) (Cfg FoundArrayItemBegin stk).
Proof.
  apply (T_after_value lit p ArrayItemBegin b stk idx x2c FoundArrayItemBegin [ArrayItemEnd]);
    [reflexivity|intros s; reflexivity|intros s; reflexivity|reflexivity].
Qed.
Lemma T_item_close lit p b a stk idx :
  Tr (VDone lit p ((ArrayItemBegin, b) :: (ArrayBegin, a) :: stk)) idx [x5d]
     (lit_end lit p (idx - 1) ++ [mkev ArrayItemEnd b (idx - 1); mkev ArrayEnd a idx]) (Cfg EndValue stk).
Proof.
  apply (T_after_value lit p ArrayItemBegin b _ idx x5d EndValue [ArrayItemEnd; ArrayEnd]);
    [reflexivity|intros s; reflexivity|intros s; reflexivity|reflexivity].
Qed.
Lemma T_after_item_comma stk idx : Tr (Cfg AfterArrayItem stk) idx [x2c] [] (Cfg FoundArrayItemBegin stk).
Proof. one_step FoundArrayItemBegin stk. Qed.
Lemma T_after_item_close a stk idx :
  Tr (Cfg AfterArrayItem ((ArrayBegin, a) :: stk)) idx [x5d] [mkev ArrayEnd a idx] (Cfg EndValue stk).
Proof. one_step EndValue stk. Qed.

(* object values *)
Lemma T_val_blank lit p b stk idx c : is_blank c = true ->
  Tr (VDone lit p ((ObjectValueBegin, b) :: stk)) idx [c]
     (lit_end lit p (idx - 1) ++ [mkev ObjectValueEnd b (idx - 1)]) (Cfg AfterObjectValue stk).
Proof.
  intros Hb. apply (T_after_value lit p ObjectValueBegin b stk idx c AfterObjectValue [ObjectValueEnd]);
    [apply GrammarProofs.blank_nonext; exact Hb|intros s; ev_tests|intros s; ev_tests|reflexivity].
Qed.
Lemma T_val_comma lit p b stk idx :
  Tr (VDone lit p ((ObjectValueBegin, b) :: stk)) idx [x2c]
     (lit_end lit p (idx - 1) ++ [mkev ObjectValueEnd b (idx - 1)]) (Cfg FoundObjectKeyBegin stk).
Proof.
  apply (T_after_value lit p ObjectValueBegin b stk idx x2c FoundObjectKeyBegin [ObjectValueEnd]);
    [reflexivity|intros s; reflexivity|intros s; reflexivity|reflexivity].
Qed.
Lemma T_val_close lit p b a stk idx :
  Tr (VDone lit p ((ObjectValueBegin, b) :: (ObjectBegin, a) :: stk)) idx [x7d]
     (lit_end lit p (idx - 1) ++ [mkev ObjectValueEnd b (idx - 1); mkev ObjectEnd a idx]) (Cfg EndValue stk).
Proof.
  apply (T_after_value lit p ObjectValueBegin b _ idx x7d EndValue [ObjectValueEnd; ObjectEnd]);
    [reflexivity|intros s; reflexivity|intros s; reflexivity|reflexivity].
Qed.
Lemma T_after_val_comma stk idx : Tr (Cfg AfterObjectValue stk) idx [x2c] [] (Cfg FoundObjectKeyBegin stk).
Proof. one_step FoundObjectKeyBegin stk. Qed.
Lemma T_after_val_close a stk idx :
  Tr (Cfg AfterObjectValue ((ObjectBegin, a) :: stk)) idx [x7d] [mkev ObjectEnd a idx] (Cfg EndValue stk).
Proof. one_step EndValue stk. Qed.

(* keys *)
Definition kstart (q : st) : Prop := q = FoundObjectKeyBeginOrEmpty \/ q = FoundObjectKeyBegin.
Lemma kstart_selfloop q : kstart q -> selfloop q = true.
Proof. intros [-> | ->]; reflexivity. Qed.

Lemma T_key q k stk idx : kstart q -> is_string_token k = true ->
  Tr (Cfg q stk) idx k [mkev ObjectKeyBegin idx idx] (Cfg EndValue ((ObjectKeyBegin, idx) :: stk)).
Proof.
  intros Hq Hk. unfold is_string_token in Hk. destruct k as [|c r]; [discriminate Hk|].
  apply andb_prop in Hk. destruct Hk as [Eq Eb].
  destruct (lex_string_body r) as [[|]|] eqn:El; try discriminate Eb.
  eapply (Tr_cons _ (Is (mkcfg (mkctl InString false) ((ObjectKeyBegin, idx) :: stk))) _ _ _ _ [mkev ObjectKeyBegin idx idx] []); [| |reflexivity].
  - apply Tr_one. intros k0 ->. cbn [k_ctl k_stk].
    exists (mkctl InString false), [ObjectKeyBegin], ((ObjectKeyBegin, idx) :: stk).
    split; [|split; reflexivity].
    assert (is_blank c = false) by blia. assert (ch c 125 = false) by blia.
    destruct Hq as [-> | ->]; unfold step, begin_string, ret; cbn [c_st c_unf]; use_tests; reflexivity.
  - apply (T_lrun r (mkctl InString false) (mkctl EndValue false)). apply lrun_string. exact El.
Qed.

Lemma T_key_blank b stk idx c : is_blank c = true ->
  Tr (Cfg EndValue ((ObjectKeyBegin, b) :: stk)) idx [c] [mkev ObjectKeyEnd b (idx - 1)] (Cfg AfterObjectKey stk).
Proof.
  intros Hb. apply Tr_one. intros k ->. cbn [k_ctl k_stk map fst].
  exists (mkctl AfterObjectKey false), [ObjectKeyEnd], stk. split; [|split; reflexivity].
  unfold step. cbn [c_st c_unf]. ev_tests.
Qed.
Lemma T_key_colon b stk idx :
  Tr (Cfg EndValue ((ObjectKeyBegin, b) :: stk)) idx [x3a] [mkev ObjectKeyEnd b (idx - 1)] (Cfg FoundObjectValueBegin stk).
Proof. one_step FoundObjectValueBegin stk. Qed.
Lemma T_after_key_colon stk idx : Tr (Cfg AfterObjectKey stk) idx [x3a] [] (Cfg FoundObjectValueBegin stk).
Proof. one_step FoundObjectValueBegin stk. Qed.

(* the root *)
Lemma T_root_blank lit p idx c : is_blank c = true ->
  Tr (VDone lit p []) idx [c] (lit_end lit p (idx - 1)) (Cfg SEndTop []).
Proof.
  intros Hb. apply Tr_one. intros k Hk.
  exists (mkctl SEndTop false), (if lit then [LiteralEnd] else []), [].
  destruct lit; cbn [VDone] in Hk.
  - destruct Hk as [q [Hq ->]]. cbn [k_ctl k_stk map fst].
    rewrite (litdone_step q _ c Hq (GrammarProofs.blank_nonext c Hb)).
    split; [ev_tests|]. split; reflexivity.
  - subst k. cbn [k_ctl k_stk map fst]. split; [unfold step; cbn [c_st c_unf]; ev_tests|]. split; reflexivity.
Qed.

(* ================================================================== *)
(* 4. composition over the value tree                                  *)
(* ================================================================== *)
Definition is_tok (v : Grammar.jv) : bool := match v with Grammar.JTok _ => true | _ => false end.
Definition open_events (p : N) (v : Grammar.jv) : list lexev :=
  match v with Grammar.JTok _ => [mkev LiteralBegin p p] | _ => json_events_of p v end.
Lemma open_close p v :
  open_events p v ++ lit_end (is_tok v) p (p + len (render v) - 1) = json_events_of p v.
Proof. destruct v; cbn [open_events is_tok lit_end]; try apply app_nil_r. reflexivity. Qed.

Definition Vprop (x : Grammar.jv) : Prop := forall vp idx stk,
  Tr (Cfg (vp_st vp) stk) idx (render x) (pre_evs vp idx ++ open_events idx x)
     (VDone (is_tok x) idx (pre_stk vp idx ++ stk)).

Ltac ev_fin := rewrite ?app_nil_r; repeat (progress (rewrite <- ?app_assoc; cbn [app])); try reflexivity;
  repeat match goal with
  | |- @eq (list _) (_ :: _) (_ :: _) => f_equal
  | |- @eq (list _) (_ ++ _) (_ ++ _) => f_equal
  | |- @eq lexev (mkev _ _ _) (mkev _ _ _) => f_equal
  end; try reflexivity; try len_solve.

Lemma V_tok t : Grammar.wf (Grammar.JTok t) = true -> Vprop (Grammar.JTok t).
Proof. intros Hw vp idx stk. cbn [render open_events is_tok]. apply T_tok. exact Hw. Qed.

Lemma V_arr0 w : all_blank w = true -> Vprop (Grammar.JArr0 w).
Proof.
  intros Hw vp idx stk. cbn [render open_events is_tok VDone json_events_of].
  eapply Tr_ev.
  - eapply Tr_trans; [apply T_start_arr|reflexivity|].
    eapply Tr_trans; [apply (T_blanks FoundArrayItemBeginOrEmpty _ w); [reflexivity|exact Hw]|reflexivity|].
    apply T_arr_empty_close.
  - ev_fin.
Qed.
Lemma V_obj0 w : all_blank w = true -> Vprop (Grammar.JObj0 w).
Proof.
  intros Hw vp idx stk. cbn [render open_events is_tok VDone json_events_of].
  eapply Tr_ev.
  - eapply Tr_trans; [apply T_start_obj|reflexivity|].
    eapply Tr_trans; [apply (T_blanks FoundObjectKeyBeginOrEmpty _ w); [reflexivity|exact Hw]|reflexivity|].
    apply T_obj_empty_close.
  - ev_fin.
Qed.

(* ---- blanks and the separator after a value ---- *)
Lemma item_tail_comma lit p b w2 q2 stk : all_blank w2 = true ->
  Tr (VDone lit p ((ArrayItemBegin, b) :: stk)) q2 (w2 ++ [x2c])
     (lit_end lit p (q2 - 1) ++ [mkev ArrayItemEnd b (q2 - 1)]) (Cfg FoundArrayItemBegin stk).
Proof.
  intros Hw. destruct w2 as [|c w2'].
  - cbn [app]. apply T_item_comma.
  - destruct (all_blank_cons c w2' Hw) as [Hc Hw']. cbn [app].
    eapply Tr_ev.
    + eapply Tr_cons; [apply T_item_blank; exact Hc| |reflexivity].
      eapply Tr_trans; [apply (T_blanks AfterArrayItem _ w2'); [reflexivity|exact Hw']|reflexivity|apply T_after_item_comma].
    + ev_fin.
Qed.
Lemma item_tail_close lit p b a w2 q2 stk : all_blank w2 = true ->
  Tr (VDone lit p ((ArrayItemBegin, b) :: (ArrayBegin, a) :: stk)) q2 (w2 ++ [x5d])
     (lit_end lit p (q2 - 1) ++ [mkev ArrayItemEnd b (q2 - 1); mkev ArrayEnd a (q2 + len w2)]) (Cfg EndValue stk).
Proof.
  intros Hw. destruct w2 as [|c w2'].
  - cbn [app]. eapply Tr_ev; [apply T_item_close|]. ev_fin.
  - destruct (all_blank_cons c w2' Hw) as [Hc Hw']. cbn [app].
    eapply Tr_ev.
    + eapply Tr_cons; [apply T_item_blank; exact Hc| |reflexivity].
      eapply Tr_trans; [apply (T_blanks AfterArrayItem _ w2'); [reflexivity|exact Hw']|reflexivity|apply T_after_item_close].
    + ev_fin.
Qed.
Lemma val_tail_comma lit p b w2 q2 stk : all_blank w2 = true ->
  Tr (VDone lit p ((ObjectValueBegin, b) :: stk)) q2 (w2 ++ [x2c])
     (lit_end lit p (q2 - 1) ++ [mkev ObjectValueEnd b (q2 - 1)]) (Cfg FoundObjectKeyBegin stk).
Proof.
  intros Hw. destruct w2 as [|c w2'].
  - cbn [app]. apply T_val_comma.
  - destruct (all_blank_cons c w2' Hw) as [Hc Hw']. cbn [app].
    eapply Tr_ev.
    + eapply Tr_cons; [apply T_val_blank; exact Hc| |reflexivity].
      eapply Tr_trans; [apply (T_blanks AfterObjectValue _ w2'); [reflexivity|exact Hw']|reflexivity|apply T_after_val_comma].
    + ev_fin.
Qed.
Lemma val_tail_close lit p b a w2 q2 stk : all_blank w2 = true ->
  Tr (VDone lit p ((ObjectValueBegin, b) :: (ObjectBegin, a) :: stk)) q2 (w2 ++ [x7d])
     (lit_end lit p (q2 - 1) ++ [mkev ObjectValueEnd b (q2 - 1); mkev ObjectEnd a (q2 + len w2)]) (Cfg EndValue stk).
Proof.
  intros Hw. destruct w2 as [|c w2'].
  - cbn [app]. eapply Tr_ev; [apply T_val_close|]. ev_fin.
  - destruct (all_blank_cons c w2' Hw) as [Hc Hw']. cbn [app].
    eapply Tr_ev.
    + eapply Tr_cons; [apply T_val_blank; exact Hc| |reflexivity].
      eapply Tr_trans; [apply (T_blanks AfterObjectValue _ w2'); [reflexivity|exact Hw']|reflexivity|apply T_after_val_close].
    + ev_fin.
Qed.
Lemma key_tail b w2 q2 stk : all_blank w2 = true ->
  Tr (Cfg EndValue ((ObjectKeyBegin, b) :: stk)) q2 (w2 ++ [x3a])
     [mkev ObjectKeyEnd b (q2 - 1)] (Cfg FoundObjectValueBegin stk).
Proof.
  intros Hw. destruct w2 as [|c w2'].
  - cbn [app]. apply T_key_colon.
  - destruct (all_blank_cons c w2' Hw) as [Hc Hw']. cbn [app].
    eapply Tr_ev.
    + eapply Tr_cons; [apply T_key_blank; exact Hc| |reflexivity].
      eapply Tr_trans; [apply (T_blanks AfterObjectKey _ w2'); [reflexivity|exact Hw']|reflexivity|apply T_after_key_colon].
    + ev_fin.
Qed.

(* ---- one array item / one object member, with the byte that follows it ---- *)
Lemma item_comma first w1 x w2 q stk :
  all_blank w1 = true -> Vprop x -> all_blank w2 = true ->
  Tr (Cfg (vp_st (PItem first)) stk) q (ritem (w1, x, w2) ++ [x2c])
     (item_events json_events_of q (w1, x, w2)) (Cfg FoundArrayItemBegin stk).
Proof.
  intros H1 Hx H2. cbn [GrammarProofs.ritem item_events].
  eapply Tr_conv.
  - eapply Tr_trans; [apply (T_blanks _ _ w1); [apply vp_selfloop|exact H1]|reflexivity|].
    eapply Tr_trans; [apply (Hx (PItem first))|reflexivity|].
    apply item_tail_comma; exact H2.
  - rewrite <- !app_assoc. reflexivity.
  - cbn [pre_evs pre_stk app]. rewrite <- (open_close (q + len w1) x). ev_fin.
Qed.
Lemma item_close first w1 x w2 q a stk :
  all_blank w1 = true -> Vprop x -> all_blank w2 = true ->
  Tr (Cfg (vp_st (PItem first)) ((ArrayBegin, a) :: stk)) q (ritem (w1, x, w2) ++ [x5d])
     (item_events json_events_of q (w1, x, w2) ++ [mkev ArrayEnd a (q + len (ritem (w1, x, w2)))])
     (Cfg EndValue stk).
Proof.
  intros H1 Hx H2. cbn [GrammarProofs.ritem item_events].
  eapply Tr_conv.
  - eapply Tr_trans; [apply (T_blanks _ _ w1); [apply vp_selfloop|exact H1]|reflexivity|].
    eapply Tr_trans; [apply (Hx (PItem first))|reflexivity|].
    apply item_tail_close; exact H2.
  - rewrite <- !app_assoc. reflexivity.
  - cbn [pre_evs pre_stk app]. rewrite <- (open_close (q + len w1) x). ev_fin.
Qed.

Definition item_ok (i : bytes * Grammar.jv * bytes) : Prop :=
  let '(w1, x, w2) := i in all_blank w1 = true /\ Vprop x /\ all_blank w2 = true.
Definition mem_ok (m : bytes * bytes * bytes * bytes * Grammar.jv * bytes) : Prop :=
  let '(w1, k, w2, w3, x, w4) := m in
  all_blank w1 = true /\ is_string_token k = true /\ all_blank w2 = true /\ all_blank w3 = true /\
  Vprop x /\ all_blank w4 = true.

Lemma items_run : forall items, items <> [] -> Forall item_ok items -> forall first q a stk,
  Tr (Cfg (vp_st (PItem first)) ((ArrayBegin, a) :: stk)) q
     (join [x2c] (map ritem items) ++ [x5d])
     (items_events json_events_of q items ++ [mkev ArrayEnd a (q + len (join [x2c] (map ritem items)))])
     (Cfg EndValue stk).
Proof.
  induction items as [|[[w1 x] w2] l IH]; intros Hne HF first q a stk; [exfalso; apply Hne; reflexivity|].
  inversion HF as [|? ? Hi HF']; subst. cbn in Hi. destruct Hi as [H1 [Hx H2]].
  destruct l as [|j l].
  - cbn [map items_events]. rewrite GrammarProofs.join_one, app_nil_r. apply item_close; auto.
  - cbn [map] in IH |- *. rewrite GrammarProofs.join_cons2.
    change (items_events json_events_of q ((w1, x, w2) :: j :: l))
      with (item_events json_events_of q (w1, x, w2) ++ items_events json_events_of (q + len (ritem (w1, x, w2)) + 1) (j :: l)).
    eapply Tr_conv.
    + eapply Tr_trans; [apply (item_comma first w1 x w2); auto|reflexivity|].
      apply (IH ltac:(discriminate) HF' false).
    + rewrite <- !app_assoc. reflexivity.
    + replace (q + len (ritem (w1, x, w2) ++ [x2c])) with (q + len (ritem (w1, x, w2)) + 1) by len_solve.
      rewrite <- !app_assoc. do 3 f_equal. f_equal. len_solve.
Qed.

Lemma mem_head kq w1 k w2 w3 x q stk :
  kstart kq ->
  all_blank w1 = true -> is_string_token k = true -> all_blank w2 = true -> all_blank w3 = true -> Vprop x ->
  let q1 := q + len w1 in let q2 := q1 + len k in let q3 := q2 + len w2 + 1 in let q4 := q3 + len w3 in
  Tr (Cfg kq stk) q (w1 ++ k ++ w2 ++ [x3a] ++ w3 ++ render x)
     ([mkev ObjectKeyBegin q1 q1; mkev ObjectKeyEnd q1 (q2 - 1); mkev ObjectValueBegin q4 q4] ++ open_events q4 x)
     (VDone (is_tok x) q4 ((ObjectValueBegin, q4) :: stk)).
Proof.
  intros Hw H1 Hk H2 H3 Hx q1 q2 q3 q4.
  eapply Tr_conv.
  - eapply Tr_trans; [apply (T_blanks kq _ w1); [apply kstart_selfloop; exact Hw|exact H1]|reflexivity|].
    eapply Tr_trans; [apply (T_key kq k); [exact Hw|exact Hk]|reflexivity|].
    eapply Tr_trans with (j := q3); [apply (key_tail _ w2); exact H2|subst q1 q2 q3; len_solve|].
    eapply Tr_trans with (j := q4); [apply (T_blanks FoundObjectValueBegin _ w3); [reflexivity|exact H3]|reflexivity|].
    apply (Hx PVal).
  - rewrite <- !app_assoc. reflexivity.
  - subst q1 q2 q3 q4. cbn [pre_evs pre_stk app]. ev_fin.
Qed.

Lemma rmem_split w1 k w2 w3 x w4 (sep : byte) :
  rmem (w1, k, w2, w3, x, w4) ++ [sep] = (w1 ++ k ++ w2 ++ [x3a] ++ w3 ++ render x) ++ (w4 ++ [sep]).
Proof. cbn [GrammarProofs.rmem]. rewrite <- !app_assoc. reflexivity. Qed.

Lemma mem_comma kq w1 k w2 w3 x w4 q stk :
  kstart kq -> mem_ok (w1, k, w2, w3, x, w4) ->
  Tr (Cfg kq stk) q (rmem (w1, k, w2, w3, x, w4) ++ [x2c])
     (mem_events json_events_of q (w1, k, w2, w3, x, w4)) (Cfg FoundObjectKeyBegin stk).
Proof.
  intros Hw [H1 [Hk [H2 [H3 [Hx H4]]]]]. rewrite rmem_split. cbn [mem_events].
  eapply Tr_ev.
  - eapply Tr_trans; [apply (mem_head kq w1 k w2 w3 x); assumption|reflexivity|].
    apply val_tail_comma; exact H4.
  - cbv zeta. rewrite <- (open_close (q + len w1 + len k + len w2 + 1 + len w3) x).
    replace (q + len (w1 ++ k ++ w2 ++ [x3a] ++ w3 ++ render x))
      with (q + len w1 + len k + len w2 + 1 + len w3 + len (render x)) by len_solve.
    ev_fin.
Qed.
Lemma mem_close kq w1 k w2 w3 x w4 q a stk :
  kstart kq -> mem_ok (w1, k, w2, w3, x, w4) ->
  Tr (Cfg kq ((ObjectBegin, a) :: stk)) q (rmem (w1, k, w2, w3, x, w4) ++ [x7d])
     (mem_events json_events_of q (w1, k, w2, w3, x, w4) ++ [mkev ObjectEnd a (q + len (rmem (w1, k, w2, w3, x, w4)))])
     (Cfg EndValue stk).
Proof.
  intros Hw [H1 [Hk [H2 [H3 [Hx H4]]]]]. rewrite rmem_split. cbn [mem_events].
  eapply Tr_ev.
  - eapply Tr_trans; [apply (mem_head kq w1 k w2 w3 x); assumption|reflexivity|].
    apply val_tail_close; exact H4.
  - cbv zeta. rewrite <- (open_close (q + len w1 + len k + len w2 + 1 + len w3) x).
    replace (q + len (w1 ++ k ++ w2 ++ [x3a] ++ w3 ++ render x))
      with (q + len w1 + len k + len w2 + 1 + len w3 + len (render x)) by len_solve.
    cbn [GrammarProofs.rmem]. ev_fin.
Qed.

Lemma mems_run : forall ms, ms <> [] -> Forall mem_ok ms -> forall kq q a stk,
  kstart kq ->
  Tr (Cfg kq ((ObjectBegin, a) :: stk)) q
     (join [x2c] (map rmem ms) ++ [x7d])
     (mems_events json_events_of q ms ++ [mkev ObjectEnd a (q + len (join [x2c] (map rmem ms)))])
     (Cfg EndValue stk).
Proof.
  induction ms as [|[[[[[w1 k] w2] w3] x] w4] l IH]; intros Hne HF kq q a stk Hw; [exfalso; apply Hne; reflexivity|].
  inversion HF as [|? ? Hi HF']; subst.
  destruct l as [|j l].
  - cbn [map mems_events]. rewrite GrammarProofs.join_one, app_nil_r. apply mem_close; auto.
  - cbn [map] in IH |- *. rewrite GrammarProofs.join_cons2.
    change (mems_events json_events_of q ((w1, k, w2, w3, x, w4) :: j :: l))
      with (mem_events json_events_of q (w1, k, w2, w3, x, w4) ++
            mems_events json_events_of (q + len (rmem (w1, k, w2, w3, x, w4)) + 1) (j :: l)).
    eapply Tr_conv.
    + eapply Tr_trans; [apply (mem_comma kq w1 k w2 w3 x w4); auto|reflexivity|].
      apply IH; [discriminate|exact HF'|right; reflexivity].
    + rewrite <- !app_assoc. reflexivity.
    + replace (q + len (rmem (w1, k, w2, w3, x, w4) ++ [x2c])) with (q + len (rmem (w1, k, w2, w3, x, w4)) + 1) by len_solve.
      rewrite <- !app_assoc. do 3 f_equal. f_equal. len_solve.
Qed.

(* ---- every well-formed value ---- *)
Lemma V_all : forall v, Grammar.wf v = true -> Vprop v.
Proof.
  induction v as [t|w|items IH|w|ms IH] using GrammarProofs.jv_ind2; intros Hw.
  - apply V_tok; assumption.
  - apply V_arr0. exact Hw.
  - rewrite GrammarProofs.wf_arr in Hw. apply andb_prop in Hw. destruct Hw as [Hlen Hw].
    assert (HF : Forall item_ok items).
    { rewrite forallb_forall in Hw. rewrite Forall_forall in IH |- *. intros [[w1 x] w2] Hin.
      specialize (Hw _ Hin). specialize (IH _ Hin). cbn in Hw, IH |- *.
      apply andb_prop in Hw. destruct Hw as [Hw H2]. apply andb_prop in Hw. destruct Hw as [H1 Hx]. auto. }
    intros vp idx stk. rewrite GrammarProofs.render_arr. cbn [open_events is_tok VDone json_events_of].
    change (x5b :: join [x2c] (map GrammarProofs.ritem items) ++ [x5d]) with ([x5b] ++ (join [x2c] (map ritem items) ++ [x5d])).
    eapply Tr_ev.
    + eapply Tr_trans; [apply T_start_arr|reflexivity|].
      apply (items_run items ltac:(intros ->; discriminate Hlen) HF true).
    + rewrite GrammarProofs.render_arr. ev_fin.
  - apply V_obj0. exact Hw.
  - rewrite GrammarProofs.wf_obj in Hw. apply andb_prop in Hw. destruct Hw as [Hlen Hw].
    assert (HF : Forall mem_ok ms).
    { rewrite forallb_forall in Hw. rewrite Forall_forall in IH |- *. intros [[[[[w1 k] w2] w3] x] w4] Hin.
      specialize (Hw _ Hin). specialize (IH _ Hin). cbn in Hw, IH |- *.
      repeat match type of Hw with (_ && _)%bool = true => apply andb_prop in Hw; destruct Hw as [Hw ?] end.
      repeat split; auto. }
    intros vp idx stk. rewrite GrammarProofs.render_obj. cbn [open_events is_tok VDone json_events_of].
    change (x7b :: join [x2c] (map GrammarProofs.rmem ms) ++ [x7d]) with ([x7b] ++ (join [x2c] (map rmem ms) ++ [x7d])).
    eapply Tr_ev.
    + eapply Tr_trans; [apply T_start_obj|reflexivity|].
      apply (mems_run ms ltac:(intros ->; discriminate Hlen) HF FoundObjectKeyBeginOrEmpty); left; reflexivity.
    + rewrite GrammarProofs.render_obj. ev_fin.
Qed.

(* ================================================================== *)
(* 5. D2: the whole text                                               *)
(* ================================================================== *)
Lemma cfg0_Cfg : Cfg FoundRootValue [] cfg0.
Proof. reflexivity. Qed.

Lemma scan_closed bs evs q :
  Tr (Cfg FoundRootValue []) 0 bs evs (Cfg q []) -> Scanner.scan false bs = (evs, Done).
Proof.
  intros H. destruct (H _ cfg0_Cfg) as [k' [-> K]].
  specialize (K [] []). rewrite app_nil_r in K. unfold Scanner.scan. rewrite K.
  cbn [Scanner.run tail k_stk]. rewrite app_nil_r, !frev_rev, !rev_involutive. reflexivity.
Qed.
Lemma scan_open_lit bs evs p :
  Tr (Cfg FoundRootValue []) 0 bs evs (VDone true p []) ->
  Scanner.scan false bs = (evs ++ [mkev LiteralEnd p (len bs - 1)], Done).
Proof.
  intros H. destruct (H _ cfg0_Cfg) as [k' [[q [_ ->]] K]].
  specialize (K [] []). rewrite app_nil_r in K. unfold Scanner.scan. rewrite K.
  cbn [Scanner.run tail k_stk k_ctl c_unf]. rewrite app_nil_r, N.add_0_l.
  rewrite !frev_rev. cbn [rev]. rewrite !rev_involutive. reflexivity.
Qed.

(* D2: the explicit lexical event list of the scanner over a JSON text, offsets included *)
Theorem json_scan_rendered : forall w1 d w2,
  all_blank w1 = true -> Grammar.wf d = true -> all_blank w2 = true ->
  Scanner.scan false (w1 ++ render d ++ w2) = (json_events_of (N.of_nat (length w1)) d, Scanner.Done).
Proof.
  intros w1 d w2 H1 Hd H2. change (N.of_nat (length w1)) with (len w1).
  assert (Hpre : Tr (Cfg FoundRootValue []) 0 (w1 ++ render d) (open_events (len w1) d)
                    (VDone (is_tok d) (len w1) [])).
  { eapply Tr_ev.
    - eapply Tr_trans; [apply (T_blanks FoundRootValue [] w1); [reflexivity|exact H1]|reflexivity|].
      rewrite N.add_0_l. exact (V_all d Hd PRoot (len w1) []).
    - reflexivity. }
  destruct w2 as [|c w2'].
  - rewrite app_nil_r. rewrite <- (open_close (len w1) d).
    destruct (is_tok d); cbn [VDone lit_end] in Hpre |- *.
    + rewrite (scan_open_lit _ _ _ Hpre). repeat f_equal. len_solve.
    + rewrite (scan_closed _ _ EndValue Hpre). rewrite app_nil_r. reflexivity.
  - destruct (all_blank_cons c w2' H2) as [Hc Hw'].
    assert (Hall : Tr (Cfg FoundRootValue []) 0 ((w1 ++ render d) ++ c :: w2')
                      (open_events (len w1) d ++ lit_end (is_tok d) (len w1) (len w1 + len (render d) - 1) ++ [])
                      (Cfg SEndTop [])).
    { eapply Tr_trans; [exact Hpre|reflexivity|].
      eapply Tr_cons; [apply T_root_blank; exact Hc|apply (T_blanks SEndTop [] w2'); [reflexivity|exact Hw']|].
      rewrite N.add_0_l, len_app. reflexivity. }
    rewrite <- app_assoc in Hall. rewrite (scan_closed _ _ SEndTop Hall).
    rewrite app_nil_r, open_close. reflexivity.
Qed.

(* ================================================================== *)
(* 6. D1: the conversion of the lexical events                         *)
(* ================================================================== *)
Lemma skipn_len_app {A} (a b : list A) : skipn (length a) (a ++ b) = b.
Proof. induction a as [|x a IH]; [reflexivity|exact IH]. Qed.

Lemma slice_at pre t post : t <> [] -> slice (pre ++ t ++ post) (len pre) (len pre + len t - 1) = t.
Proof.
  intros Ht. unfold slice, len. rewrite Nat2N.id, skipn_len_app.
  replace (N.to_nat (N.of_nat (length pre) + N.of_nat (length t) - 1 - N.of_nat (length pre) + 1)) with (length t).
  - apply firstn_length_app.
  - destruct t; [congruence|]. cbn [length]. lia.
Qed.

Lemma mevents_of_app text a : forall b,
  mevents_of text (a ++ b) =
  match mevents_of text a, mevents_of text b with Some x, Some y => Some (x ++ y) | _, _ => None end.
Proof.
  induction a as [|e a IH]; intros b; cbn [app mevents_of].
  - destruct (mevents_of text b); reflexivity.
  - rewrite IH. destruct (mevent_of text e) as [[m|]|]; destruct (mevents_of text a); destruct (mevents_of text b); reflexivity.
Qed.

Lemma scalar_events t j : scalar_of_token t = Some j -> Machine.events j = [ELitBegin; ELitEnd j].
Proof.
  unfold scalar_of_token. intros H. destruct (Loader.literal_json_type t) as [[]|]; inversion H; reflexivity.
Qed.

Lemma string_token_nonempty k : is_string_token k = true -> k <> [].
Proof. intros H ->. discriminate H. Qed.
Lemma wf_token_nonempty t : Grammar.wf (Grammar.JTok t) = true -> t <> [].
Proof. intros H ->. discriminate H. Qed.

Definition item_mev (x : jval) : list event := EItemBegin :: Machine.events x ++ [EItemEnd].
Definition mem_mev (m : bytes * jval) : list event :=
  EKeyBegin :: EKeyEnd (fst m) :: EValBegin :: Machine.events (snd m) ++ [EValEnd].

Definition omap {A B} (f : A -> B) (o : option A) : option B := match o with Some a => Some (f a) | None => None end.

(* both cases at once: the conversion succeeds exactly when every scalar token has a kind *)
Definition Mprop (d : Grammar.jv) : Prop :=
  forall text pre post, text = pre ++ render d ++ post ->
  mevents_of text (json_events_of (len pre) d) = omap Machine.events (jval_of_jv d).

Definition item_jv (i : bytes * Grammar.jv * bytes) : option jval := let '(_, x, _) := i in jval_of_jv x.
Definition mem_jv (m : bytes * bytes * bytes * bytes * Grammar.jv * bytes) : option (bytes * jval) :=
  let '(_, k, _, _, x, _) := m in match jval_of_jv x with Some j => Some (Unquote.unquote k, j) | None => None end.

Lemma jval_arr items : jval_of_jv (Grammar.JArr items) =
  match opt_all (map item_jv items) with Some js => Some (Shape.JArr js) | None => None end.
Proof. reflexivity. Qed.
Lemma jval_obj ms : jval_of_jv (Grammar.JObj ms) =
  match opt_all (map mem_jv ms) with Some l => Some (Shape.JObj l) | None => None end.
Proof. reflexivity. Qed.

Lemma M_items : forall items, Forall (fun i => GrammarProofs.witem i = true /\ Mprop (snd (fst i))) items ->
  forall text pre post, text = pre ++ join [x2c] (map ritem items) ++ post ->
  mevents_of text (items_events json_events_of (len pre) items) = omap (flat_map item_mev) (opt_all (map item_jv items)).
Proof.
  induction items as [|[[w1 x] w2] l IH]; intros HF.
  - reflexivity.
  - inversion HF as [|? ? [Hw Hx] HF']; subst. cbn [fst snd] in Hx. intros text pre post Ht.
    cbn [map opt_all item_jv].
    cbn [items_events item_events flat_map]. rewrite !mevents_of_app.
    assert (Hrest : exists post', pre ++ join [x2c] (map ritem ((w1, x, w2) :: l)) ++ post =
                      (pre ++ w1) ++ render x ++ post' /\
                    (l <> [] -> pre ++ join [x2c] (map ritem ((w1, x, w2) :: l)) ++ post =
                                (pre ++ ritem (w1, x, w2) ++ [x2c]) ++ join [x2c] (map ritem l) ++ post)).
    { destruct l as [|i2 l2].
      - cbn [map]. rewrite GrammarProofs.join_one. cbn [GrammarProofs.ritem]. exists (w2 ++ post).
        split; [rewrite <- !app_assoc; reflexivity|congruence].
      - cbn [map]. rewrite GrammarProofs.join_cons2. cbn [GrammarProofs.ritem].
        exists (w2 ++ [x2c] ++ join [x2c] (ritem i2 :: map ritem l2) ++ post).
        split; intros; rewrite <- !app_assoc; reflexivity. }
    destruct Hrest as [post' [Hr1 Hr2]].
    assert (Hx' := Hx text (pre ++ w1) post' ltac:(rewrite Ht; exact Hr1)).
    replace (len (pre ++ w1)) with (len pre + len w1) in Hx' by len_solve. rewrite Hx'.
    assert (Hl : mevents_of text (items_events json_events_of (len pre + len (ritem (w1, x, w2)) + 1) l) =
                 omap (flat_map item_mev) (opt_all (map item_jv l))).
    { destruct l as [|i2 l2].
      - reflexivity.
      - replace (len pre + len (ritem (w1, x, w2)) + 1) with (len (pre ++ ritem (w1, x, w2) ++ [x2c])) by len_solve.
        apply (IH HF' text _ post). rewrite Ht. apply Hr2. discriminate. }
    rewrite Hl. cbn [mevents_of mevent_of e_type app].
    destruct (jval_of_jv x) as [j|]; destruct (opt_all (map item_jv l)) as [js'|]; cbn [omap flat_map item_mev app]; try reflexivity;
      rewrite <- app_assoc; reflexivity.
Qed.

Lemma M_mems : forall ms, Forall (fun m => GrammarProofs.wmem m = true /\ Mprop (snd (fst m))) ms ->
  forall text pre post, text = pre ++ join [x2c] (map rmem ms) ++ post ->
  mevents_of text (mems_events json_events_of (len pre) ms) = omap (flat_map mem_mev) (opt_all (map mem_jv ms)).
Proof.
  induction ms as [|[[[[[w1 k] w2] w3] x] w4] l IH]; intros HF.
  - reflexivity.
  - inversion HF as [|? ? [Hw Hx] HF']; subst. cbn [fst snd] in Hx. intros text pre post Ht.
    cbn [map opt_all mem_jv].
    cbn [mems_events mem_events flat_map]. cbv zeta. rewrite !mevents_of_app.
    assert (Hk : k <> []).
    { apply string_token_nonempty. cbn [GrammarProofs.wmem] in Hw.
      repeat match type of Hw with (_ && _)%bool = true => apply andb_prop in Hw; destruct Hw as [Hw ?] end. assumption. }
    assert (Hrest : exists post1 post', pre ++ join [x2c] (map rmem ((w1, k, w2, w3, x, w4) :: l)) ++ post =
                      (pre ++ w1) ++ k ++ post1 /\
                    pre ++ join [x2c] (map rmem ((w1, k, w2, w3, x, w4) :: l)) ++ post =
                      (pre ++ w1 ++ k ++ w2 ++ [x3a] ++ w3) ++ render x ++ post' /\
                    (l <> [] -> pre ++ join [x2c] (map rmem ((w1, k, w2, w3, x, w4) :: l)) ++ post =
                                (pre ++ rmem (w1, k, w2, w3, x, w4) ++ [x2c]) ++ join [x2c] (map rmem l) ++ post)).
    { destruct l as [|i2 l2].
      - cbn [map]. rewrite GrammarProofs.join_one. cbn [GrammarProofs.rmem].
        exists (w2 ++ [x3a] ++ w3 ++ render x ++ w4 ++ post), (w4 ++ post).
        split; [rewrite <- !app_assoc; reflexivity|]. split; [rewrite <- !app_assoc; reflexivity|congruence].
      - cbn [map]. rewrite GrammarProofs.join_cons2. cbn [GrammarProofs.rmem].
        exists (w2 ++ [x3a] ++ w3 ++ render x ++ w4 ++ [x2c] ++ join [x2c] (rmem i2 :: map rmem l2) ++ post),
               (w4 ++ [x2c] ++ join [x2c] (rmem i2 :: map rmem l2) ++ post).
        split; [rewrite <- !app_assoc; reflexivity|]. split; intros; rewrite <- !app_assoc; reflexivity. }
    destruct Hrest as [post1 [post' [Hr0 [Hr1 Hr2]]]].
    assert (Hx' := Hx text _ post' ltac:(rewrite Ht; exact Hr1)).
    replace (len (pre ++ w1 ++ k ++ w2 ++ [x3a] ++ w3)) with (len pre + len w1 + len k + len w2 + 1 + len w3) in Hx' by len_solve.
    rewrite Hx'.
    assert (Hl : mevents_of text (mems_events json_events_of (len pre + len (rmem (w1, k, w2, w3, x, w4)) + 1) l) =
                 omap (flat_map mem_mev) (opt_all (map mem_jv l))).
    { destruct l as [|i2 l2].
      - reflexivity.
      - replace (len pre + len (rmem (w1, k, w2, w3, x, w4)) + 1) with (len (pre ++ rmem (w1, k, w2, w3, x, w4) ++ [x2c])) by len_solve.
        apply (IH HF' text _ post). rewrite Ht. apply Hr2. discriminate. }
    rewrite Hl. cbn [mevents_of mevent_of e_type e_begin e_end app].
    assert (Hs : slice text (len pre + len w1) (len pre + len w1 + len k - 1) = k).
    { rewrite Ht, Hr0. replace (len pre + len w1) with (len (pre ++ w1)) by len_solve. apply slice_at. exact Hk. }
    rewrite Hs.
    destruct (jval_of_jv x) as [j|]; destruct (opt_all (map mem_jv l)) as [js'|]; cbn [omap flat_map mem_mev app fst snd]; try reflexivity;
      rewrite <- app_assoc; reflexivity.
Qed.

Lemma M_all : forall d, Grammar.wf d = true -> Mprop d.
Proof.
  induction d as [t|w|items IH|w|ms IH] using GrammarProofs.jv_ind2; intros Hw text pre post Ht.
  - cbn [jval_of_jv]. cbn [json_events_of render] in Ht |- *.
    cbn [mevents_of mevent_of e_type e_begin e_end]. rewrite Ht, (slice_at pre t post (wf_token_nonempty t Hw)).
    destruct (scalar_of_token t) as [j|] eqn:Hj; [|reflexivity].
    cbn [omap]. rewrite (scalar_events t j Hj). reflexivity.
  - reflexivity.
  - rewrite jval_arr. rewrite GrammarProofs.wf_arr in Hw. apply andb_prop in Hw. destruct Hw as [_ Hw].
    cbn [json_events_of]. rewrite !mevents_of_app. rewrite GrammarProofs.render_arr in Ht.
    replace (len pre + 1) with (len (pre ++ [x5b])) by len_solve.
    rewrite (M_items items) with (post := x5d :: post).
    + destruct (opt_all (map item_jv items)) as [js|]; reflexivity.
    + rewrite forallb_forall in Hw. rewrite Forall_forall in IH |- *. intros i Hin. split; [apply Hw; exact Hin|].
      apply IH; [exact Hin|]. specialize (Hw i Hin). destruct i as [[w1 x] w2]. cbn in Hw |- *.
      apply andb_prop in Hw. destruct Hw as [Hw _]. apply andb_prop in Hw. tauto.
    + rewrite Ht. cbn [app]. rewrite <- !app_assoc. reflexivity.
  - reflexivity.
  - rewrite jval_obj. rewrite GrammarProofs.wf_obj in Hw. apply andb_prop in Hw. destruct Hw as [_ Hw].
    cbn [json_events_of]. rewrite !mevents_of_app. rewrite GrammarProofs.render_obj in Ht.
    replace (len pre + 1) with (len (pre ++ [x7b])) by len_solve.
    rewrite (M_mems ms) with (post := x7d :: post).
    + destruct (opt_all (map mem_jv ms)) as [js|]; reflexivity.
    + rewrite forallb_forall in Hw. rewrite Forall_forall in IH |- *. intros i Hin. split; [apply Hw; exact Hin|].
      apply IH; [exact Hin|]. specialize (Hw i Hin). destruct i as [[[[[w1 k] w2] w3] x] w4]. cbn in Hw |- *.
      repeat match type of Hw with (_ && _)%bool = true => apply andb_prop in Hw; destruct Hw as [Hw ?] end. assumption.
    + rewrite Ht. cbn [app]. rewrite <- !app_assoc. reflexivity.
Qed.

(* the general form: [doc_events] on a JSON text, whatever its tokens *)
Theorem doc_events_rendered : forall w1 d w2,
  all_blank w1 = true -> Grammar.wf d = true -> all_blank w2 = true ->
  doc_events (w1 ++ render d ++ w2) =
  match jval_of_jv d with Some j => DEvents (Machine.events j) | None => DStuck end.
Proof.
  intros w1 d w2 H1 Hd H2. unfold doc_events. rewrite (json_scan_rendered w1 d w2 H1 Hd H2).
  change (N.of_nat (length w1)) with (len w1).
  rewrite (M_all d Hd _ w1 w2 eq_refl). destruct (jval_of_jv d); reflexivity.
Qed.

(* D1 (main): the document TEXT yields exactly the events the validator machine consumes *)
Theorem doc_events_of_text : forall w1 d w2 j,
  all_blank w1 = true -> Grammar.wf d = true -> all_blank w2 = true -> jval_of_jv d = Some j ->
  doc_events (w1 ++ render d ++ w2) = DEvents (Machine.events j).
Proof. intros w1 d w2 j H1 Hd H2 Hj. rewrite (doc_events_rendered w1 d w2 H1 Hd H2), Hj. reflexivity. Qed.

(* the conversion is stuck exactly when some scalar token has no kind *)
Corollary doc_events_stuck_iff : forall w1 d w2,
  all_blank w1 = true -> Grammar.wf d = true -> all_blank w2 = true ->
  (doc_events (w1 ++ render d ++ w2) = DStuck <-> jval_of_jv d = None).
Proof.
  intros w1 d w2 H1 Hd H2. rewrite (doc_events_rendered w1 d w2 H1 Hd H2).
  destruct (jval_of_jv d); split; intros H; try discriminate H; reflexivity.
Qed.

(* ================================================================== *)
(* 7. D3: when [jval_of_jv] is defined                                 *)
(* ================================================================== *)
(* the components of a number token (NumSpec.numeral: sign, integer part, fraction digits, exponent) *)
Definition split_exp (r2 : bytes) : option (bool * NumSpec.esign * bytes) :=
  match r2 with
  | c :: r =>
    if (ch c 101 || ch c 69)%bool then
      match r with
      | s :: r' => if ch s 43 then Some (ch c 69, NumSpec.EPlus, r')
                   else if ch s 45 then Some (ch c 69, NumSpec.EMinus, r')
                   else Some (ch c 69, NumSpec.ENone, r)
      | [] => Some (ch c 69, NumSpec.ENone, [])
      end
    else None
  | [] => None
  end.
Definition split_sign (t : bytes) : bool * bytes :=
  match t with c :: r => if ch c 45 then (true, r) else (false, t) | [] => (false, []) end.
Definition split_frac (r1 : bytes) : option bytes * bytes :=
  match r1 with
  | c :: r => if ch c 46 then (Some (GrammarProofs.takedigits r), skip_digits r) else (None, r1)
  | [] => (None, [])
  end.
Definition numeral_of_token (t : bytes) : NumSpec.numeral :=
  let r0 := snd (split_sign t) in
  let fr := split_frac (skip_digits r0) in
  NumSpec.mknumeral (fst (split_sign t)) (GrammarProofs.takedigits r0) (fst fr) (split_exp (snd fr)).

(* the number tokens json.Guess can classify: not "0e.." / "-0e.." (known finding: the library's number scanner
   refuses an integer part 0 followed directly by an exponent), and the exponent within what the number type
   can represent (it fits Go's int, e <= 10000 + fraction digits, -e <= 10000 + integer digits: setExp) *)
Definition tok_no_zero_int_exp (t : bytes) : bool :=
  if is_number_token t then negb (NumSpec.zero_int_then_exp (numeral_of_token t)) else true.
Definition tok_exp_fits (t : bytes) : bool :=
  if is_number_token t then NumSpec.exp_fits (numeral_of_token t) else true.

Section OverTokens.
  Variable P : bytes -> bool.
  Fixpoint all_tokens (d : Grammar.jv) : bool :=
    match d with
    | Grammar.JTok t => P t
    | Grammar.JArr0 _ | Grammar.JObj0 _ => true
    | Grammar.JArr items => forallb (fun i => let '(_, x, _) := i in all_tokens x) items
    | Grammar.JObj ms => forallb (fun m => let '(_, _, _, _, x, _) := m in all_tokens x) ms
    end.
End OverTokens.
Definition no_zero_int_exp (d : Grammar.jv) : bool := all_tokens tok_no_zero_int_exp d.
Definition exps_fit (d : Grammar.jv) : bool := all_tokens tok_exp_fits d.

(* ---- a number token is the rendering of its components ---- *)
Lemma num_is_digit c : NumModel.is_digit c = is_digit c.
Proof. reflexivity. Qed.
Lemma num_is_nonzero c : NumModel.is_nonzero_digit c = is_digit19 c.
Proof. reflexivity. Qed.
Lemma all_digits_eq ds : NumSpec.all_digits ds = forallb is_digit ds.
Proof. reflexivity. Qed.

Lemma nd_takedigits r : GrammarProofs.nd r = true -> GrammarProofs.takedigits r = [].
Proof.
  destruct r as [|c r]; [reflexivity|]. cbn [GrammarProofs.nd GrammarProofs.takedigits].
  destruct (is_digit c); [discriminate|reflexivity].
Qed.

Lemma nd_of_lex_exp b : GrammarProofs.lex_exp b = Some [] -> GrammarProofs.nd b = true.
Proof.
  destruct b as [|c r]; [reflexivity|]. cbn [GrammarProofs.lex_exp GrammarProofs.nd].
  destruct (ch c 101 || ch c 69)%bool eqn:E; [intros _; blia|discriminate].
Qed.
Lemma nd_of_lex_frac_exp r : lex_frac_exp r = Some [] -> GrammarProofs.nd r = true.
Proof.
  intros H. rewrite GrammarProofs.lex_frac_exp_eq in H.
  destruct (GrammarProofs.lex_frac r) as [b|] eqn:Ef; [|discriminate H].
  destruct r as [|c r0]; [reflexivity|]. cbn [GrammarProofs.lex_frac] in Ef. cbn [GrammarProofs.nd].
  destruct (ch c 46) eqn:E46; [blia|]. inversion Ef; subst b. apply nd_of_lex_exp in H. exact H.
Qed.

Definition exp_wf (ex : option (bool * NumSpec.esign * bytes)) : Prop :=
  match ex with None => True | Some (_, _, ed) => NumSpec.nonempty_digits ed = true end.

Lemma nonempty_digits_cons d r : is_digit d = true -> skip_digits r = [] -> NumSpec.nonempty_digits (d :: r) = true.
Proof.
  intros Hd Hr. cbn [NumSpec.nonempty_digits]. rewrite all_digits_eq. cbn [forallb]. rewrite Hd.
  apply skip_digits_nil_all. exact Hr.
Qed.

Lemma split_exp_spec b : GrammarProofs.lex_exp b = Some [] ->
  exp_wf (split_exp b) /\ NumProofs.exp_bytes (split_exp b) = b.
Proof.
  intros H. destruct b as [|c r0]; [split; [exact I|reflexivity]|].
  cbn [GrammarProofs.lex_exp] in H. cbn [split_exp].
  destruct (ch c 101 || ch c 69)%bool eqn:E; [|discriminate H]. cbv zeta in H.
  assert (Hc : NumProofs.echar (ch c 69) = c).
  { unfold NumProofs.echar. destruct (ch c 69) eqn:E69.
    - symmetry. apply (GrammarProofs.ch_eq c x45 69 E69). reflexivity.
    - cbn [orb] in E. rewrite orb_false_r in E. symmetry. apply (GrammarProofs.ch_eq c x65 101 E). reflexivity. }
  destruct r0 as [|s r']; [discriminate H|].
  destruct (ch s 43) eqn:E43.
  { cbn [orb] in H. destruct r' as [|d r'']; [discriminate H|].
    destruct (is_digit d) eqn:Ed; [|discriminate H]. inversion H as [Hs].
    split; [apply nonempty_digits_cons; assumption|].
    cbn [NumProofs.exp_bytes NumProofs.esign_bytes app]. rewrite Hc. do 2 f_equal.
    symmetry. apply (GrammarProofs.ch_eq s x2b 43 E43). reflexivity. }
  destruct (ch s 45) eqn:E45.
  { cbn [orb] in H. destruct r' as [|d r'']; [discriminate H|].
    destruct (is_digit d) eqn:Ed; [|discriminate H]. inversion H as [Hs].
    split; [apply nonempty_digits_cons; assumption|].
    cbn [NumProofs.exp_bytes NumProofs.esign_bytes app]. rewrite Hc. do 2 f_equal.
    symmetry. apply (GrammarProofs.ch_eq s x2d 45 E45). reflexivity. }
  cbn [orb] in H. destruct (is_digit s) eqn:Ed; [|discriminate H]. inversion H as [Hs].
  split; [apply nonempty_digits_cons; assumption|].
  cbn [NumProofs.exp_bytes NumProofs.esign_bytes app]. rewrite Hc. reflexivity.
Qed.

Lemma split_frac_spec r1 : lex_frac_exp r1 = Some [] ->
  match fst (split_frac r1) with None => True | Some fd => NumSpec.nonempty_digits fd = true end /\
  NumProofs.fd_bytes (fst (split_frac r1)) ++ snd (split_frac r1) = r1 /\
  GrammarProofs.lex_exp (snd (split_frac r1)) = Some [].
Proof.
  intros H. rewrite GrammarProofs.lex_frac_exp_eq in H.
  destruct (GrammarProofs.lex_frac r1) as [b|] eqn:Ef; [|discriminate H].
  destruct r1 as [|c r0].
  - cbn in Ef. inversion Ef; subst b. cbn. auto.
  - cbn [GrammarProofs.lex_frac] in Ef. cbn [split_frac]. destruct (ch c 46) eqn:E46.
    + destruct r0 as [|d r']; [discriminate Ef|].
      destruct (is_digit d) eqn:Ed; [|discriminate Ef]. inversion Ef; subst b.
      cbn [fst snd GrammarProofs.takedigits skip_digits]. rewrite Ed.
      split; [|split].
      * cbn [NumSpec.nonempty_digits]. rewrite all_digits_eq. cbn [forallb]. rewrite Ed. apply takedigits_digits.
      * cbn [NumProofs.fd_bytes app]. rewrite <- (GrammarProofs.takedigits_skip r').
        f_equal. symmetry. apply (GrammarProofs.ch_eq c x2e 46 E46). reflexivity.
      * exact H.
    + inversion Ef; subst b. cbn [fst snd NumProofs.fd_bytes app]. auto.
Qed.

Lemma split_int_spec r0 : lex_int r0 = Some [] ->
  NumSpec.wf_ip (GrammarProofs.takedigits r0) = true /\ lex_frac_exp (skip_digits r0) = Some [].
Proof.
  intros H. destruct r0 as [|c r]; [discriminate H|]. cbn [lex_int] in H.
  cbn [GrammarProofs.takedigits skip_digits].
  destruct (ch c 48) eqn:E48.
  - assert (is_digit c = true) as Hd by blia. rewrite Hd.
    pose proof (nd_of_lex_frac_exp r H) as Hn.
    rewrite (nd_takedigits r Hn), (GrammarProofs.skip_digits_nd r Hn).
    split; [cbn [NumSpec.wf_ip]; exact Hd|exact H].
  - destruct (is_digit19 c) eqn:E19; [|discriminate H].
    assert (is_digit c = true) as Hd by blia. rewrite Hd. split; [|exact H].
    destruct (GrammarProofs.takedigits r) as [|d l] eqn:Et; [cbn [NumSpec.wf_ip]; exact Hd|].
    cbn [NumSpec.wf_ip]. rewrite num_is_nonzero, E19, all_digits_eq. cbn [forallb andb]. rewrite Hd.
    cbn [andb]. change (forallb is_digit (d :: l) = true). rewrite <- Et. apply takedigits_digits.
Qed.

Theorem numeral_of_token_spec : forall t, is_number_token t = true ->
  NumSpec.wf_numeral (numeral_of_token t) = true /\ NumSpec.render (numeral_of_token t) = t.
Proof.
  intros t H. unfold is_number_token in H.
  destruct (lex_number t) as [[|]|] eqn:El; try discriminate H. clear H.
  assert (Hs : lex_int (snd (split_sign t)) = Some [] /\
               NumProofs.sign_bytes (fst (split_sign t)) ++ snd (split_sign t) = t).
  { destruct t as [|c r]; [discriminate El|]. cbn [lex_number] in El. cbn [split_sign].
    destruct (ch c 45) eqn:E45; cbn [fst snd NumProofs.sign_bytes app]; split; try exact El; try reflexivity.
    f_equal. symmetry. apply (GrammarProofs.ch_eq c x2d 45 E45). reflexivity. }
  destruct Hs as [Hi Ht].
  destruct (split_int_spec _ Hi) as [Hip Hfe].
  destruct (split_frac_spec _ Hfe) as [Hfd [Hfb Hex]].
  destruct (split_exp_spec _ Hex) as [Hew Heb].
  split.
  - unfold NumSpec.wf_numeral, numeral_of_token. cbn [NumSpec.u_ip NumSpec.u_fd NumSpec.u_exp]. rewrite Hip. cbn [andb].
    destruct (fst (split_frac (skip_digits (snd (split_sign t))))) as [fd|]; [rewrite Hfd|]; cbn [andb];
      unfold exp_wf in Hew; destruct (split_exp _) as [[[up sg] ed]|]; auto.
  - rewrite NumProofs.render_blocks. unfold numeral_of_token. cbn [NumSpec.u_neg NumSpec.u_ip NumSpec.u_fd NumSpec.u_exp].
    rewrite Heb, Hfb, <- (GrammarProofs.takedigits_skip (snd (split_sign t))). exact Ht.
Qed.

(* ---- every well-formed token of the class has a kind ---- *)
Lemma lsb_last : forall m bs, (length bs <= m)%nat -> lex_string_body bs = Some [] ->
  exists b0 c, bs = b0 ++ [c] /\ ch c 34 = true.
Proof.
  induction m as [|m IH]; intros bs Hm H.
  - destruct bs; [discriminate H|cbn [length] in Hm; lia].
  - destruct bs as [|c r]; [discriminate H|]. cbn [length] in Hm. rewrite GrammarProofs.lsb_cons in H.
    destruct (ch c 34) eqn:E34.
    { inversion H; subst r. exists [], c. split; [reflexivity|exact E34]. }
    assert (Hrec : forall r', (length r' <= m)%nat -> lex_string_body r' = Some [] -> forall pre, c :: r = pre ++ r' ->
              exists b0 c0, c :: r = b0 ++ [c0] /\ ch c0 34 = true).
    { intros r' Hl Hr pre Hp. destruct (IH r' Hl Hr) as [b0 [c0 [E1 E2]]]. exists (pre ++ b0), c0.
      split; [rewrite Hp, E1, app_assoc; reflexivity|exact E2]. }
    destruct (ch c 92) eqn:E92.
    + destruct r as [|e r']; [discriminate H|]. cbn [length] in Hm.
      destruct (GrammarProofs.is_esc1 e).
      { apply (Hrec r' ltac:(lia) H [c; e]). reflexivity. }
      destruct (ch e 117); [|discriminate H].
      destruct r' as [|h1 [|h2 [|h3 [|h4 r']]]]; try discriminate H. cbn [length] in Hm.
      destruct (is_hex h1 && is_hex h2 && is_hex h3 && is_hex h4)%bool; [|discriminate H].
      apply (Hrec r' ltac:(lia) H [c; e; h1; h2; h3; h4]). reflexivity.
    + destruct (is_ctl c); [discriminate H|]. apply (Hrec r ltac:(lia) H [c]). reflexivity.
Qed.

Lemma in_quotes_string t : is_string_token t = true -> Loader.in_quotes t = true.
Proof.
  intros H. destruct t as [|q r]; [discriminate H|]. unfold is_string_token in H. apply andb_prop in H. destruct H as [Hq Hb].
  destruct (lex_string_body r) as [[|]|] eqn:El; try discriminate Hb.
  destruct (lsb_last (length r) r ltac:(lia) El) as [b0 [c [-> Hc]]].
  unfold Loader.in_quotes, Unquote.in_quotes. rewrite frev_rev, rev_app_distr. cbn [rev app].
  change ((ch q 34 && ch c 34)%bool = true). rewrite Hq, Hc. reflexivity.
Qed.

Lemma scalar_of_string t : is_string_token t = true -> scalar_of_token t = Some JStr.
Proof. intros H. unfold scalar_of_token, Loader.literal_json_type. rewrite (in_quotes_string t H). reflexivity. Qed.

Lemma scalar_of_word t : is_word_token t = true -> exists j, scalar_of_token t = Some j.
Proof.
  intros H. destruct (GrammarProofs.word_token_cases t H) as [-> | [-> | ->]]; eexists; vm_compute; reflexivity.
Qed.

Lemma scalar_of_number t : is_number_token t = true ->
  NumSpec.zero_int_then_exp (numeral_of_token t) = false -> NumSpec.exp_fits (numeral_of_token t) = true ->
  exists j, scalar_of_token t = Some j.
Proof.
  intros Hn Hz Hf. destruct (numeral_of_token_spec t Hn) as [Hwf Hr].
  destruct (NumProofs.scan_render_value _ Hwf Hf Hz) as [n [Hs _]]. rewrite Hr in Hs.
  unfold scalar_of_token, Loader.literal_json_type.
  destruct (Loader.in_quotes t); [eexists; reflexivity|].
  destruct (Loader.is "true" t || Loader.is "false" t)%bool; [eexists; reflexivity|].
  destruct (Loader.is "null" t); [eexists; reflexivity|].
  unfold NumModel.is_integer, NumModel.is_float. rewrite Hs.
  destruct (NumModel.dot_without_exp t); [eexists; reflexivity|].
  destruct (Nat.eqb (NumModel.n_exp n) 0); eexists; reflexivity.
Qed.

Lemma scalar_of_wf_token t : Grammar.wf (Grammar.JTok t) = true ->
  tok_no_zero_int_exp t = true -> tok_exp_fits t = true -> exists j, scalar_of_token t = Some j.
Proof.
  intros Hw Hz Hf. cbn [Grammar.wf] in Hw. unfold tok_no_zero_int_exp in Hz. unfold tok_exp_fits in Hf.
  destruct (is_number_token t) eqn:En.
  { apply scalar_of_number; [exact En|apply negb_true_iff; exact Hz|exact Hf]. }
  destruct (is_string_token t) eqn:Es; [eexists; apply scalar_of_string; exact Es|].
  apply scalar_of_word. exact Hw.
Qed.

Lemma opt_all_some {A B} (f : A -> option B) l : (forall a, In a l -> exists b, f a = Some b) ->
  exists bs, opt_all (map f l) = Some bs.
Proof.
  induction l as [|a l IH]; intros H; [eexists; reflexivity|].
  destruct (H a (or_introl eq_refl)) as [b Hb]. destruct IH as [bs Hbs]; [intros x Hx; apply H; right; exact Hx|].
  exists (b :: bs). cbn [map opt_all]. rewrite Hb, Hbs. reflexivity.
Qed.

(* D3: [jval_of_jv] is defined on every well-formed tree whose number tokens json.Guess can classify *)
Lemma jval_of_jv_total : forall d, Grammar.wf d = true -> no_zero_int_exp d = true -> exps_fit d = true ->
  exists j, jval_of_jv d = Some j.
Proof.
  unfold no_zero_int_exp, exps_fit.
  induction d as [t|w|items IH|w|ms IH] using GrammarProofs.jv_ind2; intros Hw Hz Hf.
  - cbn [jval_of_jv]. apply scalar_of_wf_token; assumption.
  - eexists; reflexivity.
  - rewrite jval_arr. rewrite GrammarProofs.wf_arr in Hw. apply andb_prop in Hw. destruct Hw as [_ Hw].
    cbn [all_tokens] in Hz, Hf. rewrite forallb_forall in Hw, Hz, Hf. rewrite Forall_forall in IH.
    destruct (opt_all_some item_jv items) as [js Hjs]; [|rewrite Hjs; eexists; reflexivity].
    intros [[w1 x] w2] Hin. specialize (Hw _ Hin). specialize (Hz _ Hin). specialize (Hf _ Hin). specialize (IH _ Hin).
    cbn in Hw, Hz, Hf, IH |- *. apply andb_prop in Hw. destruct Hw as [Hw _]. apply andb_prop in Hw. destruct Hw as [_ Hx].
    apply IH; assumption.
  - eexists; reflexivity.
  - rewrite jval_obj. rewrite GrammarProofs.wf_obj in Hw. apply andb_prop in Hw. destruct Hw as [_ Hw].
    cbn [all_tokens] in Hz, Hf. rewrite forallb_forall in Hw, Hz, Hf. rewrite Forall_forall in IH.
    destruct (opt_all_some mem_jv ms) as [js Hjs]; [|rewrite Hjs; eexists; reflexivity].
    intros [[[[[w1 k] w2] w3] x] w4] Hin. specialize (Hw _ Hin). specialize (Hz _ Hin). specialize (Hf _ Hin). specialize (IH _ Hin).
    cbn in Hw, Hz, Hf, IH |- *.
    repeat match type of Hw with (_ && _)%bool = true => apply andb_prop in Hw; destruct Hw as [Hw ?] end.
    destruct IH as [j Hj]; try assumption. rewrite Hj. eexists; reflexivity.
Qed.

(* ---- the class is exact: outside it json.Guess has no kind for the token ---- *)
Lemma scan_none_exp_not_int u : NumSpec.wf_numeral u = true -> NumSpec.zero_int_then_exp u = false ->
  NumSpec.exp_in_int u = false -> NumModel.scan (NumSpec.render u) = None.
Proof.
  intros Hwf Hz Hi. unfold NumModel.scan. rewrite (NumProofs.nrun_render u Hwf Hz).
  cbn [NumModel.a_finished negb NumModel.a_expBegin].
  destruct (NumProofs.wf_numeral_parts u Hwf) as (_ & _ & Hex).
  unfold NumSpec.exp_in_int in Hi. destruct (NumSpec.u_exp u) as [[[up sg] ed]|] eqn:He; [|discriminate Hi].
  apply N.leb_gt in Hi.
  assert (Hb : Nat.eqb (NumProofs.exp_begin u) 0 = false).
  { apply Nat.eqb_neq. unfold NumProofs.exp_begin. rewrite He. destruct sg; lia. }
  rewrite Hb, (NumProofs.skipn_exp_begin u up sg ed He).
  assert (Hd : NumSpec.all_digits ed = true) by (apply NumProofs.nonempty_digits_all; exact Hex).
  assert (Hu : match NumModel.parse_uint ed with
               | Some u0 => if N.ltb NumModel.max_int u0 then None else Some u0
               | None => None end = None).
  { destruct (NumModel.parse_uint ed) as [u0|] eqn:Ep; [|reflexivity].
    destruct (NumProofs.parse_uint_exact ed u0 Hd Ep) as [-> _].
    apply N.ltb_lt in Hi. rewrite Hi. reflexivity. }
  assert (Hp : NumModel.parse_int ((match sg with NumSpec.EMinus => [x2d] | _ => [] end) ++ ed) = None).
  { destruct ed as [|c r]; [discriminate Hex|].
    assert (Hc : NumModel.is_digit c = true).
    { rewrite NumProofs.all_digits_cons in Hd. apply andb_prop in Hd. tauto. }
    destruct sg; cbn [app]; unfold NumModel.parse_int; rewrite ?(NumProofs.digit_not_x2d c Hc), ?NumProofs.byte_eqb_refl;
      destruct (NumModel.parse_uint (c :: r)) as [u0|]; try reflexivity;
      destruct (N.ltb NumModel.max_int u0); try reflexivity; discriminate Hu. }
  rewrite Hp. reflexivity.
Qed.

Lemma exp_fits_no_exp u : NumSpec.u_exp u = None -> NumSpec.exp_fits u = true.
Proof.
  intros H. unfold NumSpec.exp_fits, NumSpec.exp_in_int, NumSpec.u_expval. rewrite H. cbn [andb].
  apply andb_true_iff. split; apply Z.leb_le; unfold NumModel.max_exponent_zeros; lia.
Qed.

Lemma scan_none_outside u : NumSpec.wf_numeral u = true ->
  NumSpec.zero_int_then_exp u = true \/ NumSpec.exp_fits u = false -> NumModel.scan (NumSpec.render u) = None.
Proof.
  intros Hwf H. destruct (NumSpec.zero_int_then_exp u) eqn:Hz; [apply NumProofs.zero_int_exp_scan_none; assumption|].
  destruct H as [H|H]; [discriminate H|].
  destruct (NumSpec.exp_in_int u) eqn:Hi.
  - apply NumProofs.scan_refuses_large_exponent; assumption.
  - apply scan_none_exp_not_int; assumption.
Qed.

Lemma has_exp_outside u : NumSpec.zero_int_then_exp u = true \/ NumSpec.exp_fits u = false ->
  exists x, NumSpec.u_exp u = Some x.
Proof.
  intros H. destruct (NumSpec.u_exp u) as [x|] eqn:He; [exists x; reflexivity|]. exfalso.
  destruct H as [H|H].
  - unfold NumSpec.zero_int_then_exp in H. rewrite He in H. destruct (NumSpec.u_ip u) as [|? [|]]; try discriminate H.
    destruct (NumSpec.u_fd u); discriminate H.
  - rewrite (exp_fits_no_exp u He) in H. discriminate H.
Qed.

Lemma dot_without_exp_has_exp u x : NumSpec.u_exp u = Some x -> NumModel.dot_without_exp (NumSpec.render u) = false.
Proof.
  intros He. unfold NumModel.dot_without_exp.
  assert (NumModel.has_byte (fun c => (byte_eqb c x65 || byte_eqb c x45)%bool) (NumSpec.render u) = true) as ->.
  { rewrite NumProofs.render_blocks, He. unfold NumModel.has_byte. rewrite !existsb_app.
    destruct x as [[up sg] ed]. cbn [NumProofs.exp_bytes existsb]. destruct up; cbn; rewrite ?orb_true_r; reflexivity. }
  apply andb_false_r.
Qed.

Lemma scalar_of_number_none t : is_number_token t = true ->
  NumSpec.zero_int_then_exp (numeral_of_token t) = true \/ NumSpec.exp_fits (numeral_of_token t) = false ->
  scalar_of_token t = None.
Proof.
  intros Hn Hout. destruct (numeral_of_token_spec t Hn) as [Hwf Hr].
  pose proof (scan_none_outside _ Hwf Hout) as Hs. rewrite Hr in Hs.
  destruct (has_exp_outside _ Hout) as [x Hx].
  pose proof (dot_without_exp_has_exp _ x Hx) as Hd. rewrite Hr in Hd.
  unfold is_number_token in Hn. destruct t as [|c r]; [discriminate Hn|].
  destruct (lex_number (c :: r)) as [y|] eqn:El; [|discriminate Hn].
  pose proof (GrammarProofs.lex_number_start c r y El) as Hc.
  unfold scalar_of_token, Loader.literal_json_type.
  assert (Loader.in_quotes (c :: r) = false) as ->.
  { unfold Loader.in_quotes, Unquote.in_quotes. change (Unquote.bN c) with (bN c).
    assert (N.eqb (bN c) 34 = false) as -> by blia. reflexivity. }
  assert (forall r', Loader.beq (c :: r) (x74 :: r') = false) as Ht.
  { intros r'. cbn [Loader.beq]. unfold byte_eqb. assert (N.eqb (Byte.to_N c) (Byte.to_N x74) = false) as -> by (cbn; blia). reflexivity. }
  assert (forall r', Loader.beq (c :: r) (x66 :: r') = false) as Hf.
  { intros r'. cbn [Loader.beq]. unfold byte_eqb. assert (N.eqb (Byte.to_N c) (Byte.to_N x66) = false) as -> by (cbn; blia). reflexivity. }
  assert (forall r', Loader.beq (c :: r) (x6e :: r') = false) as Hnl.
  { intros r'. cbn [Loader.beq]. unfold byte_eqb. assert (N.eqb (Byte.to_N c) (Byte.to_N x6e) = false) as -> by (cbn; blia). reflexivity. }
  change (Loader.is "true" (c :: r)) with (Loader.beq (c :: r) [x74; x72; x75; x65]).
  change (Loader.is "false" (c :: r)) with (Loader.beq (c :: r) [x66; x61; x6c; x73; x65]).
  change (Loader.is "null" (c :: r)) with (Loader.beq (c :: r) [x6e; x75; x6c; x6c]).
  rewrite Ht, Hf, Hnl. cbn [orb].
  unfold NumModel.is_integer, NumModel.is_float. rewrite Hd, Hs.
  assert (Loader.is_user_type_name (c :: r) = false) as ->.
  { unfold Loader.is_user_type_name. destruct r; [reflexivity|].
    assert (SchemaScanner.ch c 64 = false) as ->; [|reflexivity].
    unfold SchemaScanner.ch, SchemaScanner.bN. blia. }
  reflexivity.
Qed.

Lemma tok_class_of_scalar t j : Grammar.wf (Grammar.JTok t) = true -> scalar_of_token t = Some j ->
  tok_no_zero_int_exp t = true /\ tok_exp_fits t = true.
Proof.
  intros Hw Hj. unfold tok_no_zero_int_exp, tok_exp_fits. destruct (is_number_token t) eqn:En; [|auto].
  destruct (NumSpec.zero_int_then_exp (numeral_of_token t)) eqn:Hz.
  { rewrite (scalar_of_number_none t En (or_introl Hz)) in Hj. discriminate Hj. }
  destruct (NumSpec.exp_fits (numeral_of_token t)) eqn:Hf; [auto|].
  rewrite (scalar_of_number_none t En (or_intror Hf)) in Hj. discriminate Hj.
Qed.

Lemma opt_all_in {A B} (f : A -> option B) l bs : opt_all (map f l) = Some bs ->
  forall a, In a l -> exists b, f a = Some b.
Proof.
  revert bs. induction l as [|x l IH]; intros bs H a Ha; [destruct Ha|].
  cbn [map opt_all] in H. destruct (f x) as [b|] eqn:Ex; [|discriminate H].
  destruct (opt_all (map f l)) as [t|] eqn:El; [|discriminate H].
  destruct Ha as [<-|Ha]; [exists b; exact Ex|]. apply (IH t eq_refl a Ha).
Qed.

Lemma jval_of_jv_class : forall d, Grammar.wf d = true -> forall j, jval_of_jv d = Some j ->
  no_zero_int_exp d = true /\ exps_fit d = true.
Proof.
  unfold no_zero_int_exp, exps_fit.
  induction d as [t|w|items IH|w|ms IH] using GrammarProofs.jv_ind2; intros Hw j Hj.
  - cbn [jval_of_jv] in Hj. cbn [all_tokens]. apply (tok_class_of_scalar t j Hw Hj).
  - auto.
  - rewrite jval_arr in Hj. destruct (opt_all (map item_jv items)) as [js|] eqn:Ejs; [|discriminate Hj].
    rewrite GrammarProofs.wf_arr in Hw. apply andb_prop in Hw. destruct Hw as [_ Hw].
    rewrite forallb_forall in Hw. rewrite Forall_forall in IH. cbn [all_tokens]. rewrite !forallb_forall.
    assert (G : forall i, In i items -> all_tokens tok_no_zero_int_exp (snd (fst i)) = true /\ all_tokens tok_exp_fits (snd (fst i)) = true).
    { intros [[w1 x] w2] Hin. destruct (opt_all_in item_jv items js Ejs _ Hin) as [jx Hjx].
      specialize (Hw _ Hin). cbn in Hw, Hjx |- *. apply andb_prop in Hw. destruct Hw as [Hw _]. apply andb_prop in Hw.
      destruct Hw as [_ Hx]. apply (IH _ Hin Hx jx Hjx). }
    split; intros [[w1 x] w2] Hin; apply (G _ Hin).
  - auto.
  - rewrite jval_obj in Hj. destruct (opt_all (map mem_jv ms)) as [js|] eqn:Ejs; [|discriminate Hj].
    rewrite GrammarProofs.wf_obj in Hw. apply andb_prop in Hw. destruct Hw as [_ Hw].
    rewrite forallb_forall in Hw. rewrite Forall_forall in IH. cbn [all_tokens]. rewrite !forallb_forall.
    assert (G : forall m, In m ms -> all_tokens tok_no_zero_int_exp (snd (fst m)) = true /\ all_tokens tok_exp_fits (snd (fst m)) = true).
    { intros [[[[[w1 k] w2] w3] x] w4] Hin. destruct (opt_all_in mem_jv ms js Ejs _ Hin) as [jx Hjx].
      specialize (Hw _ Hin). cbn in Hw, Hjx |- *.
      repeat match type of Hw with (_ && _)%bool = true => apply andb_prop in Hw; destruct Hw as [Hw ?] end.
      destruct (jval_of_jv x) as [j0|] eqn:E0; [|discriminate Hjx]. apply (IH _ Hin ltac:(assumption) j0 E0). }
    split; intros [[[[[w1 k] w2] w3] x] w4] Hin; apply (G _ Hin).
Qed.

(* D3, exact: on well-formed trees [jval_of_jv] is defined exactly on the class *)
Theorem jval_of_jv_defined_iff : forall d, Grammar.wf d = true ->
  ((exists j, jval_of_jv d = Some j) <-> (no_zero_int_exp d = true /\ exps_fit d = true)).
Proof.
  intros d Hw. split.
  - intros [j Hj]. apply (jval_of_jv_class d Hw j Hj).
  - intros [Hz Hf]. apply jval_of_jv_total; assumption.
Qed.

(* hence the documents on which the conversion is stuck: a well-formed JSON text with a numeral 0e.. or with an
   exponent the library's number type refuses.  Two concrete ones (both are RFC 8259 texts): *)
Example doc_events_stuck_examples :
  doc_events (of_string "0e1") = DStuck /\ doc_events (of_string "[1e10001]") = DStuck /\
  doc_events (of_string "[1e10000]") = DEvents [EArrBegin; EItemBegin; ELitBegin; ELitEnd JInt; EItemEnd; EArrEnd].
Proof. vm_compute. repeat split; reflexivity. Qed.

Corollary doc_events_stuck_class : forall w1 d w2,
  all_blank w1 = true -> Grammar.wf d = true -> all_blank w2 = true ->
  (doc_events (w1 ++ render d ++ w2) = DStuck <-> (no_zero_int_exp d && exps_fit d)%bool = false).
Proof.
  intros w1 d w2 H1 Hd H2. rewrite (doc_events_stuck_iff w1 d w2 H1 Hd H2).
  pose proof (jval_of_jv_defined_iff d Hd) as [A B]. split.
  - intros Hn. destruct (no_zero_int_exp d && exps_fit d)%bool eqn:E; [|reflexivity].
    apply andb_prop in E. destruct (B E) as [j Hj]. congruence.
  - intros E. destruct (jval_of_jv d) as [j|] eqn:Hj; [|reflexivity].
    destruct (A (ex_intro _ j eq_refl)) as [X Y]. rewrite X, Y in E. discriminate E.
Qed.

(* ================================================================== *)
(* 8. D4: literals and keys in source order                            *)
(* ================================================================== *)
Fixpoint tokens_of (d : Grammar.jv) : list bytes :=
  match d with
  | Grammar.JTok t => [t]
  | Grammar.JArr0 _ | Grammar.JObj0 _ => []
  | Grammar.JArr items => flat_map (fun i => let '(_, x, _) := i in tokens_of x) items
  | Grammar.JObj ms => flat_map (fun m => let '(_, _, _, _, x, _) := m in tokens_of x) ms
  end.
Fixpoint keys_of (d : Grammar.jv) : list bytes :=
  match d with
  | Grammar.JTok _ | Grammar.JArr0 _ | Grammar.JObj0 _ => []
  | Grammar.JArr items => flat_map (fun i => let '(_, x, _) := i in keys_of x) items
  | Grammar.JObj ms => flat_map (fun m => let '(_, k, _, _, x, _) := m in k :: keys_of x) ms
  end.
Definition lit_end_of (e : event) : list jval := match e with ELitEnd v => [v] | _ => [] end.
Definition key_end_of (e : event) : list bytes := match e with EKeyEnd k => [k] | _ => [] end.
Definition lit_ends (es : list event) : list jval := flat_map lit_end_of es.
Definition key_ends (es : list event) : list bytes := flat_map key_end_of es.

Definition Dprop (d : Grammar.jv) : Prop := forall j, jval_of_jv d = Some j ->
  map Some (lit_ends (Machine.events j)) = map scalar_of_token (tokens_of d) /\
  key_ends (Machine.events j) = map Unquote.unquote (keys_of d).

Lemma lit_ends_item j : flat_map lit_end_of (item_mev j) = lit_ends (Machine.events j).
Proof. unfold item_mev, lit_ends. cbn [flat_map lit_end_of app]. rewrite flat_map_app. cbn. apply app_nil_r. Qed.
Lemma key_ends_item j : flat_map key_end_of (item_mev j) = key_ends (Machine.events j).
Proof. unfold item_mev, key_ends. cbn [flat_map key_end_of app]. rewrite flat_map_app. cbn. apply app_nil_r. Qed.
Lemma lit_ends_mem m : flat_map lit_end_of (mem_mev m) = lit_ends (Machine.events (snd m)).
Proof. unfold mem_mev, lit_ends. cbn [flat_map lit_end_of app]. rewrite flat_map_app. cbn. apply app_nil_r. Qed.
Lemma key_ends_mem m : flat_map key_end_of (mem_mev m) = fst m :: key_ends (Machine.events (snd m)).
Proof. unfold mem_mev, key_ends. cbn [flat_map key_end_of app]. rewrite flat_map_app. cbn. rewrite app_nil_r. reflexivity. Qed.

Lemma D_all : forall d, Dprop d.
Proof.
  induction d as [t|w|items IH|w|ms IH] using GrammarProofs.jv_ind2; intros j Hj.
  - cbn [jval_of_jv] in Hj. rewrite (scalar_events t j Hj). cbn. rewrite Hj. auto.
  - inversion Hj; subst. auto.
  - rewrite jval_arr in Hj. destruct (opt_all (map item_jv items)) as [js|] eqn:Ejs; [|discriminate Hj].
    inversion Hj; subst j. cbn [Machine.events tokens_of keys_of].
    change (flat_map (fun x : jval => EItemBegin :: Machine.events x ++ [EItemEnd]) js) with (flat_map item_mev js).
    unfold lit_ends, key_ends. cbn [flat_map lit_end_of key_end_of app]. rewrite !flat_map_app. cbn [flat_map lit_end_of key_end_of app].
    rewrite !app_nil_r.
    clear Hj. revert js Ejs. induction items as [|[[w1 x] w2] l IHl]; intros js Ejs.
    + cbn in Ejs. inversion Ejs; subst. auto.
    + inversion IH as [|? ? Hx IH']; subst. cbn [fst snd] in Hx. cbn [map opt_all item_jv] in Ejs.
      destruct (jval_of_jv x) as [jx|] eqn:Ex; [|discriminate Ejs].
      destruct (opt_all (map item_jv l)) as [js'|] eqn:El; [|discriminate Ejs]. inversion Ejs; subst js.
      destruct (Hx jx Ex) as [A1 A2]. destruct (IHl IH' js' eq_refl) as [B1 B2].
      cbn [flat_map]. rewrite !flat_map_app, lit_ends_item, key_ends_item.
      rewrite !map_app. rewrite A1, A2, B1, B2. auto.
  - inversion Hj; subst. auto.
  - rewrite jval_obj in Hj. destruct (opt_all (map mem_jv ms)) as [js|] eqn:Ejs; [|discriminate Hj].
    inversion Hj; subst j. cbn [Machine.events tokens_of keys_of].
    change (flat_map (fun m : bytes * jval => EKeyBegin :: EKeyEnd (fst m) :: EValBegin :: Machine.events (snd m) ++ [EValEnd]) js)
      with (flat_map mem_mev js).
    unfold lit_ends, key_ends. cbn [flat_map lit_end_of key_end_of app]. rewrite !flat_map_app. cbn [flat_map lit_end_of key_end_of app].
    rewrite !app_nil_r.
    clear Hj. revert js Ejs. induction ms as [|[[[[[w1 k] w2] w3] x] w4] l IHl]; intros js Ejs.
    + cbn in Ejs. inversion Ejs; subst. auto.
    + inversion IH as [|? ? Hx IH']; subst. cbn [fst snd] in Hx. cbn [map opt_all mem_jv] in Ejs.
      destruct (jval_of_jv x) as [jx|] eqn:Ex; [|discriminate Ejs].
      destruct (opt_all (map mem_jv l)) as [js'|] eqn:El; [|discriminate Ejs]. inversion Ejs; subst js.
      destruct (Hx jx Ex) as [A1 A2]. destruct (IHl IH' js' eq_refl) as [B1 B2].
      cbn [flat_map]. rewrite !flat_map_app, lit_ends_mem, key_ends_mem. cbn [fst snd].
      rewrite !map_app. cbn [map app]. rewrite A1, A2, B1, B2. auto.
Qed.

(* D4: the LiteralEnd events are the scalar tokens of the text in source order, each with the kind json.Guess
   gives it (in particular there are as many), and the ObjectKeyEnd events carry the unquoted keys in source order *)
Corollary doc_lit_ends : forall w1 d w2 j,
  all_blank w1 = true -> Grammar.wf d = true -> all_blank w2 = true -> jval_of_jv d = Some j ->
  exists es, doc_events (w1 ++ render d ++ w2) = DEvents es /\
    map Some (lit_ends es) = map scalar_of_token (tokens_of d) /\
    length (lit_ends es) = length (tokens_of d).
Proof.
  intros w1 d w2 j H1 Hd H2 Hj. exists (Machine.events j).
  split; [apply doc_events_of_text; assumption|]. destruct (D_all d j Hj) as [A _]. split; [exact A|].
  rewrite <- (map_length Some), A, map_length. reflexivity.
Qed.
Corollary doc_key_ends : forall w1 d w2 j,
  all_blank w1 = true -> Grammar.wf d = true -> all_blank w2 = true -> jval_of_jv d = Some j ->
  exists es, doc_events (w1 ++ render d ++ w2) = DEvents es /\
    key_ends es = map Unquote.unquote (keys_of d).
Proof.
  intros w1 d w2 j H1 Hd H2 Hj. exists (Machine.events j).
  split; [apply doc_events_of_text; assumption|]. apply (D_all d j Hj).
Qed.
