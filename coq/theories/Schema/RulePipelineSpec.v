(* RulePipelineSpec.v — the statement of property C08 as a boolean predicate [spec_ok] over ONE annotated
   example node and its written rules.  It is written without reference to the pipeline of RulePipeline.v:
   from that file it only uses the data (node, rule, rvalue, dec with dec_leb / dec_ltb) and the vocabulary of
   names (is_user_type_name, the user types of the environment, json_type_of_name, valid_schema_types, parse_uint).
   No proofs in this file; Schema/RulePipelineProofs.v re-exports it and proves check_iff_spec.

   C08: "Check succeeds on a schema iff every rule is known, appears once and applies to the kind of node it
   annotates (...), optional only on object properties, paired bounds are ordered (...), exclusive flags have
   their bound, precision is used only with decimal, format types exclude length/regex rules, and enum, or, any
   and type references are not combined with foreign rules"  — plus the conjunct Check also enforces: the example
   obeys the rules.

   [well_formed_values] excludes exactly the rule values of the wrong JSON kind:
     minLength maxLength minItems maxItems precision : anything but an unsigned integer literal
     min max                                         : anything but a number literal
     exclusiveMinimum exclusiveMaximum optional nullable const : anything but true / false
     type regex allOf                                : anything but a string
     additionalProperties                            : anything but a string or true / false
     enum                                            : anything but an array;   or : anything but an array of type names
   (rules with an unknown name are not restricted: they are rejected whatever their value).

   [in_scope] excludes the three classes on which the library departs from the statement
   (misplaced_false_const, empty_array_with_max, container_alternatives); see the _refuted lemmas of the proofs file.

   Wire front ends (same line format as rules_model_line): rules_spec_line prints ok / no, or skip when the case
   is outside well_formed_values / in_scope;  rules_spec_raw_line ignores in_scope. *)
From Coq Require Import List String Bool ZArith NArith Arith.
From Coq Require Import Strings.Byte.
From JS Require Import Common.Wire Gen.RuleTables Schema.RuleTables Schema.RulePipeline.
Import ListNotations.
Open Scope string_scope.

Definition known_rule_names : list string := app simple_rule_names ["enum"; "or"; "allOf"].

Fixpoint find_rule (name : string) (rs : list rule) : option rvalue :=
  match rs with
  | [] => None
  | (k, v) :: r => if k =? name then Some v else find_rule name r
  end.
Definition has_rule (name : string) (rs : list rule) : bool :=
  match find_rule name rs with Some _ => true | None => false end.
Fixpoint nodup_names (l : list string) : bool :=
  match l with [] => true | x :: r => negb (mem x r) && nodup_names r end.

Definition get_bool (name : string) (rs : list rule) : option bool :=
  match find_rule name rs with Some (VBool b) => Some b | _ => None end.
Definition get_num (name : string) (rs : list rule) : option dec :=
  match find_rule name rs with Some (VNum d) => Some d | _ => None end.
Definition get_nat (name : string) (rs : list rule) : option nat :=
  match find_rule name rs with Some v => parse_uint v | None => None end.
Definition get_str (name : string) (rs : list rule) : option string :=
  match find_rule name rs with Some (VStr s) => Some s | _ => None end.
Definition flag_true (name : string) (rs : list rule) : bool :=
  match get_bool name rs with Some true => true | _ => false end.
Definition type_is (t : string) (rs : list rule) : bool :=
  match get_str "type" rs with Some s => s =? t | None => false end.
Definition type_in (l : list string) (rs : list rule) : bool :=
  match get_str "type" rs with Some s => mem s l | None => false end.
Definition type_is_reference (rs : list rule) : bool :=
  match get_str "type" rs with Some s => is_user_type_name s | None => false end.

(* ---- well-formed values: every value has the JSON kind its rule takes *)
Definition nat_rules := ["minLength"; "maxLength"; "minItems"; "maxItems"; "precision"].
Definition bool_rules := ["exclusiveMinimum"; "exclusiveMaximum"; "optional"; "nullable"; "const"].
Definition value_kind_ok (r : rule) : bool :=
  let (name, v) := r in
  if mem name nat_rules then match parse_uint v with Some _ => true | None => false end
  else if (name =? "min") || (name =? "max") then match v with VNum _ => true | _ => false end
  else if mem name bool_rules then match v with VBool _ => true | _ => false end
  else if (name =? "type") || (name =? "regex") || (name =? "allOf") then match v with VStr _ => true | _ => false end
  else if name =? "additionalProperties" then match v with VStr _ | VBool _ => true | _ => false end
  else if name =? "enum" then match v with VEnumList | VOrList _ _ _ => true | _ => false end
  else if name =? "or" then match v with VOrList _ _ _ => true | _ => false end
  else true.
Definition well_formed_values (rs : list rule) : bool := forallb value_kind_ok rs.

(* ---- the statement *)
Definition all_known (rs : list rule) : bool := forallb (fun r => mem (fst r) known_rule_names) rs.
Definition all_apply (k : nkind) (rs : list rule) : bool := forallb (fun r => spec_applies (fst r) (jk k)) rs.
Definition optional_on_property (n : node) (rs : list rule) : bool :=
  negb (has_rule "optional" rs) || match n_pos n with PProperty => true | _ => false end.

Definition nat_pair_ordered (lo hi : string) (rs : list rule) : bool :=
  match get_nat lo rs, get_nat hi rs with Some a, Some b => Nat.leb a b | _, _ => true end.
Definition pairs_ordered (rs : list rule) : bool :=
  match get_num "min" rs, get_num "max" rs with
  | Some a, Some b => if flag_true "exclusiveMinimum" rs || flag_true "exclusiveMaximum" rs then dec_ltb a b else dec_leb a b
  | _, _ => true
  end
  && nat_pair_ordered "minLength" "maxLength" rs
  && nat_pair_ordered "minItems" "maxItems" rs.

Definition exclusive_have_bound (rs : list rule) : bool :=
  (negb (has_rule "exclusiveMinimum" rs) || has_rule "min" rs)
  && (negb (has_rule "exclusiveMaximum" rs) || has_rule "max" rs).

Definition precision_with_decimal (rs : list rule) : bool :=
  (negb (has_rule "precision" rs && has_rule "type" rs) || type_is "decimal" rs)
  && (negb (type_is "decimal" rs) || has_rule "precision" rs).

Definition formats_exclude (rs : list rule) : bool :=
  negb (type_in formats rs) || forallb (fun r => negb (has_rule r rs)) excluded_by_formats.

Definition only_with (allowed : list string) (rs : list rule) : bool :=
  forallb (fun r => mem (fst r) allowed) rs.
Definition not_foreign (rs : list rule) : bool :=
  (negb (has_rule "enum" rs) ||
     (only_with ["enum"; "optional"; "const"; "nullable"; "type"] rs && (negb (has_rule "type" rs) || type_is "enum" rs)))
  && (negb (has_rule "or" rs) ||
     (only_with ["or"; "optional"; "nullable"; "type"] rs && (negb (has_rule "type" rs) || type_is "mixed" rs)))
  && (negb (type_is "any" rs) || only_with ["type"; "optional"; "nullable"] rs)
  && (negb (type_is_reference rs) || only_with ["type"; "optional"; "nullable"] rs).

(* values the rules accept (beyond their JSON kind) *)
Definition values_admissible (rs : list rule) : bool :=
  match get_nat "precision" rs with Some O => false | _ => true end
  && match find_rule "or" rs with Some (VOrList _ c _) => Nat.leb 2 c | _ => true end
  && match find_rule "additionalProperties" rs with
     | Some (VStr s) =>
       if is_user_type_name s then match user_type_kind s with Some _ => true | None => false end
       else (s =? "any") || (s =? "true") || (s =? "false") || addprops_type_name s
     | _ => true
     end
  && match get_str "allOf" rs with
     | Some s => match user_type_kind s with Some NObject => true | _ => false end
     | None => true
     end.

(* the example obeys the rules *)
Definition type_matches (n : node) (rs : list rule) : bool :=
  match get_str "type" rs with
  | None => true
  | Some s =>
    if is_user_type_name s then
      (* since fix d925ea9 a null example fits a nullable reference *)
      match user_type_kind s with
      | Some k => nkind_eqb k (n_kind n) || (flag_true "nullable" rs && nkind_eqb (n_kind n) NNull)
      | None => false
      end
    else if s =? "any" then true
    else if s =? "enum" then has_rule "enum" rs
    else if s =? "mixed" then has_rule "or" rs
    else if s =? "decimal" then nkind_eqb (n_kind n) NFloat
    else if mem s formats then nkind_eqb (n_kind n) NString && mem s (n_formats n)
    else match json_type_of_name s with Some k => nkind_eqb k (n_kind n) | None => false end
  end.

Definition example_obeys (n : node) (rs : list rule) : bool :=
  let is_null := flag_true "nullable" rs && nkind_eqb (n_kind n) NNull in
  type_matches n rs
  && match get_num "min" rs with
     | Some d => if flag_true "exclusiveMinimum" rs then dec_ltb d (n_num n) else dec_leb d (n_num n)
     | None => true end
  && match get_num "max" rs with
     | Some d => if flag_true "exclusiveMaximum" rs then dec_ltb (n_num n) d else dec_leb (n_num n) d
     | None => true end
  && match get_nat "minLength" rs with Some v => Nat.leb v (n_strlen n) | None => true end
  && match get_nat "maxLength" rs with Some v => Nat.leb (n_strlen n) v | None => true end
  && match get_nat "precision" rs with Some v => Nat.leb (n_frac n) v | None => true end
  && (negb (has_rule "regex" rs) || n_matches n)
  && (negb (has_rule "enum" rs) || n_in_enum n || is_null)
  && match get_nat "minItems" rs with Some v => Nat.leb v (n_children n) | None => true end
  && match get_nat "maxItems" rs with Some v => Nat.leb (n_children n) v | None => true end
  && match find_rule "or" rs with Some (VOrList _ _ a) => a || is_null | _ => true end.

Definition spec_ok (n : node) (rs : list rule) : bool :=
  all_known rs
  && nodup_names (map fst rs)
  && all_apply (n_kind n) rs
  && optional_on_property n rs
  && pairs_ordered rs
  && exclusive_have_bound rs
  && precision_with_decimal rs
  && formats_exclude rs
  && not_foreign rs
  && values_admissible rs
  && example_obeys n rs.

(* ---- the classes on which the library departs from the statement *)
(* (1) `const: false` is dropped before anything is checked: it is accepted where `const` may not stand *)
Definition misplaced_false_const (n : node) (rs : list rule) : bool :=
  match get_bool "const" rs with
  | Some false => is_branch (n_kind n) || has_rule "or" rs || type_is "any" rs || type_is_reference rs
  | _ => false
  end.
(* (2) an empty array example fits only the item bounds 0 *)
Definition empty_array_with_max (n : node) (rs : list rule) : bool :=
  match n_kind n with
  | NArray => Nat.eqb (n_children n) 0 && match get_nat "maxItems" rs with Some (S _) => true | _ => false end
  | _ => false
  end.
(* (3) or / any / a type reference on an object or array example: allowed by the rule tables, refused for
       the children (any, or), for user types among the alternatives (or) or altogether (type reference) *)
Definition container_alternatives (n : node) (rs : list rule) : bool :=
  is_branch (n_kind n) &&
  ((type_is "any" rs && negb (Nat.eqb (n_children n) 0))
   || match find_rule "or" rs with Some (VOrList u _ _) => u || negb (Nat.eqb (n_children n) 0) | _ => false end
   || type_is_reference rs).
Definition in_scope (n : node) (rs : list rule) : bool :=
  negb (misplaced_false_const n rs || empty_array_with_max n rs || container_alternatives n rs).

Definition print_bool_result (b : bool) : bytes := if b then of_string "ok" else of_string "no".
Definition rules_spec_line (line : bytes) : bytes :=
  match split_on bar line with
  | [nb; rb] =>
    match parse_node nb, parse_rules rb with
    | Some n, Some rs =>
      if negb (well_formed_values rs) then of_string "skip"
      else if negb (in_scope n rs) then of_string "skip"
      else print_bool_result (spec_ok n rs)
    | _, _ => of_string "BAD"
    end
  | _ => of_string "BAD"
  end.
(* the same without the scope restriction *)
Definition rules_spec_raw_line (line : bytes) : bytes :=
  match split_on bar line with
  | [nb; rb] =>
    match parse_node nb, parse_rules rb with
    | Some n, Some rs =>
      if negb (well_formed_values rs) then of_string "skip" else print_bool_result (spec_ok n rs)
    | _, _ => of_string "BAD"
    end
  | _ => of_string "BAD"
  end.
