(* RuleTables.v — the rule-applicability part of property C08 over tables translated from the
   Go source by tools/tabx (Gen/RuleTables.v): which rule may annotate which kind of node,
   which rules exclude each other, which rule names exist. *)
From Coq Require Import List String Bool.
Import ListNotations.
From JS Require Import Gen.RuleTables.
Open Scope string_scope.

(* JSON kinds in the table's column order *)
Inductive jkind := KObject | KArray | KString | KInteger | KFloat | KBoolean | KNull | KMixed.
Definition all_kinds := [KObject; KArray; KString; KInteger; KFloat; KBoolean; KNull; KMixed].

(* the statement of the property, as a table *)
Definition spec_applies (rule : string) (k : jkind) : bool :=
  let numeric := match k with KInteger | KFloat => true | _ => false end in
  let str := match k with KString => true | _ => false end in
  let scalar := match k with KObject | KArray => false | _ => true end in
  if (rule =? "min") || (rule =? "max") || (rule =? "exclusiveMinimum") || (rule =? "exclusiveMaximum") then numeric
  else if rule =? "precision" then match k with KFloat => true | _ => false end
  else if (rule =? "minLength") || (rule =? "maxLength") || (rule =? "regex") then str
  else if (rule =? "email") || (rule =? "uri") || (rule =? "uuid") || (rule =? "date") || (rule =? "datetime") then str
  else if (rule =? "minItems") || (rule =? "maxItems") then match k with KArray => true | _ => false end
  else if (rule =? "additionalProperties") || (rule =? "allOf") || (rule =? "required-keys") then match k with KObject => true | _ => false end
  else if (rule =? "const") || (rule =? "enum") then scalar
  else (* optional, nullable, type, types, or, any *) true.

Fixpoint lookup_row (r : string) (t : list (string * list bool)) : option (list bool) :=
  match t with
  | [] => None
  | (n, row) :: rest => if n =? r then Some row else lookup_row r rest
  end.
Fixpoint list_bool_eqb (a b : list bool) : bool :=
  match a, b with
  | [], [] => true
  | x :: a', y :: b' => Bool.eqb x y && list_bool_eqb a' b'
  | _, _ => false
  end.
Definition row_ok (r : string) : bool :=
  match lookup_row r compat with
  | Some row => list_bool_eqb row (map (spec_applies r) all_kinds)
  | None => false
  end.

Definition formats := ["email"; "uri"; "uuid"; "date"; "datetime"].
Definition excluded_by_formats := ["minLength"; "maxLength"; "regex"].
Definition pair_banned (f r : string) : bool :=
  existsb (fun p => (fst p =? f) && (snd p =? r)) banned_with.

Definition expected_simple_rules :=
  ["minLength"; "maxLength"; "min"; "max"; "exclusiveMinimum"; "exclusiveMaximum"; "type"; "precision"; "optional";
   "minItems"; "maxItems"; "additionalProperties"; "nullable"; "regex"; "const"].
Definition same_set (a b : list string) : bool :=
  forallb (fun x => existsb (String.eqb x) b) a && forallb (fun x => existsb (String.eqb x) a) b.
