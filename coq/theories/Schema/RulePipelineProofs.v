(* RulePipelineProofs.v — proofs about the rule pipeline model (property C08):
   (a) the verdict of check_node does not depend on the order in which the rules are written;
   (b) the verdict coincides with a declarative transcription of the statement of C08. *)
From Coq Require Import List String Bool ZArith NArith Arith Permutation Lia.
From JS Require Import Common.Wire Gen.RuleTables Schema.RuleTables Schema.RulePipeline.
From JS Require Export Schema.RulePipelineSpec.
Import ListNotations.
Open Scope string_scope.

(* ================================================================== generic facts on ordered maps *)
Definition keys (m : cmap) : list string := map fst m.

Lemma lookup_none_iff : forall k m, lookup k m = None <-> ~ In k (keys m).
Proof.
  intros k m. induction m as [|[k' v] r IH]; simpl.
  - split; auto.
  - destruct (String.eqb_spec k' k) as [E|E].
    + split; [discriminate|]. intros H. exfalso. apply H. left. exact E.
    + rewrite IH. split; intros H; [intros [H1|H1]; [exact (E H1)|exact (H H1)]|intros H1; apply H; right; exact H1].
Qed.

Lemma has_true_iff : forall k m, has k m = true <-> In k (keys m).
Proof.
  intros k m. unfold has. destruct (lookup k m) eqn:E.
  - split; [intros _|reflexivity]. destruct (in_dec string_dec k (keys m)) as [H|H]; [exact H|].
    apply lookup_none_iff in H. congruence.
  - apply lookup_none_iff in E. split; [discriminate|]. intros H. exfalso. exact (E H).
Qed.

Lemma has_false_iff : forall k m, has k m = false <-> ~ In k (keys m).
Proof.
  intros k m. rewrite <- has_true_iff. destruct (has k m); split; intros H; try reflexivity; try discriminate.
  exfalso. apply H. reflexivity.
Qed.

Lemma lookup_some_in : forall k v m, lookup k m = Some v -> In (k, v) m.
Proof.
  intros k v m. induction m as [|[k' v'] r IH]; simpl; [discriminate|].
  destruct (String.eqb_spec k' k) as [E|E].
  - intros H. inversion H. subst. left. reflexivity.
  - intros H. right. exact (IH H).
Qed.

Lemma in_lookup_some : forall k v m, NoDup (keys m) -> In (k, v) m -> lookup k m = Some v.
Proof.
  intros k v m. induction m as [|[k' v'] r IH]; simpl; intros Hnd Hin; [contradiction|].
  inversion Hnd as [|x l Hx Hl]; subst.
  destruct Hin as [Hin|Hin].
  - inversion Hin. subst. rewrite String.eqb_refl. reflexivity.
  - destruct (String.eqb_spec k' k) as [E|E].
    + exfalso. apply Hx. subst. change k with (fst (k, v)). apply in_map. exact Hin.
    + exact (IH Hl Hin).
Qed.

Lemma keys_perm : forall a b, Permutation a b -> Permutation (keys a) (keys b).
Proof. intros a b H. unfold keys. apply Permutation_map. exact H. Qed.

Lemma lookup_perm : forall k a b, NoDup (keys a) -> Permutation a b -> lookup k b = lookup k a.
Proof.
  intros k a b Hnd Hp.
  assert (Hndb : NoDup (keys b)) by (eapply Permutation_NoDup; [apply keys_perm; exact Hp|exact Hnd]).
  destruct (lookup k a) as [v|] eqn:Ea.
  - apply in_lookup_some; [exact Hndb|]. eapply Permutation_in; [exact Hp|]. apply lookup_some_in. exact Ea.
  - destruct (lookup k b) as [v|] eqn:Eb; [|reflexivity].
    apply lookup_some_in in Eb. apply Permutation_sym in Hp. eapply Permutation_in in Eb; [|exact Hp].
    apply in_lookup_some in Eb; [congruence|exact Hnd].
Qed.

Lemma filter_all : forall {A} (f : A -> bool) l, (forall x, In x l -> f x = true) -> filter f l = l.
Proof.
  intros A f l. induction l as [|x r IH]; simpl; intros H; [reflexivity|].
  rewrite (H x (or_introl eq_refl)). f_equal. apply IH. intros y Hy. apply H. right. exact Hy.
Qed.

Lemma delete_as_filter : forall k m, NoDup (keys m) -> delete k m = filter (fun p => negb (fst p =? k)) m.
Proof.
  intros k m. induction m as [|[k' v] r IH]; simpl; intros Hnd; [reflexivity|].
  inversion Hnd as [|x l Hx Hl]; subst.
  destruct (String.eqb_spec k' k) as [E|E]; simpl.
  - symmetry. apply filter_all. intros [k2 v2] Hin. simpl.
    destruct (String.eqb_spec k2 k) as [E2|E2]; [|reflexivity].
    exfalso. apply Hx. subst. change k with (fst (k, v2)). apply in_map. exact Hin.
  - f_equal. exact (IH Hl).
Qed.

Lemma perm_filter : forall {A} (f : A -> bool) l l', Permutation l l' -> Permutation (filter f l) (filter f l').
Proof.
  intros A f l l' H. induction H as [|x l l' H IH|x y l|l l' l'' H1 IH1 H2 IH2]; simpl.
  - constructor.
  - destruct (f x); [constructor; exact IH|exact IH].
  - destruct (f x), (f y); try apply Permutation_refl. apply perm_swap.
  - eapply Permutation_trans; eassumption.
Qed.

Lemma nodup_keys_filter : forall (f : string * cval -> bool) m, NoDup (keys m) -> NoDup (keys (filter f m)).
Proof.
  intros f m. induction m as [|p r IH]; simpl; intros Hnd; [constructor|].
  inversion Hnd as [|x l Hx Hl]; subst.
  destruct (f p); simpl; [|exact (IH Hl)].
  constructor; [|exact (IH Hl)].
  intros Hin. apply Hx. unfold keys in Hin. apply in_map_iff in Hin. destruct Hin as [q [Hq1 Hq2]].
  apply filter_In in Hq2. destruct Hq2 as [Hq2 _]. rewrite <- Hq1. apply in_map. exact Hq2.
Qed.

Lemma keys_update : forall k f m, keys (update k f m) = keys m.
Proof.
  intros k f m. induction m as [|[k' v] r IH]; simpl; [reflexivity|].
  destruct (k' =? k); simpl; [reflexivity|]. f_equal. exact IH.
Qed.

Lemma update_as_map : forall k f m, NoDup (keys m) ->
  update k f m = map (fun p => if fst p =? k then (fst p, f (snd p)) else p) m.
Proof.
  intros k f m. induction m as [|[k' v] r IH]; simpl; intros Hnd; [reflexivity|].
  inversion Hnd as [|x l Hx Hl]; subst.
  destruct (String.eqb_spec k' k) as [E|E]; simpl.
  - f_equal. symmetry. rewrite <- (map_id r) at 2. apply map_ext_in. intros [k2 v2] Hin. simpl.
    destruct (String.eqb_spec k2 k) as [E2|E2]; [|reflexivity].
    exfalso. apply Hx. subst. change k with (fst (k, v2)). apply in_map. exact Hin.
  - f_equal. exact (IH Hl).
Qed.

Lemma forallb_perm : forall {A} (f : A -> bool) l l', Permutation l l' -> forallb f l = forallb f l'.
Proof.
  intros A f l l' H. induction H as [|x l l' H IH|x y l|l l' l'' H1 IH1 H2 IH2]; simpl.
  - reflexivity.
  - rewrite IH. reflexivity.
  - destruct (f x), (f y); reflexivity.
  - congruence.
Qed.

Lemma existsb_ext' : forall {A} (f g : A -> bool) l, (forall x, f x = g x) -> existsb f l = existsb g l.
Proof. intros A f g l H. induction l as [|x r IH]; simpl; [reflexivity|]. rewrite H, IH. reflexivity. Qed.

(* ================================================================== maps up to order *)
Definition meq (a b : cmap) : Prop := NoDup (keys a) /\ Permutation a b.

Lemma meq_refl : forall a, NoDup (keys a) -> meq a a.
Proof. intros a H. split; [exact H|apply Permutation_refl]. Qed.

Lemma meq_nodup_r : forall a b, meq a b -> NoDup (keys b).
Proof. intros a b [H1 H2]. eapply Permutation_NoDup; [apply keys_perm; exact H2|exact H1]. Qed.

Lemma meq_trans : forall a b c, meq a b -> meq b c -> meq a c.
Proof. intros a b c [H1 H2] [H3 H4]. split; [exact H1|eapply Permutation_trans; eassumption]. Qed.

Lemma meq_lookup : forall a b, meq a b -> forall k, lookup k b = lookup k a.
Proof. intros a b [H1 H2] k. apply lookup_perm; assumption. Qed.

Lemma meq_has : forall a b, meq a b -> forall k, has k b = has k a.
Proof. intros a b H k. unfold has. rewrite (meq_lookup a b H). reflexivity. Qed.

Lemma meq_size : forall a b, meq a b -> size b = size a.
Proof. intros a b [H1 H2]. unfold size. symmetry. apply Permutation_length. exact H2. Qed.

Lemma meq_filter : forall f a b, meq a b -> meq (filter f a) (filter f b).
Proof. intros f a b [H1 H2]. split; [apply nodup_keys_filter; exact H1|apply perm_filter; exact H2]. Qed.

Lemma meq_delete : forall k a b, meq a b -> meq (delete k a) (delete k b).
Proof.
  intros k a b H. pose proof (meq_nodup_r a b H) as Hb. destruct H as [H1 H2].
  rewrite (delete_as_filter k a H1), (delete_as_filter k b Hb). apply meq_filter. split; assumption.
Qed.

Lemma meq_update : forall k f a b, meq a b -> meq (update k f a) (update k f b).
Proof.
  intros k f a b H. pose proof (meq_nodup_r a b H) as Hb. destruct H as [H1 H2]. split.
  - rewrite keys_update. exact H1.
  - rewrite (update_as_map k f a H1), (update_as_map k f b Hb). apply Permutation_map. exact H2.
Qed.

Lemma nodup_keys_snoc : forall k v m, NoDup (keys m) -> has k m = false -> NoDup (keys (app m [(k, v)])).
Proof.
  intros k v m Hnd Hh. unfold keys. rewrite map_app. simpl.
  apply has_false_iff in Hh.
  eapply Permutation_NoDup; [apply Permutation_cons_append|]. constructor; assumption.
Qed.

Inductive req : result cmap -> result cmap -> Prop :=
| req_ok : forall a b, meq a b -> req (Ok a) (Ok b)
| req_err : forall e e', req (Err e) (Err e').

Lemma req_is_ok : forall r r', req r r' -> is_ok r = is_ok r'.
Proof. intros r r' H. destruct H; reflexivity. Qed.

Lemma req_bind : forall r r' (f f' : cmap -> result cmap),
  req r r' -> (forall a b, meq a b -> req (f a) (f' b)) -> req (bind r f) (bind r' f').
Proof. intros r r' f f' H Hf. destruct H as [a b H|e e']; simpl; [exact (Hf a b H)|constructor]. Qed.

Lemma req_trans : forall r1 r2 r3, req r1 r2 -> req r2 r3 -> req r1 r3.
Proof.
  intros r1 r2 r3 H1 H2. destruct H1 as [a b H|e e']; inversion H2; subst; constructor.
  eapply meq_trans; eassumption.
Qed.

Lemma meq_add : forall k v a b, meq a b -> req (add k v a) (add k v b).
Proof.
  intros k v a b H. unfold add. rewrite (meq_has a b H). destruct (has k a) eqn:E; constructor.
  destruct H as [H1 H2]. split; [apply nodup_keys_snoc; assumption|apply Permutation_app_tail; exact H2].
Qed.

Definition respects (P : cmap -> result cmap) : Prop := forall a b, meq a b -> req (P a) (P b).

(* rewrite the observations of [b] into those of [a] *)
Ltac obs H :=
  let Hl := fresh "Hl" in let Hh := fresh "Hh" in let Hs := fresh "Hs" in
  pose proof (meq_lookup _ _ H) as Hl; pose proof (meq_has _ _ H) as Hh; pose proof (meq_size _ _ H) as Hs;
  repeat rewrite Hl; repeat rewrite Hh; repeat rewrite Hs.

Lemma false_constraints_respects : respects false_constraints.
Proof. intros a b H. unfold false_constraints, mfilter. constructor. apply meq_filter. exact H. Qed.

Lemma or_constraint_respects : forall n, respects (or_constraint n).
Proof.
  intros n a b H. unfold or_constraint. obs H.
  destruct (has "or" a); simpl; [|constructor; exact H].
  destruct (lookup "types" a) as [tl|]; [|constructor].
  destruct (lookup "type" a) as [[| | |v| | | |]|]; simpl;
    try (destruct (raw_is_string v "mixed"); simpl; [|constructor]);
    match goal with |- context [Nat.eqb ?c 0] => destruct (Nat.eqb c 0) end; simpl; try constructor;
    (destruct (is_branch (n_kind n) && negb (Nat.eqb (n_children n) 0)); [constructor|]);
    (match goal with |- context [if ?c then _ else _] => destruct c end; constructor; apply meq_delete; exact H).
Qed.

Lemma enum_constraint_respects : respects enum_constraint.
Proof.
  intros a b H. unfold enum_constraint. obs H.
  destruct (has "enum" a); simpl; [|constructor; exact H].
  destruct (lookup "type" a) as [[| | |v| | | |]|]; simpl;
    try (destruct (raw_is_string v "enum"); simpl; [|constructor]);
    match goal with |- context [Nat.eqb ?c 0] => destruct (Nat.eqb c 0) end; simpl; constructor; exact H.
Qed.

Lemma precision_constraint_respects : respects precision_constraint.
Proof.
  intros a b H. unfold precision_constraint. obs H.
  destruct (has "precision" a); simpl; [|constructor; exact H].
  destruct (lookup "type" a) as [[| | |v| | | |]|]; try (constructor; exact H).
  destruct (unquoted_is v "decimal"); constructor; exact H.
Qed.

Lemma type_for_user_type_respects : forall n s, respects (type_for_user_type n s).
Proof.
  intros n s a b H. unfold type_for_user_type. obs H.
  match goal with |- context [Nat.eqb ?c 1] => destruct (Nat.eqb c 1) end; simpl; [|constructor].
  destruct (is_branch (n_kind n)); [constructor|]. apply meq_add. exact H.
Qed.

Lemma type_for_json_types_respects : forall n val, respects (type_for_json_types n val).
Proof.
  intros n val a b H. unfold type_for_json_types. destruct val as [s|]; [|constructor]. obs H.
  apply req_bind.
  - destruct (s =? "mixed").
    { destruct (lookup "types" a) as [[| | | |u c kn ad| | |]|]; try constructor.
      destruct (Nat.ltb c 2); constructor. exact H. }
    destruct (s =? "enum"). { destruct (has "enum" a); constructor. exact H. }
    destruct (s =? "any"). { apply meq_add. exact H. }
    destruct (s =? "decimal"). { destruct (has "precision" a); constructor. exact H. }
    match goal with |- context [if ?c then _ else _] => destruct c end. { apply meq_add. exact H. }
    destruct (json_type_of_name s) as [t|]; [|constructor].
    destruct (nkind_eqb t (n_kind n)); constructor. exact H.
  - intros a' b' H'. destruct (set_real_type s (n_kind n)); constructor. exact H'.
Qed.

Lemma type_constraint_respects : forall n, respects (type_constraint n).
Proof.
  intros n a b H. unfold type_constraint. obs H.
  destruct (lookup "type" a) as [[| | |v| | | |]|]; try (constructor; exact H).
  apply req_bind.
  - destruct (literal_text v) as [s|].
    + destruct (is_user_type_name s); [apply type_for_user_type_respects|apply type_for_json_types_respects]; exact H.
    + apply type_for_json_types_respects. exact H.
  - intros a' b' H'. constructor. apply meq_delete. exact H'.
Qed.

Lemma allowed_constraint_check_respects : respects allowed_constraint_check.
Proof.
  intros a b H. unfold allowed_constraint_check.
  rewrite (existsb_ext' (fun p => has (fst p) b && has (snd p) b) (fun p => has (fst p) a && has (snd p) a)).
  - destruct (existsb _ banned_with); constructor. exact H.
  - intros p. rewrite !(meq_has a b H). reflexivity.
Qed.

Lemma any_constraint_respects : forall n, respects (any_constraint n).
Proof.
  intros n a b H. unfold any_constraint. obs H.
  destruct (has "any" a); simpl; [|constructor; exact H].
  match goal with |- context [Nat.eqb ?c 0] => destruct (Nat.eqb c 0) end; simpl; [|constructor].
  destruct (is_branch (n_kind n) && negb (Nat.eqb (n_children n) 0)); constructor. exact H.
Qed.

Lemma exclusive_constraint_respects : forall flag bound missing, respects (exclusive_constraint flag bound missing).
Proof.
  intros flag bound missing a b H. unfold exclusive_constraint. obs H.
  destruct (lookup flag a) as [f|]; [|constructor; exact H].
  destruct (has bound a); simpl; [|constructor].
  constructor. apply meq_delete. destruct f as [| |[|]| | | | |]; try exact H. apply meq_update. exact H.
Qed.

Lemma check_pair_constraints_respects : respects check_pair_constraints.
Proof.
  intros a b H. unfold check_pair_constraints. apply req_bind; [|intros a1 b1 H1; apply req_bind; [|intros a2 b2 H2]].
  - unfold check_min_and_max. obs H.
    destruct (lookup "min" a) as [[|d1 x1| | | | | |]|]; try (constructor; exact H);
    destruct (lookup "max" a) as [[|d2 x2| | | | | |]|]; try (constructor; exact H).
    destruct (x1 || x2); [destruct (dec_leb d2 d1)|destruct (dec_ltb d2 d1)]; constructor; exact H.
  - unfold check_nat_pair. obs H1.
    destruct (lookup "minLength" a1) as [[x| | | | | | |]|]; try (constructor; exact H1);
    destruct (lookup "maxLength" a1) as [[y| | | | | | |]|]; try (constructor; exact H1).
    destruct (Nat.ltb y x); constructor; exact H1.
  - unfold check_nat_pair. obs H2.
    destruct (lookup "minItems" a2) as [[x| | | | | | |]|]; try (constructor; exact H2);
    destruct (lookup "maxItems" a2) as [[y| | | | | | |]|]; try (constructor; exact H2).
    destruct (Nat.ltb y x); constructor; exact H2.
Qed.

Lemma optional_constraints_respects : forall n, respects (optional_constraints n).
Proof.
  intros n a b H. unfold optional_constraints. obs H.
  destruct (has "optional" a); [|constructor; exact H]. destruct (n_pos n); constructor; exact H.
Qed.

Lemma empty_array_respects : forall n, respects (empty_array n).
Proof.
  intros n a b H. unfold empty_array. obs H.
  destruct (n_kind n); try (constructor; exact H).
  destruct (Nat.eqb (n_children n) 0); [|constructor; exact H].
  destruct (nat_nonzero (lookup "minItems" a)); [constructor|].
  destruct (nat_nonzero (lookup "maxItems" a)); constructor; exact H.
Qed.

Lemma compile_node_respects : forall n, respects (compile_node n).
Proof.
  intros n a b H. unfold compile_node.
  apply req_bind; [apply false_constraints_respects; exact H|clear a b H; intros a b H].
  apply req_bind; [apply or_constraint_respects; exact H|clear a b H; intros a b H].
  apply req_bind; [apply enum_constraint_respects; exact H|clear a b H; intros a b H].
  apply req_bind; [apply precision_constraint_respects; exact H|clear a b H; intros a b H].
  apply req_bind; [apply type_constraint_respects; exact H|clear a b H; intros a b H].
  apply req_bind; [apply allowed_constraint_check_respects; exact H|clear a b H; intros a b H].
  apply req_bind; [apply any_constraint_respects; exact H|clear a b H; intros a b H].
  apply req_bind; [apply exclusive_constraint_respects; exact H|clear a b H; intros a b H].
  apply req_bind; [apply exclusive_constraint_respects; exact H|clear a b H; intros a b H].
  apply req_bind; [apply check_pair_constraints_respects; exact H|clear a b H; intros a b H].
  apply req_bind; [apply optional_constraints_respects; exact H|clear a b H; intros a b H].
  apply empty_array_respects. exact H.
Qed.

Lemma all_of_pass_respects : forall n, respects (all_of_pass n).
Proof.
  intros n a b H. unfold all_of_pass. obs H.
  destruct (lookup "allOf" a) as [[| | | | | |name|]|]; try (constructor; exact H).
  destruct (user_type_kind name) as [[| | | | | |]|]; try constructor.
  destruct (n_kind n); constructor. apply meq_delete. exact H.
Qed.

Lemma validate_in_order_meq : forall n a b ks, meq a b -> validate_in_order n b ks = validate_in_order n a ks.
Proof.
  intros n a b ks H. induction ks as [|k r IH]; simpl; [reflexivity|].
  rewrite (meq_lookup a b H). rewrite IH. reflexivity.
Qed.

Lemma check_schema_node_respects : forall n, respects (check_schema_node n).
Proof.
  intros n a b H. unfold check_schema_node.
  apply req_bind.
  { unfold check_compatibility. destruct H as [H1 H2].
    rewrite <- (forallb_perm _ a b H2). destruct (forallb _ a); constructor. split; assumption. }
  clear a b H; intros a b H. apply req_bind.
  { unfold check_links, null_under_nullable. obs H.
    destruct (lookup "types" a) as [[| | | |u c kn ad| | |]|]; try (constructor; exact H).
    destruct kn; simpl; [|constructor].
    match goal with |- context [negb ?c] => destruct c end; simpl; constructor. exact H. }
  clear a b H; intros a b H.
  destruct (n_kind n).
  - unfold check_additional_properties. obs H.
    destruct (lookup "additionalProperties" a) as [[| | | | |[name|]| |]|]; try (constructor; exact H).
    destruct (user_type_kind name); constructor. exact H.
  - unfold check_array_node. apply req_bind.
    + obs H. destruct (lookup "minItems" a) as [[x| | | | | | |]|]; try (constructor; exact H).
      destruct (Nat.ltb (n_children n) x); constructor. exact H.
    + clear a b H; intros a b H. obs H.
      destruct (lookup "maxItems" a) as [[x| | | | | | |]|]; try (constructor; exact H).
      destruct (Nat.ltb x (n_children n)); constructor. exact H.
  - unfold check_literal_node, validate_literal_value. obs H. rewrite (validate_in_order_meq n a b _ H).
    destruct (has "types" a); [constructor; exact H|].
    match goal with |- context [if ?c then _ else _] => destruct c end; [constructor; exact H|].
    destruct (validate_in_order n a validation_order); constructor. exact H.
  - unfold check_literal_node, validate_literal_value. obs H. rewrite (validate_in_order_meq n a b _ H).
    destruct (has "types" a); [constructor; exact H|].
    match goal with |- context [if ?c then _ else _] => destruct c end; [constructor; exact H|].
    destruct (validate_in_order n a validation_order); constructor. exact H.
  - unfold check_literal_node, validate_literal_value. obs H. rewrite (validate_in_order_meq n a b _ H).
    destruct (has "types" a); [constructor; exact H|].
    match goal with |- context [if ?c then _ else _] => destruct c end; [constructor; exact H|].
    destruct (validate_in_order n a validation_order); constructor. exact H.
  - unfold check_literal_node, validate_literal_value. obs H. rewrite (validate_in_order_meq n a b _ H).
    destruct (has "types" a); [constructor; exact H|].
    match goal with |- context [if ?c then _ else _] => destruct c end; [constructor; exact H|].
    destruct (validate_in_order n a validation_order); constructor. exact H.
  - unfold check_literal_node, validate_literal_value. obs H. rewrite (validate_in_order_meq n a b _ H).
    destruct (has "types" a); [constructor; exact H|].
    match goal with |- context [if ?c then _ else _] => destruct c end; [constructor; exact H|].
    destruct (validate_in_order n a validation_order); constructor. exact H.
Qed.

(* everything after the loader *)
Definition post_load (n : node) (m : cmap) : result cmap :=
  do m <- compile_node n m;
  do m <- all_of_pass n m;
  check_schema_node n m.

Lemma post_load_respects : forall n, respects (post_load n).
Proof.
  intros n a b H. unfold post_load.
  apply req_bind; [apply compile_node_respects; exact H|clear a b H; intros a b H].
  apply req_bind; [apply all_of_pass_respects; exact H|clear a b H; intros a b H].
  apply check_schema_node_respects. exact H.
Qed.

(* ================================================================== the loader *)
(* what one written rule contributes to the map when its value is accepted *)
Definition rule_entries (r : rule) : option (list (string * cval)) :=
  let (name, v) := r in
  if name =? "or" then
    match v with
    | VOrList u c a => if Nat.leb 2 c then Some [("types", CTypes u c true a); ("or", CMark)] else None
    | _ => None
    end
  else if name =? "enum" then
    match v with VEnumList | VOrList _ _ _ => Some [("enum", CMark)] | _ => None end
  else if name =? "allOf" then
    match v with VStr s => if is_user_type_name s then Some [("allOf", CAllOf s)] else None | _ => None end
  else if is_literal v then
    match new_constraint name v with Ok c => Some [(name, c)] | Err _ => None end
  else None.

Lemma lookup_app : forall k a b, lookup k (app a b) = match lookup k a with Some v => Some v | None => lookup k b end.
Proof.
  intros k a b. induction a as [|[k' v] r IH]; simpl; [reflexivity|].
  destruct (k' =? k); [reflexivity|exact IH].
Qed.

Lemma has_app : forall k a b, has k (app a b) = has k a || has k b.
Proof. intros k a b. unfold has. rewrite lookup_app. destruct (lookup k a); reflexivity. Qed.

Lemma load_rule_char : forall m r,
  match rule_entries r with
  | Some es => if existsb (fun e => has (fst e) m) es then is_ok (load_rule m r) = false else load_rule m r = Ok (app m es)
  | None => is_ok (load_rule m r) = false
  end.
Proof.
  intros m [name v]. unfold rule_entries, load_rule.
  destruct (name =? "or") eqn:Eor.
  { unfold add. simpl. destruct v as [b|d|s| | |u c a|]; try (destruct (has "types" m); simpl; [reflexivity|];
      rewrite has_app; simpl; destruct (has "or" m); reflexivity).
    destruct c as [|[|c]]; simpl;
      try (destruct (has "types" m); simpl; [reflexivity|]; rewrite has_app; simpl; destruct (has "or" m); reflexivity).
    destruct (has "types" m); simpl; [reflexivity|]. rewrite has_app. simpl. rewrite !orb_false_r.
    destruct (has "or" m); simpl; [reflexivity|]. rewrite <- app_assoc. reflexivity. }
  destruct (name =? "enum") eqn:Eenum.
  { unfold add. destruct v; simpl; try (destruct (has "enum" m); reflexivity). }
  destruct (name =? "allOf") eqn:Eallof.
  { unfold add. destruct v as [b|d|s| | |u c a|]; simpl; try (destruct (has "allOf" m); reflexivity).
    destruct (is_user_type_name s); simpl; destruct (has "allOf" m); reflexivity. }
  destruct (is_literal v); simpl; [|reflexivity].
  destruct (new_constraint name v) as [c|e]; simpl; [|reflexivity].
  unfold add. rewrite orb_false_r. destruct (has name m); reflexivity.
Qed.

Lemma nodup_single : forall (k : string), NoDup [k].
Proof. intros k. constructor; [intros []|constructor]. Qed.

Lemma rule_entries_nodup : forall r es, rule_entries r = Some es -> NoDup (keys es).
Proof.
  intros [name v] es. unfold rule_entries.
  destruct (name =? "or").
  { destruct v as [b|d|s| | |u c a|]; try discriminate. destruct (Nat.leb 2 c); [|discriminate].
    intros H. inversion H; subst. simpl. constructor; [|apply nodup_single].
    intros [Hx|[]]. discriminate. }
  destruct (name =? "enum").
  { destruct v; try discriminate; intros H; inversion H; subst; simpl; apply nodup_single. }
  destruct (name =? "allOf").
  { destruct v as [b|d|s| | |u c a|]; try discriminate. destruct (is_user_type_name s); [|discriminate].
    intros H; inversion H; subst; simpl; apply nodup_single. }
  destruct (is_literal v); [|discriminate]. destruct (new_constraint name v); [|discriminate].
  intros H; inversion H; subst; simpl; apply nodup_single.
Qed.

Definition rule_valid (r : rule) : bool := match rule_entries r with Some _ => true | None => false end.
Definition all_valid (rs : list rule) : bool := forallb rule_valid rs.
Definition entries_of (r : rule) : list (string * cval) := match rule_entries r with Some es => es | None => [] end.
Definition entries (rs : list rule) : cmap := flat_map entries_of rs.

Lemma nodup_app_split : forall (a b : list string), NoDup (app a b) -> NoDup a /\ NoDup b /\ (forall x, In x a -> ~ In x b).
Proof.
  intros a b. induction a as [|x r IH]; simpl; intros H.
  - split; [constructor|split; [exact H|intros x []]].
  - inversion H as [|y l Hy Hl]; subst. destruct (IH Hl) as [H1 [H2 H3]]. split; [|split].
    + constructor; [|exact H1]. intros Hin. apply Hy. apply in_or_app. left. exact Hin.
    + exact H2.
    + intros z [Hz|Hz]; [subst; intros Hin; apply Hy; apply in_or_app; right; exact Hin|exact (H3 z Hz)].
Qed.

Lemma nodup_app_join : forall (a b : list string), NoDup a -> NoDup b -> (forall x, In x a -> ~ In x b) -> NoDup (app a b).
Proof.
  intros a b Ha Hb Hd. induction a as [|x r IH]; simpl; [exact Hb|].
  inversion Ha as [|y l Hy Hl]; subst. constructor.
  - intros Hin. apply in_app_or in Hin. destruct Hin as [Hin|Hin]; [exact (Hy Hin)|exact (Hd x (or_introl eq_refl) Hin)].
  - apply IH; [exact Hl|]. intros z Hz. apply Hd. right. exact Hz.
Qed.

Lemma keys_app : forall a b, keys (app a b) = app (keys a) (keys b).
Proof. intros a b. unfold keys. apply map_app. Qed.

Lemma existsb_has_false : forall m es, existsb (fun e => has (fst e) m) es = false -> forall x, In x (keys es) -> ~ In x (keys m).
Proof.
  intros m es H x Hx. unfold keys in Hx. apply in_map_iff in Hx. destruct Hx as [e [He1 He2]]. subst.
  apply has_false_iff. destruct (has (fst e) m) eqn:E; [|reflexivity].
  assert (Hex : existsb (fun e => has (fst e) m) es = true) by (apply existsb_exists; exists e; split; assumption).
  congruence.
Qed.

Lemma existsb_has_true : forall m es, existsb (fun e => has (fst e) m) es = true -> exists x, In x (keys es) /\ In x (keys m).
Proof.
  intros m es H. apply existsb_exists in H. destruct H as [e [He1 He2]]. exists (fst e). split.
  - unfold keys. apply in_map. exact He1.
  - apply has_true_iff. exact He2.
Qed.

Lemma load_rules_char : forall rs m, NoDup (keys m) ->
  match load_rules m rs with
  | Ok m2 => all_valid rs = true /\ m2 = app m (entries rs) /\ NoDup (keys m2)
  | Err _ => all_valid rs = false \/ ~ NoDup (keys (app m (entries rs)))
  end.
Proof.
  induction rs as [|r rs IH]; intros m Hnd; simpl.
  - rewrite app_nil_r. auto.
  - pose proof (load_rule_char m r) as Hc. unfold rule_valid, entries_of.
    destruct (rule_entries r) as [es|] eqn:Ees.
    + destruct (existsb (fun e => has (fst e) m) es) eqn:Edup.
      * destruct (load_rule m r) as [m1|e]; [discriminate|]. simpl. right.
        apply existsb_has_true in Edup. destruct Edup as [x [Hx1 Hx2]].
        intros Hn. rewrite keys_app in Hn. apply nodup_app_split in Hn. destruct Hn as [_ [_ Hn]].
        apply (Hn x Hx2). rewrite keys_app. apply in_or_app. left. exact Hx1.
      * rewrite Hc. simpl.
        assert (Hnd1 : NoDup (keys (app m es))).
        { rewrite keys_app. apply nodup_app_join; [exact Hnd|exact (rule_entries_nodup r es Ees)|].
          intros x Hx1 Hx2. exact (existsb_has_false m es Edup x Hx2 Hx1). }
        specialize (IH (app m es) Hnd1). rewrite <- app_assoc in IH. exact IH.
    + destruct (load_rule m r) as [m1|e]; [discriminate|]. simpl. left. reflexivity.
Qed.

Lemma entries_perm : forall rs rs', Permutation rs rs' -> Permutation (entries rs) (entries rs').
Proof. intros rs rs' H. unfold entries. apply Permutation_flat_map. exact H. Qed.

Lemma load_rules_perm : forall rs rs', Permutation rs rs' -> req (load_rules [] rs) (load_rules [] rs').
Proof.
  intros rs rs' Hp.
  pose proof (load_rules_char rs [] (NoDup_nil _)) as H1. pose proof (load_rules_char rs' [] (NoDup_nil _)) as H2.
  simpl in H1, H2.
  assert (Hv : all_valid rs = all_valid rs') by (apply forallb_perm; exact Hp).
  pose proof (entries_perm rs rs' Hp) as He.
  destruct (load_rules [] rs) as [m|e]; destruct (load_rules [] rs') as [m'|e'].
  - destruct H1 as [_ [H1 H1']]. destruct H2 as [_ [H2 _]]. subst. constructor. split; assumption.
  - exfalso. destruct H1 as [H1a [H1b H1c]]. subst. destruct H2 as [H2|H2]; [congruence|].
    apply H2. eapply Permutation_NoDup; [apply keys_perm; exact He|exact H1c].
  - exfalso. destruct H2 as [H2a [H2b H2c]]. subst. destruct H1 as [H1|H1]; [congruence|].
    apply H1. eapply Permutation_NoDup; [apply keys_perm; apply Permutation_sym; exact He|exact H2c].
  - constructor.
Qed.

Lemma check_node_unfold : forall n rs, check_node n rs = bind (load_rules [] rs) (post_load n).
Proof. reflexivity. Qed.

(* (a) the verdict does not depend on the order in which the rules are written *)
Theorem verdict_permutation : forall n rules rules',
  Permutation rules rules' -> is_ok (check_node n rules) = is_ok (check_node n rules').
Proof.
  intros n rules rules' Hp. rewrite !check_node_unfold. apply req_is_ok.
  apply req_bind; [apply load_rules_perm; exact Hp|]. apply post_load_respects.
Qed.

(* ================================================================== lookups through the map operations *)
Lemma lookup_filter : forall k f m, NoDup (keys m) ->
  lookup k (filter f m) = match lookup k m with Some c => if f (k, c) then Some c else None | None => None end.
Proof.
  intros k f m. induction m as [|[k' v] r IH]; simpl; intros Hnd; [reflexivity|].
  inversion Hnd as [|x l Hx Hl]; subst.
  destruct (String.eqb_spec k' k) as [E|E].
  - subst. destruct (f (k, v)) eqn:Ef; simpl.
    + rewrite String.eqb_refl. reflexivity.
    + rewrite (IH Hl). assert (Hn : lookup k r = None) by (apply lookup_none_iff; exact Hx). rewrite Hn. reflexivity.
  - destruct (f (k', v)); simpl.
    + destruct (String.eqb_spec k' k) as [E2|E2]; [contradiction|]. exact (IH Hl).
    + exact (IH Hl).
Qed.

Lemma lookup_mfilter : forall k f m, NoDup (keys m) ->
  lookup k (mfilter f m) = match lookup k m with Some c => if f k c then Some c else None | None => None end.
Proof. intros k f m H. unfold mfilter. rewrite lookup_filter by exact H. reflexivity. Qed.

Lemma lookup_delete : forall k k' m, NoDup (keys m) -> lookup k (delete k' m) = if k' =? k then None else lookup k m.
Proof.
  intros k k' m H. rewrite (delete_as_filter k' m H), lookup_filter by exact H. simpl.
  destruct (String.eqb_spec k' k) as [E|E].
  - subst. rewrite String.eqb_refl. simpl. destruct (lookup k m); reflexivity.
  - destruct (String.eqb_spec k k') as [E2|E2]; [subst; contradiction|]. simpl. destruct (lookup k m); reflexivity.
Qed.

Lemma lookup_update : forall k k' f m, lookup k (update k' f m) = if k' =? k then option_map f (lookup k m) else lookup k m.
Proof.
  intros k k' f m. induction m as [|[k2 v] r IH]; simpl.
  - destruct (k' =? k); reflexivity.
  - destruct (String.eqb_spec k2 k') as [E|E]; simpl.
    + subst. destruct (String.eqb_spec k' k) as [E2|E2]; reflexivity.
    + destruct (String.eqb_spec k2 k) as [E2|E2].
      * subst. destruct (String.eqb_spec k' k) as [E3|E3]; [subst; contradiction|reflexivity].
      * exact IH.
Qed.

Lemma has_delete : forall k k' m, NoDup (keys m) -> has k (delete k' m) = negb (k' =? k) && has k m.
Proof. intros k k' m H. unfold has. rewrite lookup_delete by exact H. destruct (k' =? k); reflexivity. Qed.

Lemma nodup_keys_delete : forall k m, NoDup (keys m) -> NoDup (keys (delete k m)).
Proof. intros k m H. rewrite (delete_as_filter k m H). apply nodup_keys_filter. exact H. Qed.

Lemma nodup_keys_mfilter : forall f m, NoDup (keys m) -> NoDup (keys (mfilter f m)).
Proof. intros f m H. unfold mfilter. apply nodup_keys_filter. exact H. Qed.

Lemma nodup_keys_update : forall k f m, NoDup (keys m) -> NoDup (keys (update k f m)).
Proof. intros k f m H. rewrite keys_update. exact H. Qed.

Lemma delete_absent : forall k m, has k m = false -> delete k m = m.
Proof.
  intros k m. induction m as [|[k' v] r IH]; simpl; intros H; [reflexivity|].
  unfold has in H. simpl in H. destruct (k' =? k); [discriminate|]. f_equal. apply IH. exact H.
Qed.

(* predicates on keys through the operations *)
Lemma forallb_ext' : forall {A} (f g : A -> bool) l, (forall x, f x = g x) -> forallb f l = forallb g l.
Proof. intros A f g l H. induction l as [|x r IH]; simpl; [reflexivity|]. rewrite H, IH. reflexivity. Qed.

Lemma forallb_filter : forall {A} (f g : A -> bool) l, forallb g (filter f l) = forallb (fun x => negb (f x) || g x) l.
Proof.
  intros A f g l. induction l as [|x r IH]; simpl; [reflexivity|].
  destruct (f x); simpl; rewrite IH; reflexivity.
Qed.

Lemma forallb_delete : forall (g : string * cval -> bool) k m, NoDup (keys m) ->
  forallb g (delete k m) = forallb (fun p => (fst p =? k) || g p) m.
Proof.
  intros g k m H. rewrite (delete_as_filter k m H), forallb_filter. apply forallb_ext'.
  intros p. rewrite negb_involutive. reflexivity.
Qed.

Lemma forallb_keys_update : forall (Q : string -> bool) k f m,
  forallb (fun p => Q (fst p)) (update k f m) = forallb (fun p => Q (fst p)) m.
Proof.
  intros Q k f m. induction m as [|[k' v] r IH]; simpl; [reflexivity|].
  destruct (k' =? k); simpl; [reflexivity|]. rewrite IH. reflexivity.
Qed.

Lemma forallb_flat_map : forall {A B} (g : B -> bool) (f : A -> list B) l,
  forallb g (flat_map f l) = forallb (fun x => forallb g (f x)) l.
Proof.
  intros A B g f l. induction l as [|x r IH]; simpl; [reflexivity|]. rewrite forallb_app, IH. reflexivity.
Qed.

(* ---- counting: "n minus the permitted constraints that are present is zero" *)
Lemma filter_length_split : forall {A} (f : A -> bool) l,
  List.length l = List.length (filter f l) + List.length (filter (fun x => negb (f x)) l).
Proof.
  intros A f l. induction l as [|x r IH]; simpl; [reflexivity|].
  destruct (f x); simpl; rewrite IH; lia.
Qed.

Lemma count_key : forall k m, NoDup (keys m) ->
  List.length (filter (fun p => fst p =? k) m) = if has k m then 1 else 0.
Proof.
  intros k m. induction m as [|[k' v] r IH]; simpl; intros Hnd; [reflexivity|].
  inversion Hnd as [|x l Hx Hl]; subst. unfold has. simpl.
  destruct (String.eqb_spec k' k) as [E|E]; simpl.
  - subst. rewrite (IH Hl). apply has_false_iff in Hx. rewrite Hx. reflexivity.
  - exact (IH Hl).
Qed.

Lemma mem_cons : forall k x l, mem k (x :: l) = (k =? x) || mem k l.
Proof. reflexivity. Qed.

Lemma filter_or_disjoint : forall {A} (f g : A -> bool) l, (forall x, f x = true -> g x = false) ->
  List.length (filter (fun x => f x || g x) l) = List.length (filter f l) + List.length (filter g l).
Proof.
  intros A f g l H. induction l as [|x r IH]; [reflexivity|]. simpl.
  destruct (f x) eqn:Ef; simpl.
  - rewrite (H x Ef). simpl. rewrite IH. reflexivity.
  - destruct (g x); simpl; rewrite IH; lia.
Qed.

Lemma mem_false_notin : forall x L, ~ In x L -> mem x L = false.
Proof.
  intros x L H. unfold mem. destruct (existsb (String.eqb x) L) eqn:Ex; [|reflexivity].
  apply existsb_exists in Ex. destruct Ex as [z [Hz1 Hz2]]. apply String.eqb_eq in Hz2. subst. contradiction.
Qed.

Lemma count_present : forall L m, NoDup (keys m) -> NoDup L ->
  List.length (filter (fun p => mem (fst p) L) m) = List.length (filter (fun k => has k m) L).
Proof.
  induction L as [|x L IH]; intros m Hm HL.
  - simpl. induction m as [|p r IHm]; [reflexivity|]. simpl. apply IHm. inversion Hm; assumption.
  - inversion HL as [|y l Hx HL']; subst.
    rewrite (filter_ext (fun p : string * cval => mem (fst p) (x :: L)) (fun p => (fst p =? x) || mem (fst p) L))
      by (intros p; apply mem_cons).
    rewrite filter_or_disjoint.
    + rewrite (count_key x m Hm). rewrite (IH m Hm HL'). simpl. destruct (has x m); simpl; lia.
    + intros p Hp. apply String.eqb_eq in Hp. rewrite Hp. apply mem_false_notin. exact Hx.
Qed.

Lemma count_others : forall L m, NoDup (keys m) -> NoDup L ->
  size m = List.length (filter (fun k => has k m) L) + List.length (filter (fun p => negb (mem (fst p) L)) m).
Proof.
  intros L m Hm HL. unfold size. rewrite (filter_length_split (fun p => mem (fst p) L) m).
  rewrite (count_present L m Hm HL). reflexivity.
Qed.

Lemma filter_none_forallb : forall {A} (f : A -> bool) l,
  Nat.eqb (List.length (filter (fun x => negb (f x)) l)) 0 = forallb f l.
Proof.
  intros A f l. induction l as [|x r IH]; simpl; [reflexivity|].
  destruct (f x); simpl; [exact IH|reflexivity].
Qed.

(* ================================================================== the passes as condition + effect *)
Definition Lor := ["types"; "or"; "optional"; "nullable"; "type"].
Definition or_cond (n : node) (m : cmap) : bool :=
  negb (has "or" m) ||
  match lookup "types" m with
  | None => false
  | Some tl =>
    match lookup "type" m with Some (CType v) => raw_is_string v "mixed" | _ => true end
    && forallb (fun p => mem (fst p) Lor) m
    && negb (is_branch (n_kind n) && negb (Nat.eqb (n_children n) 0))
    && negb (is_branch (n_kind n) && match tl with CTypes true _ _ _ => true | _ => false end)
  end.

Lemma nodup_Lor : NoDup Lor.
Proof. unfold Lor. repeat constructor; simpl; intuition discriminate. Qed.

Lemma or_constraint_spec : forall n m, NoDup (keys m) ->
  (or_cond n m = true -> or_constraint n m = Ok (delete "or" m)) /\
  (or_cond n m = false -> is_ok (or_constraint n m) = false).
Proof.
  intros n m Hnd. unfold or_cond, or_constraint.
  destruct (has "or" m) eqn:Hor; cbn [negb orb].
  2:{ split; [intros _; rewrite delete_absent by exact Hor; reflexivity|discriminate]. }
  destruct (lookup "types" m) as [tl|] eqn:Htl; [|split; [discriminate|reflexivity]].
  pose proof (count_others Lor m Hnd nodup_Lor) as Hc.
  rewrite <- (filter_none_forallb (fun p => mem (fst p) Lor) m).
  set (X := List.length (filter (fun p => negb (mem (fst p) Lor)) m)) in *.
  assert (Hty : has "types" m = true) by (unfold has; rewrite Htl; reflexivity).
  simpl in Hc. rewrite Hty, Hor in Hc. unfold has in Hc |- *.
  destruct (lookup "optional" m) as [co|]; destruct (lookup "nullable" m) as [cn|];
  destruct (lookup "type" m) as [[| | |v| | | |]|]; cbn [dec1 bind] in *; simpl in Hc;
  try (destruct (raw_is_string v "mixed"); cbn [bind andb]; [|split; [discriminate|reflexivity]]);
  cbn [bind andb];
  match goal with |- context [Nat.eqb ?c 0] => lazymatch c with context [size m] => replace c with X by lia end end;
  destruct (X =? 0)%nat; destruct (is_branch (n_kind n)); destruct (Nat.eqb (n_children n) 0);
  destruct tl as [| | | |[|] ? ? ?| | |]; simpl; split; try discriminate; try reflexivity.
Qed.

Definition Lenum := ["enum"; "optional"; "const"; "nullable"; "type"].
Definition enum_cond (m : cmap) : bool :=
  negb (has "enum" m) ||
  (match lookup "type" m with Some (CType v) => raw_is_string v "enum" | _ => true end
   && forallb (fun p => mem (fst p) Lenum) m).
Lemma nodup_Lenum : NoDup Lenum.
Proof. unfold Lenum. repeat constructor; simpl; intuition discriminate. Qed.

Lemma enum_constraint_spec : forall m, NoDup (keys m) ->
  (enum_cond m = true -> enum_constraint m = Ok m) /\ (enum_cond m = false -> is_ok (enum_constraint m) = false).
Proof.
  intros m Hnd. unfold enum_cond, enum_constraint.
  destruct (has "enum" m) eqn:Hen; cbn [negb orb].
  2:{ split; [reflexivity|discriminate]. }
  pose proof (count_others Lenum m Hnd nodup_Lenum) as Hc.
  rewrite <- (filter_none_forallb (fun p => mem (fst p) Lenum) m).
  set (X := List.length (filter (fun p => negb (mem (fst p) Lenum)) m)) in *.
  simpl in Hc. rewrite Hen in Hc. unfold has in Hc |- *.
  destruct (lookup "optional" m) as [co|]; destruct (lookup "const" m) as [cc|]; destruct (lookup "nullable" m) as [cn|];
  destruct (lookup "type" m) as [[| | |v| | | |]|]; cbn [dec1 bind] in *; simpl in Hc;
  try (destruct (raw_is_string v "enum"); cbn [bind andb]; [|split; [discriminate|reflexivity]]);
  cbn [bind andb];
  match goal with |- context [Nat.eqb ?c 0] => lazymatch c with context [size m] => replace c with X by lia end end;
  destruct (X =? 0)%nat; simpl; split; try discriminate; try reflexivity.
Qed.

Definition Lref := ["type"; "optional"; "nullable"].
Definition ref_cond (n : node) (m : cmap) : bool :=
  forallb (fun p => mem (fst p) Lref) m && negb (is_branch (n_kind n)) && negb (has "types" m).
Lemma nodup_Lref : NoDup Lref.
Proof. unfold Lref. repeat constructor; simpl; intuition discriminate. Qed.

Definition ref_types (n : node) (name : string) : cval :=
  match user_type_kind name with
  | Some k => CTypes true 1 true (nkind_eqb k (n_kind n))
  | None => CTypes true 1 false false
  end.

Lemma type_for_user_type_spec : forall n s m, NoDup (keys m) -> has "type" m = true ->
  (ref_cond n m = true -> type_for_user_type n s m = Ok (app m [("types", ref_types n s)])) /\
  (ref_cond n m = false -> is_ok (type_for_user_type n s m) = false).
Proof.
  intros n s m Hnd Hty. unfold ref_cond, type_for_user_type, add. fold (ref_types n s).
  pose proof (count_others Lref m Hnd nodup_Lref) as Hc.
  rewrite <- (filter_none_forallb (fun p => mem (fst p) Lref) m).
  set (X := List.length (filter (fun p => negb (mem (fst p) Lref)) m)) in *.
  simpl in Hc. rewrite Hty in Hc. unfold has in Hc |- *.
  destruct (lookup "optional" m) as [co|]; destruct (lookup "nullable" m) as [cn|]; cbn [dec1] in *; simpl in Hc;
  match goal with |- context [Nat.eqb ?c 1] => lazymatch c with context [size m] => replace c with (S X) by lia end end;
  destruct X; simpl; destruct (is_branch (n_kind n)); destruct (lookup "types" m); simpl; split; try discriminate; try reflexivity.
Qed.

Definition Lany := ["any"; "optional"; "nullable"; "const"].
Definition any_cond (n : node) (m : cmap) : bool :=
  negb (has "any" m) ||
  (forallb (fun p => mem (fst p) Lany) m && negb (is_branch (n_kind n) && negb (Nat.eqb (n_children n) 0))).
Lemma nodup_Lany : NoDup Lany.
Proof. unfold Lany. repeat constructor; simpl; intuition discriminate. Qed.

Lemma any_constraint_spec : forall n m, NoDup (keys m) ->
  (any_cond n m = true -> any_constraint n m = Ok m) /\ (any_cond n m = false -> is_ok (any_constraint n m) = false).
Proof.
  intros n m Hnd. unfold any_cond, any_constraint.
  destruct (has "any" m) eqn:Han; cbn [negb orb].
  2:{ split; [reflexivity|discriminate]. }
  pose proof (count_others Lany m Hnd nodup_Lany) as Hc.
  rewrite <- (filter_none_forallb (fun p => mem (fst p) Lany) m).
  set (X := List.length (filter (fun p => negb (mem (fst p) Lany)) m)) in *.
  simpl in Hc. rewrite Han in Hc. unfold has in Hc |- *.
  destruct (lookup "optional" m) as [co|]; destruct (lookup "nullable" m) as [cn|]; destruct (lookup "const" m) as [cc|];
  cbn [dec1] in *; simpl in Hc;
  match goal with |- context [Nat.eqb ?c 0] => lazymatch c with context [size m] => replace c with X by lia end end;
  destruct (X =? 0)%nat; destruct (is_branch (n_kind n)); destruct (Nat.eqb (n_children n) 0);
  simpl; split; try discriminate; try reflexivity.
Qed.

Lemma bind_step : forall (C : bool) (r : result cmap) (m' : cmap) (f : cmap -> result cmap),
  (C = true -> r = Ok m') -> (C = false -> is_ok r = false) -> is_ok (bind r f) = C && is_ok (f m').
Proof.
  intros C r m' f H1 H2. destruct C.
  - rewrite (H1 eq_refl). reflexivity.
  - specialize (H2 eq_refl). destruct r; [discriminate|reflexivity].
Qed.

(* falseConstraints *)
Definition ffc (k : string) (c : cval) : bool :=
  if (k =? "nullable") || (k =? "const") then match c with CBool false => false | _ => true end else true.
Lemma false_constraints_spec : forall m, false_constraints m = Ok (mfilter ffc m).
Proof. reflexivity. Qed.

(* precisionConstraint *)
Definition prec_cond (m : cmap) : bool :=
  negb (has "precision" m) || match lookup "type" m with Some (CType v) => unquoted_is v "decimal" | _ => true end.
Lemma precision_constraint_spec : forall m,
  (prec_cond m = true -> precision_constraint m = Ok m) /\ (prec_cond m = false -> is_ok (precision_constraint m) = false).
Proof.
  intros m. unfold prec_cond, precision_constraint. destruct (has "precision" m); simpl; [|split; [reflexivity|discriminate]].
  destruct (lookup "type" m) as [[| | |v| | | |]|]; try (split; [reflexivity|discriminate]).
  destruct (unquoted_is v "decimal"); split; try reflexivity; discriminate.
Qed.

(* typeConstraint *)
Definition is_format (s : string) : bool :=
  (s =? "email") || (s =? "uri") || (s =? "uuid") || (s =? "date") || (s =? "datetime").
Definition type_extra (n : node) (m : cmap) : cmap :=
  match lookup "type" m with
  | Some (CType v) =>
    match literal_text v with
    | Some s => if is_user_type_name s then [("types", ref_types n s)]
                else if s =? "mixed" then [] else if s =? "enum" then []
                else if s =? "any" then [("any", CMark)]
                else if s =? "decimal" then []
                else if is_format s then [(s, CMark)] else []
    | None => []
    end
  | _ => []
  end.
Definition json_cond (n : node) (s : string) (m : cmap) : bool :=
  (if s =? "mixed" then match lookup "types" m with Some (CTypes _ c _ _) => negb (Nat.ltb c 2) | _ => false end
   else if s =? "enum" then has "enum" m
   else if s =? "any" then negb (has "any" m)
   else if s =? "decimal" then has "precision" m
   else if is_format s then negb (has s m)
   else match json_type_of_name s with Some t => nkind_eqb t (n_kind n) | None => false end)
  && set_real_type s (n_kind n).
Definition type_cond (n : node) (m : cmap) : bool :=
  match lookup "type" m with
  | Some (CType v) =>
    match literal_text v with
    | Some s => if is_user_type_name s then ref_cond n m else json_cond n s m
    | None => false
    end
  | _ => true
  end.

Lemma type_constraint_spec : forall n m, NoDup (keys m) ->
  (forall c, lookup "type" m = Some c -> exists v, c = CType v) ->
  (type_cond n m = true -> type_constraint n m = Ok (delete "type" (app m (type_extra n m)))) /\
  (type_cond n m = false -> is_ok (type_constraint n m) = false).
Proof.
  intros n m Hnd Hsh. unfold type_cond, type_constraint, type_extra.
  destruct (lookup "type" m) as [c|] eqn:Hty.
  2:{ split; [intros _|discriminate]. rewrite app_nil_r, delete_absent; [reflexivity|]. unfold has. rewrite Hty. reflexivity. }
  destruct (Hsh c eq_refl) as [v Hv]. subst c.
  assert (Hhas : has "type" m = true) by (unfold has; rewrite Hty; reflexivity).
  destruct (literal_text v) as [s|]; [|split; [discriminate|reflexivity]].
  destruct (is_user_type_name s).
  - destruct (type_for_user_type_spec n s m Hnd Hhas) as [H1 H2]. split; intros H.
    + rewrite (H1 H). reflexivity.
    + specialize (H2 H). destruct (type_for_user_type n s m); [discriminate|reflexivity].
  - unfold json_cond, type_for_json_types, is_format, add.
    destruct (s =? "mixed").
    { destruct (lookup "types" m) as [[| | | |u c kn ad| | |]|]; simpl; try (split; [discriminate|reflexivity]).
      destruct (Nat.ltb c 2); simpl; [split; [discriminate|reflexivity]|].
      destruct (set_real_type s (n_kind n)); simpl; split; try discriminate; try reflexivity.
      intros _. rewrite app_nil_r. reflexivity. }
    destruct (s =? "enum").
    { destruct (has "enum" m); simpl; [|split; [discriminate|reflexivity]].
      destruct (set_real_type s (n_kind n)); simpl; split; try discriminate; try reflexivity.
      intros _. rewrite app_nil_r. reflexivity. }
    destruct (s =? "any").
    { destruct (has "any" m); simpl; [split; [discriminate|reflexivity]|].
      destruct (set_real_type s (n_kind n)); simpl; split; try discriminate; reflexivity. }
    destruct (s =? "decimal").
    { destruct (has "precision" m); simpl; [|split; [discriminate|reflexivity]].
      destruct (set_real_type s (n_kind n)); simpl; split; try discriminate; try reflexivity.
      intros _. rewrite app_nil_r. reflexivity. }
    destruct ((s =? "email") || (s =? "uri") || (s =? "uuid") || (s =? "date") || (s =? "datetime")).
    { destruct (has s m); simpl; [split; [discriminate|reflexivity]|].
      destruct (set_real_type s (n_kind n)); simpl; split; try discriminate; reflexivity. }
    destruct (json_type_of_name s) as [t|]; simpl; [|split; [discriminate|reflexivity]].
    destruct (nkind_eqb t (n_kind n)); simpl; [|split; [discriminate|reflexivity]].
    destruct (set_real_type s (n_kind n)); simpl; split; try discriminate; try reflexivity.
    intros _. rewrite app_nil_r. reflexivity.
Qed.

(* allowedConstraintCheck *)
Definition allowed_cond (m : cmap) : bool := negb (existsb (fun p => has (fst p) m && has (snd p) m) banned_with).
Lemma allowed_constraint_check_spec : forall m,
  (allowed_cond m = true -> allowed_constraint_check m = Ok m) /\ (allowed_cond m = false -> is_ok (allowed_constraint_check m) = false).
Proof.
  intros m. unfold allowed_cond, allowed_constraint_check.
  destruct (existsb _ banned_with); simpl; split; try discriminate; reflexivity.
Qed.

(* exclusiveMinimum / exclusiveMaximum *)
Definition ex_cond (flag bound : string) (m : cmap) : bool := negb (has flag m) || has bound m.
Definition ex_eff (flag bound : string) (m : cmap) : cmap :=
  delete flag (match lookup flag m with Some (CBool true) => update bound set_exclusive m | _ => m end).
Lemma exclusive_constraint_spec : forall flag bound missing m,
  (ex_cond flag bound m = true -> exclusive_constraint flag bound missing m = Ok (ex_eff flag bound m)) /\
  (ex_cond flag bound m = false -> is_ok (exclusive_constraint flag bound missing m) = false).
Proof.
  intros flag bound missing m. unfold ex_cond, ex_eff, exclusive_constraint, has.
  destruct (lookup flag m) as [f|] eqn:Hf; simpl.
  - destruct (lookup bound m); simpl; split; try discriminate; reflexivity.
  - split; [intros _|discriminate]. rewrite delete_absent; [reflexivity|]. unfold has. rewrite Hf. reflexivity.
Qed.

(* checkPairConstraints *)
Definition mm_cond (m : cmap) : bool :=
  match lookup "min" m, lookup "max" m with
  | Some (CBound a xa), Some (CBound b xb) => if xa || xb then negb (dec_leb b a) else negb (dec_ltb b a)
  | _, _ => true
  end.
Definition np_cond (lo hi : string) (m : cmap) : bool :=
  match lookup lo m, lookup hi m with
  | Some (CNat a), Some (CNat b) => negb (Nat.ltb b a)
  | _, _ => true
  end.
Definition pair_cond (m : cmap) : bool :=
  mm_cond m && np_cond "minLength" "maxLength" m && np_cond "minItems" "maxItems" m.

Lemma check_min_and_max_spec : forall m,
  (mm_cond m = true -> check_min_and_max m = Ok m) /\ (mm_cond m = false -> is_ok (check_min_and_max m) = false).
Proof.
  intros m. unfold mm_cond, check_min_and_max.
  destruct (lookup "min" m) as [[|a xa| | | | | |]|]; try (split; [reflexivity|discriminate]);
  destruct (lookup "max" m) as [[|b0 xb| | | | | |]|]; try (split; [reflexivity|discriminate]).
  destruct (xa || xb); [destruct (dec_leb b0 a)|destruct (dec_ltb b0 a)]; simpl; split; try discriminate; reflexivity.
Qed.

Lemma check_nat_pair_spec : forall lo hi m,
  (np_cond lo hi m = true -> check_nat_pair lo hi m = Ok m) /\ (np_cond lo hi m = false -> is_ok (check_nat_pair lo hi m) = false).
Proof.
  intros lo hi m. unfold np_cond, check_nat_pair.
  destruct (lookup lo m) as [[x| | | | | | |]|]; try (split; [reflexivity|discriminate]);
  destruct (lookup hi m) as [[y| | | | | | |]|]; try (split; [reflexivity|discriminate]).
  destruct (Nat.ltb y x); simpl; split; try discriminate; reflexivity.
Qed.

Lemma check_pair_constraints_spec : forall m,
  (pair_cond m = true -> check_pair_constraints m = Ok m) /\ (pair_cond m = false -> is_ok (check_pair_constraints m) = false).
Proof.
  intros m. unfold pair_cond, check_pair_constraints.
  destruct (check_min_and_max_spec m) as [A1 A2].
  destruct (check_nat_pair_spec "minLength" "maxLength" m) as [B1 B2].
  destruct (check_nat_pair_spec "minItems" "maxItems" m) as [C1 C2].
  destruct (mm_cond m); simpl.
  2:{ split; [discriminate|intros _]. specialize (A2 eq_refl). destruct (check_min_and_max m); [discriminate|reflexivity]. }
  rewrite (A1 eq_refl). simpl.
  destruct (np_cond "minLength" "maxLength" m); simpl.
  2:{ split; [discriminate|intros _]. specialize (B2 eq_refl). destruct (check_nat_pair "minLength" "maxLength" m); [discriminate|reflexivity]. }
  rewrite (B1 eq_refl). simpl.
  destruct (np_cond "minItems" "maxItems" m); simpl.
  2:{ split; [discriminate|intros _]. exact (C2 eq_refl). }
  split; [intros _; exact (C1 eq_refl)|discriminate].
Qed.

(* optionalConstraints *)
Definition opt_cond (n : node) (m : cmap) : bool :=
  negb (has "optional" m) || match n_pos n with PProperty => true | _ => false end.
Lemma optional_constraints_spec : forall n m,
  (opt_cond n m = true -> optional_constraints n m = Ok m) /\ (opt_cond n m = false -> is_ok (optional_constraints n m) = false).
Proof.
  intros n m. unfold opt_cond, optional_constraints. destruct (has "optional" m); simpl; [|split; [reflexivity|discriminate]].
  destruct (n_pos n); split; try discriminate; reflexivity.
Qed.

(* emptyArray *)
Definition ea_cond (n : node) (m : cmap) : bool :=
  match n_kind n with
  | NArray => negb (Nat.eqb (n_children n) 0) || (negb (nat_nonzero (lookup "minItems" m)) && negb (nat_nonzero (lookup "maxItems" m)))
  | _ => true
  end.
Lemma empty_array_spec : forall n m,
  (ea_cond n m = true -> empty_array n m = Ok m) /\ (ea_cond n m = false -> is_ok (empty_array n m) = false).
Proof.
  intros n m. unfold ea_cond, empty_array. destruct (n_kind n); try (split; [reflexivity|discriminate]).
  destruct (Nat.eqb (n_children n) 0); simpl; [|split; [reflexivity|discriminate]].
  destruct (nat_nonzero (lookup "minItems" m)); simpl; [split; [discriminate|reflexivity]|].
  destruct (nat_nonzero (lookup "maxItems" m)); simpl; split; try discriminate; reflexivity.
Qed.

(* CompileAllOf *)
Definition allof_cond (n : node) (m : cmap) : bool :=
  match lookup "allOf" m with
  | Some (CAllOf name) =>
    match user_type_kind name with Some NObject => match n_kind n with NObject => true | _ => false end | _ => false end
  | _ => true
  end.
Lemma all_of_pass_spec : forall n m, (forall c, lookup "allOf" m = Some c -> exists s, c = CAllOf s) ->
  (allof_cond n m = true -> all_of_pass n m = Ok (delete "allOf" m)) /\ (allof_cond n m = false -> is_ok (all_of_pass n m) = false).
Proof.
  intros n m Hsh. unfold allof_cond, all_of_pass. destruct (lookup "allOf" m) as [c|] eqn:Ha.
  - destruct (Hsh c eq_refl) as [s Hs]. subst c.
    destruct (user_type_kind s) as [[| | | | | |]|]; try (split; [discriminate|reflexivity]).
    destruct (n_kind n); split; try discriminate; reflexivity.
  - split; [intros _|discriminate]. rewrite delete_absent; [reflexivity|]. unfold has. rewrite Ha. reflexivity.
Qed.

(* the checker *)
Definition compat_cond (n : node) (m : cmap) : bool := forallb (fun p => compat_ok (fst p) (n_kind n)) m.
Definition links_cond (n : node) (m : cmap) : bool :=
  match lookup "types" m with
  | Some (CTypes _ _ known fits) => known && (fits || null_under_nullable n m)
  | _ => true
  end.
Definition final_cond (n : node) (m : cmap) : bool :=
  match n_kind n with
  | NObject => is_ok (check_additional_properties m)
  | NArray => is_ok (check_array_node n m)
  | _ => is_ok (check_literal_node n m)
  end.
Lemma check_schema_node_spec : forall n m,
  is_ok (check_schema_node n m) = compat_cond n m && links_cond n m && final_cond n m.
Proof.
  intros n m. unfold check_schema_node, compat_cond, links_cond, final_cond, check_compatibility, check_links.
  destruct (forallb _ m); simpl; [|reflexivity].
  destruct (lookup "types" m) as [[| | | |u c kn ad| | |]|]; simpl; try (destruct (n_kind n); reflexivity).
  destruct kn; simpl; [|reflexivity].
  destruct (ad || null_under_nullable n m); simpl; [|reflexivity]. destruct (n_kind n); reflexivity.
Qed.

(* ================================================================== the pipeline after the loader, in normal form *)
Definition M1 (m : cmap) : cmap := mfilter ffc m.
Definition M2 (m : cmap) : cmap := delete "or" (M1 m).
Definition M5 (n : node) (m : cmap) : cmap := delete "type" (app (M2 m) (type_extra n (M2 m))).
Definition M8 (n : node) (m : cmap) : cmap := ex_eff "exclusiveMinimum" "min" (M5 n m).
Definition M9 (n : node) (m : cmap) : cmap := ex_eff "exclusiveMaximum" "max" (M8 n m).
Definition MF (n : node) (m : cmap) : cmap := delete "allOf" (M9 n m).

Definition post_cond (n : node) (m : cmap) : bool :=
  or_cond n (M1 m) && (enum_cond (M2 m) && (prec_cond (M2 m) && (type_cond n (M2 m) &&
  (allowed_cond (M5 n m) && (any_cond n (M5 n m) && (ex_cond "exclusiveMinimum" "min" (M5 n m) &&
  (ex_cond "exclusiveMaximum" "max" (M8 n m) && (pair_cond (M9 n m) && (opt_cond n (M9 n m) &&
  (ea_cond n (M9 n m) && (allof_cond n (M9 n m) &&
  (compat_cond n (MF n m) && links_cond n (MF n m) && final_cond n (MF n m))))))))))))).

Lemma is_format_cases : forall s, is_format s = true ->
  s = "email" \/ s = "uri" \/ s = "uuid" \/ s = "date" \/ s = "datetime".
Proof.
  intros s H. unfold is_format in H. repeat (apply orb_true_iff in H; destruct H as [H|H]);
  apply String.eqb_eq in H; auto.
Qed.

Lemma nodup_type_extra : forall n m, NoDup (keys m) -> type_cond n m = true -> NoDup (keys (app m (type_extra n m))).
Proof.
  intros n m Hnd Hc. unfold type_cond, type_extra in *.
  destruct (lookup "type" m) as [[| | |v| | | |]|]; try (rewrite app_nil_r; exact Hnd).
  destruct (literal_text v) as [s|]; [|discriminate].
  destruct (is_user_type_name s).
  - unfold ref_cond in Hc. apply andb_true_iff in Hc. destruct Hc as [_ Hc]. apply negb_true_iff in Hc.
    apply nodup_keys_snoc; assumption.
  - unfold json_cond in Hc. apply andb_true_iff in Hc. destruct Hc as [Hc _].
    destruct (s =? "mixed"); [rewrite app_nil_r; exact Hnd|].
    destruct (s =? "enum"); [rewrite app_nil_r; exact Hnd|].
    destruct (s =? "any"). { apply negb_true_iff in Hc. apply nodup_keys_snoc; assumption. }
    destruct (s =? "decimal"); [rewrite app_nil_r; exact Hnd|].
    destruct (is_format s). { apply negb_true_iff in Hc. apply nodup_keys_snoc; assumption. }
    rewrite app_nil_r; exact Hnd.
Qed.

Lemma lookup_M1 : forall k m, NoDup (keys m) ->
  lookup k (M1 m) = match lookup k m with Some c => if ffc k c then Some c else None | None => None end.
Proof. intros k m H. unfold M1. apply lookup_mfilter. exact H. Qed.

Lemma nodup_M1 : forall m, NoDup (keys m) -> NoDup (keys (M1 m)).
Proof. intros m H. apply nodup_keys_mfilter. exact H. Qed.
Lemma nodup_M2 : forall m, NoDup (keys m) -> NoDup (keys (M2 m)).
Proof. intros m H. apply nodup_keys_delete, nodup_M1. exact H. Qed.

Lemma lookup_M2 : forall k m, NoDup (keys m) -> lookup k (M2 m) = if "or" =? k then None else lookup k (M1 m).
Proof. intros k m H. unfold M2. apply lookup_delete, nodup_M1. exact H. Qed.

Definition shape (m : cmap) : Prop :=
  (forall c, lookup "type" m = Some c -> exists v, c = CType v) /\
  (forall c, lookup "allOf" m = Some c -> exists s, c = CAllOf s).

Lemma nodup_M5 : forall n m, NoDup (keys m) -> type_cond n (M2 m) = true -> NoDup (keys (M5 n m)).
Proof. intros n m H Hc. apply nodup_keys_delete, nodup_type_extra; [apply nodup_M2; exact H|exact Hc]. Qed.

Lemma nodup_ex_eff : forall flag bound m, NoDup (keys m) -> NoDup (keys (ex_eff flag bound m)).
Proof.
  intros flag bound m H. unfold ex_eff. apply nodup_keys_delete.
  destruct (lookup flag m) as [[| |[|]| | | | |]|]; try exact H. apply nodup_keys_update. exact H.
Qed.

Lemma lookup_ex_eff : forall k flag bound m, NoDup (keys m) ->
  lookup k (ex_eff flag bound m) =
  if flag =? k then None
  else match lookup flag m with
       | Some (CBool true) => if bound =? k then option_map set_exclusive (lookup k m) else lookup k m
       | _ => lookup k m
       end.
Proof.
  intros k flag bound m H. unfold ex_eff. rewrite lookup_delete.
  - destruct (flag =? k); [reflexivity|].
    destruct (lookup flag m) as [[| |[|]| | | | |]|]; try reflexivity. apply lookup_update.
  - destruct (lookup flag m) as [[| |[|]| | | | |]|]; try exact H. apply nodup_keys_update. exact H.
Qed.

Lemma lookup_ex_eff_other : forall k flag bound m, NoDup (keys m) -> (flag =? k) = false -> (bound =? k) = false ->
  lookup k (ex_eff flag bound m) = lookup k m.
Proof.
  intros k flag bound m H H1 H2. rewrite lookup_ex_eff by exact H. rewrite H1, H2.
  destruct (lookup flag m) as [[| |[|]| | | | |]|]; reflexivity.
Qed.

Lemma lookup_type_extra_other : forall k n m,
  (k =? "types") = false -> (k =? "any") = false -> is_format k = false -> lookup k (type_extra n m) = None.
Proof.
  intros k n m H1 H2 H3. unfold type_extra.
  destruct (lookup "type" m) as [[| | |v| | | |]|]; try reflexivity.
  destruct (literal_text v) as [s|]; [|reflexivity].
  destruct (is_user_type_name s). { cbn [lookup]. rewrite String.eqb_sym, H1. reflexivity. }
  destruct (s =? "mixed"); [reflexivity|]. destruct (s =? "enum"); [reflexivity|].
  destruct (s =? "any"). { cbn [lookup]. rewrite String.eqb_sym, H2. reflexivity. }
  destruct (s =? "decimal"); [reflexivity|].
  destruct (is_format s) eqn:Ef; [|reflexivity]. cbn [lookup].
  destruct (String.eqb_spec s k) as [E|E]; [|reflexivity]. subst. congruence.
Qed.

Lemma lookup_M5 : forall k n m, NoDup (keys m) -> type_cond n (M2 m) = true ->
  lookup k (M5 n m) = if "type" =? k then None
                      else match lookup k (M2 m) with Some c => Some c | None => lookup k (type_extra n (M2 m)) end.
Proof.
  intros k n m H Hc. unfold M5. rewrite lookup_delete by (apply nodup_type_extra; [apply nodup_M2; exact H|exact Hc]).
  rewrite lookup_app. reflexivity.
Qed.

Lemma bind_assoc : forall (r : result cmap) (f g : cmap -> result cmap),
  bind (bind r f) g = bind r (fun x => bind (f x) g).
Proof. intros [a|e] f g; reflexivity. Qed.

Theorem post_load_normal : forall n m, NoDup (keys m) -> shape m -> is_ok (post_load n m) = post_cond n m.
Proof.
  intros n m Hnd [Hsh1 Hsh2]. unfold post_load, compile_node, post_cond.
  rewrite false_constraints_spec. cbn [bind]. fold (M1 m).
  pose proof (nodup_M1 m Hnd) as Hn1. pose proof (nodup_M2 m Hnd) as Hn2.
  destruct (or_constraint_spec n (M1 m) Hn1) as [A1 A2]. rewrite bind_assoc, (bind_step _ _ _ _ A1 A2). fold (M2 m). f_equal.
  destruct (enum_constraint_spec (M2 m) Hn2) as [B1 B2]. rewrite bind_assoc, (bind_step _ _ _ _ B1 B2). f_equal.
  destruct (precision_constraint_spec (M2 m)) as [C1 C2]. rewrite bind_assoc, (bind_step _ _ _ _ C1 C2). f_equal.
  assert (Hsh1' : forall c, lookup "type" (M2 m) = Some c -> exists v, c = CType v).
  { intros c. rewrite lookup_M2, lookup_M1 by exact Hnd. simpl.
    destruct (lookup "type" m) as [c0|] eqn:E; [|discriminate]. unfold ffc. simpl. intros H. inversion H. subst. apply Hsh1. reflexivity. }
  destruct (type_constraint_spec n (M2 m) Hn2 Hsh1') as [D1 D2]. rewrite bind_assoc, (bind_step _ _ _ _ D1 D2). fold (M5 n m).
  destruct (type_cond n (M2 m)) eqn:Et; [|reflexivity]. f_equal.
  pose proof (nodup_M5 n m Hnd Et) as Hn5.
  destruct (allowed_constraint_check_spec (M5 n m)) as [E1 E2]. rewrite bind_assoc, (bind_step _ _ _ _ E1 E2). f_equal.
  destruct (any_constraint_spec n (M5 n m) Hn5) as [F1 F2]. rewrite bind_assoc, (bind_step _ _ _ _ F1 F2). f_equal.
  unfold exclusive_minimum_constraint, exclusive_maximum_constraint.
  destruct (exclusive_constraint_spec "exclusiveMinimum" "min" ErrConstraintMinNotFound (M5 n m)) as [G1 G2].
  rewrite bind_assoc, (bind_step _ _ _ _ G1 G2). fold (M8 n m). f_equal.
  destruct (exclusive_constraint_spec "exclusiveMaximum" "max" ErrConstraintMaxNotFound (M8 n m)) as [I1 I2].
  rewrite bind_assoc, (bind_step _ _ _ _ I1 I2). fold (M9 n m). f_equal.
  destruct (check_pair_constraints_spec (M9 n m)) as [J1 J2]. rewrite bind_assoc, (bind_step _ _ _ _ J1 J2). f_equal.
  destruct (optional_constraints_spec n (M9 n m)) as [K1 K2]. rewrite bind_assoc, (bind_step _ _ _ _ K1 K2). f_equal.
  destruct (empty_array_spec n (M9 n m)) as [L1 L2]. rewrite (bind_step _ _ _ _ L1 L2). f_equal.
  assert (Hl : lookup "allOf" (M9 n m) = lookup "allOf" m).
  { unfold M9, M8.
    rewrite lookup_ex_eff_other by (try reflexivity; apply nodup_ex_eff; exact Hn5).
    rewrite lookup_ex_eff_other by (try reflexivity; exact Hn5).
    rewrite lookup_M5 by assumption. rewrite lookup_M2, lookup_M1 by exact Hnd.
    rewrite lookup_type_extra_other by reflexivity. unfold ffc. simpl.
    destruct (lookup "allOf" m); reflexivity. }
  assert (Hsh2' : forall c, lookup "allOf" (M9 n m) = Some c -> exists s, c = CAllOf s).
  { intros c Hc. rewrite Hl in Hc. exact (Hsh2 c Hc). }
  destruct (all_of_pass_spec n (M9 n m) Hsh2') as [N1 N2].
  rewrite (bind_step _ _ _ _ N1 N2). fold (MF n m). f_equal.
  apply check_schema_node_spec.
Qed.

(* ================================================================== the loaded map in terms of the written rules *)
Lemma lookup_entries_of : forall k name v, rule_valid (name, v) = true ->
  lookup k (entries_of (name, v)) =
    if name =? "or" then (if "types" =? k then match v with VOrList u c a => Some (CTypes u c true a) | _ => None end
                          else if "or" =? k then Some CMark else None)
    else if name =? "enum" then (if "enum" =? k then Some CMark else None)
    else if name =? "allOf" then (if "allOf" =? k then match v with VStr s => Some (CAllOf s) | _ => None end else None)
    else if name =? k then match new_constraint name v with Ok c => Some c | Err _ => None end else None.
Proof.
  intros k name v. unfold rule_valid, entries_of, rule_entries.
  destruct (name =? "or").
  { destruct v as [b|d|s| | |u c a|]; try discriminate. destruct (Nat.leb 2 c); [|discriminate]. intros _. reflexivity. }
  destruct (name =? "enum").
  { destruct v; try discriminate; intros _; reflexivity. }
  destruct (name =? "allOf").
  { destruct v as [b|d|s| | |u c a|]; try discriminate. destruct (is_user_type_name s); [|discriminate]. intros _. reflexivity. }
  destruct (is_literal v); [|discriminate]. destruct (new_constraint name v) as [c|e]; [|discriminate]. intros _. reflexivity.
Qed.

Lemma entries_cons : forall r R, entries (r :: R) = app (entries_of r) (entries R).
Proof. reflexivity. Qed.

Lemma all_valid_cons : forall r R, all_valid (r :: R) = rule_valid r && all_valid R.
Proof. reflexivity. Qed.

Lemma lookup_entries_simple : forall k R, all_valid R = true ->
  (k =? "types") = false -> (k =? "or") = false -> (k =? "enum") = false -> (k =? "allOf") = false ->
  lookup k (entries R) =
  match find_rule k R with
  | Some v => match new_constraint k v with Ok c => Some c | Err _ => None end
  | None => None
  end.
Proof.
  intros k R Hv K1 K2 K3 K4. induction R as [|[name v] R IH]; [reflexivity|].
  rewrite all_valid_cons in Hv. apply andb_true_iff in Hv. destruct Hv as [Hr Hv].
  rewrite entries_cons, lookup_app, (lookup_entries_of k name v Hr). cbn [find_rule].
  rewrite (String.eqb_sym "types" k), (String.eqb_sym "or" k), (String.eqb_sym "enum" k), (String.eqb_sym "allOf" k), K1, K2, K3, K4.
  destruct (String.eqb_spec name "or") as [E|E]. { subst. rewrite (String.eqb_sym "or" k), K2. exact (IH Hv). }
  destruct (String.eqb_spec name "enum") as [E2|E2]. { subst. rewrite (String.eqb_sym "enum" k), K3. exact (IH Hv). }
  destruct (String.eqb_spec name "allOf") as [E3|E3]. { subst. rewrite (String.eqb_sym "allOf" k), K4. exact (IH Hv). }
  destruct (String.eqb_spec name k) as [E4|E4]; [|exact (IH Hv)].
  subst. unfold rule_valid, rule_entries in Hr.
  apply String.eqb_neq in E, E2, E3. rewrite E, E2, E3 in Hr.
  destruct (is_literal v); [|discriminate]. destruct (new_constraint k v); [reflexivity|discriminate].
Qed.

Lemma new_constraint_unknown : forall k v,
  mem k simple_rule_names = false -> new_constraint k v = Err ErrUnknownRule.
Proof.
  intros k v H. unfold mem, simple_rule_names in H. cbn [existsb] in H.
  repeat (apply orb_false_iff in H; destruct H as [?E H]).
  unfold new_constraint. rewrite E, E0, E1, E2, E3, E4, E5, E6, E7, E8, E9, E10, E11, E12, E13. reflexivity.
Qed.

Lemma lookup_entries_types : forall R, all_valid R = true ->
  lookup "types" (entries R) = match find_rule "or" R with Some (VOrList u c a) => Some (CTypes u c true a) | _ => None end.
Proof.
  intros R Hv. induction R as [|[name v] R IH]; [reflexivity|].
  rewrite all_valid_cons in Hv. apply andb_true_iff in Hv. destruct Hv as [Hr Hv].
  rewrite entries_cons, lookup_app, (lookup_entries_of "types" name v Hr). cbn [find_rule].
  destruct (String.eqb_spec name "or") as [E|E].
  { subst. simpl. unfold rule_valid, rule_entries in Hr. simpl in Hr.
    destruct v as [b|d|s| | |u c a|]; try discriminate. reflexivity. }
  destruct (name =? "enum"); [simpl; exact (IH Hv)|].
  destruct (name =? "allOf"); [simpl; exact (IH Hv)|].
  destruct (String.eqb_spec name "types") as [E4|E4]; [|exact (IH Hv)].
  subst. exfalso. unfold rule_valid, rule_entries in Hr. simpl in Hr.
  destruct (is_literal v); discriminate.
Qed.

Lemma lookup_entries_mark : forall k R, all_valid R = true -> (k = "or" \/ k = "enum") ->
  lookup k (entries R) = if has_rule k R then Some CMark else None.
Proof.
  intros k R Hv Hk. unfold has_rule. induction R as [|[name v] R IH]; [reflexivity|].
  rewrite all_valid_cons in Hv. apply andb_true_iff in Hv. destruct Hv as [Hr Hv].
  rewrite entries_cons, lookup_app, (lookup_entries_of k name v Hr). cbn [find_rule].
  destruct (String.eqb_spec name "or") as [E|E].
  { subst. destruct Hk as [Hk|Hk]; subst; simpl; [reflexivity|exact (IH Hv)]. }
  destruct (String.eqb_spec name "enum") as [E2|E2].
  { subst. destruct Hk as [Hk|Hk]; subst; simpl; [exact (IH Hv)|reflexivity]. }
  destruct (String.eqb_spec name "allOf") as [E3|E3].
  { subst. destruct Hk as [Hk|Hk]; subst; simpl; exact (IH Hv). }
  destruct (String.eqb_spec name k) as [E4|E4]; [|exact (IH Hv)].
  exfalso. destruct Hk as [Hk|Hk]; subst; contradiction.
Qed.

Lemma lookup_entries_allof : forall R, all_valid R = true ->
  lookup "allOf" (entries R) = match find_rule "allOf" R with Some (VStr s) => Some (CAllOf s) | _ => None end.
Proof.
  intros R Hv. induction R as [|[name v] R IH]; [reflexivity|].
  rewrite all_valid_cons in Hv. apply andb_true_iff in Hv. destruct Hv as [Hr Hv].
  rewrite entries_cons, lookup_app, (lookup_entries_of "allOf" name v Hr). cbn [find_rule].
  destruct (String.eqb_spec name "or") as [E|E]. { subst. simpl. exact (IH Hv). }
  destruct (String.eqb_spec name "enum") as [E2|E2]. { subst. simpl. exact (IH Hv). }
  destruct (String.eqb_spec name "allOf") as [E3|E3].
  { subst. simpl. unfold rule_valid, rule_entries in Hr. simpl in Hr.
    destruct v as [b|d|s| | |u c a|]; try discriminate. reflexivity. }
  destruct (String.eqb_spec name "allOf") as [E4|E4]; [contradiction|exact (IH Hv)].
Qed.

(* ================================================================== the pipeline at the level of the written rules *)
Lemma find_rule_in : forall k v R, find_rule k R = Some v -> In (k, v) R.
Proof.
  intros k v R. induction R as [|[k' v'] R IH]; simpl; [discriminate|].
  destruct (String.eqb_spec k' k) as [E|E].
  - intros H. inversion H. subst. left. reflexivity.
  - intros H. right. exact (IH H).
Qed.

Lemma find_rule_valid : forall k v R, all_valid R = true -> find_rule k R = Some v -> rule_valid (k, v) = true.
Proof.
  intros k v R Hv Hf. unfold all_valid in Hv. rewrite forallb_forall in Hv. apply Hv. apply find_rule_in. exact Hf.
Qed.

Section Dictionary.
Variable R : list rule.
Hypothesis Hv : all_valid R = true.
Hypothesis Hwf : well_formed_values R = true.

Lemma find_rule_wf : forall k v, find_rule k R = Some v -> value_kind_ok (k, v) = true.
Proof.
  intros k v Hf. unfold well_formed_values in Hwf. rewrite forallb_forall in Hwf. apply Hwf. apply find_rule_in. exact Hf.
Qed.

Lemma d_nat : forall k, mem k ["minLength"; "maxLength"; "minItems"; "maxItems"] = true ->
  lookup k (entries R) = option_map CNat (get_nat k R).
Proof.
  intros k Hk. unfold get_nat.
  assert (Hk' : k = "minLength" \/ k = "maxLength" \/ k = "minItems" \/ k = "maxItems").
  { unfold mem in Hk. cbn [existsb] in Hk. repeat (apply orb_true_iff in Hk; destruct Hk as [Hk|Hk]);
    try (apply String.eqb_eq in Hk; auto). discriminate. }
  rewrite lookup_entries_simple by (try exact Hv; destruct Hk' as [E|[E|[E|E]]]; subst; reflexivity).
  destruct (find_rule k R) as [v|]; [|reflexivity].
  destruct Hk' as [E|[E|[E|E]]]; subst; unfold new_constraint; simpl; destruct (parse_uint v); reflexivity.
Qed.

Lemma d_precision :
  lookup "precision" (entries R) = match get_nat "precision" R with Some (S p) => Some (CNat (S p)) | _ => None end.
Proof.
  unfold get_nat. rewrite lookup_entries_simple by (try exact Hv; reflexivity).
  destruct (find_rule "precision" R) as [v|]; [|reflexivity].
  unfold new_constraint; simpl. destruct (parse_uint v) as [[|p]|]; reflexivity.
Qed.

Lemma d_bound : forall k, (k = "min" \/ k = "max") ->
  lookup k (entries R) = option_map (fun d => CBound d false) (get_num k R).
Proof.
  intros k Hk. unfold get_num. rewrite lookup_entries_simple by (try exact Hv; destruct Hk; subst; reflexivity).
  destruct (find_rule k R) as [v|]; [|reflexivity].
  destruct Hk; subst; unfold new_constraint; simpl; destruct v; reflexivity.
Qed.

Lemma d_bool : forall k, mem k bool_rules = true -> lookup k (entries R) = option_map CBool (get_bool k R).
Proof.
  intros k Hk. unfold get_bool.
  assert (Hk' : k = "exclusiveMinimum" \/ k = "exclusiveMaximum" \/ k = "optional" \/ k = "nullable" \/ k = "const").
  { unfold mem, bool_rules in Hk. cbn [existsb] in Hk. repeat (apply orb_true_iff in Hk; destruct Hk as [Hk|Hk]);
    try (apply String.eqb_eq in Hk; auto 6). discriminate. }
  rewrite lookup_entries_simple by (try exact Hv; destruct Hk' as [E|[E|[E|[E|E]]]]; subst; reflexivity).
  destruct (find_rule k R) as [v|]; [|reflexivity].
  destruct Hk' as [E|[E|[E|[E|E]]]]; subst; unfold new_constraint; simpl; destruct v; reflexivity.
Qed.

Lemma d_type : lookup "type" (entries R) = option_map (fun s => CType (VStr s)) (get_str "type" R).
Proof.
  unfold get_str. rewrite lookup_entries_simple by (try exact Hv; reflexivity).
  destruct (find_rule "type" R) as [v|] eqn:Hf; [|reflexivity].
  pose proof (find_rule_wf _ _ Hf) as Hw. simpl in Hw. destruct v; try discriminate. reflexivity.
Qed.

Lemma d_regex : lookup "regex" (entries R) = if has_rule "regex" R then Some CMark else None.
Proof.
  unfold has_rule. rewrite lookup_entries_simple by (try exact Hv; reflexivity).
  destruct (find_rule "regex" R) as [v|] eqn:Hf; [|reflexivity].
  pose proof (find_rule_wf _ _ Hf) as Hw. simpl in Hw. destruct v; try discriminate. reflexivity.
Qed.

Lemma d_unknown : forall k, mem k simple_rule_names = false ->
  (k =? "types") = false -> (k =? "or") = false -> (k =? "enum") = false -> (k =? "allOf") = false ->
  lookup k (entries R) = None.
Proof.
  intros k Hk K1 K2 K3 K4. rewrite lookup_entries_simple by assumption.
  destruct (find_rule k R) as [v|]; [|reflexivity]. rewrite (new_constraint_unknown k v Hk). reflexivity.
Qed.

Lemma d_types :
  lookup "types" (entries R) = match find_rule "or" R with Some (VOrList u c a) => Some (CTypes u c true a) | _ => None end.
Proof. apply lookup_entries_types. exact Hv. Qed.

Lemma d_or : lookup "or" (entries R) = if has_rule "or" R then Some CMark else None.
Proof. apply lookup_entries_mark; [exact Hv|left; reflexivity]. Qed.
Lemma d_enum : lookup "enum" (entries R) = if has_rule "enum" R then Some CMark else None.
Proof. apply lookup_entries_mark; [exact Hv|right; reflexivity]. Qed.

Lemma d_allof : lookup "allOf" (entries R) = option_map CAllOf (get_str "allOf" R).
Proof.
  unfold get_str. rewrite lookup_entries_allof by exact Hv. destruct (find_rule "allOf" R) as [[| |s| | | |]|]; reflexivity.
Qed.

(* a valid or rule *)
Lemma or_rule_shape : has_rule "or" R = true -> exists u c a, find_rule "or" R = Some (VOrList u c a) /\ 2 <= c.
Proof.
  unfold has_rule. destruct (find_rule "or" R) as [v|] eqn:Hf; [|discriminate]. intros _.
  pose proof (find_rule_valid _ _ _ Hv Hf) as Hr. unfold rule_valid, rule_entries in Hr. simpl in Hr.
  destruct v as [b|d|s| | |u c a|]; try discriminate. exists u, c, a. split; [reflexivity|].
  destruct c as [|[|c]]; try discriminate. lia.
Qed.

Lemma precision_nonzero : get_nat "precision" R <> Some 0.
Proof.
  unfold get_nat. destruct (find_rule "precision" R) as [v|] eqn:Hf; [|discriminate].
  pose proof (find_rule_valid _ _ _ Hv Hf) as Hr. unfold rule_valid, rule_entries in Hr. simpl in Hr.
  intros Hp. unfold new_constraint in Hr. simpl in Hr. rewrite Hp in Hr. destruct (is_literal v); discriminate.
Qed.

End Dictionary.

Lemma forallb_ext_in' : forall {A} (f g : A -> bool) l, (forall x, In x l -> f x = g x) -> forallb f l = forallb g l.
Proof.
  intros A f g l H. induction l as [|x r IH]; simpl; [reflexivity|].
  rewrite (H x (or_introl eq_refl)), IH; [reflexivity|]. intros y Hy. apply H. right. exact Hy.
Qed.

(* a rule whose constraint falseConstraints drops *)
Definition fexc (r : rule) : bool :=
  ((fst r =? "nullable") || (fst r =? "const")) && match snd r with VBool false => true | _ => false end.
(* a key predicate over the constraints a rule leaves after falseConstraints *)
Definition ok_rule (Q : string -> bool) (r : rule) : bool :=
  (if fst r =? "or" then Q "types" && Q "or" else Q (fst r)) || fexc r.

Lemma forallb_entries_of : forall Q name v, rule_valid (name, v) = true ->
  forallb (fun p => negb (ffc (fst p) (snd p)) || Q (fst p)) (entries_of (name, v)) = ok_rule Q (name, v).
Proof.
  intros Q name v. unfold rule_valid, entries_of, rule_entries, ok_rule, fexc. cbn [fst snd].
  destruct (String.eqb_spec name "or") as [E|E].
  { subst. destruct v as [b|d|s| | |u c a|]; try discriminate. destruct (Nat.leb 2 c); [|discriminate]. intros _.
    simpl. rewrite !andb_true_r, orb_false_r. reflexivity. }
  destruct (String.eqb_spec name "enum") as [E2|E2].
  { subst. destruct v; try discriminate; intros _; simpl; rewrite !andb_true_r, orb_false_r; reflexivity. }
  destruct (String.eqb_spec name "allOf") as [E3|E3].
  { subst. destruct v as [b|d|s| | |u c a|]; try discriminate. destruct (is_user_type_name s); [|discriminate]. intros _.
    simpl. rewrite !andb_true_r, orb_false_r. reflexivity. }
  destruct (is_literal v); [|discriminate]. destruct (new_constraint name v) as [c|e] eqn:Hc; [|discriminate]. intros _.
  cbn [forallb fst snd]. rewrite andb_true_r. unfold ffc.
  destruct (String.eqb_spec name "nullable") as [E4|E4].
  { subst. simpl. simpl in Hc. destruct v as [[|]| | | | | |]; inversion Hc; subst; simpl; destruct (Q "nullable"); reflexivity. }
  destruct (String.eqb_spec name "const") as [E5|E5].
  { subst. simpl. simpl in Hc. destruct v as [[|]| | | | | |]; inversion Hc; subst; simpl; destruct (Q "const"); reflexivity. }
  simpl. rewrite orb_false_r. reflexivity.
Qed.

Lemma forallb_keys_entries : forall Q R, all_valid R = true ->
  forallb (fun p => negb (ffc (fst p) (snd p)) || Q (fst p)) (entries R) = forallb (ok_rule Q) R.
Proof.
  intros Q R Hv. unfold entries. rewrite forallb_flat_map. apply forallb_ext_in'. intros [name v] Hin.
  apply forallb_entries_of. unfold all_valid in Hv. rewrite forallb_forall in Hv. apply Hv. exact Hin.
Qed.

Lemma forallb_keys_M1 : forall (Q : string -> bool) R, all_valid R = true ->
  forallb (fun p => Q (fst p)) (M1 (entries R)) = forallb (ok_rule Q) R.
Proof.
  intros Q R Hv. unfold M1, mfilter. rewrite forallb_filter. apply forallb_keys_entries. exact Hv.
Qed.

Lemma forallb_keys_M2 : forall (Q : string -> bool) R, all_valid R = true -> NoDup (keys (entries R)) ->
  forallb (fun p => Q (fst p)) (M2 (entries R)) = forallb (ok_rule (fun k => (k =? "or") || Q k)) R.
Proof.
  intros Q R Hv Hnd. unfold M2. rewrite forallb_delete by (apply nodup_M1; exact Hnd).
  apply (forallb_keys_M1 (fun k => (k =? "or") || Q k)). exact Hv.
Qed.

Section Stages.
Variable n : node.
Variable R : list rule.
Hypothesis Hv : all_valid R = true.
Hypothesis Hwf : well_formed_values R = true.
Hypothesis Hnd : NoDup (keys (entries R)).

Definition P (k : string) : bool := has_rule k R.

Definition type_opt_is (s : string) : bool :=
  match get_str "type" R with Some t => t =? s | None => true end.

Definition br_children : bool := is_branch (n_kind n) && negb (Nat.eqb (n_children n) 0).

Definition r_or : bool :=
  negb (P "or") ||
  match find_rule "or" R with
  | Some (VOrList u c a) =>
    type_opt_is "mixed" && forallb (ok_rule (fun k => mem k Lor)) R && negb br_children && negb (is_branch (n_kind n) && u)
  | _ => false
  end.

Lemma has_M1_or : has "or" (M1 (entries R)) = P "or".
Proof.
  unfold has, P. rewrite lookup_M1 by exact Hnd. rewrite (d_or R Hv). destruct (has_rule "or" R); reflexivity.
Qed.

Lemma lookup_M1_type : lookup "type" (M1 (entries R)) = option_map (fun s => CType (VStr s)) (get_str "type" R).
Proof. rewrite lookup_M1 by exact Hnd. rewrite (d_type R Hv Hwf). destruct (get_str "type" R); reflexivity. Qed.

Lemma lookup_M1_types : lookup "types" (M1 (entries R)) =
  match find_rule "or" R with Some (VOrList u c a) => Some (CTypes u c true a) | _ => None end.
Proof.
  rewrite lookup_M1 by exact Hnd. rewrite (d_types R Hv). destruct (find_rule "or" R) as [[| | | | |u c a|]|]; reflexivity.
Qed.

Lemma stage_or : or_cond n (M1 (entries R)) = r_or.
Proof.
  unfold or_cond, r_or. rewrite has_M1_or, lookup_M1_types, lookup_M1_type.
  rewrite (forallb_keys_M1 (fun k => mem k Lor) R Hv).
  destruct (P "or") eqn:Hp; [|reflexivity]. cbn [negb orb].
  destruct (or_rule_shape R Hv Hp) as [u [c [a [Hf _]]]]. rewrite Hf.
  unfold type_opt_is, br_children. destruct (get_str "type" R) as [s|]; simpl; destruct u; reflexivity.
Qed.

Definition r_enum : bool :=
  negb (P "enum") || (type_opt_is "enum" && forallb (ok_rule (fun k => (k =? "or") || mem k Lenum)) R).

Lemma lookup_M2_type : lookup "type" (M2 (entries R)) = option_map (fun s => CType (VStr s)) (get_str "type" R).
Proof. rewrite lookup_M2 by exact Hnd. simpl. apply lookup_M1_type. Qed.

Lemma has_M2_enum : has "enum" (M2 (entries R)) = P "enum".
Proof.
  unfold has, P. rewrite lookup_M2, lookup_M1 by exact Hnd. simpl. rewrite (d_enum R Hv). destruct (has_rule "enum" R); reflexivity.
Qed.

Lemma stage_enum : enum_cond (M2 (entries R)) = r_enum.
Proof.
  unfold enum_cond, r_enum. rewrite has_M2_enum, lookup_M2_type.
  rewrite (forallb_keys_M2 (fun k => mem k Lenum) R Hv Hnd).
  unfold type_opt_is. destruct (get_str "type" R) as [s|]; reflexivity.
Qed.

(* presence of a simple rule in the loaded map *)
Lemma has_entries_simple : forall k,
  (k =? "types") = false -> (k =? "or") = false -> (k =? "enum") = false -> (k =? "allOf") = false ->
  has k (entries R) = P k.
Proof.
  intros k K1 K2 K3 K4. unfold has, P, has_rule. rewrite lookup_entries_simple by assumption.
  destruct (find_rule k R) as [v|] eqn:Hf; [|reflexivity].
  pose proof (find_rule_valid _ _ _ Hv Hf) as Hr. unfold rule_valid, rule_entries in Hr.
  rewrite K2, K3, K4 in Hr. destruct (is_literal v); [|discriminate]. destruct (new_constraint k v); [reflexivity|discriminate].
Qed.

Definition r_prec : bool := negb (P "precision") || type_opt_is "decimal".

Lemma has_M2_simple : forall k,
  (k =? "types") = false -> (k =? "or") = false -> (k =? "enum") = false -> (k =? "allOf") = false ->
  (k =? "nullable") = false -> (k =? "const") = false ->
  has k (M2 (entries R)) = P k.
Proof.
  intros k K1 K2 K3 K4 K5 K6. rewrite <- (has_entries_simple k K1 K2 K3 K4).
  unfold has. rewrite lookup_M2, lookup_M1 by exact Hnd. rewrite (String.eqb_sym "or" k), K2.
  destruct (lookup k (entries R)); [|reflexivity]. unfold ffc. rewrite K5, K6. reflexivity.
Qed.

Lemma stage_prec : prec_cond (M2 (entries R)) = r_prec.
Proof.
  unfold prec_cond, r_prec. rewrite (has_M2_simple "precision") by reflexivity. rewrite lookup_M2_type.
  unfold type_opt_is. destruct (get_str "type" R) as [s|]; reflexivity.
Qed.


Lemma has_M2_types : has "types" (M2 (entries R)) = P "or".
Proof.
  unfold has. rewrite lookup_M2 by exact Hnd. simpl. rewrite lookup_M1_types. unfold P.
  destruct (has_rule "or" R) eqn:Hp.
  - destruct (or_rule_shape R Hv Hp) as [u [c [a [Hf _]]]]. rewrite Hf. reflexivity.
  - unfold has_rule in Hp. destruct (find_rule "or" R); [discriminate|reflexivity].
Qed.

Lemma has_M2_absent : forall k, mem k simple_rule_names = false ->
  (k =? "types") = false -> (k =? "or") = false -> (k =? "enum") = false -> (k =? "allOf") = false ->
  has k (M2 (entries R)) = false.
Proof.
  intros k Hk K1 K2 K3 K4. unfold has. rewrite lookup_M2, lookup_M1 by exact Hnd.
  rewrite (d_unknown R Hv k Hk K1 K2 K3 K4). destruct ("or" =? k); reflexivity.
Qed.

Definition r_json (s : string) : bool :=
  (if s =? "mixed" then P "or"
   else if s =? "enum" then P "enum"
   else if s =? "any" then true
   else if s =? "decimal" then P "precision"
   else if is_format s then true
   else match json_type_of_name s with Some t => nkind_eqb t (n_kind n) | None => false end)
  && set_real_type s (n_kind n).

Definition r_type : bool :=
  match get_str "type" R with
  | None => true
  | Some s =>
    if is_user_type_name s
    then forallb (ok_rule (fun k => (k =? "or") || mem k Lref)) R && negb (is_branch (n_kind n)) && negb (P "or")
    else r_json s
  end.

Lemma stage_type : type_cond n (M2 (entries R)) = r_type.
Proof.
  unfold type_cond, r_type. rewrite lookup_M2_type.
  destruct (get_str "type" R) as [s|]; [|reflexivity]. cbn [option_map literal_text].
  destruct (is_user_type_name s).
  - unfold ref_cond. rewrite (forallb_keys_M2 (fun k => mem k Lref) R Hv Hnd), has_M2_types. reflexivity.
  - unfold json_cond, r_json. f_equal.
    destruct (s =? "mixed").
    { rewrite lookup_M2 by exact Hnd. simpl. rewrite lookup_M1_types. unfold P.
      destruct (has_rule "or" R) eqn:Hp.
      - destruct (or_rule_shape R Hv Hp) as [u [c [a [Hf Hc]]]]. rewrite Hf.
        destruct (Nat.ltb_spec c 2); [lia|reflexivity].
      - unfold has_rule in Hp. destruct (find_rule "or" R); [discriminate|reflexivity]. }
    destruct (s =? "enum"); [apply has_M2_enum|].
    destruct (String.eqb_spec s "any") as [E|E]. { subst. rewrite has_M2_absent by reflexivity. reflexivity. }
    destruct (s =? "decimal"); [apply has_M2_simple; reflexivity|].
    destruct (is_format s) eqn:Ef; [|reflexivity].
    destruct (is_format_cases s Ef) as [E1|[E1|[E1|[E1|E1]]]]; subst; rewrite has_M2_absent by reflexivity; reflexivity.
Qed.


(* ---- from here on the type pass has succeeded *)
Hypothesis Ht : r_type = true.

Lemma Htc : type_cond n (M2 (entries R)) = true.
Proof. rewrite stage_type. exact Ht. Qed.

Lemma Hn5 : NoDup (keys (M5 n (entries R))).
Proof. apply nodup_M5; [exact Hnd|exact Htc]. Qed.
Lemma Hn8 : NoDup (keys (M8 n (entries R))).
Proof. apply nodup_ex_eff. exact Hn5. Qed.
Lemma Hn9 : NoDup (keys (M9 n (entries R))).
Proof. apply nodup_ex_eff. exact Hn8. Qed.

Definition r_extra : cmap :=
  match get_str "type" R with
  | Some s => if is_user_type_name s then [("types", ref_types n s)]
              else if s =? "mixed" then [] else if s =? "enum" then []
              else if s =? "any" then [("any", CMark)]
              else if s =? "decimal" then []
              else if is_format s then [(s, CMark)] else []
  | None => []
  end.

Lemma type_extra_M2 : type_extra n (M2 (entries R)) = r_extra.
Proof. unfold type_extra, r_extra. rewrite lookup_M2_type. destruct (get_str "type" R); reflexivity. Qed.

Lemma lookup_M5' : forall k, lookup k (M5 n (entries R)) =
  if "type" =? k then None else match lookup k (M2 (entries R)) with Some c => Some c | None => lookup k r_extra end.
Proof. intros k. rewrite lookup_M5 by (try exact Hnd; exact Htc). rewrite type_extra_M2. reflexivity. Qed.

Definition plain_key (k : string) : bool :=
  negb ((k =? "type") || (k =? "types") || (k =? "any") || is_format k).

Lemma lookup_M5_plain : forall k, plain_key k = true -> lookup k (M5 n (entries R)) = lookup k (M2 (entries R)).
Proof.
  intros k Hk. unfold plain_key in Hk. apply negb_true_iff in Hk.
  apply orb_false_iff in Hk. destruct Hk as [Hk K4]. apply orb_false_iff in Hk. destruct Hk as [Hk K3].
  apply orb_false_iff in Hk. destruct Hk as [K1 K2].
  rewrite lookup_M5'. rewrite (String.eqb_sym "type" k), K1. rewrite <- type_extra_M2.
  rewrite lookup_type_extra_other by assumption. destruct (lookup k (M2 (entries R))); reflexivity.
Qed.

Lemma lookup_M2_bool : forall k, mem k bool_rules = true ->
  lookup k (M2 (entries R)) =
  match get_bool k R with
  | Some b => if ((k =? "nullable") || (k =? "const")) && negb b then None else Some (CBool b)
  | None => None
  end.
Proof.
  intros k Hk. rewrite lookup_M2, lookup_M1 by exact Hnd. rewrite (d_bool R Hv k Hk).
  assert (Hor : ("or" =? k) = false).
  { unfold mem, bool_rules in Hk. cbn [existsb] in Hk. repeat (apply orb_true_iff in Hk; destruct Hk as [Hk|Hk]);
    try (apply String.eqb_eq in Hk; subst; reflexivity). discriminate. }
  rewrite Hor. destruct (get_bool k R) as [[|]|]; simpl; unfold ffc; destruct ((k =? "nullable") || (k =? "const")); reflexivity.
Qed.

Lemma lookup_M2_plain : forall k, ("or" =? k) = false -> (k =? "nullable") = false -> (k =? "const") = false ->
  lookup k (M2 (entries R)) = lookup k (entries R).
Proof.
  intros k K1 K2 K3. rewrite lookup_M2, lookup_M1 by exact Hnd. rewrite K1.
  destruct (lookup k (entries R)); [|reflexivity]. unfold ffc. rewrite K2, K3. reflexivity.
Qed.


Lemma has_M5_special : forall f,
  (f = "email" \/ f = "uri" \/ f = "uuid" \/ f = "date" \/ f = "datetime" \/ f = "any") ->
  has f (M5 n (entries R)) = type_is f R.
Proof.
  intros f Hf. unfold has, type_is. rewrite lookup_M5'.
  assert (Hab : lookup f (M2 (entries R)) = None).
  { pose proof (has_M2_absent f) as H. unfold has in H.
    destruct Hf as [E|[E|[E|[E|[E|E]]]]]; subst;
    (destruct (lookup _ (M2 (entries R))); [specialize (H eq_refl eq_refl eq_refl eq_refl eq_refl); discriminate|reflexivity]). }
  rewrite Hab. unfold r_extra.
  destruct (get_str "type" R) as [s|]; [|destruct Hf as [E|[E|[E|[E|[E|E]]]]]; subst; reflexivity].
  destruct (String.eqb_spec s f) as [E|E].
  - subst s. destruct Hf as [E|[E|[E|[E|[E|E]]]]]; subst; reflexivity.
  - destruct (is_user_type_name s). { destruct Hf as [E1|[E1|[E1|[E1|[E1|E1]]]]]; subst; reflexivity. }
    destruct (s =? "mixed"). { destruct Hf as [E1|[E1|[E1|[E1|[E1|E1]]]]]; subst; reflexivity. }
    destruct (s =? "enum"). { destruct Hf as [E1|[E1|[E1|[E1|[E1|E1]]]]]; subst; reflexivity. }
    destruct (String.eqb_spec s "any") as [Ea|Ea].
    { subst s. destruct Hf as [E1|[E1|[E1|[E1|[E1|E1]]]]]; subst; try reflexivity. contradiction. }
    destruct (s =? "decimal"). { destruct Hf as [E1|[E1|[E1|[E1|[E1|E1]]]]]; subst; reflexivity. }
    destruct (is_format s); [|destruct Hf as [E1|[E1|[E1|[E1|[E1|E1]]]]]; subst; reflexivity].
    cbn [lookup]. apply String.eqb_neq in E. rewrite E.
    destruct Hf as [E1|[E1|[E1|[E1|[E1|E1]]]]]; subst; reflexivity.
Qed.

Lemma has_M5_plain_simple : forall k, plain_key k = true ->
  (k =? "or") = false -> (k =? "enum") = false -> (k =? "allOf") = false ->
  (k =? "nullable") = false -> (k =? "const") = false ->
  has k (M5 n (entries R)) = P k.
Proof.
  intros k Hk K2 K3 K4 K5 K6. unfold has. rewrite lookup_M5_plain by exact Hk.
  apply has_M2_simple; try assumption.
  unfold plain_key in Hk. apply negb_true_iff in Hk. repeat (apply orb_false_iff in Hk; destruct Hk as [Hk ?]). assumption.
Qed.

Lemma has_M5_const : has "const" (M5 n (entries R)) = flag_true "const" R.
Proof.
  unfold has, flag_true. rewrite lookup_M5_plain by reflexivity. rewrite (lookup_M2_bool "const") by reflexivity.
  destruct (get_bool "const" R) as [[|]|]; reflexivity.
Qed.

Definition r_allowed : bool :=
  negb ((type_in formats R && (P "minLength" || P "maxLength" || P "regex")) || (type_is "any" R && flag_true "const" R)).

Lemma stage_allowed : allowed_cond (M5 n (entries R)) = r_allowed.
Proof.
  unfold allowed_cond, banned_with. cbn [existsb fst snd].
  rewrite !(has_M5_special "email") by auto 7. rewrite !(has_M5_special "uri") by auto 7.
  rewrite !(has_M5_special "uuid") by auto 7. rewrite !(has_M5_special "date") by auto 7.
  rewrite !(has_M5_special "datetime") by auto 7. rewrite !(has_M5_special "any") by auto 7.
  rewrite !(has_M5_plain_simple "minLength") by reflexivity. rewrite !(has_M5_plain_simple "maxLength") by reflexivity.
  rewrite !(has_M5_plain_simple "regex") by reflexivity. rewrite has_M5_const.
  unfold r_allowed, type_in, type_is, formats, mem. cbn [existsb].
  destruct (get_str "type" R) as [s|]; [|reflexivity].
  destruct (s =? "email"), (s =? "uri"), (s =? "uuid"), (s =? "date"), (s =? "datetime"), (s =? "any"),
    (P "minLength"), (P "maxLength"), (P "regex"), (flag_true "const" R); reflexivity.
Qed.


Lemma forallb_keys_M5 : forall (Q : string -> bool),
  forallb (fun p => Q (fst p)) (M5 n (entries R)) =
  forallb (ok_rule (fun k => (k =? "or") || ((k =? "type") || Q k))) R
  && forallb (fun p => (fst p =? "type") || Q (fst p)) r_extra.
Proof.
  intros Q. unfold M5. rewrite forallb_delete by (apply nodup_type_extra; [apply nodup_M2; exact Hnd|exact Htc]).
  rewrite forallb_app, type_extra_M2. f_equal.
  apply (forallb_keys_M2 (fun k => (k =? "type") || Q k) R Hv Hnd).
Qed.

Definition r_any : bool :=
  negb (type_is "any" R) ||
  (forallb (ok_rule (fun k => (k =? "or") || ((k =? "type") || mem k Lany))) R && negb br_children).

Lemma stage_any : any_cond n (M5 n (entries R)) = r_any.
Proof.
  unfold any_cond, r_any. rewrite (has_M5_special "any") by auto 7.
  destruct (type_is "any" R) eqn:Ha; [|reflexivity]. cbn [negb orb].
  rewrite (forallb_keys_M5 (fun k => mem k Lany)). unfold br_children.
  assert (Hx : forallb (fun p => (fst p =? "type") || mem (fst p) Lany) r_extra = true).
  { unfold r_extra. unfold type_is in Ha. destruct (get_str "type" R) as [s|]; [|discriminate].
    apply String.eqb_eq in Ha. subst s. reflexivity. }
  rewrite Hx, andb_true_r. reflexivity.
Qed.

Definition r_exmin : bool := negb (P "exclusiveMinimum") || P "min".
Definition r_exmax : bool := negb (P "exclusiveMaximum") || P "max".

Lemma stage_exmin : ex_cond "exclusiveMinimum" "min" (M5 n (entries R)) = r_exmin.
Proof.
  unfold ex_cond, r_exmin. rewrite (has_M5_plain_simple "exclusiveMinimum"), (has_M5_plain_simple "min") by reflexivity. reflexivity.
Qed.

Lemma lookup_M8_other : forall k, ("exclusiveMinimum" =? k) = false -> ("min" =? k) = false ->
  lookup k (M8 n (entries R)) = lookup k (M5 n (entries R)).
Proof. intros k K1 K2. unfold M8. apply lookup_ex_eff_other; [exact Hn5|exact K1|exact K2]. Qed.

Lemma lookup_M9_other : forall k, ("exclusiveMinimum" =? k) = false -> ("min" =? k) = false ->
  ("exclusiveMaximum" =? k) = false -> ("max" =? k) = false ->
  lookup k (M9 n (entries R)) = lookup k (M5 n (entries R)).
Proof.
  intros k K1 K2 K3 K4. unfold M9. rewrite lookup_ex_eff_other by (try assumption; exact Hn8).
  apply lookup_M8_other; assumption.
Qed.

Lemma stage_exmax : ex_cond "exclusiveMaximum" "max" (M8 n (entries R)) = r_exmax.
Proof.
  unfold ex_cond, r_exmax, has. rewrite !lookup_M8_other by reflexivity.
  pose proof (has_M5_plain_simple "exclusiveMaximum") as H1. pose proof (has_M5_plain_simple "max") as H2.
  unfold has in H1, H2. rewrite H1, H2 by reflexivity. reflexivity.
Qed.

Lemma lookup_M5_flag : forall k, (k = "exclusiveMinimum" \/ k = "exclusiveMaximum") ->
  lookup k (M5 n (entries R)) = option_map CBool (get_bool k R).
Proof.
  intros k Hk. rewrite lookup_M5_plain by (destruct Hk; subst; reflexivity).
  rewrite lookup_M2_bool by (destruct Hk; subst; reflexivity).
  destruct Hk; subst; simpl; destruct (get_bool _ R); reflexivity.
Qed.

Lemma lookup_M5_bound : forall k, (k = "min" \/ k = "max") ->
  lookup k (M5 n (entries R)) = option_map (fun d => CBound d false) (get_num k R).
Proof.
  intros k Hk. rewrite lookup_M5_plain by (destruct Hk; subst; reflexivity).
  rewrite lookup_M2_plain by (destruct Hk; subst; reflexivity). apply (d_bound R Hv). exact Hk.
Qed.

Lemma lookup_M9_min : lookup "min" (M9 n (entries R)) =
  option_map (fun d => CBound d (flag_true "exclusiveMinimum" R)) (get_num "min" R).
Proof.
  unfold M9. rewrite lookup_ex_eff_other by (try reflexivity; exact Hn8).
  unfold M8. rewrite lookup_ex_eff by exact Hn5. cbn [String.eqb Ascii.eqb Bool.eqb].
  rewrite (lookup_M5_flag "exclusiveMinimum") by auto. rewrite (lookup_M5_bound "min") by auto.
  unfold flag_true. destruct (get_bool "exclusiveMinimum" R) as [[|]|]; destruct (get_num "min" R); reflexivity.
Qed.

Lemma lookup_M9_max : lookup "max" (M9 n (entries R)) =
  option_map (fun d => CBound d (flag_true "exclusiveMaximum" R)) (get_num "max" R).
Proof.
  unfold M9. rewrite lookup_ex_eff by exact Hn8. cbn [String.eqb Ascii.eqb Bool.eqb].
  rewrite !lookup_M8_other by reflexivity.
  rewrite (lookup_M5_flag "exclusiveMaximum") by auto. rewrite (lookup_M5_bound "max") by auto.
  unfold flag_true. destruct (get_bool "exclusiveMaximum" R) as [[|]|]; destruct (get_num "max" R); reflexivity.
Qed.

Lemma lookup_M9_nat : forall k, mem k ["minLength"; "maxLength"; "minItems"; "maxItems"] = true ->
  lookup k (M9 n (entries R)) = option_map CNat (get_nat k R).
Proof.
  intros k Hk. pose proof Hk as Hk0.
  unfold mem in Hk. cbn [existsb] in Hk. rewrite orb_false_r in Hk.
  assert (Hk' : k = "minLength" \/ k = "maxLength" \/ k = "minItems" \/ k = "maxItems").
  { repeat (apply orb_true_iff in Hk; destruct Hk as [Hk|Hk]); apply String.eqb_eq in Hk; auto. }
  rewrite lookup_M9_other by (destruct Hk' as [E|[E|[E|E]]]; subst; reflexivity).
  rewrite lookup_M5_plain by (destruct Hk' as [E|[E|[E|E]]]; subst; reflexivity).
  rewrite lookup_M2_plain by (destruct Hk' as [E|[E|[E|E]]]; subst; reflexivity).
  apply (d_nat R Hv). exact Hk0.
Qed.

Lemma dec_leb_antisym : forall a b, negb (dec_leb b a) = dec_ltb a b.
Proof. intros a b. unfold dec_leb, dec_ltb. rewrite Z.ltb_antisym. reflexivity. Qed.
Lemma dec_ltb_antisym : forall a b, negb (dec_ltb b a) = dec_leb a b.
Proof. intros a b. unfold dec_leb, dec_ltb. rewrite Z.leb_antisym. reflexivity. Qed.

Lemma stage_pairs : pair_cond (M9 n (entries R)) = pairs_ordered R.
Proof.
  unfold pair_cond, pairs_ordered, mm_cond, np_cond, nat_pair_ordered.
  rewrite lookup_M9_min, lookup_M9_max. rewrite !lookup_M9_nat by reflexivity.
  f_equal; [f_equal|].
  - destruct (get_num "min" R) as [a|]; destruct (get_num "max" R) as [b|]; try reflexivity. cbn [option_map].
    destruct (flag_true "exclusiveMinimum" R || flag_true "exclusiveMaximum" R); [apply dec_leb_antisym|apply dec_ltb_antisym].
  - destruct (get_nat "minLength" R) as [a|]; destruct (get_nat "maxLength" R) as [b|]; try reflexivity. cbn [option_map].
    rewrite Nat.ltb_antisym, negb_involutive. reflexivity.
  - destruct (get_nat "minItems" R) as [a|]; destruct (get_nat "maxItems" R) as [b|]; try reflexivity. cbn [option_map].
    rewrite Nat.ltb_antisym, negb_involutive. reflexivity.
Qed.


Lemma has_M9_plain_simple : forall k, plain_key k = true ->
  ("exclusiveMinimum" =? k) = false -> ("min" =? k) = false -> ("exclusiveMaximum" =? k) = false -> ("max" =? k) = false ->
  (k =? "or") = false -> (k =? "enum") = false -> (k =? "allOf") = false ->
  (k =? "nullable") = false -> (k =? "const") = false ->
  has k (M9 n (entries R)) = P k.
Proof.
  intros k Hk X1 X2 X3 X4 K2 K3 K4 K5 K6. rewrite <- (has_M5_plain_simple k Hk K2 K3 K4 K5 K6).
  unfold has. rewrite lookup_M9_other by assumption. reflexivity.
Qed.

Lemma stage_opt : opt_cond n (M9 n (entries R)) = optional_on_property n R.
Proof.
  unfold opt_cond, optional_on_property. rewrite (has_M9_plain_simple "optional") by reflexivity. reflexivity.
Qed.

Definition nz (o : option nat) : bool := match o with Some (S _) => true | _ => false end.
Definition r_ea : bool :=
  match n_kind n with
  | NArray => negb (Nat.eqb (n_children n) 0) || (negb (nz (get_nat "minItems" R)) && negb (nz (get_nat "maxItems" R)))
  | _ => true
  end.

Lemma stage_ea : ea_cond n (M9 n (entries R)) = r_ea.
Proof.
  unfold ea_cond, r_ea. rewrite !lookup_M9_nat by reflexivity.
  destruct (n_kind n); try reflexivity.
  destruct (get_nat "minItems" R) as [[|a]|]; destruct (get_nat "maxItems" R) as [[|b]|]; reflexivity.
Qed.

Definition r_allof : bool :=
  match get_str "allOf" R with
  | Some s => match user_type_kind s with Some NObject => match n_kind n with NObject => true | _ => false end | _ => false end
  | None => true
  end.

Lemma lookup_M9_allof : lookup "allOf" (M9 n (entries R)) = option_map CAllOf (get_str "allOf" R).
Proof.
  rewrite lookup_M9_other by reflexivity. rewrite lookup_M5_plain by reflexivity.
  rewrite lookup_M2_plain by reflexivity. apply (d_allof R Hv).
Qed.

Lemma stage_allof : allof_cond n (M9 n (entries R)) = r_allof.
Proof.
  unfold allof_cond, r_allof. rewrite lookup_M9_allof. destruct (get_str "allOf" R); reflexivity.
Qed.

(* ---- the checker *)
Lemma forallb_keys_ex_eff : forall (Q : string -> bool) flag bound m, NoDup (keys m) ->
  forallb (fun p => Q (fst p)) (ex_eff flag bound m) = forallb (fun p => (fst p =? flag) || Q (fst p)) m.
Proof.
  intros Q flag bound m H. unfold ex_eff.
  destruct (lookup flag m) as [[| |[|]| | | | |]|]; try (apply forallb_delete; exact H).
  rewrite forallb_delete by (apply nodup_keys_update; exact H).
  apply (forallb_keys_update (fun k => (k =? flag) || Q k)).
Qed.

Definition Qc (k : string) : bool :=
  (k =? "exclusiveMinimum") || ((k =? "exclusiveMaximum") || ((k =? "allOf") || compat_ok k (n_kind n))).
Definition r_compat : bool :=
  forallb (ok_rule (fun k => (k =? "or") || ((k =? "type") || Qc k))) R
  && forallb (fun p => (fst p =? "type") || Qc (fst p)) r_extra.

Lemma stage_compat : compat_cond n (MF n (entries R)) = r_compat.
Proof.
  unfold compat_cond, r_compat, MF. rewrite forallb_delete by exact Hn9.
  unfold M9. rewrite (forallb_keys_ex_eff (fun k => (k =? "allOf") || compat_ok k (n_kind n))) by exact Hn8.
  unfold M8. rewrite (forallb_keys_ex_eff (fun k => (k =? "exclusiveMaximum") || ((k =? "allOf") || compat_ok k (n_kind n)))) by exact Hn5.
  apply (forallb_keys_M5 Qc).
Qed.

Definition r_types : option cval :=
  match find_rule "or" R with
  | Some (VOrList u c a) => Some (CTypes u c true a)
  | _ => lookup "types" r_extra
  end.

Lemma lookup_MF_other : forall k, ("allOf" =? k) = false -> lookup k (MF n (entries R)) = lookup k (M9 n (entries R)).
Proof. intros k K. unfold MF. rewrite lookup_delete by exact Hn9. rewrite K. reflexivity. Qed.

Lemma lookup_MF_types : lookup "types" (MF n (entries R)) = r_types.
Proof.
  rewrite lookup_MF_other by reflexivity. rewrite lookup_M9_other by reflexivity. rewrite lookup_M5'.
  cbn [String.eqb Ascii.eqb Bool.eqb]. rewrite lookup_M2 by exact Hnd. cbn [String.eqb Ascii.eqb Bool.eqb].
  rewrite lookup_M1_types. unfold r_types. destruct (find_rule "or" R) as [[| | | | |u c a|]|]; reflexivity.
Qed.


Definition is_none {A} (o : option A) : bool := match o with None => true | Some _ => false end.

Lemma validate_in_order_none : forall n' m ks,
  is_none (validate_in_order n' m ks) =
  forallb (fun k => match lookup k m with Some c => is_none (validate_one n' k c) | None => true end) ks.
Proof.
  intros n' m ks. induction ks as [|k r IH]; [reflexivity|]. cbn [validate_in_order forallb].
  destruct (lookup k m) as [c|]; [|exact IH]. destruct (validate_one n' k c); [reflexivity|exact IH].
Qed.

Lemma lookup_MF_plain : forall k, plain_key k = true -> ("allOf" =? k) = false ->
  ("exclusiveMinimum" =? k) = false -> ("min" =? k) = false -> ("exclusiveMaximum" =? k) = false -> ("max" =? k) = false ->
  lookup k (MF n (entries R)) = lookup k (M2 (entries R)).
Proof.
  intros k Hk K0 K1 K2 K3 K4. rewrite lookup_MF_other by exact K0. rewrite lookup_M9_other by assumption.
  apply lookup_M5_plain. exact Hk.
Qed.

Lemma lookup_MF_special : forall f,
  (f = "email" \/ f = "uri" \/ f = "uuid" \/ f = "date" \/ f = "datetime" \/ f = "any") ->
  lookup f (MF n (entries R)) = if type_is f R then Some CMark else None.
Proof.
  intros f Hf. pose proof (has_M5_special f Hf) as H. unfold has in H.
  rewrite lookup_MF_other by (destruct Hf as [E|[E|[E|[E|[E|E]]]]]; subst; reflexivity).
  rewrite lookup_M9_other by (destruct Hf as [E|[E|[E|[E|[E|E]]]]]; subst; reflexivity).
  destruct (lookup f (M5 n (entries R))) as [c|] eqn:El; rewrite <- H; [|reflexivity].
  (* the entry can only be the marker added by the type pass *)
  rewrite lookup_M5' in El.
  assert (Hab : lookup f (M2 (entries R)) = None).
  { pose proof (has_M2_absent f) as H2. unfold has in H2.
    destruct Hf as [E|[E|[E|[E|[E|E]]]]]; subst;
    (destruct (lookup _ (M2 (entries R))); [specialize (H2 eq_refl eq_refl eq_refl eq_refl eq_refl); discriminate|reflexivity]). }
  rewrite Hab in El. destruct ("type" =? f); [discriminate|].
  unfold r_extra in El. destruct (get_str "type" R) as [s|]; [|discriminate].
  destruct (is_user_type_name s).
  { cbn [lookup] in El. destruct Hf as [E|[E|[E|[E|[E|E]]]]]; subst; discriminate. }
  destruct (s =? "mixed"); [discriminate|]. destruct (s =? "enum"); [discriminate|].
  destruct (s =? "any"). { cbn [lookup] in El. destruct ("any" =? f); inversion El; reflexivity. }
  destruct (s =? "decimal"); [discriminate|].
  destruct (is_format s); [|discriminate]. cbn [lookup] in El. destruct (s =? f); inversion El; reflexivity.
Qed.

Lemma lookup_MF_nullable : lookup "nullable" (MF n (entries R)) =
  if flag_true "nullable" R then Some (CBool true) else None.
Proof.
  rewrite lookup_MF_plain by reflexivity. rewrite lookup_M2_bool by reflexivity. unfold flag_true.
  destruct (get_bool "nullable" R) as [[|]|]; reflexivity.
Qed.

(* fix d925ea9: a null example under nullable: true fits whatever the alternatives are *)
Definition r_null : bool := flag_true "nullable" R && nkind_eqb (n_kind n) NNull.

Lemma null_under_nullable_MF : null_under_nullable n (MF n (entries R)) = r_null.
Proof.
  unfold null_under_nullable, r_null. rewrite lookup_MF_nullable.
  destruct (flag_true "nullable" R); reflexivity.
Qed.

Definition r_links : bool :=
  match r_types with Some (CTypes _ _ known fits) => known && (fits || r_null) | _ => true end.

Lemma stage_links : links_cond n (MF n (entries R)) = r_links.
Proof. unfold links_cond, r_links. rewrite lookup_MF_types, null_under_nullable_MF. reflexivity. Qed.

Definition r_validators : bool :=
  match get_nat "minLength" R with Some v => negb (Nat.ltb (n_strlen n) v) | None => true end
  && (match get_nat "maxLength" R with Some v => negb (Nat.ltb v (n_strlen n)) | None => true end
  && (match get_num "min" R with
     | Some d => if flag_true "exclusiveMinimum" R then negb (dec_leb (n_num n) d) else negb (dec_ltb (n_num n) d)
     | None => true end
  && (match get_num "max" R with
     | Some d => if flag_true "exclusiveMaximum" R then negb (dec_leb d (n_num n)) else negb (dec_ltb d (n_num n))
     | None => true end
  && (match get_nat "precision" R with Some v => negb (Nat.ltb v (n_frac n)) | None => true end
  && ((negb (type_is "email" R) || mem "email" (n_formats n))
  && ((negb (P "enum") || n_in_enum n)
  && ((negb (P "regex") || n_matches n)
  && ((negb (type_is "uri" R) || mem "uri" (n_formats n))
  && ((negb (type_is "date" R) || mem "date" (n_formats n))
  && ((negb (type_is "datetime" R) || mem "datetime" (n_formats n))
  && (negb (type_is "uuid" R) || mem "uuid" (n_formats n)))))))))))).

Lemma lookup_MF_min : lookup "min" (MF n (entries R)) =
  option_map (fun d => CBound d (flag_true "exclusiveMinimum" R)) (get_num "min" R).
Proof. rewrite lookup_MF_other by reflexivity. apply lookup_M9_min. Qed.
Lemma lookup_MF_max : lookup "max" (MF n (entries R)) =
  option_map (fun d => CBound d (flag_true "exclusiveMaximum" R)) (get_num "max" R).
Proof. rewrite lookup_MF_other by reflexivity. apply lookup_M9_max. Qed.
Lemma lookup_MF_nat : forall k, mem k ["minLength"; "maxLength"; "minItems"; "maxItems"] = true ->
  lookup k (MF n (entries R)) = option_map CNat (get_nat k R).
Proof.
  intros k Hk. rewrite lookup_MF_other; [apply lookup_M9_nat; exact Hk|].
  unfold mem in Hk. cbn [existsb] in Hk. rewrite orb_false_r in Hk.
  repeat (apply orb_true_iff in Hk; destruct Hk as [Hk|Hk]); apply String.eqb_eq in Hk; subst; reflexivity.
Qed.
Lemma lookup_MF_precision : lookup "precision" (MF n (entries R)) =
  match get_nat "precision" R with Some (S p) => Some (CNat (S p)) | _ => None end.
Proof. rewrite lookup_MF_plain by reflexivity. rewrite lookup_M2_plain by reflexivity. apply (d_precision R Hv). Qed.
Lemma lookup_MF_enum : lookup "enum" (MF n (entries R)) = if P "enum" then Some CMark else None.
Proof. rewrite lookup_MF_plain by reflexivity. rewrite lookup_M2_plain by reflexivity. apply (d_enum R Hv). Qed.
Lemma lookup_MF_regex : lookup "regex" (MF n (entries R)) = if P "regex" then Some CMark else None.
Proof. rewrite lookup_MF_plain by reflexivity. rewrite lookup_M2_plain by reflexivity. apply (d_regex R Hv Hwf). Qed.

Lemma stage_validators : is_none (validate_in_order n (MF n (entries R)) validation_order) = r_validators.
Proof.
  rewrite validate_in_order_none. unfold validation_order. cbn [forallb].
  rewrite !lookup_MF_nat by reflexivity. rewrite lookup_MF_min, lookup_MF_max, lookup_MF_precision, lookup_MF_enum, lookup_MF_regex.
  rewrite (lookup_MF_special "email"), (lookup_MF_special "uri"), (lookup_MF_special "date"),
    (lookup_MF_special "datetime"), (lookup_MF_special "uuid") by auto 7.
  unfold r_validators.
  assert (Hc : match lookup "const" (MF n (entries R)) with Some c => is_none (validate_one n "const" c) | None => true end = true).
  { destruct (lookup "const" (MF n (entries R))); reflexivity. }
  rewrite Hc, !andb_true_r.
  f_equal. { destruct (get_nat "minLength" R) as [v|]; [|reflexivity]. cbn [option_map]. unfold validate_one; simpl.
             destruct (Nat.ltb (n_strlen n) v); reflexivity. }
  f_equal. { destruct (get_nat "maxLength" R) as [v|]; [|reflexivity]. cbn [option_map]. unfold validate_one; simpl.
             destruct (Nat.ltb v (n_strlen n)); reflexivity. }
  f_equal. { destruct (get_num "min" R) as [d|]; [|reflexivity]. cbn [option_map]. unfold validate_one; simpl.
             destruct (flag_true "exclusiveMinimum" R); [destruct (dec_leb (n_num n) d)|destruct (dec_ltb (n_num n) d)]; reflexivity. }
  f_equal. { destruct (get_num "max" R) as [d|]; [|reflexivity]. cbn [option_map]. unfold validate_one; simpl.
             destruct (flag_true "exclusiveMaximum" R); [destruct (dec_leb d (n_num n))|destruct (dec_ltb d (n_num n))]; reflexivity. }
  f_equal. { pose proof (precision_nonzero R Hv) as Hp0. destruct (get_nat "precision" R) as [[|v]|]; try reflexivity.
             - exfalso. apply Hp0. reflexivity.
             - unfold validate_one; simpl. destruct (Nat.ltb (S v) (n_frac n)); reflexivity. }
  f_equal. { destruct (type_is "email" R); [|reflexivity]. unfold validate_one; simpl.
             change (existsb (String.eqb "email") (n_formats n)) with (mem "email" (n_formats n)).
             destruct (mem "email" (n_formats n)); [reflexivity|]. destruct (Nat.eqb (n_strlen n) 0); reflexivity. }
  f_equal. { destruct (P "enum"); [|reflexivity]. unfold validate_one; simpl. destruct (n_in_enum n); reflexivity. }
  f_equal. { destruct (P "regex"); [|reflexivity]. unfold validate_one; simpl. destruct (n_matches n); reflexivity. }
  f_equal. { destruct (type_is "uri" R); [|reflexivity]. unfold validate_one; simpl.
             change (existsb (String.eqb "uri") (n_formats n)) with (mem "uri" (n_formats n)).
             destruct (mem "uri" (n_formats n)); reflexivity. }
  f_equal. { destruct (type_is "date" R); [|reflexivity]. unfold validate_one; simpl.
             change (existsb (String.eqb "date") (n_formats n)) with (mem "date" (n_formats n)).
             destruct (mem "date" (n_formats n)); reflexivity. }
  f_equal. { destruct (type_is "datetime" R); [|reflexivity]. unfold validate_one; simpl.
             change (existsb (String.eqb "datetime") (n_formats n)) with (mem "datetime" (n_formats n)).
             destruct (mem "datetime" (n_formats n)); reflexivity. }
  destruct (type_is "uuid" R); [|reflexivity]. unfold validate_one; simpl.
  change (existsb (String.eqb "uuid") (n_formats n)) with (mem "uuid" (n_formats n)).
  destruct (mem "uuid" (n_formats n)); reflexivity.
Qed.


Definition r_addprops : bool :=
  match find_rule "additionalProperties" R with
  | Some v =>
    match new_constraint "additionalProperties" v with
    | Ok (CAddProps (Some name)) => match user_type_kind name with Some _ => true | None => false end
    | _ => true
    end
  | None => true
  end.
Definition r_items : bool :=
  match get_nat "minItems" R with Some v => negb (Nat.ltb (n_children n) v) | None => true end
  && match get_nat "maxItems" R with Some v => negb (Nat.ltb v (n_children n)) | None => true end.
Definition r_literal : bool :=
  match r_types with Some _ => true | None => false end
  || (flag_true "nullable" R && nkind_eqb (n_kind n) NNull)
  || r_validators.
Definition r_final : bool :=
  match n_kind n with
  | NObject => r_addprops
  | NArray => r_items
  | _ => r_literal
  end.

Lemma stage_literal : is_ok (check_literal_node n (MF n (entries R))) = r_literal.
Proof.
  unfold check_literal_node, r_literal, has. rewrite lookup_MF_types.
  destruct r_types; [reflexivity|]. cbn [orb].
  unfold validate_literal_value. rewrite lookup_MF_nullable. rewrite <- stage_validators.
  destruct (flag_true "nullable" R); cbn [andb orb].
  - destruct (nkind_eqb (n_kind n) NNull); [reflexivity|].
    destruct (validate_in_order n (MF n (entries R)) validation_order); reflexivity.
  - destruct (validate_in_order n (MF n (entries R)) validation_order); reflexivity.
Qed.

Lemma stage_final : final_cond n (MF n (entries R)) = r_final.
Proof.
  unfold final_cond, r_final. destruct (n_kind n); try apply stage_literal.
  - unfold check_additional_properties, r_addprops.
    rewrite lookup_MF_plain by reflexivity. rewrite lookup_M2_plain by reflexivity.
    rewrite lookup_entries_simple by (try exact Hv; reflexivity).
    destruct (find_rule "additionalProperties" R) as [v|]; [|reflexivity].
    destruct (new_constraint "additionalProperties" v) as [[| | | | |[name|]| |]|e]; try reflexivity.
    destruct (user_type_kind name); reflexivity.
  - unfold check_array_node, r_items. rewrite !lookup_MF_nat by reflexivity.
    destruct (get_nat "minItems" R) as [a|]; cbn [option_map bind].
    + destruct (Nat.ltb (n_children n) a); cbn [bind negb andb]; [reflexivity|].
      rewrite lookup_MF_nat by reflexivity.
      destruct (get_nat "maxItems" R) as [b|]; cbn [option_map]; [|reflexivity]. destruct (Nat.ltb b (n_children n)); reflexivity.
    + rewrite lookup_MF_nat by reflexivity.
      destruct (get_nat "maxItems" R) as [b|]; cbn [option_map]; [|reflexivity]. destruct (Nat.ltb b (n_children n)); reflexivity.
Qed.

(* the whole pipeline after the loader, at the level of the written rules *)
Definition r_rest : bool :=
  r_allowed && (r_any && (r_exmin && (r_exmax && (pairs_ordered R && (optional_on_property n R &&
  (r_ea && (r_allof && (r_compat && r_links && r_final)))))))).

End Stages.

Definition r_all (n : node) (R : list rule) : bool :=
  r_or n R && (r_enum R && (r_prec R && (r_type n R && r_rest n R))).

Theorem post_cond_rules : forall n R, all_valid R = true -> well_formed_values R = true -> NoDup (keys (entries R)) ->
  post_cond n (entries R) = r_all n R.
Proof.
  intros n R Hv Hwf Hnd. unfold post_cond, r_all.
  rewrite (stage_or n R Hv Hwf Hnd), (stage_enum R Hv Hwf Hnd), (stage_prec R Hv Hwf Hnd), (stage_type n R Hv Hwf Hnd).
  destruct (r_type n R) eqn:Ht; [|rewrite !andb_false_r; reflexivity].
  unfold r_rest.
  rewrite (stage_allowed n R Hv Hwf Hnd Ht), (stage_any n R Hv Hwf Hnd Ht), (stage_exmin n R Hv Hwf Hnd Ht),
    (stage_exmax n R Hv Hwf Hnd Ht), (stage_pairs n R Hv Hwf Hnd Ht), (stage_opt n R Hv Hwf Hnd Ht),
    (stage_ea n R Hv Hwf Hnd Ht), (stage_allof n R Hv Hwf Hnd Ht), (stage_compat n R Hv Hwf Hnd Ht),
    (stage_links n R Hv Hwf Hnd Ht), (stage_final n R Hv Hwf Hnd Ht).
  reflexivity.
Qed.

(* ================================================================== (b) the pipeline against the statement of C08 *)
(* ---- the matrix agrees with the table of the statement *)
Definition all_nkinds : list nkind := [NObject; NArray; NString; NInteger; NFloat; NBoolean; NNull].
Lemma compat_spec_all :
  forallb (fun r => forallb (fun k => Bool.eqb (compat_ok r k) (spec_applies r (jk k))) all_nkinds) constraint_types = true.
Proof. vm_compute. reflexivity. Qed.

Lemma compat_spec : forall r k, mem r constraint_types = true -> compat_ok r k = spec_applies r (jk k).
Proof.
  intros r k Hr. unfold mem in Hr. apply existsb_exists in Hr. destruct Hr as [x [Hx1 Hx2]].
  apply String.eqb_eq in Hx2. subst x.
  pose proof compat_spec_all as H. rewrite forallb_forall in H. specialize (H r Hx1).
  rewrite forallb_forall in H. apply Bool.eqb_prop. apply H. destruct k; simpl; auto 8.
Qed.

Lemma known_in_constraint_types : forall k, mem k known_rule_names = true -> mem k constraint_types = true.
Proof.
  intros k H. unfold mem in *. apply existsb_exists in H. destruct H as [x [Hx1 Hx2]].
  apply String.eqb_eq in Hx2. subst x. apply existsb_exists. exists k. split; [|apply String.eqb_refl].
  assert (Hall : forallb (fun x => existsb (String.eqb x) constraint_types) known_rule_names = true) by (vm_compute; reflexivity).
  rewrite forallb_forall in Hall. specialize (Hall k Hx1). apply existsb_exists in Hall. destruct Hall as [y [Hy1 Hy2]].
  apply String.eqb_eq in Hy2. subst y. exact Hy1.
Qed.

(* ---- names *)
Lemma mem_in : forall x l, mem x l = true <-> In x l.
Proof.
  intros x l. unfold mem. rewrite existsb_exists. split.
  - intros [y [H1 H2]]. apply String.eqb_eq in H2. subst. exact H1.
  - intros H. exists x. split; [exact H|apply String.eqb_refl].
Qed.

Lemma nodup_names_NoDup : forall l, nodup_names l = true <-> NoDup l.
Proof.
  induction l as [|x r IH]; simpl.
  - split; [constructor|reflexivity].
  - rewrite andb_true_iff, negb_true_iff, IH. split.
    + intros [H1 H2]. constructor; [|exact H2]. intros Hin. apply mem_in in Hin. congruence.
    + intros H. inversion H as [|y l Hy Hl]; subst. split; [|exact Hl]. apply mem_false_notin. exact Hy.
Qed.

Lemma find_rule_none : forall k R, ~ In k (map fst R) -> find_rule k R = None.
Proof.
  intros k R. induction R as [|[k' v] R IH]; simpl; intros H; [reflexivity|].
  destruct (String.eqb_spec k' k) as [E|E]; [exfalso; apply H; left; exact E|]. apply IH. intros Hin. apply H. right. exact Hin.
Qed.

Lemma in_find_rule : forall k v R, NoDup (map fst R) -> In (k, v) R -> find_rule k R = Some v.
Proof.
  intros k v R. induction R as [|[k' v'] R IH]; simpl; intros Hnd Hin; [contradiction|].
  inversion Hnd as [|x l Hx Hl]; subst. destruct Hin as [Hin|Hin].
  - inversion Hin. subst. rewrite String.eqb_refl. reflexivity.
  - destruct (String.eqb_spec k' k) as [E|E]; [|exact (IH Hl Hin)].
    exfalso. apply Hx. subst. change k with (fst (k, v)). apply in_map. exact Hin.
Qed.

Lemma has_rule_in : forall k R, has_rule k R = true -> In k (map fst R).
Proof.
  intros k R H. unfold has_rule in H. destruct (find_rule k R) as [v|] eqn:Hf; [|discriminate].
  apply find_rule_in in Hf. change k with (fst (k, v)). apply in_map. exact Hf.
Qed.

(* ---- a valid rule has a known name *)
Lemma rule_valid_known : forall name v, rule_valid (name, v) = true -> mem name known_rule_names = true.
Proof.
  intros name v H. unfold rule_valid, rule_entries in H.
  destruct (String.eqb_spec name "or") as [E|E]; [subst; reflexivity|].
  destruct (String.eqb_spec name "enum") as [E2|E2]; [subst; reflexivity|].
  destruct (String.eqb_spec name "allOf") as [E3|E3]; [subst; reflexivity|].
  destruct (is_literal v); [|discriminate].
  destruct (mem name simple_rule_names) eqn:Hm.
  - unfold known_rule_names, mem. rewrite existsb_app. unfold mem in Hm. rewrite Hm. reflexivity.
  - rewrite (new_constraint_unknown name v Hm) in H. discriminate.
Qed.

(* keys contributed by a valid rule *)
Lemma keys_entries_of : forall name v, rule_valid (name, v) = true ->
  keys (entries_of (name, v)) = if name =? "or" then ["types"; "or"] else [name].
Proof.
  intros name v. unfold rule_valid, entries_of, rule_entries.
  destruct (String.eqb_spec name "or") as [E|E].
  { subst. destruct v as [b|d|s| | |u c a|]; try discriminate. destruct (Nat.leb 2 c); [|discriminate]. reflexivity. }
  destruct (String.eqb_spec name "enum") as [E2|E2].
  { subst. destruct v; try discriminate; reflexivity. }
  destruct (String.eqb_spec name "allOf") as [E3|E3].
  { subst. destruct v as [b|d|s| | |u c a|]; try discriminate. destruct (is_user_type_name s); [|discriminate]. reflexivity. }
  destruct (is_literal v); [|discriminate]. destruct (new_constraint name v); [|discriminate]. reflexivity.
Qed.

Lemma names_in_keys : forall R, all_valid R = true -> forall k, In k (map fst R) -> In k (keys (entries R)).
Proof.
  induction R as [|[name v] R IH]; intros Hv k Hin; [contradiction|].
  rewrite all_valid_cons in Hv. apply andb_true_iff in Hv. destruct Hv as [Hr Hv].
  rewrite entries_cons, keys_app. apply in_or_app. destruct Hin as [Hin|Hin].
  - left. simpl in Hin. subst k. rewrite (keys_entries_of name v Hr). destruct (name =? "or") eqn:E.
    + apply String.eqb_eq in E. subst. right. left. reflexivity.
    + left. reflexivity.
  - right. exact (IH Hv k Hin).
Qed.

Lemma nodup_keys_names : forall R, all_valid R = true -> NoDup (keys (entries R)) -> NoDup (map fst R).
Proof.
  induction R as [|[name v] R IH]; intros Hv Hnd; [constructor|].
  rewrite all_valid_cons in Hv. apply andb_true_iff in Hv. destruct Hv as [Hr Hv].
  rewrite entries_cons, keys_app in Hnd. apply nodup_app_split in Hnd. destruct Hnd as [H1 [H2 H3]].
  simpl. constructor; [|exact (IH Hv H2)].
  intros Hin. apply (H3 name).
  - rewrite (keys_entries_of name v Hr). destruct (name =? "or") eqn:E.
    + apply String.eqb_eq in E. subst. right. left. reflexivity.
    + left. reflexivity.
  - apply names_in_keys; assumption.
Qed.

Lemma keys_in_names : forall R, all_valid R = true -> forall k, In k (keys (entries R)) ->
  In k (map fst R) \/ (k = "types" /\ In "or" (map fst R)).
Proof.
  induction R as [|[name v] R IH]; intros Hv k Hin; [contradiction|].
  rewrite all_valid_cons in Hv. apply andb_true_iff in Hv. destruct Hv as [Hr Hv].
  rewrite entries_cons, keys_app in Hin. apply in_app_or in Hin. destruct Hin as [Hin|Hin].
  - rewrite (keys_entries_of name v Hr) in Hin. destruct (name =? "or") eqn:E.
    + apply String.eqb_eq in E. subst. destruct Hin as [Hin|[Hin|[]]]; subst.
      * right. split; [reflexivity|left; reflexivity].
      * left. left. reflexivity.
    + destruct Hin as [Hin|[]]. subst. left. left. reflexivity.
  - destruct (IH Hv k Hin) as [H|[H1 H2]]; [left; right; exact H|right; split; [exact H1|right; exact H2]].
Qed.

Lemma types_not_a_rule : forall R, all_valid R = true -> ~ In "types" (map fst R).
Proof.
  intros R Hv Hin. apply in_map_iff in Hin. destruct Hin as [[name v] [H1 H2]]. simpl in H1. subst name.
  unfold all_valid in Hv. rewrite forallb_forall in Hv. specialize (Hv _ H2).
  apply rule_valid_known in Hv. vm_compute in Hv. discriminate.
Qed.

Lemma nodup_names_keys : forall R, all_valid R = true -> NoDup (map fst R) -> NoDup (keys (entries R)).
Proof.
  induction R as [|[name v] R IH]; intros Hv Hnd; [constructor|].
  pose proof (types_not_a_rule _ Hv) as Hty.
  rewrite all_valid_cons in Hv. apply andb_true_iff in Hv. destruct Hv as [Hr Hv].
  inversion Hnd as [|x l Hx Hl]; subst.
  rewrite entries_cons, keys_app. apply nodup_app_join.
  - rewrite (keys_entries_of name v Hr). destruct (name =? "or"); [|apply nodup_single].
    constructor; [intros [H|[]]; discriminate|apply nodup_single].
  - exact (IH Hv Hl).
  - intros k Hk Hin. rewrite (keys_entries_of name v Hr) in Hk.
    destruct (keys_in_names R Hv k Hin) as [H|[H1 H2]].
    + destruct (name =? "or") eqn:E.
      * apply String.eqb_eq in E. subst. destruct Hk as [Hk|[Hk|[]]]; subst.
        -- apply Hty. right. exact H.
        -- exact (Hx H).
      * destruct Hk as [Hk|[]]. subst. exact (Hx H).
    + subst k. destruct (name =? "or") eqn:E.
      * apply String.eqb_eq in E. subst. exact (Hx H2).
      * destruct Hk as [Hk|[]]. subst. apply Hty. left. reflexivity.
Qed.

(* ---- from the statement to a loadable rule list *)
Lemma known_cases : forall k, mem k known_rule_names = true ->
  k = "minLength" \/ k = "maxLength" \/ k = "min" \/ k = "max" \/ k = "exclusiveMinimum" \/ k = "exclusiveMaximum" \/
  k = "type" \/ k = "precision" \/ k = "optional" \/ k = "minItems" \/ k = "maxItems" \/ k = "additionalProperties" \/
  k = "nullable" \/ k = "regex" \/ k = "const" \/ k = "enum" \/ k = "or" \/ k = "allOf".
Proof.
  intros k H. unfold mem, known_rule_names, simple_rule_names in H. cbn [app existsb] in H.
  repeat (apply orb_true_iff in H; destruct H as [H|H]); try (apply String.eqb_eq in H; subst; auto 20). discriminate.
Qed.

Lemma user_type_kind_object : forall s, user_type_kind s = Some NObject -> s = "@o".
Proof.
  intros s. unfold user_type_kind. destruct (s =? "@t"); [discriminate|].
  destruct (String.eqb_spec s "@o"); [auto|discriminate].
Qed.

Lemma user_type_kind_some : forall s k, user_type_kind s = Some k -> is_user_type_name s = true.
Proof.
  intros s k. unfold user_type_kind. destruct (String.eqb_spec s "@t"); [subst; reflexivity|].
  destruct (String.eqb_spec s "@o"); [subst; reflexivity|discriminate].
Qed.

Lemma valid_of_spec : forall R, well_formed_values R = true -> all_known R = true ->
  NoDup (map fst R) -> values_admissible R = true -> all_valid R = true.
Proof.
  intros R Hwf Hk Hnd Hadm. unfold all_valid. apply forallb_forall. intros [name v] Hin.
  unfold well_formed_values in Hwf. rewrite forallb_forall in Hwf. specialize (Hwf _ Hin).
  unfold all_known in Hk. rewrite forallb_forall in Hk. specialize (Hk _ Hin). cbn [fst] in Hk.
  pose proof (in_find_rule name v R Hnd Hin) as Hf.
  unfold values_admissible in Hadm. repeat (apply andb_true_iff in Hadm; destruct Hadm as [Hadm ?Ha]).
  unfold get_nat, get_str in *.
  destruct (known_cases name Hk) as [E|[E|[E|[E|[E|[E|[E|[E|[E|[E|[E|[E|[E|[E|[E|[E|[E|E]]]]]]]]]]]]]]]]]; subst name;
    rewrite ?Hf in *; unfold rule_valid, rule_entries; simpl in Hwf |- *.
  all: try (destruct v as [b|[m [|e]]|s| | |u c a|]; try discriminate; simpl; simpl in Hwf;
            try reflexivity).
  - unfold new_constraint, parse_uint in *; destruct m; simpl in *; try discriminate; reflexivity.
  - unfold new_constraint, parse_uint in *; destruct m; simpl in *; try discriminate; reflexivity.
  - unfold new_constraint, parse_uint in *; destruct m as [|p|p]; simpl in *; try discriminate.
    destruct (Pos.to_nat p); [discriminate|reflexivity].
  - unfold new_constraint, parse_uint in *; destruct m; simpl in *; try discriminate; reflexivity.
  - unfold new_constraint, parse_uint in *; destruct m; simpl in *; try discriminate; reflexivity.
  - unfold new_constraint; simpl. destruct b; reflexivity.
  - unfold new_constraint. simpl. destruct ((s =? "any") || (s =? "true") || (s =? "false")) eqn:E1; [reflexivity|].
    destruct (is_user_type_name s); [reflexivity|]. simpl in Ha0. rewrite Ha0. reflexivity.
  - destruct c as [|[|c]]; try discriminate. reflexivity.
  - destruct (user_type_kind s) as [[| | | | | |]|] eqn:Eu; try discriminate.
    rewrite (user_type_kind_some s _ Eu). reflexivity.
Qed.

Lemma new_constraint_addprops : forall v,
  new_constraint "additionalProperties" v =
  match literal_text v with
  | Some t =>
    if (t =? "any") || (t =? "true") || (t =? "false") then Ok (CAddProps None)
    else if is_user_type_name t then Ok (CAddProps (Some t))
    else if addprops_type_name t then Ok (CAddProps None)
    else Err ErrUnknownJSchemaType
  | None => Err ErrUnknownJSchemaType
  end.
Proof. reflexivity. Qed.

Section Equiv.
Variable n : node.
Variable R : list rule.
Hypothesis Hwf : well_formed_values R = true.
Hypothesis Hsc : in_scope n R = true.
Hypothesis Hv : all_valid R = true.
Hypothesis Hnn : NoDup (map fst R).

Lemma E_in : forall name v, In (name, v) R -> find_rule name R = Some v.
Proof. intros name v H. apply in_find_rule; assumption. Qed.

Lemma E_known : forall name v, In (name, v) R -> mem name known_rule_names = true.
Proof.
  intros name v H. apply (rule_valid_known name v). unfold all_valid in Hv. rewrite forallb_forall in Hv. apply Hv. exact H.
Qed.

Lemma E_has : forall name v, In (name, v) R -> has_rule name R = true.
Proof. intros name v H. unfold has_rule. rewrite (E_in name v H). reflexivity. Qed.

Lemma E_has_inv : forall name, has_rule name R = true -> exists v, In (name, v) R /\ find_rule name R = Some v.
Proof.
  intros name H. unfold has_rule in H. destruct (find_rule name R) as [v|] eqn:Hf; [|discriminate].
  exists v. split; [apply find_rule_in; exact Hf|reflexivity].
Qed.

Lemma Sc_const : get_bool "const" R = Some false ->
  is_branch (n_kind n) = false /\ has_rule "or" R = false /\ type_is "any" R = false /\ type_is_reference R = false.
Proof.
  intros Hc. unfold in_scope in Hsc. apply negb_true_iff in Hsc.
  apply orb_false_iff in Hsc. destruct Hsc as [Hs _]. apply orb_false_iff in Hs. destruct Hs as [Hs _].
  unfold misplaced_false_const in Hs. rewrite Hc in Hs.
  repeat (apply orb_false_iff in Hs; destruct Hs as [Hs ?]). auto.
Qed.

Lemma Sc_max : n_kind n = NArray -> n_children n = 0 -> nz (get_nat "maxItems" R) = false.
Proof.
  intros Hk Hc. unfold in_scope in Hsc. apply negb_true_iff in Hsc.
  apply orb_false_iff in Hsc. destruct Hsc as [Hs _]. apply orb_false_iff in Hs. destruct Hs as [_ Hs].
  unfold empty_array_with_max in Hs. rewrite Hk, Hc in Hs. simpl in Hs.
  unfold nz. destruct (get_nat "maxItems" R) as [[|x]|]; try reflexivity. discriminate.
Qed.

Lemma Sc_cont : is_branch (n_kind n) = true ->
  (type_is "any" R = true -> n_children n = 0) /\
  (forall u c a, find_rule "or" R = Some (VOrList u c a) -> u = false /\ n_children n = 0) /\
  type_is_reference R = false.
Proof.
  intros Hb. unfold in_scope in Hsc. apply negb_true_iff in Hsc.
  apply orb_false_iff in Hsc. destruct Hsc as [_ Hs]. unfold container_alternatives in Hs. rewrite Hb in Hs. simpl in Hs.
  apply orb_false_iff in Hs. destruct Hs as [Hs H3]. apply orb_false_iff in Hs. destruct Hs as [H1 H2].
  split; [|split].
  - intros Ha. rewrite Ha in H1. simpl in H1. apply negb_false_iff in H1. apply Nat.eqb_eq. exact H1.
  - intros u c a Hf. rewrite Hf in H2. apply orb_false_iff in H2. destruct H2 as [H2 H2'].
    split; [exact H2|]. apply negb_false_iff in H2'. apply Nat.eqb_eq. exact H2'.
  - exact H3.
Qed.

Lemma E_fexc : forall name v, In (name, v) R -> fexc (name, v) = true ->
  name = "nullable" \/ (name = "const" /\ get_bool "const" R = Some false).
Proof.
  intros name v Hin Hf. unfold fexc in Hf. cbn [fst snd] in Hf. apply andb_true_iff in Hf. destruct Hf as [H1 H2].
  destruct v as [[|]| | | | | |]; try discriminate.
  apply orb_true_iff in H1. destruct H1 as [H1|H1]; apply String.eqb_eq in H1; subst.
  - left. reflexivity.
  - right. split; [reflexivity|]. unfold get_bool. rewrite (E_in _ _ Hin). reflexivity.
Qed.

Lemma ok_rule_only : forall (Q : string -> bool) (L' : list string),
  (forall name v, In (name, v) R -> (name =? "or") = false -> fexc (name, v) = false -> Q name = mem name L') ->
  Q "types" && Q "or" = mem "or" L' ->
  (forall name v, In (name, v) R -> fexc (name, v) = true -> mem name L' = true) ->
  forallb (ok_rule Q) R = only_with L' R.
Proof.
  intros Q L' H1 H2 H3. unfold only_with. apply forallb_ext_in'. intros [name v] Hin. unfold ok_rule. cbn [fst snd].
  destruct (String.eqb_spec name "or") as [E|E].
  - subst. rewrite H2. unfold fexc. simpl. apply orb_false_r.
  - destruct (fexc (name, v)) eqn:Ef.
    + rewrite orb_true_r. symmetry. exact (H3 name v Hin Ef).
    + rewrite orb_false_r. apply (H1 name v Hin); [apply String.eqb_neq; exact E|exact Ef].
Qed.

Lemma known_not_types : forall name v, In (name, v) R -> (name =? "types") = false.
Proof.
  intros name v Hin. apply String.eqb_neq. intros E. subst.
  apply (types_not_a_rule R Hv). change "types" with (fst ("types", v)). apply in_map. exact Hin.
Qed.


Lemma O_or : has_rule "or" R = true ->
  forallb (ok_rule (fun k => mem k Lor)) R = only_with ["or"; "optional"; "nullable"; "type"] R.
Proof.
  intros Hp. apply ok_rule_only.
  - intros name v Hin _ _. unfold Lor. rewrite mem_cons. rewrite (known_not_types name v Hin). reflexivity.
  - reflexivity.
  - intros name v Hin Hf. destruct (E_fexc name v Hin Hf) as [E|[E Hc]]; subst; [reflexivity|].
    destruct (Sc_const Hc) as [_ [H _]]. congruence.
Qed.

Lemma O_enum : forallb (ok_rule (fun k => (k =? "or") || mem k Lenum)) R =
  only_with ["enum"; "optional"; "const"; "nullable"; "type"] R.
Proof.
  apply ok_rule_only.
  - intros name v Hin Hn _. rewrite Hn. reflexivity.
  - reflexivity.
  - intros name v Hin Hf. destruct (E_fexc name v Hin Hf) as [E|[E Hc]]; subst; reflexivity.
Qed.

Lemma bool_rule_value : forall k v, mem k bool_rules = true -> In (k, v) R -> exists b, v = VBool b.
Proof.
  intros k v Hk Hin. unfold well_formed_values in Hwf. rewrite forallb_forall in Hwf. specialize (Hwf _ Hin).
  unfold value_kind_ok in Hwf.
  unfold mem, bool_rules in Hk. cbn [existsb] in Hk.
  repeat (apply orb_true_iff in Hk; destruct Hk as [Hk|Hk]); try discriminate;
    apply String.eqb_eq in Hk; subst; simpl in Hwf; destruct v; try discriminate; eexists; reflexivity.
Qed.

Lemma O_any : type_is "any" R = true -> flag_true "const" R = false ->
  forallb (ok_rule (fun k => (k =? "or") || ((k =? "type") || mem k Lany))) R = only_with ["type"; "optional"; "nullable"] R.
Proof.
  intros Ha Hc. apply ok_rule_only.
  - intros name v Hin Hn Hf.
    destruct (known_cases name (E_known name v Hin)) as [E|[E|[E|[E|[E|[E|[E|[E|[E|[E|[E|[E|[E|[E|[E|[E|[E|E]]]]]]]]]]]]]]]]];
      subst name; try reflexivity; try discriminate.
    exfalso. destruct (bool_rule_value "const" v eq_refl Hin) as [b Hb]. subst v.
    destruct b; [|discriminate]. unfold flag_true, get_bool in Hc. rewrite (E_in _ _ Hin) in Hc. discriminate.
  - reflexivity.
  - intros name v Hin Hf. destruct (E_fexc name v Hin Hf) as [E|[E Hcf]]; subst; [reflexivity|].
    destruct (Sc_const Hcf) as [_ [_ [H _]]]. congruence.
Qed.

Lemma O_ref : type_is_reference R = true ->
  forallb (ok_rule (fun k => (k =? "or") || mem k Lref)) R = only_with ["type"; "optional"; "nullable"] R.
Proof.
  intros Hr. apply ok_rule_only.
  - intros name v Hin Hn _. rewrite Hn. reflexivity.
  - reflexivity.
  - intros name v Hin Hf. destruct (E_fexc name v Hin Hf) as [E|[E Hcf]]; subst; [reflexivity|].
    destruct (Sc_const Hcf) as [_ [_ [_ H]]]. congruence.
Qed.

Lemma P_type : has_rule "type" R = match get_str "type" R with Some _ => true | None => false end.
Proof.
  unfold has_rule, get_str. destruct (find_rule "type" R) as [v|] eqn:Hf; [|reflexivity].
  pose proof (find_rule_wf R Hwf _ _ Hf) as Hw. simpl in Hw. destruct v; try discriminate. reflexivity.
Qed.

Lemma type_opt_is_eq : forall s, type_opt_is R s = negb (has_rule "type" R) || type_is s R.
Proof. intros s. unfold type_opt_is, type_is. rewrite P_type. destruct (get_str "type" R); reflexivity. Qed.

Lemma only_with_has : forall L' k, only_with L' R = true -> has_rule k R = true -> mem k L' = true.
Proof.
  intros L' k Ho Hp. destruct (E_has_inv k Hp) as [v [Hin _]].
  unfold only_with in Ho. rewrite forallb_forall in Ho. exact (Ho _ Hin).
Qed.


(* ------------------------------------------------------------ pipeline conditions => statement *)
Section Forward.
Hypothesis Hor : r_or n R = true.
Hypothesis Hen : r_enum R = true.
Hypothesis Hpr : r_prec R = true.
Hypothesis Hty : r_type n R = true.
Hypothesis Hal : r_allowed R = true.
Hypothesis Han : r_any n R = true.
Hypothesis Hxm : r_exmin R = true.
Hypothesis HxM : r_exmax R = true.
Hypothesis Hea : r_ea n R = true.
Hypothesis Hao : r_allof n R = true.
Hypothesis Hco : r_compat n R = true.
Hypothesis Hli : r_links n R = true.
Hypothesis Hfi : r_final n R = true.

Lemma F_known : all_known R = true.
Proof. unfold all_known. apply forallb_forall. intros [name v] Hin. exact (E_known name v Hin). Qed.

Lemma F_rule_compat : forall name v, In (name, v) R ->
  ok_rule (fun k => (k =? "or") || ((k =? "type") || Qc n k)) (name, v) = true.
Proof.
  intros name v Hin. unfold r_compat in Hco. apply andb_true_iff in Hco. destruct Hco as [H _].
  rewrite forallb_forall in H. exact (H _ Hin).
Qed.

(* a rule that is not exempted is compatible with the kind *)
Lemma F_compat_of : forall name v, In (name, v) R ->
  (name =? "or") = false -> (name =? "type") = false -> (name =? "exclusiveMinimum") = false ->
  (name =? "exclusiveMaximum") = false -> (name =? "allOf") = false -> fexc (name, v) = false ->
  compat_ok name (n_kind n) = true.
Proof.
  intros name v Hin K1 K2 K3 K4 K5 K6. pose proof (F_rule_compat name v Hin) as H.
  unfold ok_rule, Qc in H. cbn [fst] in H. rewrite K1, K2, K3, K4, K5, K6 in H. simpl in H.
  rewrite orb_false_r in H. exact H.
Qed.

Lemma F_apply : all_apply (n_kind n) R = true.
Proof.
  unfold all_apply. apply forallb_forall. intros [name v] Hin. cbn [fst].
  destruct (String.eqb_spec name "or") as [E1|E1]; [subst; destruct (n_kind n); reflexivity|].
  destruct (String.eqb_spec name "type") as [E2|E2]; [subst; destruct (n_kind n); reflexivity|].
  destruct (String.eqb_spec name "exclusiveMinimum") as [E3|E3].
  { subst. unfold r_exmin, P in Hxm. rewrite (E_has _ _ Hin) in Hxm. simpl in Hxm.
    destruct (E_has_inv "min" Hxm) as [v' [Hin' _]].
    pose proof (F_compat_of "min" v' Hin' eq_refl eq_refl eq_refl eq_refl eq_refl eq_refl) as Hc.
    destruct (n_kind n); try discriminate; reflexivity. }
  destruct (String.eqb_spec name "exclusiveMaximum") as [E4|E4].
  { subst. unfold r_exmax, P in HxM. rewrite (E_has _ _ Hin) in HxM. simpl in HxM.
    destruct (E_has_inv "max" HxM) as [v' [Hin' _]].
    pose proof (F_compat_of "max" v' Hin' eq_refl eq_refl eq_refl eq_refl eq_refl eq_refl) as Hc.
    destruct (n_kind n); try discriminate; reflexivity. }
  destruct (String.eqb_spec name "allOf") as [E5|E5].
  { subst. unfold r_allof in Hao. unfold get_str in Hao. rewrite (E_in _ _ Hin) in Hao.
    pose proof (find_rule_wf R Hwf _ _ (E_in _ _ Hin)) as Hw. simpl in Hw. destruct v as [| |s| | | |]; try discriminate.
    destruct (user_type_kind s) as [[| | | | | |]|]; try discriminate. destruct (n_kind n); try discriminate. reflexivity. }
  destruct (fexc (name, v)) eqn:Ef.
  { destruct (E_fexc name v Hin Ef) as [E|[E Hc]]; subst; [destruct (n_kind n); reflexivity|].
    destruct (Sc_const Hc) as [Hb _]. destruct (n_kind n); try discriminate; reflexivity. }
  rewrite <- compat_spec by (apply known_in_constraint_types; exact (E_known name v Hin)).
  apply (F_compat_of name v Hin); try (apply String.eqb_neq; assumption). exact Ef.
Qed.

Lemma F_exclusive : exclusive_have_bound R = true.
Proof. unfold exclusive_have_bound. unfold r_exmin, r_exmax, P in *. rewrite Hxm, HxM. reflexivity. Qed.

Lemma F_precision : precision_with_decimal R = true.
Proof.
  unfold precision_with_decimal. apply andb_true_iff. split.
  - unfold r_prec in Hpr. rewrite type_opt_is_eq in Hpr. unfold P in Hpr.
    destruct (has_rule "precision" R), (has_rule "type" R), (type_is "decimal" R); try reflexivity; discriminate.
  - destruct (type_is "decimal" R) eqn:Ed; [|reflexivity]. simpl.
    unfold type_is in Ed. unfold r_type in Hty. destruct (get_str "type" R) as [s|]; [|discriminate].
    apply String.eqb_eq in Ed. subst s. simpl in Hty. apply andb_true_iff in Hty. destruct Hty as [H _]. exact H.
Qed.

Lemma F_formats : formats_exclude R = true.
Proof.
  unfold formats_exclude, excluded_by_formats. cbn [forallb]. unfold r_allowed, P in Hal.
  destruct (type_in formats R); [|reflexivity]. simpl in Hal |- *.
  destruct (has_rule "minLength" R), (has_rule "maxLength" R), (has_rule "regex" R); try reflexivity; discriminate.
Qed.

Lemma F_any_noconst : type_is "any" R = true -> flag_true "const" R = false.
Proof.
  intros Ha. unfold r_allowed in Hal. rewrite Ha in Hal. destruct (flag_true "const" R); [|reflexivity].
  rewrite orb_true_r in Hal. discriminate.
Qed.

Lemma F_foreign : not_foreign R = true.
Proof.
  unfold not_foreign. repeat (apply andb_true_iff; split).
  - destruct (has_rule "enum" R) eqn:Hp; [|reflexivity]. simpl.
    unfold r_enum, P in Hen. rewrite Hp in Hen. cbn [negb orb] in Hen. apply andb_true_iff in Hen. destruct Hen as [H1 H2].
    rewrite O_enum in H2. rewrite H2. rewrite type_opt_is_eq in H1. exact H1.
  - destruct (has_rule "or" R) eqn:Hp; [|reflexivity]. simpl.
    unfold r_or, P in Hor. rewrite Hp in Hor. cbn [negb orb] in Hor.
    destruct (find_rule "or" R) as [[| | | | |u c a|]|]; try discriminate.
    apply andb_true_iff in Hor. destruct Hor as [X1 _]. apply andb_true_iff in X1. destruct X1 as [X2 _].
    apply andb_true_iff in X2. destruct X2 as [Ha Hb].
    rewrite (O_or Hp) in Hb. rewrite Hb. rewrite type_opt_is_eq in Ha. exact Ha.
  - destruct (type_is "any" R) eqn:Ha; [|reflexivity]. simpl.
    unfold r_any in Han. rewrite Ha in Han. cbn [negb orb] in Han. apply andb_true_iff in Han. destruct Han as [H1 _].
    rewrite (O_any Ha (F_any_noconst Ha)) in H1. exact H1.
  - destruct (type_is_reference R) eqn:Hr; [|reflexivity]. simpl.
    pose proof Hr as Hr'. unfold type_is_reference in Hr'. unfold r_type in Hty.
    destruct (get_str "type" R) as [s|]; [|discriminate]. rewrite Hr' in Hty.
    apply andb_true_iff in Hty. destruct Hty as [X1 _]. apply andb_true_iff in X1. destruct X1 as [X2 _].
    rewrite (O_ref Hr) in X2. exact X2.
Qed.


Lemma F_admissible : values_admissible R = true.
Proof.
  unfold values_admissible. repeat (apply andb_true_iff; split).
  - pose proof (precision_nonzero R Hv) as H. destruct (get_nat "precision" R) as [[|p]|]; try reflexivity. exfalso. apply H. reflexivity.
  - destruct (find_rule "or" R) as [v|] eqn:Hf; [|reflexivity].
    pose proof (find_rule_valid _ _ _ Hv Hf) as Hr. unfold rule_valid, rule_entries in Hr. simpl in Hr.
    destruct v as [| | | | |u c a|]; try reflexivity. destruct c as [|[|c]]; try discriminate. reflexivity.
  - destruct (find_rule "additionalProperties" R) as [v|] eqn:Hf; [|reflexivity].
    destruct v as [| |s| | | |]; try reflexivity.
    pose proof (find_rule_in _ _ _ Hf) as Hin.
    pose proof (F_compat_of "additionalProperties" (VStr s) Hin eq_refl eq_refl eq_refl eq_refl eq_refl eq_refl) as Hc.
    pose proof (find_rule_valid _ _ _ Hv Hf) as Hr. unfold rule_valid, rule_entries in Hr.
    cbn [String.eqb Ascii.eqb Bool.eqb is_literal] in Hr.
    unfold r_final in Hfi. destruct (n_kind n); try discriminate. unfold r_addprops in Hfi. rewrite Hf in Hfi.
    rewrite new_constraint_addprops in Hr, Hfi. cbn [literal_text] in Hr, Hfi.
    destruct ((s =? "any") || (s =? "true") || (s =? "false")) eqn:Es.
    + destruct (is_user_type_name s) eqn:Eu; [|reflexivity]. exfalso.
      repeat (apply orb_true_iff in Es; destruct Es as [Es|Es]); apply String.eqb_eq in Es; subst; discriminate.
    + destruct (is_user_type_name s); [exact Hfi|]. cbn [orb]. destruct (addprops_type_name s); [reflexivity|discriminate].
  - unfold r_allof in Hao. destruct (get_str "allOf" R) as [s|]; [|reflexivity].
    destruct (user_type_kind s) as [[| | | | | |]|]; try discriminate. reflexivity.
Qed.


Lemma has_rule_false : forall k, has_rule k R = false -> find_rule k R = None.
Proof. intros k H. unfold has_rule in H. destruct (find_rule k R); [discriminate|reflexivity]. Qed.

Lemma lookup_types_extra_nonref : forall s, get_str "type" R = Some s -> is_user_type_name s = false ->
  lookup "types" (r_extra n R) = None.
Proof.
  intros s Hs Hu. unfold r_extra. rewrite Hs, Hu.
  destruct (s =? "mixed"); [reflexivity|]. destruct (s =? "enum"); [reflexivity|].
  destruct (s =? "any"); [reflexivity|]. destruct (s =? "decimal"); [reflexivity|].
  destruct (is_format s) eqn:Ef; [|reflexivity].
  destruct (is_format_cases s Ef) as [E|[E|[E|[E|E]]]]; subst; reflexivity.
Qed.

(* a rule other than or / optional / nullable / type / const excludes a types list *)
Lemma F_no_types : forall x v, In (x, v) R -> mem x ["or"; "optional"; "nullable"; "type"; "const"] = false ->
  r_types n R = None.
Proof.
  intros x v Hin Hx. unfold r_types.
  assert (Hnf : fexc (x, v) = false).
  { destruct (fexc (x, v)) eqn:Ef; [|reflexivity]. destruct (E_fexc x v Hin Ef) as [E|[E _]]; subst; discriminate. }
  destruct (has_rule "or" R) eqn:Hp.
  - exfalso. unfold r_or, P in Hor. rewrite Hp in Hor. cbn [negb orb] in Hor.
    destruct (find_rule "or" R) as [[| | | | |u c a|]|]; try discriminate.
    apply andb_true_iff in Hor. destruct Hor as [X1 _]. apply andb_true_iff in X1. destruct X1 as [X2 _].
    apply andb_true_iff in X2. destruct X2 as [_ Hb]. rewrite forallb_forall in Hb. specialize (Hb _ Hin).
    unfold ok_rule in Hb. cbn [fst] in Hb. rewrite Hnf, orb_false_r in Hb.
    destruct (String.eqb_spec x "or") as [E|E]; [subst; discriminate|].
    unfold Lor in Hb. rewrite mem_cons, (known_not_types x v Hin) in Hb. cbn [orb] in Hb.
    unfold mem in Hb, Hx. cbn [existsb] in Hb, Hx.
    repeat (apply orb_false_iff in Hx; destruct Hx as [?K Hx]). rewrite ?K, ?K0, ?K1, ?K2 in Hb. discriminate.
  - rewrite (has_rule_false _ Hp).
    destruct (get_str "type" R) as [s|] eqn:Hs; [|unfold r_extra; rewrite Hs; reflexivity].
    destruct (is_user_type_name s) eqn:Hu; [|exact (lookup_types_extra_nonref s Hs Hu)].
    exfalso. unfold r_type in Hty. rewrite Hs, Hu in Hty.
    apply andb_true_iff in Hty. destruct Hty as [X1 _]. apply andb_true_iff in X1. destruct X1 as [Hb _].
    rewrite forallb_forall in Hb. specialize (Hb _ Hin).
    unfold ok_rule in Hb. cbn [fst] in Hb. rewrite Hnf, orb_false_r in Hb.
    unfold mem in Hx. cbn [existsb] in Hx. repeat (apply orb_false_iff in Hx; destruct Hx as [?K Hx]).
    rewrite K in Hb. unfold Lref, mem in Hb. cbn [existsb] in Hb. rewrite ?K, ?K0, ?K1, ?K2 in Hb. discriminate.
Qed.

Lemma F_validators : r_types n R = None -> is_branch (n_kind n) = false ->
  (flag_true "nullable" R && nkind_eqb (n_kind n) NNull) = false -> r_validators n R = true.
Proof.
  intros H1 H2 H3. unfold r_final in Hfi. unfold r_literal in Hfi. rewrite H1, H3 in Hfi.
  destruct (n_kind n); try discriminate; exact Hfi.
Qed.


Lemma get_num_in : forall k d, get_num k R = Some d -> In (k, VNum d) R.
Proof.
  intros k d H. unfold get_num in H. destruct (find_rule k R) as [v|] eqn:Hf; [|discriminate].
  destruct v; try discriminate. inversion H. subst. apply find_rule_in. exact Hf.
Qed.
Lemma get_nat_in : forall k x, get_nat k R = Some x -> exists v, In (k, v) R.
Proof.
  intros k x H. unfold get_nat in H. destruct (find_rule k R) as [v|] eqn:Hf; [|discriminate].
  exists v. apply find_rule_in. exact Hf.
Qed.

Lemma validators_split : r_validators n R = true ->
  match get_nat "minLength" R with Some v => negb (Nat.ltb (n_strlen n) v) | None => true end = true /\
  match get_nat "maxLength" R with Some v => negb (Nat.ltb v (n_strlen n)) | None => true end = true /\
  match get_num "min" R with
  | Some d => if flag_true "exclusiveMinimum" R then negb (dec_leb (n_num n) d) else negb (dec_ltb (n_num n) d)
  | None => true end = true /\
  match get_num "max" R with
  | Some d => if flag_true "exclusiveMaximum" R then negb (dec_leb d (n_num n)) else negb (dec_ltb d (n_num n))
  | None => true end = true /\
  match get_nat "precision" R with Some v => negb (Nat.ltb v (n_frac n)) | None => true end = true /\
  (negb (type_is "email" R) || mem "email" (n_formats n)) = true /\
  (negb (P R "enum") || n_in_enum n) = true /\
  (negb (P R "regex") || n_matches n) = true /\
  (negb (type_is "uri" R) || mem "uri" (n_formats n)) = true /\
  (negb (type_is "date" R) || mem "date" (n_formats n)) = true /\
  (negb (type_is "datetime" R) || mem "datetime" (n_formats n)) = true /\
  (negb (type_is "uuid" R) || mem "uuid" (n_formats n)) = true.
Proof.
  unfold r_validators. intros H.
  repeat (apply andb_true_iff in H; destruct H as [?V H]). repeat split; assumption.
Qed.

(* the validators run when a rule that only literals of a non-null kind take is present *)
Lemma F_validators_for : forall x v, In (x, v) R ->
  mem x ["or"; "optional"; "nullable"; "type"; "const"; "exclusiveMinimum"; "exclusiveMaximum"; "allOf"] = false ->
  (forall k, compat_ok x k = true -> is_branch k = false /\ nkind_eqb k NNull = false) ->
  r_validators n R = true.
Proof.
  intros x v Hin Hx Hk.
  unfold mem in Hx. cbn [existsb] in Hx. repeat (apply orb_false_iff in Hx; destruct Hx as [?K Hx]).
  assert (Hnf : fexc (x, v) = false).
  { unfold fexc. cbn [fst]. rewrite K1, K3. reflexivity. }
  pose proof (F_compat_of x v Hin K K2 K4 K5 K6 Hnf) as Hc. destruct (Hk _ Hc) as [Hb Hn].
  apply F_validators; [|exact Hb|rewrite Hn; apply andb_false_r].
  apply (F_no_types x v Hin). unfold mem. cbn [existsb]. rewrite K, K0, K1, K2, K3. reflexivity.
Qed.


Lemma mem_formats : forall s, mem s formats = is_format s.
Proof.
  intros s. unfold mem, formats, is_format. cbn [existsb].
  destruct (s =? "email"), (s =? "uri"), (s =? "uuid"), (s =? "date"), (s =? "datetime"); reflexivity.
Qed.

Lemma get_str_type_in : forall s, get_str "type" R = Some s -> In ("type", VStr s) R.
Proof.
  intros s H. unfold get_str in H. destruct (find_rule "type" R) as [v|] eqn:Hf; [|discriminate].
  destruct v; try discriminate. inversion H. subst. apply find_rule_in. exact Hf.
Qed.

Lemma F_type_matches : type_matches n R = true.
Proof.
  unfold type_matches. destruct (get_str "type" R) as [s|] eqn:Hs; [|reflexivity].
  destruct (is_user_type_name s) eqn:Hu.
  - (* a type reference: the link check *)
    pose proof Hty as X. unfold r_type in X. rewrite Hs, Hu in X.
    apply andb_true_iff in X. destruct X as [_ Hno]. apply negb_true_iff in Hno. unfold P in Hno.
    unfold r_links, r_types in Hli. rewrite (has_rule_false _ Hno) in Hli.
    unfold r_extra in Hli. rewrite Hs, Hu in Hli. cbn [lookup String.eqb Ascii.eqb Bool.eqb] in Hli.
    unfold ref_types in Hli. destruct (user_type_kind s); [exact Hli|discriminate].
  - pose proof Hty as X. unfold r_type in X. rewrite Hs, Hu in X. unfold r_json in X.
    apply andb_true_iff in X. destruct X as [Hh Hsr].
    destruct (String.eqb_spec s "any") as [E|E]; [reflexivity|].
    destruct (String.eqb_spec s "enum") as [E2|E2]. { subst. exact Hh. }
    destruct (String.eqb_spec s "mixed") as [E3|E3]. { subst. exact Hh. }
    destruct (String.eqb_spec s "decimal") as [E4|E4]. { subst. exact Hsr. }
    rewrite mem_formats. destruct (is_format s) eqn:Ef; [|exact Hh].
    assert (Hk : nkind_eqb (n_kind n) NString = true).
    { destruct (is_format_cases s Ef) as [E5|[E5|[E5|[E5|E5]]]]; subst; exact Hsr. }
    rewrite Hk. cbn [andb].
    (* the format validator ran *)
    assert (Hnor : has_rule "or" R = false).
    { destruct (has_rule "or" R) eqn:Hp; [|reflexivity]. exfalso.
      pose proof Hor as Y. unfold r_or, P in Y. rewrite Hp in Y. cbn [negb orb] in Y.
      destruct (find_rule "or" R) as [[| | | | |u c a|]|]; try discriminate.
      apply andb_true_iff in Y. destruct Y as [Y _]. apply andb_true_iff in Y. destruct Y as [Y _].
      apply andb_true_iff in Y. destruct Y as [Y _]. unfold type_opt_is in Y. rewrite Hs in Y.
      apply String.eqb_eq in Y. contradiction. }
    assert (Hrt : r_types n R = None).
    { unfold r_types. rewrite (has_rule_false _ Hnor). exact (lookup_types_extra_nonref s Hs Hu). }
    assert (Hb : is_branch (n_kind n) = false) by (destruct (n_kind n); try discriminate; reflexivity).
    assert (Hnn' : (flag_true "nullable" R && nkind_eqb (n_kind n) NNull) = false).
    { destruct (n_kind n); try discriminate. apply andb_false_r. }
    destruct (validators_split (F_validators Hrt Hb Hnn')) as [_ [_ [_ [_ [_ [V6 [_ [_ [V9 [V10 [V11 V12]]]]]]]]]]].
    unfold type_is in V6, V9, V10, V11, V12. rewrite Hs in V6, V9, V10, V11, V12.
    destruct (is_format_cases s Ef) as [E5|[E5|[E5|[E5|E5]]]]; subst; assumption.
Qed.

Lemma dec_ltb_of : forall a b, negb (dec_leb b a) = true -> dec_ltb a b = true.
Proof. intros a b H. rewrite <- dec_leb_antisym. exact H. Qed.
Lemma dec_leb_of : forall a b, negb (dec_ltb b a) = true -> dec_leb a b = true.
Proof. intros a b H. rewrite <- dec_ltb_antisym. exact H. Qed.
Lemma nat_leb_of : forall a b, negb (Nat.ltb b a) = true -> Nat.leb a b = true.
Proof. intros a b H. rewrite Nat.ltb_antisym, negb_involutive in H. exact H. Qed.

Lemma compat_numeric : forall x, (x = "min" \/ x = "max") -> forall k, compat_ok x k = true -> is_branch k = false /\ nkind_eqb k NNull = false.
Proof. intros x [E|E] k H; subst; destruct k; try discriminate; split; reflexivity. Qed.
Lemma compat_string : forall x, (x = "minLength" \/ x = "maxLength" \/ x = "regex") -> forall k, compat_ok x k = true -> is_branch k = false /\ nkind_eqb k NNull = false.
Proof. intros x [E|[E|E]] k H; subst; destruct k; try discriminate; split; reflexivity. Qed.
Lemma compat_precision : forall k, compat_ok "precision" k = true -> is_branch k = false /\ nkind_eqb k NNull = false.
Proof. intros k H; destruct k; try discriminate; split; reflexivity. Qed.

Lemma F_obeys : example_obeys n R = true.
Proof.
  unfold example_obeys. repeat (apply andb_true_iff; split).
  - exact F_type_matches.
  - destruct (get_num "min" R) as [d|] eqn:Hg; [|reflexivity].
    pose proof (F_validators_for "min" (VNum d) (get_num_in _ _ Hg) eq_refl (compat_numeric "min" (or_introl eq_refl))) as Hvv.
    destruct (validators_split Hvv) as [_ [_ [V [_ _]]]]. rewrite Hg in V.
    destruct (flag_true "exclusiveMinimum" R); [apply dec_ltb_of|apply dec_leb_of]; exact V.
  - destruct (get_num "max" R) as [d|] eqn:Hg; [|reflexivity].
    pose proof (F_validators_for "max" (VNum d) (get_num_in _ _ Hg) eq_refl (compat_numeric "max" (or_intror eq_refl))) as Hvv.
    destruct (validators_split Hvv) as [_ [_ [_ [V _]]]]. rewrite Hg in V.
    destruct (flag_true "exclusiveMaximum" R); [apply dec_ltb_of|apply dec_leb_of]; exact V.
  - destruct (get_nat "minLength" R) as [x|] eqn:Hg; [|reflexivity]. destruct (get_nat_in _ _ Hg) as [v Hin].
    pose proof (F_validators_for "minLength" v Hin eq_refl (compat_string "minLength" (or_introl eq_refl))) as Hvv.
    destruct (validators_split Hvv) as [V _]. rewrite Hg in V. apply nat_leb_of. exact V.
  - destruct (get_nat "maxLength" R) as [x|] eqn:Hg; [|reflexivity]. destruct (get_nat_in _ _ Hg) as [v Hin].
    pose proof (F_validators_for "maxLength" v Hin eq_refl (compat_string "maxLength" (or_intror (or_introl eq_refl)))) as Hvv.
    destruct (validators_split Hvv) as [_ [V _]]. rewrite Hg in V. apply nat_leb_of. exact V.
  - destruct (get_nat "precision" R) as [x|] eqn:Hg; [|reflexivity]. destruct (get_nat_in _ _ Hg) as [v Hin].
    pose proof (F_validators_for "precision" v Hin eq_refl compat_precision) as Hvv.
    destruct (validators_split Hvv) as [_ [_ [_ [_ [V _]]]]]. rewrite Hg in V. apply nat_leb_of. exact V.
  - destruct (has_rule "regex" R) eqn:Hp; [|reflexivity]. destruct (E_has_inv _ Hp) as [v [Hin _]].
    pose proof (F_validators_for "regex" v Hin eq_refl (compat_string "regex" (or_intror (or_intror eq_refl)))) as Hvv.
    destruct (validators_split Hvv) as [_ [_ [_ [_ [_ [_ [_ [V _]]]]]]]]. unfold P in V. rewrite Hp in V. exact V.
  - destruct (has_rule "enum" R) eqn:Hp; [|reflexivity]. destruct (E_has_inv _ Hp) as [v [Hin _]]. cbn [negb orb].
    pose proof (F_compat_of "enum" v Hin eq_refl eq_refl eq_refl eq_refl eq_refl eq_refl) as Hc.
    assert (Hb : is_branch (n_kind n) = false) by (destruct (n_kind n); try discriminate; reflexivity).
    pose proof (F_no_types "enum" v Hin eq_refl) as Hrt.
    destruct (flag_true "nullable" R && nkind_eqb (n_kind n) NNull) eqn:Hnl; [apply orb_true_r|].
    destruct (validators_split (F_validators Hrt Hb Hnl)) as [_ [_ [_ [_ [_ [_ [V _]]]]]]]. unfold P in V. rewrite Hp in V.
    cbn [negb orb] in V. rewrite V. reflexivity.
  - destruct (get_nat "minItems" R) as [x|] eqn:Hg; [|reflexivity]. destruct (get_nat_in _ _ Hg) as [v Hin].
    pose proof (F_compat_of "minItems" v Hin eq_refl eq_refl eq_refl eq_refl eq_refl eq_refl) as Hc.
    unfold r_final in Hfi. destruct (n_kind n); try discriminate. unfold r_items in Hfi. rewrite Hg in Hfi.
    apply andb_true_iff in Hfi. destruct Hfi as [X _]. apply nat_leb_of. exact X.
  - destruct (get_nat "maxItems" R) as [x|] eqn:Hg; [|reflexivity]. destruct (get_nat_in _ _ Hg) as [v Hin].
    pose proof (F_compat_of "maxItems" v Hin eq_refl eq_refl eq_refl eq_refl eq_refl eq_refl) as Hc.
    unfold r_final in Hfi. destruct (n_kind n); try discriminate. unfold r_items in Hfi. rewrite Hg in Hfi.
    apply andb_true_iff in Hfi. destruct Hfi as [_ X]. apply nat_leb_of. exact X.
  - destruct (find_rule "or" R) as [[| | | | |u c a|]|] eqn:Hf; try reflexivity.
    unfold r_links, r_types in Hli. rewrite Hf in Hli. exact Hli.
Qed.


Theorem F_spec : optional_on_property n R = true -> pairs_ordered R = true -> spec_ok n R = true.
Proof.
  intros Hop Hpa. unfold spec_ok.
  rewrite F_known, (proj2 (nodup_names_NoDup _) Hnn), F_apply, Hop, Hpa, F_exclusive, F_precision, F_formats,
    F_foreign, F_admissible, F_obeys. reflexivity.
Qed.

End Forward.

(* ------------------------------------------------------------ statement => pipeline conditions *)
Section Backward.
Hypothesis Sap : all_apply (n_kind n) R = true.
Hypothesis Sex : exclusive_have_bound R = true.
Hypothesis Spr : precision_with_decimal R = true.
Hypothesis Sfo : formats_exclude R = true.
Hypothesis Snf : not_foreign R = true.
Hypothesis Sad : values_admissible R = true.
Hypothesis Sob : example_obeys n R = true.

Lemma B_applies : forall name v, In (name, v) R -> spec_applies name (jk (n_kind n)) = true.
Proof. intros name v Hin. unfold all_apply in Sap. rewrite forallb_forall in Sap. exact (Sap _ Hin). Qed.

Lemma Snf_enum : has_rule "enum" R = true ->
  only_with ["enum"; "optional"; "const"; "nullable"; "type"] R = true /\ (negb (has_rule "type" R) || type_is "enum" R) = true.
Proof.
  intros Hp. unfold not_foreign in Snf. apply andb_true_iff in Snf. destruct Snf as [X _].
  apply andb_true_iff in X. destruct X as [X _]. apply andb_true_iff in X. destruct X as [X _].
  rewrite Hp in X. cbn [negb orb] in X. apply andb_true_iff in X. exact X.
Qed.
Lemma Snf_or : has_rule "or" R = true ->
  only_with ["or"; "optional"; "nullable"; "type"] R = true /\ (negb (has_rule "type" R) || type_is "mixed" R) = true.
Proof.
  intros Hp. unfold not_foreign in Snf. apply andb_true_iff in Snf. destruct Snf as [X _].
  apply andb_true_iff in X. destruct X as [X _]. apply andb_true_iff in X. destruct X as [_ X].
  rewrite Hp in X. cbn [negb orb] in X. apply andb_true_iff in X. exact X.
Qed.
Lemma Snf_any : type_is "any" R = true -> only_with ["type"; "optional"; "nullable"] R = true.
Proof.
  intros Hp. unfold not_foreign in Snf. apply andb_true_iff in Snf. destruct Snf as [X _].
  apply andb_true_iff in X. destruct X as [_ X]. rewrite Hp in X. exact X.
Qed.
Lemma Snf_ref : type_is_reference R = true -> only_with ["type"; "optional"; "nullable"] R = true.
Proof.
  intros Hp. unfold not_foreign in Snf. apply andb_true_iff in Snf. destruct Snf as [_ X]. rewrite Hp in X. exact X.
Qed.

Lemma B_or : r_or n R = true.
Proof.
  unfold r_or, P. destruct (has_rule "or" R) eqn:Hp; [|reflexivity]. cbn [negb orb].
  destruct (or_rule_shape R Hv Hp) as [u [c [a [Hf Hc]]]]. rewrite Hf.
  destruct (Snf_or Hp) as [H1 H2]. rewrite (O_or Hp), H1. rewrite type_opt_is_eq, H2. cbn [andb].
  unfold br_children. destruct (is_branch (n_kind n)) eqn:Hb; [|reflexivity].
  destruct (Sc_cont Hb) as [_ [X _]]. destruct (X u c a Hf) as [Hu Hch]. subst u. rewrite Hch. reflexivity.
Qed.

Lemma B_enum : r_enum R = true.
Proof.
  unfold r_enum, P. destruct (has_rule "enum" R) eqn:Hp; [|reflexivity]. cbn [negb orb].
  destruct (Snf_enum Hp) as [H1 H2]. rewrite O_enum, H1, type_opt_is_eq, H2. reflexivity.
Qed.

Lemma B_prec : r_prec R = true.
Proof.
  unfold r_prec, P. rewrite type_opt_is_eq. unfold precision_with_decimal in Spr.
  apply andb_true_iff in Spr. destruct Spr as [X _].
  destruct (has_rule "precision" R), (has_rule "type" R), (type_is "decimal" R); try reflexivity; discriminate.
Qed.

Lemma nkind_eqb_sym : forall a b, nkind_eqb a b = nkind_eqb b a.
Proof. intros a b; destruct a, b; reflexivity. Qed.

Lemma type_matches_of : type_matches n R = true.
Proof.
  pose proof Sob as X. unfold example_obeys in X. do 10 (apply andb_true_iff in X; destruct X as [X _]). exact X.
Qed.

Lemma B_type : r_type n R = true.
Proof.
  unfold r_type. pose proof type_matches_of as Htm. unfold type_matches in Htm.
  destruct (get_str "type" R) as [s|] eqn:Hs; [|reflexivity].
  destruct (is_user_type_name s) eqn:Hu.
  - assert (Hr : type_is_reference R = true) by (unfold type_is_reference; rewrite Hs; exact Hu).
    pose proof (Snf_ref Hr) as Ho. rewrite (O_ref Hr), Ho. cbn [andb].
    apply andb_true_iff. split.
    + destruct (is_branch (n_kind n)) eqn:Hb; [|reflexivity]. destruct (Sc_cont Hb) as [_ [_ X]]. congruence.
    + unfold P. destruct (has_rule "or" R) eqn:Hp; [|reflexivity]. pose proof (only_with_has _ _ Ho Hp) as X. discriminate.
  - unfold r_json. pose proof (get_str_type_in s Hs) as Hin.
    destruct (String.eqb_spec s "mixed") as [E3|E3].
    { subst. simpl in Htm. simpl. unfold P. rewrite Htm. reflexivity. }
    destruct (String.eqb_spec s "enum") as [E2|E2].
    { subst. simpl in Htm. simpl. unfold P. rewrite Htm. cbn [andb].
      destruct (E_has_inv "enum" Htm) as [v [Hin' _]]. pose proof (B_applies _ _ Hin') as Ha.
      destruct (n_kind n); try discriminate; reflexivity. }
    destruct (String.eqb_spec s "any") as [E|E]. { subst. reflexivity. }
    destruct (String.eqb_spec s "decimal") as [E4|E4].
    { subst. simpl in Htm. unfold precision_with_decimal in Spr. apply andb_true_iff in Spr. destruct Spr as [_ X].
      unfold type_is in X. rewrite Hs in X. simpl in X. simpl. unfold P. rewrite X. exact Htm. }
    apply String.eqb_neq in E, E2, E3, E4. rewrite ?E, ?E2, ?E3, ?E4 in Htm. rewrite mem_formats in Htm.
    destruct (is_format s) eqn:Ef.
    + apply andb_true_iff in Htm. destruct Htm as [Hk _].
      destruct (is_format_cases s Ef) as [E5|[E5|[E5|[E5|E5]]]]; subst; exact Hk.
    + destruct (json_type_of_name s) as [t|] eqn:Ej; [|discriminate]. rewrite Htm. cbn [andb].
      unfold set_real_type. unfold is_format in Ef. rewrite ?E, ?E2, ?E3, ?E4, Ef, Ej. cbn [orb].
      rewrite nkind_eqb_sym. exact Htm.
Qed.


Lemma B_any_noconst : type_is "any" R = true -> flag_true "const" R = false.
Proof.
  intros Ha. pose proof (Snf_any Ha) as Ho. unfold flag_true, get_bool.
  destruct (find_rule "const" R) as [v|] eqn:Hf; [|reflexivity].
  assert (Hp : has_rule "const" R = true) by (unfold has_rule; rewrite Hf; reflexivity).
  pose proof (only_with_has _ _ Ho Hp) as X. discriminate.
Qed.

Lemma B_allowed : r_allowed R = true.
Proof.
  unfold r_allowed, P. unfold formats_exclude, excluded_by_formats in Sfo. cbn [forallb] in Sfo.
  destruct (type_is "any" R) eqn:Ha.
  - rewrite (B_any_noconst Ha). rewrite andb_false_r, orb_false_r.
    destruct (type_in formats R); [|reflexivity]. cbn [negb orb] in Sfo.
    destruct (has_rule "minLength" R), (has_rule "maxLength" R), (has_rule "regex" R); try reflexivity; discriminate.
  - cbn [andb]. rewrite orb_false_r.
    destruct (type_in formats R); [|reflexivity]. cbn [negb orb] in Sfo.
    destruct (has_rule "minLength" R), (has_rule "maxLength" R), (has_rule "regex" R); try reflexivity; discriminate.
Qed.

Lemma B_any : r_any n R = true.
Proof.
  unfold r_any. destruct (type_is "any" R) eqn:Ha; [|reflexivity]. cbn [negb orb].
  rewrite (O_any Ha (B_any_noconst Ha)), (Snf_any Ha). cbn [andb].
  unfold br_children. destruct (is_branch (n_kind n)) eqn:Hb; [|reflexivity].
  destruct (Sc_cont Hb) as [X _]. rewrite (X Ha). reflexivity.
Qed.

Lemma B_exmin : r_exmin R = true.
Proof.
  unfold r_exmin, P. unfold exclusive_have_bound in Sex. apply andb_true_iff in Sex. destruct Sex as [X _]. exact X.
Qed.
Lemma B_exmax : r_exmax R = true.
Proof.
  unfold r_exmax, P. unfold exclusive_have_bound in Sex. apply andb_true_iff in Sex. destruct Sex as [_ X]. exact X.
Qed.

Lemma Sob_parts :
  match get_nat "minItems" R with Some v => Nat.leb v (n_children n) | None => true end = true /\
  match get_nat "maxItems" R with Some v => Nat.leb (n_children n) v | None => true end = true /\
  match find_rule "or" R with
  | Some (VOrList _ _ a) => a || (flag_true "nullable" R && nkind_eqb (n_kind n) NNull)
  | _ => true
  end = true.
Proof.
  pose proof Sob as X. unfold example_obeys in X.
  apply andb_true_iff in X. destruct X as [X H3]. apply andb_true_iff in X. destruct X as [X H2].
  apply andb_true_iff in X. destruct X as [X H1]. split; [exact H1|split; [exact H2|exact H3]].
Qed.

Lemma B_ea : r_ea n R = true.
Proof.
  unfold r_ea. destruct (n_kind n) eqn:Hk; try reflexivity.
  destruct (Nat.eqb (n_children n) 0) eqn:Hc; [|reflexivity]. cbn [negb orb]. apply Nat.eqb_eq in Hc.
  rewrite (Sc_max Hk Hc). destruct Sob_parts as [X _]. rewrite Hc in X.
  destruct (get_nat "minItems" R) as [[|x]|]; try reflexivity. discriminate.
Qed.

Lemma B_allof : r_allof n R = true.
Proof.
  unfold r_allof. destruct (get_str "allOf" R) as [s|] eqn:Hs; [|reflexivity].
  pose proof Sad as X. unfold values_admissible in X. apply andb_true_iff in X. destruct X as [_ X]. rewrite Hs in X.
  destruct (user_type_kind s) as [[| | | | | |]|]; try discriminate.
  assert (Hin : exists v, In ("allOf", v) R).
  { unfold get_str in Hs. destruct (find_rule "allOf" R) as [v|] eqn:Hf; [|discriminate]. exists v. apply find_rule_in. exact Hf. }
  destruct Hin as [v Hin]. pose proof (B_applies _ _ Hin) as Ha. destruct (n_kind n); try discriminate; reflexivity.
Qed.

Lemma compat_types_any : forall k, compat_ok "types" k = true /\ compat_ok "any" k = true.
Proof. intros k; destruct k; split; reflexivity. Qed.

Lemma B_compat : r_compat n R = true.
Proof.
  unfold r_compat. apply andb_true_iff. split.
  - apply forallb_forall. intros [name v] Hin. unfold ok_rule. cbn [fst].
    destruct (String.eqb_spec name "or") as [E|E].
    { unfold Qc. destruct (compat_types_any (n_kind n)) as [X _]. rewrite X. simpl. rewrite ?orb_true_r. reflexivity. }
    apply orb_true_iff. left. unfold Qc.
    destruct (name =? "type"); [apply orb_true_r|]. destruct (name =? "exclusiveMinimum"); [rewrite ?orb_true_r; reflexivity|].
    destruct (name =? "exclusiveMaximum"); [rewrite ?orb_true_r; reflexivity|].
    destruct (name =? "allOf"); [rewrite ?orb_true_r; reflexivity|].
    rewrite compat_spec by (apply known_in_constraint_types; exact (E_known name v Hin)).
    rewrite (B_applies name v Hin). rewrite ?orb_true_r. reflexivity.
  - unfold r_extra. pose proof type_matches_of as Htm. unfold type_matches in Htm.
    destruct (get_str "type" R) as [s|]; [|reflexivity].
    destruct (is_user_type_name s).
    { cbn [forallb fst]. unfold Qc. destruct (compat_types_any (n_kind n)) as [X _]. rewrite X. rewrite ?orb_true_r. reflexivity. }
    destruct (String.eqb_spec s "mixed") as [N0|N0]; [reflexivity|]. destruct (String.eqb_spec s "enum") as [N1|N1]; [reflexivity|].
    destruct (String.eqb_spec s "any") as [N2|N2].
    { cbn [forallb fst]. unfold Qc. destruct (compat_types_any (n_kind n)) as [_ X]. rewrite X. rewrite ?orb_true_r. reflexivity. }
    destruct (String.eqb_spec s "decimal") as [N3|N3]; [reflexivity|].
    destruct (is_format s) eqn:Ef; [|reflexivity].
    apply String.eqb_neq in N0, N1, N2, N3. rewrite ?N0, ?N1, ?N2, ?N3 in Htm. rewrite mem_formats, Ef in Htm.
    apply andb_true_iff in Htm. destruct Htm as [Hk _]. cbn [forallb fst]. unfold Qc.
    destruct (n_kind n); try discriminate.
    destruct (is_format_cases s Ef) as [E5|[E5|[E5|[E5|E5]]]]; subst; reflexivity.
Qed.

Lemma B_links : r_links n R = true.
Proof.
  unfold r_links, r_types. destruct Sob_parts as [_ [_ X]].
  destruct (find_rule "or" R) as [[| | | | |u c a|]|] eqn:Hf; try exact X.
  all: try (exfalso; pose proof (find_rule_wf R Hwf _ _ Hf) as Hw; simpl in Hw; discriminate).
  unfold r_extra. pose proof type_matches_of as Htm. unfold type_matches in Htm.
  destruct (get_str "type" R) as [s|]; [|reflexivity].
  destruct (is_user_type_name s).
  - cbn [lookup String.eqb Ascii.eqb Bool.eqb]. unfold ref_types. destruct (user_type_kind s); [exact Htm|discriminate].
  - destruct (s =? "mixed"); [reflexivity|]. destruct (s =? "enum"); [reflexivity|].
    destruct (s =? "any"); [reflexivity|]. destruct (s =? "decimal"); [reflexivity|].
    destruct (is_format s) eqn:Ef; [|reflexivity].
    destruct (is_format_cases s Ef) as [E5|[E5|[E5|[E5|E5]]]]; subst; reflexivity.
Qed.


Lemma Sob_parts2 :
  match get_num "min" R with
  | Some d => if flag_true "exclusiveMinimum" R then dec_ltb d (n_num n) else dec_leb d (n_num n)
  | None => true end = true /\
  match get_num "max" R with
  | Some d => if flag_true "exclusiveMaximum" R then dec_ltb (n_num n) d else dec_leb (n_num n) d
  | None => true end = true /\
  match get_nat "minLength" R with Some v => Nat.leb v (n_strlen n) | None => true end = true /\
  match get_nat "maxLength" R with Some v => Nat.leb (n_strlen n) v | None => true end = true /\
  match get_nat "precision" R with Some v => Nat.leb (n_frac n) v | None => true end = true /\
  (negb (has_rule "regex" R) || n_matches n) = true /\
  (negb (has_rule "enum" R) || n_in_enum n || (flag_true "nullable" R && nkind_eqb (n_kind n) NNull)) = true.
Proof.
  pose proof Sob as X. unfold example_obeys in X.
  do 3 (apply andb_true_iff in X; destruct X as [X _]).
  apply andb_true_iff in X. destruct X as [X H7]. apply andb_true_iff in X. destruct X as [X H6].
  apply andb_true_iff in X. destruct X as [X H5]. apply andb_true_iff in X. destruct X as [X H4].
  apply andb_true_iff in X. destruct X as [X H3]. apply andb_true_iff in X. destruct X as [X H2].
  apply andb_true_iff in X. destruct X as [X H1]. auto 10.
Qed.

Lemma negb_ltb_of : forall a b, Nat.leb a b = true -> negb (Nat.ltb b a) = true.
Proof. intros a b H. rewrite Nat.ltb_antisym, negb_involutive. exact H. Qed.

Lemma B_format : forall f, is_format f = true -> (negb (type_is f R) || mem f (n_formats n)) = true.
Proof.
  intros f Hf. destruct (type_is f R) eqn:Ht; [|reflexivity]. cbn [negb orb].
  pose proof type_matches_of as Htm. unfold type_matches in Htm. unfold type_is in Ht.
  destruct (get_str "type" R) as [s|]; [|discriminate]. apply String.eqb_eq in Ht. subst s.
  destruct (is_format_cases f Hf) as [E5|[E5|[E5|[E5|E5]]]]; subst; simpl in Htm;
    apply andb_true_iff in Htm; destruct Htm as [_ X]; exact X.
Qed.

Lemma B_literal : r_literal n R = true.
Proof.
  unfold r_literal. destruct (r_types n R); [reflexivity|]. cbn [orb].
  destruct (flag_true "nullable" R && nkind_eqb (n_kind n) NNull) eqn:Hnl; [reflexivity|]. cbn [orb].
  destruct Sob_parts2 as [X1 [X2 [X3 [X4 [X5 [X6 X7]]]]]].
  unfold r_validators, P. repeat (apply andb_true_iff; split).
  + destruct (get_nat "minLength" R); [apply negb_ltb_of; exact X3|reflexivity].
  + destruct (get_nat "maxLength" R); [apply negb_ltb_of; exact X4|reflexivity].
  + destruct (get_num "min" R); [|reflexivity]. destruct (flag_true "exclusiveMinimum" R); [rewrite dec_leb_antisym|rewrite dec_ltb_antisym]; exact X1.
  + destruct (get_num "max" R); [|reflexivity]. destruct (flag_true "exclusiveMaximum" R); [rewrite dec_leb_antisym|rewrite dec_ltb_antisym]; exact X2.
  + destruct (get_nat "precision" R); [apply negb_ltb_of; exact X5|reflexivity].
  + apply B_format. reflexivity.
  + rewrite Hnl, orb_false_r in X7. exact X7.
  + exact X6.
  + apply B_format. reflexivity.
  + apply B_format. reflexivity.
  + apply B_format. reflexivity.
  + apply B_format. reflexivity.
Qed.

Lemma B_final : r_final n R = true.
Proof.
  unfold r_final. destruct (n_kind n) eqn:Hk; try apply B_literal.
  - (* object *)
    unfold r_addprops. destruct (find_rule "additionalProperties" R) as [v|] eqn:Hf; [|reflexivity].
    rewrite new_constraint_addprops.
    pose proof (find_rule_wf R Hwf _ _ Hf) as Hw. simpl in Hw.
    destruct v as [b| |s| | | |]; try discriminate.
    + destruct b; reflexivity.
    + cbn [literal_text]. pose proof Sad as X. unfold values_admissible in X.
      apply andb_true_iff in X. destruct X as [X _]. apply andb_true_iff in X. destruct X as [_ X]. rewrite Hf in X.
      destruct ((s =? "any") || (s =? "true") || (s =? "false")); [reflexivity|].
      destruct (is_user_type_name s).
      * destruct (user_type_kind s); [reflexivity|discriminate].
      * destruct (addprops_type_name s); reflexivity.
  - (* array *)
    unfold r_items. destruct Sob_parts as [X1 [X2 _]]. apply andb_true_iff. split.
    + destruct (get_nat "minItems" R); [apply negb_ltb_of; exact X1|reflexivity].
    + destruct (get_nat "maxItems" R); [apply negb_ltb_of; exact X2|reflexivity].
Qed.

Theorem B_all : optional_on_property n R = true -> pairs_ordered R = true -> r_all n R = true.
Proof.
  intros Hop Hpa. unfold r_all, r_rest.
  rewrite B_or, B_enum, B_prec, B_type, B_allowed, B_any, B_exmin, B_exmax, Hpa, Hop, B_ea, B_allof, B_compat, B_links, B_final.
  reflexivity.
Qed.

End Backward.

End Equiv.

Lemma shape_entries : forall R, all_valid R = true -> well_formed_values R = true -> shape (entries R).
Proof.
  intros R Hv Hwf. split; intros c Hc.
  - rewrite (d_type R Hv Hwf) in Hc. destruct (get_str "type" R) as [s|]; [|discriminate].
    inversion Hc. eexists. reflexivity.
  - rewrite (d_allof R Hv) in Hc. destruct (get_str "allOf" R) as [s|]; [|discriminate].
    inversion Hc. eexists. reflexivity.
Qed.

Lemma andb_split : forall a b, a && b = true -> a = true /\ b = true.
Proof. intros a b H. apply andb_true_iff. exact H. Qed.

(* (b) Check succeeds exactly on the rule sets the statement of C08 describes.
   [well_formed_values] only excludes rule values of the wrong JSON kind (a number where a boolean is expected...);
   [in_scope] excludes the three classes on which the library departs from the statement (see the _refuted lemmas). *)
Theorem check_iff_spec : forall n rules,
  well_formed_values rules = true -> in_scope n rules = true ->
  (is_ok (check_node n rules) = true <-> spec_ok n rules = true).
Proof.
  intros n R Hwf Hsc. rewrite check_node_unfold.
  pose proof (load_rules_char R [] (NoDup_nil _)) as Hl. simpl in Hl.
  split.
  - intros H. destruct (load_rules [] R) as [m|e]; [|discriminate]. destruct Hl as [Hv [Hm Hnd]]. subst m. simpl in H.
    rewrite post_load_normal in H by (try exact Hnd; apply shape_entries; assumption).
    rewrite post_cond_rules in H by assumption.
    pose proof (nodup_keys_names R Hv Hnd) as Hnn.
    unfold r_all, r_rest in H.
    apply andb_split in H. destruct H as [H1 H]. apply andb_split in H. destruct H as [H2 H].
    apply andb_split in H. destruct H as [H3 H]. apply andb_split in H. destruct H as [H4 H].
    apply andb_split in H. destruct H as [H5 H]. apply andb_split in H. destruct H as [H6 H].
    apply andb_split in H. destruct H as [H7 H]. apply andb_split in H. destruct H as [H8 H].
    apply andb_split in H. destruct H as [H9 H]. apply andb_split in H. destruct H as [H10 H].
    apply andb_split in H. destruct H as [H11 H]. apply andb_split in H. destruct H as [H12 H].
    apply andb_split in H. destruct H as [H H15]. apply andb_split in H. destruct H as [H13 H14].
    apply (F_spec n R Hwf Hsc Hv Hnn H1 H2 H3 H4 H5 H6 H7 H8 H12 H13 H14 H15 H10 H9).
  - intros H. unfold spec_ok in H.
    apply andb_split in H. destruct H as [H S11]. apply andb_split in H. destruct H as [H S10].
    apply andb_split in H. destruct H as [H S9]. apply andb_split in H. destruct H as [H S8].
    apply andb_split in H. destruct H as [H S7]. apply andb_split in H. destruct H as [H S6].
    apply andb_split in H. destruct H as [H S5]. apply andb_split in H. destruct H as [H S4].
    apply andb_split in H. destruct H as [H S3]. apply andb_split in H. destruct H as [S1 S2].
    apply nodup_names_NoDup in S2.
    pose proof (valid_of_spec R Hwf S1 S2 S10) as Hv.
    pose proof (nodup_names_keys R Hv S2) as Hnd.
    destruct (load_rules [] R) as [m|e].
    + destruct Hl as [_ [Hm _]]. subst m. simpl.
      rewrite post_load_normal by (try exact Hnd; apply shape_entries; assumption).
      rewrite post_cond_rules by assumption.
      apply (B_all n R Hwf Hsc Hv S2 S3 S6 S7 S8 S9 S10 S11 S4 S5).
    + exfalso. destruct Hl as [Hl|Hl]; [congruence|exact (Hl Hnd)].
Qed.

(* ================================================================== the classes outside [in_scope]: witnesses
   Each lemma exhibits a node and a well-formed rule list on which Check and the statement of C08 disagree. *)
Definition mk_node (k : nkind) (p : npos) (children : nat) (num : dec) (strlen frac : nat) : node :=
  {| n_kind := k; n_pos := p; n_children := children; n_num := num; n_strlen := strlen; n_frac := frac;
     n_matches := false; n_in_enum := false; n_formats := [] |}.
Definition ex_empty_object := mk_node NObject PRoot 0 (0%Z, 0) 0 0.        (* {} *)
Definition ex_object := mk_node NObject PRoot 1 (0%Z, 0) 0 0.              (* { "k": 1 } *)
Definition ex_empty_array := mk_node NArray PRoot 0 (0%Z, 0) 0 0.          (* [] *)
Definition ex_integer := mk_node NInteger PRoot 0 (5%Z, 0) 0 0.            (* 5 *)
Definition ex_string := mk_node NString PRoot 0 (0%Z, 0) 3 0.              (* "abc" *)

(* (1) `const: false` is removed by falseConstraints before anything is checked:
       {} // {const: false}   is accepted although const does not apply to objects,
       5 // {type: "any", const: false}   is accepted although `const: true` is refused next to "any". *)
Lemma check_iff_spec_refuted_false_const :
  well_formed_values [("const", VBool false)] = true /\
  is_ok (check_node ex_empty_object [("const", VBool false)]) = true /\
  spec_ok ex_empty_object [("const", VBool false)] = false /\
  is_ok (check_node ex_integer [("type", VStr "any"); ("const", VBool false)]) = true /\
  spec_ok ex_integer [("type", VStr "any"); ("const", VBool false)] = false /\
  check_node ex_integer [("type", VStr "any"); ("const", VBool true)] = Err ErrUnexpectedConstraint.
Proof. vm_compute. repeat split; reflexivity. Qed.

(* (2) an empty array example refuses every maxItems but 0:   [] // {maxItems: 1}   -> 1204 *)
Lemma check_iff_spec_refuted_empty_array :
  well_formed_values [("maxItems", VNum (1%Z, 0))] = true /\
  check_node ex_empty_array [("maxItems", VNum (1%Z, 0))] = Err ErrIncorrectConstraintValueForEmptyArray /\
  spec_ok ex_empty_array [("maxItems", VNum (1%Z, 0))] = true.
Proof. vm_compute. repeat split; reflexivity. Qed.

(* (3) or / any / a type reference on an object or array example:
       { // {type: "any"} "k": 1 }  -> 1106,   {} // {type: "@o"}  -> 1107,   {} // {or: ["@o", "@t"]}  -> 1108 *)
Lemma check_iff_spec_refuted_container :
  check_node ex_object [("type", VStr "any")] = Err ErrInvalidNestedElementsFoundForTypeAny /\
  spec_ok ex_object [("type", VStr "any")] = true /\
  check_node ex_empty_object [("type", VStr "@o")] = Err ErrInvalidChildNodeTogetherWithTypeReference /\
  spec_ok ex_empty_object [("type", VStr "@o")] = true /\
  check_node ex_empty_object [("or", VOrList true 2 true)] = Err ErrInvalidChildNodeTogetherWithOrRule /\
  spec_ok ex_empty_object [("or", VOrList true 2 true)] = true.
Proof. vm_compute. repeat split; reflexivity. Qed.

(* the three witnesses are exactly outside the scope of check_iff_spec *)
Lemma witnesses_out_of_scope :
  in_scope ex_empty_object [("const", VBool false)] = false /\
  in_scope ex_empty_array [("maxItems", VNum (1%Z, 0))] = false /\
  in_scope ex_object [("type", VStr "any")] = false.
Proof. vm_compute. repeat split; reflexivity. Qed.

(* ================================================================== (c) non-vacuity *)
(* 5 // {min: 1, max: 9, exclusiveMinimum: true, nullable: true}  is accepted, in scope, and satisfies the statement *)
Definition ex_rules4 : list rule :=
  [("min", VNum (1%Z, 0)); ("max", VNum (9%Z, 0)); ("exclusiveMinimum", VBool true); ("nullable", VBool true)].
Example accepted_four_rules :
  is_ok (check_node ex_integer ex_rules4) = true /\ spec_ok ex_integer ex_rules4 = true /\
  well_formed_values ex_rules4 = true /\ in_scope ex_integer ex_rules4 = true.
Proof. vm_compute. repeat split; reflexivity. Qed.

(* "abc" // {min: 1}: a numeric rule on a string *)
Example rejected_wrong_kind :
  check_node ex_string [("min", VNum (1%Z, 0))] = Err ErrUnexpectedConstraint /\ spec_ok ex_string [("min", VNum (1%Z, 0))] = false.
Proof. vm_compute. split; reflexivity. Qed.

(* 5 // {min: 9, max: 1}: reversed pair *)
Example rejected_reversed_pair :
  check_node ex_integer [("min", VNum (9%Z, 0)); ("max", VNum (1%Z, 0))] = Err ErrValueOfOneConstraintGreaterThanAnother /\
  spec_ok ex_integer [("min", VNum (9%Z, 0)); ("max", VNum (1%Z, 0))] = false.
Proof. vm_compute. split; reflexivity. Qed.

(* 5 // {exclusiveMinimum: true}: the flag without its bound *)
Example rejected_exclusive_without_bound :
  check_node ex_integer [("exclusiveMinimum", VBool true)] = Err ErrConstraintMinNotFound /\
  spec_ok ex_integer [("exclusiveMinimum", VBool true)] = false.
Proof. vm_compute. split; reflexivity. Qed.

(* 5 // {min: 5, max: 5}  is accepted,  5 // {min: 5, max: 5, exclusiveMaximum: true}  is not, in either order *)
Example equal_bounds_strict_when_exclusive :
  is_ok (check_node ex_integer [("min", VNum (5%Z, 0)); ("max", VNum (5%Z, 0))]) = true /\
  check_node ex_integer [("min", VNum (5%Z, 0)); ("max", VNum (5%Z, 0)); ("exclusiveMaximum", VBool true)]
    = Err ErrValueOfOneConstraintGreaterOrEqualToAnother /\
  check_node ex_integer [("exclusiveMaximum", VBool true); ("max", VNum (5%Z, 0)); ("min", VNum (5%Z, 0))]
    = Err ErrValueOfOneConstraintGreaterOrEqualToAnother.
Proof. vm_compute. repeat split; reflexivity. Qed.

(* what the library accepts although the value has the wrong JSON kind (outside well_formed_values):
   "abc" // {regex: null}  (null is read as the empty expression)  and  {} // {additionalProperties: null} *)
Example accepted_wrong_value_kind :
  is_ok (check_node {| n_kind := NString; n_pos := PRoot; n_children := 0; n_num := (0%Z, 0); n_strlen := 3; n_frac := 0;
                       n_matches := true; n_in_enum := false; n_formats := [] |} [("regex", VNull)]) = true /\
  is_ok (check_node ex_empty_object [("additionalProperties", VNull)]) = true.
Proof. vm_compute. split; reflexivity. Qed.

(* fix d925ea9:  null // {or: ["string", "integer"], nullable: true}  and  null // {type: "@t", nullable: true}
   are accepted (no alternative has the kind null); without nullable both are refused with 1301 *)
Definition ex_null := mk_node NNull PRoot 0 (0%Z, 0) 0 0.                  (* null *)
Example accepted_null_under_nullable :
  is_ok (check_node ex_null [("or", VOrList false 2 false); ("nullable", VBool true)]) = true /\
  spec_ok ex_null [("or", VOrList false 2 false); ("nullable", VBool true)] = true /\
  in_scope ex_null [("or", VOrList false 2 false); ("nullable", VBool true)] = true /\
  is_ok (check_node ex_null [("type", VStr "@t"); ("nullable", VBool true)]) = true /\
  spec_ok ex_null [("type", VStr "@t"); ("nullable", VBool true)] = true /\
  check_node ex_null [("or", VOrList false 2 false)] = Err ErrIncorrectUserType /\
  spec_ok ex_null [("or", VOrList false 2 false)] = false /\
  check_node ex_null [("type", VStr "@t")] = Err ErrIncorrectUserType /\
  spec_ok ex_null [("type", VStr "@t")] = false.
Proof. vm_compute. repeat split; reflexivity. Qed.

Print Assumptions verdict_permutation.
Print Assumptions check_iff_spec.
