(* E2ETextsProofs.v - Schema.Validate from BOTH TEXTS, inside Coq: for a plain JSON schema text and a JSON
   document text, each of any size and layout, the pipeline [E2E.validate_texts] of the four models
       schema text   --SchemaScanner.scan--> events --Loader.load--> nodes --w_of_node / Shape.compile--> snode
       document text --Json.Scanner.scan--> lexical events --E2E.doc_events--> Machine events
       Machine.run over the tree of leaf validators of the schema
   returns exactly the verdict of the recursive validator [Shape.validate] on the trees the two texts spell.

   T1 [validate_texts_plain_json]         the composition;
   T2 [validate_texts_accepts_iff_shape]  accepted exactly when the document has the shape of the example;
   T3 [validate_texts_never_stuck], [validate_texts_stuck_iff]  on such a schema text a well-formed document text
      gives TStuck exactly when it has a numeral json.Guess has no kind for (0e.. or an exponent the number type refuses).
   Schema side: E2EProofs.schema_of_plain_json (LoaderProofs); document side: E2EDocProofs.doc_events_rendered;
   machine = recursive validator: MachineProofs.machine_eq_validate, machine_no_panic. *)
From Coq Require Import List NArith Bool Arith.
From Coq Require Import Strings.Byte.
Import ListNotations.
From JS Require Import Common.Wire Json.Grammar Schema.Shape Schema.ShapeProofs Schema.Machine Schema.MachineSpec
                       Schema.MachineProofs Schema.E2E SchemaScan.LoaderProofs Schema.E2EProofs Schema.E2EDocProofs.

(* ---- the embedded rule-free schemas are closed and productive type graphs (no references at all) ---- *)
Lemma of_snode_good : forall n, mclosed_node [] (of_snode n) = true /\ mprod_node [] (of_snode n) = true.
Proof.
  fix IH 1. intros [k nl an|ms nl an|items nl an].
  - split; reflexivity.
  - cbn [of_snode mclosed_node mprod_node]. rewrite andb_true_r.
    induction ms as [|[[key b] x] l IHl]; [split; reflexivity|].
    cbn [map forallb fst snd]. destruct (IH x) as [H1 H2]. destruct IHl as [H3 H4].
    rewrite H1, H2, H3, H4. split; reflexivity.
  - cbn [of_snode mclosed_node mprod_node].
    induction items as [|x l IHl]; [split; reflexivity|].
    cbn [map forallb]. destruct (IH x) as [H1 H2]. destruct IHl as [H3 H4].
    rewrite H1, H2, H3, H4. split; reflexivity.
Qed.

Lemma of_snode_mclosed n : mclosed [] (of_snode n) = true.
Proof. unfold mclosed. rewrite (proj1 (of_snode_good n)). reflexivity. Qed.
Lemma of_snode_mprod n : mprod [] (of_snode n) = true.
Proof.
  unfold mprod. cbn [forallb]. rewrite andb_true_r. pose proof (proj2 (of_snode_good n)) as H.
  destruct n; exact H.
Qed.

(* the machine over an embedded schema is never stuck (9999 = no validators / unfinished tree / panic) *)
Lemma machine_snode_not_stuck n j : machine_validate [] (of_snode n) j <> Some 9999.
Proof. apply machine_no_panic; [apply of_snode_mclosed|apply of_snode_mprod]. Qed.
Lemma validate_not_9999 n j : validate n j <> Some 9999.
Proof. rewrite <- machine_eq_validate. apply machine_snode_not_stuck. Qed.

Lemma events_nonempty j : Machine.events j <> [].
Proof. destruct j; discriminate. Qed.

(* the last stage of [validate_texts]: the machine over the events of a document tree *)
Definition run_events (s : snode) (es : list Machine.event) : texts_result :=
  match es with
  | [] => TDoc 203 0
  | _ =>
    match Machine.tree0 [] (Machine.of_snode s) with
    | None => TStuck
    | Some t =>
      match Machine.run [] t es with
      | Machine.OAccept => TVerdict None
      | Machine.OReject c => TVerdict (Some c)
      | _ => TStuck
      end
    end
  end.

Lemma run_events_validate s j : run_events s (Machine.events j) = TVerdict (validate s j).
Proof.
  pose proof (machine_snode_not_stuck s j) as Hn. pose proof (machine_eq_validate s j) as He.
  unfold machine_validate in Hn, He. unfold run_events.
  destruct (Machine.events j) as [|e es] eqn:Ee; [exfalso; exact (events_nonempty j Ee)|].
  destruct (tree0 [] (of_snode s)) as [t|]; [|exfalso; apply Hn; reflexivity].
  destruct (run [] t (e :: es)); try (exfalso; apply Hn; reflexivity); rewrite <- He; reflexivity.
Qed.

Lemma validate_texts_unfold optd st dt :
  validate_texts optd st dt =
  match schema_of_text optd st with
  | inl r => TSchema r
  | inr s => match doc_events dt with DErr c p => TDoc c p | DStuck => TStuck | DEvents es => run_events s es end
  end.
Proof.
  unfold validate_texts, run_events. destruct (schema_of_text optd st) as [r|s]; [reflexivity|].
  destruct (doc_events dt) as [c p| |[|e es]]; reflexivity.
Qed.

(* T1 *)
Theorem validate_texts_plain_json : forall optd w1 v w2 w u1 d u2 j,
  all_blank w1 = true -> Grammar.wf v = true -> all_blank w2 = true -> no_exponent v = true -> distinct_keys v = true ->
  w_of_jv v = Some w ->
  all_blank u1 = true -> Grammar.wf d = true -> all_blank u2 = true -> jval_of_jv d = Some j ->
  validate_texts optd (w1 ++ render v ++ w2) (u1 ++ render d ++ u2) = TVerdict (validate (compile optd w) j).
Proof.
  intros optd w1 v w2 w u1 d u2 j H1 Hv H2 Hn Hd Hw U1 Hdd U2 Hj.
  rewrite validate_texts_unfold, (schema_of_plain_json optd w1 v w2 w H1 Hv H2 Hn Hd Hw),
    (doc_events_of_text u1 d u2 j U1 Hdd U2 Hj).
  apply run_events_validate.
Qed.

(* T2 *)
Corollary validate_texts_accepts_iff_shape : forall optd w1 v w2 w u1 d u2 j,
  all_blank w1 = true -> Grammar.wf v = true -> all_blank w2 = true -> no_exponent v = true -> distinct_keys v = true ->
  w_of_jv v = Some w ->
  all_blank u1 = true -> Grammar.wf d = true -> all_blank u2 = true -> jval_of_jv d = Some j ->
  (validate_texts optd (w1 ++ render v ++ w2) (u1 ++ render d ++ u2) = TVerdict None <->
   shape_ok (compile optd w) j = true).
Proof.
  intros optd w1 v w2 w u1 d u2 j H1 Hv H2 Hn Hd Hw U1 Hdd U2 Hj.
  rewrite (validate_texts_plain_json optd w1 v w2 w u1 d u2 j H1 Hv H2 Hn Hd Hw U1 Hdd U2 Hj), <- validate_iff_shape.
  split; [intros H; inversion H; reflexivity|intros ->; reflexivity].
Qed.

(* T3: the general form, whatever the tokens of the document *)
Theorem validate_texts_plain_json_any_doc : forall optd w1 v w2 w u1 d u2,
  all_blank w1 = true -> Grammar.wf v = true -> all_blank w2 = true -> no_exponent v = true -> distinct_keys v = true ->
  w_of_jv v = Some w ->
  all_blank u1 = true -> Grammar.wf d = true -> all_blank u2 = true ->
  validate_texts optd (w1 ++ render v ++ w2) (u1 ++ render d ++ u2) =
  match jval_of_jv d with Some j => TVerdict (validate (compile optd w) j) | None => TStuck end.
Proof.
  intros optd w1 v w2 w u1 d u2 H1 Hv H2 Hn Hd Hw U1 Hdd U2.
  rewrite validate_texts_unfold, (schema_of_plain_json optd w1 v w2 w H1 Hv H2 Hn Hd Hw),
    (doc_events_rendered u1 d u2 U1 Hdd U2).
  destruct (jval_of_jv d) as [j|]; [apply run_events_validate|reflexivity].
Qed.

Corollary validate_texts_never_stuck : forall optd w1 v w2 w u1 d u2 j,
  all_blank w1 = true -> Grammar.wf v = true -> all_blank w2 = true -> no_exponent v = true -> distinct_keys v = true ->
  w_of_jv v = Some w ->
  all_blank u1 = true -> Grammar.wf d = true -> all_blank u2 = true -> jval_of_jv d = Some j ->
  validate_texts optd (w1 ++ render v ++ w2) (u1 ++ render d ++ u2) <> TStuck /\
  validate_texts optd (w1 ++ render v ++ w2) (u1 ++ render d ++ u2) <> TVerdict (Some 9999).
Proof.
  intros optd w1 v w2 w u1 d u2 j H1 Hv H2 Hn Hd Hw U1 Hdd U2 Hj.
  rewrite (validate_texts_plain_json optd w1 v w2 w u1 d u2 j H1 Hv H2 Hn Hd Hw U1 Hdd U2 Hj).
  split; [discriminate|]. intros H. inversion H as [H0]. exact (validate_not_9999 _ _ H0).
Qed.

(* a numeral of the shape 0e.. / -0e.. or with an exponent the number type refuses is the only way to TStuck
   from a well-formed document text *)
Corollary validate_texts_stuck_iff : forall optd w1 v w2 w u1 d u2,
  all_blank w1 = true -> Grammar.wf v = true -> all_blank w2 = true -> no_exponent v = true -> distinct_keys v = true ->
  w_of_jv v = Some w ->
  all_blank u1 = true -> Grammar.wf d = true -> all_blank u2 = true ->
  (validate_texts optd (w1 ++ render v ++ w2) (u1 ++ render d ++ u2) = TStuck <->
   (no_zero_int_exp d && exps_fit d)%bool = false).
Proof.
  intros optd w1 v w2 w u1 d u2 H1 Hv H2 Hn Hd Hw U1 Hdd U2.
  rewrite (validate_texts_plain_json_any_doc optd w1 v w2 w u1 d u2 H1 Hv H2 Hn Hd Hw U1 Hdd U2).
  rewrite <- (doc_events_stuck_class u1 d u2 U1 Hdd U2), (doc_events_stuck_iff u1 d u2 U1 Hdd U2).
  destruct (jval_of_jv d); split; intros H; try discriminate H; reflexivity.
Qed.

(* the schema tree always exists (E2EProofs.w_of_jv_total), so T1 needs no hypothesis about it *)
Corollary validate_texts_verdict : forall optd w1 v w2 u1 d u2 j,
  all_blank w1 = true -> Grammar.wf v = true -> all_blank w2 = true -> no_exponent v = true -> distinct_keys v = true ->
  all_blank u1 = true -> Grammar.wf d = true -> all_blank u2 = true -> jval_of_jv d = Some j ->
  exists w, w_of_jv v = Some w /\
    validate_texts optd (w1 ++ render v ++ w2) (u1 ++ render d ++ u2) = TVerdict (validate (compile optd w) j).
Proof.
  intros optd w1 v w2 u1 d u2 j H1 Hv H2 Hn Hd U1 Hdd U2 Hj. destruct (w_of_jv_total v Hv Hn) as [w Hw].
  exists w. split; [exact Hw|apply validate_texts_plain_json; assumption].
Qed.
