(* E2ETypesProofs.v - from the texts of a root schema, its types and a document to the denotation of the type graph *)
From Coq Require Import List NArith Bool Arith Lia.
Import ListNotations.
From JS Require Import Common.Wire Json.Grammar Schema.Shape Schema.Machine Schema.MachineSpec Schema.MachineProofs
     Schema.E2E Schema.E2EDocProofs Schema.E2ETypes.

Lemma events_not_nil : forall j, Machine.events j <> [].
Proof. intros j. destruct j; cbn [Machine.events]; discriminate. Qed.

(* the pipeline on a document text that renders a value: exactly the run of the event machine on the loaded graph *)
Theorem validate_typed_texts_machine : forall optd root types u1 d u2 j rt g,
  load_mnode optd (map fst types) root = inr rt ->
  load_menv optd (map fst types) 0 (map snd types) = inr g ->
  all_blank u1 = true -> Grammar.wf d = true -> all_blank u2 = true -> jval_of_jv d = Some j ->
  validate_typed_texts optd root types (u1 ++ render d ++ u2) =
  match Machine.tree0 g rt with
  | None => TStuck
  | Some t => match Machine.run g t (Machine.events j) with
              | Machine.OAccept => TVerdict None
              | Machine.OReject c => TVerdict (Some c)
              | _ => TStuck
              end
  end.
Proof.
  intros optd root types u1 d u2 j rt g Hr Hg U1 Hd U2 Hj.
  unfold validate_typed_texts. rewrite Hr, Hg, (doc_events_of_text u1 d u2 j U1 Hd U2 Hj).
  pose proof (events_not_nil j) as Hne.
  destruct (Machine.events j) as [|e es] eqn:Ee; [contradiction|]. reflexivity.
Qed.

Lemma texts_accept_iff_machine : forall optd root types u1 d u2 j rt g,
  load_mnode optd (map fst types) root = inr rt ->
  load_menv optd (map fst types) 0 (map snd types) = inr g ->
  all_blank u1 = true -> Grammar.wf d = true -> all_blank u2 = true -> jval_of_jv d = Some j ->
  (validate_typed_texts optd root types (u1 ++ render d ++ u2) = TVerdict None <-> Machine.machine_validate g rt j = None).
Proof.
  intros optd root types u1 d u2 j rt g Hr Hg U1 Hd U2 Hj.
  rewrite (validate_typed_texts_machine optd root types u1 d u2 j rt g Hr Hg U1 Hd U2 Hj).
  unfold Machine.machine_validate.
  destruct (Machine.tree0 g rt) as [t|]; [|split; discriminate].
  destruct (Machine.run g t (Machine.events j)) as [t'| |c|]; split; intros H; try discriminate H; reflexivity.
Qed.

(* C03 from the texts: on a closed graph in which every reference position has a validator, the pipeline accepts the
   document text exactly when the denotation of the loaded type graph contains the value *)
Theorem typed_texts_accept_iff_denotation : forall optd root types u1 d u2 j rt g,
  load_mnode optd (map fst types) root = inr rt ->
  load_menv optd (map fst types) 0 (map snd types) = inr g ->
  all_blank u1 = true -> Grammar.wf d = true -> all_blank u2 = true -> jval_of_jv d = Some j ->
  MachineSpec.mclosed g rt = true -> MachineProofs.mprod g rt = true ->
  exists F0, forall F, F0 <= F ->
    (validate_typed_texts optd root types (u1 ++ render d ++ u2) = TVerdict None <-> MachineSpec.maccepts F g rt j = true).
Proof.
  intros optd root types u1 d u2 j rt g Hr Hg U1 Hd U2 Hj Hc Hp.
  destruct (MachineProofs.machine_iff_maccepts g rt j Hc Hp) as [F0 HF].
  exists F0. intros F HFle. rewrite <- (HF F HFle).
  exact (texts_accept_iff_machine optd root types u1 d u2 j rt g Hr Hg U1 Hd U2 Hj).
Qed.

(* and it never gets stuck there *)
Theorem typed_texts_not_stuck : forall optd root types u1 d u2 j rt g,
  load_mnode optd (map fst types) root = inr rt ->
  load_menv optd (map fst types) 0 (map snd types) = inr g ->
  all_blank u1 = true -> Grammar.wf d = true -> all_blank u2 = true -> jval_of_jv d = Some j ->
  MachineSpec.mclosed g rt = true -> MachineProofs.mprod g rt = true ->
  validate_typed_texts optd root types (u1 ++ render d ++ u2) <> TStuck.
Proof.
  intros optd root types u1 d u2 j rt g Hr Hg U1 Hd U2 Hj Hc Hp.
  rewrite (validate_typed_texts_machine optd root types u1 d u2 j rt g Hr Hg U1 Hd U2 Hj).
  pose proof (MachineProofs.machine_no_panic g rt j Hc Hp) as Hnp. unfold Machine.machine_validate in Hnp.
  destruct (Machine.tree0 g rt) as [t|]; [|exfalso; apply Hnp; reflexivity].
  destruct (Machine.run g t (Machine.events j)) as [t'| |c|]; try discriminate; exfalso; apply Hnp; reflexivity.
Qed.
