(* Shape.v — property C01: the rule-free fragment of JSight (nodes carry only optional,
   nullable and type "any").
   [validate] is an operational model of the event-driven validator
   (notations/jschema/internal/validator: objectValidator with its set of still-required
   keys, arrayValidator with its item counter and Child(min(i,last)), literalValidator +
   checkNotAnEnum, anyNestedStructure) folded over the document value in event order;
   it returns the library's error code of the first failing event (for a nullable container the
   two-leaf outcome of Tree.FeedLeaves, see [container_mismatch]).
   [shape_ok] is the declarative statement of the property.
   No proofs in this file. *)
From Coq Require Import List NArith Bool Arith.
From Coq Require Import Strings.Byte.
Import ListNotations.
From JS Require Import Common.Wire.

Inductive skind := KStr | KInt | KFloat | KBool | KNull.

(* written schema: a property may carry optional:true / optional:false / nothing *)
Inductive wnode :=
| WLit (k : skind) (nullable any : bool)
| WObj (ms : list (bytes * option bool * wnode)) (nullable any : bool)
| WArr (items : list wnode) (nullable any : bool).

(* compiled schema: each property is required or not *)
Inductive snode :=
| SLit (k : skind) (nullable any : bool)
| SObj (ms : list (bytes * bool * snode)) (nullable any : bool)
| SArr (items : list snode) (nullable any : bool).

(* loader/compiler_basic.go optionalConstraints: a key is required unless marked
   optional:true, or unmarked under KeysAreOptionalByDefault *)
Definition required (opt_default : bool) (mark : option bool) : bool :=
  match mark with
  | Some o => negb o
  | None => negb opt_default
  end.
Fixpoint compile (opt_default : bool) (w : wnode) : snode :=
  match w with
  | WLit k nl an => SLit k nl an
  | WObj ms nl an =>
    SObj (map (fun m => let '(key, mark, x) := m in (key, required opt_default mark, compile opt_default x)) ms) nl an
  | WArr items nl an => SArr (map (compile opt_default) items) nl an
  end.

(* document values; scalars are classified as json.Guess does (C10) *)
Inductive jval :=
| JNull | JBool | JStr | JInt | JFloat
| JArr (xs : list jval)
| JObj (ms : list (bytes * jval)).

Definition bytes_eqb (a b : bytes) : bool :=
  (Nat.eqb (length a) (length b) && forallb (fun p => byte_eqb (fst p) (snd p)) (combine a b))%bool.

Definition is_container (v : jval) : bool := match v with JArr _ | JObj _ => true | _ => false end.

(* checkNotAnEnum: json type = schema type, or integer for float, or null with nullable *)
Definition lit_kind_ok (k : skind) (nullable : bool) (v : jval) : bool :=
  match v, k with
  | JStr, KStr | JBool, KBool | JNull, KNull | JInt, KInt | JFloat, KFloat | JInt, KFloat => true
  | JNull, _ => nullable
  | _, _ => false
  end.

Fixpoint find_member (key : bytes) (ms : list (bytes * bool * snode)) : option snode :=
  match ms with
  | [] => None
  | (k, _, x) :: r => if bytes_eqb k key then Some x else find_member key r
  end.
Definition remove_key (key : bytes) (req : list bytes) : list bytes :=
  filter (fun k => negb (bytes_eqb k key)) req.
Definition required_keys (ms : list (bytes * bool * snode)) : list bytes :=
  map (fun m => fst (fst m)) (filter (fun m => snd (fst m)) ms).

Definition E_REQUIRED_KEY : nat := 205.
Definition E_UNKNOWN_KEY : nat := 206.
Definition E_LEX_LITERAL : nat := 207.
Definition E_LEX_OBJECT : nat := 208.
Definition E_LEX_ARRAY : nat := 209.
Definition E_VALUE_TYPE : nat := 210.
Definition E_ELEMENT_NOT_FOUND : nat := 1203.

Definition last_or {A} (l : list A) (i : nat) : option A :=
  match l with
  | [] => None
  | _ => nth_error l (Nat.min i (length l - 1))
  end.

(* A document value of another kind at an object/array position.  Without nullable the
   container validator is the only leaf and its "unexpected lexeme" error is reported.  With
   nullable:true (fix 3827ce7) a null validator stands next to it (validator/list.go):
   null is accepted; another literal fails the container leaf at LiteralBegin and the null leaf
   at LiteralEnd with "invalid value type"; a container of the other kind fails both leaves at
   its opening bracket, which Tree.FeedLeaves reports as ErrOrRuleSetValidation. *)
Definition E_OR_RULE_SET : nat := 204.
Definition container_mismatch (nullable : bool) (lex_error : nat) (v : jval) : option nat :=
  if nullable then
    match v with
    | JNull => None
    | JArr _ | JObj _ => Some E_OR_RULE_SET
    | _ => Some E_VALUE_TYPE
    end
  else Some lex_error.

(* validate: None = accepted, Some code = first error *)
Fixpoint validate (n : snode) (v : jval) {struct v} : option nat :=
  let is_any := match n with SLit _ _ a | SObj _ _ a | SArr _ _ a => a end in
  if is_any then None   (* anyNestedStructure swallows one complete value of any shape *)
  else
  match n with
  | SLit k nl _ =>
    if is_container v then Some E_LEX_LITERAL
    else if lit_kind_ok k nl v then None else Some E_VALUE_TYPE
  | SObj ms nl _ =>
    match v with
    | JObj dms =>
      (fix members (dms : list (bytes * jval)) (req : list bytes) : option nat :=
         match dms with
         | [] => match req with [] => None | _ => Some E_REQUIRED_KEY end
         | (key, x) :: r =>
           match find_member key ms with
           | None => Some E_UNKNOWN_KEY
           | Some child =>
             match validate child x with
             | Some e => Some e
             | None => members r (remove_key key req)
             end
           end
         end) dms (required_keys ms)
    | _ => container_mismatch nl E_LEX_OBJECT v
    end
  | SArr items nl _ =>
    match v with
    | JArr xs =>
      (fix elems (xs : list jval) (i : nat) : option nat :=
         match xs with
         | [] => None
         | x :: r =>
           match last_or items i with
           | None => Some E_ELEMENT_NOT_FOUND
           | Some child =>
             match validate child x with
             | Some e => Some e
             | None => elems r (S i)
             end
           end
         end) xs 0
    | _ => container_mismatch nl E_LEX_ARRAY v
    end
  end.

(* ---------- the property, declaratively ---------- *)
Fixpoint shape_ok (n : snode) (v : jval) {struct v} : bool :=
  let is_any := match n with SLit _ _ a | SObj _ _ a | SArr _ _ a => a end in
  if is_any then true
  else
  match n, v with
  | SLit k nl _, _ => (negb (is_container v) && lit_kind_ok k nl v)%bool
  | SObj ms nl _, JObj dms =>
    (forallb (fun key => existsb (fun d => bytes_eqb (fst d) key) dms) (required_keys ms) &&
     (fix all (dms : list (bytes * jval)) : bool :=
        match dms with
        | [] => true
        | (key, x) :: r =>
          (match find_member key ms with Some child => shape_ok child x | None => false end && all r)%bool
        end) dms)%bool
  | SObj _ nl _, JNull => nl
  | SArr items nl _, JArr xs =>
    (fix all (xs : list jval) (i : nat) : bool :=
       match xs with
       | [] => true
       | x :: r => (match last_or items i with Some child => shape_ok child x | None => false end && all r (S i))%bool
       end) xs 0
  | SArr _ nl _, JNull => nl
  | _, _ => false
  end.

(* [no_nullable_container n]: kept for the error-code lemmas that single out the one-leaf case
   (before fix 3827ce7 it delimited the known finding C01-nullable-container). *)
Fixpoint no_nullable_container (n : snode) : bool :=
  match n with
  | SLit _ _ _ => true
  | SObj ms nl an => (an || (negb nl && forallb (fun m => no_nullable_container (snd m)) ms))%bool
  | SArr items nl an => (an || (negb nl && forallb no_nullable_container items))%bool
  end.

(* ---------- wire ----------
   schema node:  K nl an            K in S I F B N (scalar kinds)
                 O nl an n (hexkey mark node)^n      mark: 0 none, 1 optional:true, 2 optional:false
                 A nl an n node^n
   document:     s i f b n | a n value^n | o n (hexkey value)^n
   line:  <optdefault 0/1> ; <schema tokens> ; <doc tokens>                      *)
Definition tok_bool (t : bytes) : option bool :=
  match t with [x30] => Some false | [x31] => Some true | _ => None end.

Fixpoint parse_w (fuel : nat) (ts : list bytes) : option (wnode * list bytes) :=
  match fuel with
  | O => None
  | S f =>
    match ts with
    | [k] :: nl :: an :: r =>
      match tok_bool nl, tok_bool an with
      | Some nl, Some an =>
        if byte_eqb k x53 then Some (WLit KStr nl an, r)
        else if byte_eqb k x49 then Some (WLit KInt nl an, r)
        else if byte_eqb k x46 then Some (WLit KFloat nl an, r)
        else if byte_eqb k x42 then Some (WLit KBool nl an, r)
        else if byte_eqb k x4e then Some (WLit KNull nl an, r)
        else if byte_eqb k x4f then
          match r with
          | cnt :: r1 =>
            match parse_nat cnt with
            | Some n =>
              (fix ms (n : nat) (ts : list bytes) (acc : list (bytes * option bool * wnode)) :=
                 match n with
                 | O => Some (WObj (frev acc) nl an, ts)
                 | S n' =>
                   match ts with
                   | hk :: mk :: r2 =>
                     match unhex (match hk with [x2d] => [] | _ => hk end), parse_w f r2 with
                     | Some key, Some (x, r3) =>
                       let mark := match mk with [x31] => Some true | [x32] => Some false | _ => None end in
                       ms n' r3 ((key, mark, x) :: acc)
                     | _, _ => None
                     end
                   | _ => None
                   end
                 end) n r1 []
            | None => None
            end
          | [] => None
          end
        else if byte_eqb k x41 then
          match r with
          | cnt :: r1 =>
            match parse_nat cnt with
            | Some n =>
              (fix items (n : nat) (ts : list bytes) (acc : list wnode) :=
                 match n with
                 | O => Some (WArr (frev acc) nl an, ts)
                 | S n' => match parse_w f ts with
                           | Some (x, r3) => items n' r3 (x :: acc)
                           | None => None
                           end
                 end) n r1 []
            | None => None
            end
          | [] => None
          end
        else None
      | _, _ => None
      end
    | _ => None
    end
  end.

Fixpoint parse_j (fuel : nat) (ts : list bytes) : option (jval * list bytes) :=
  match fuel with
  | O => None
  | S f =>
    match ts with
    | [k] :: r =>
      if byte_eqb k x73 then Some (JStr, r)
      else if byte_eqb k x69 then Some (JInt, r)
      else if byte_eqb k x66 then Some (JFloat, r)
      else if byte_eqb k x62 then Some (JBool, r)
      else if byte_eqb k x6e then Some (JNull, r)
      else if byte_eqb k x61 then
        match r with
        | cnt :: r1 =>
          match parse_nat cnt with
          | Some n =>
            (fix items (n : nat) (ts : list bytes) (acc : list jval) :=
               match n with
               | O => Some (JArr (frev acc), ts)
               | S n' => match parse_j f ts with
                         | Some (x, r3) => items n' r3 (x :: acc)
                         | None => None
                         end
               end) n r1 []
          | None => None
          end
        | [] => None
        end
      else if byte_eqb k x6f then
        match r with
        | cnt :: r1 =>
          match parse_nat cnt with
          | Some n =>
            (fix ms (n : nat) (ts : list bytes) (acc : list (bytes * jval)) :=
               match n with
               | O => Some (JObj (frev acc), ts)
               | S n' =>
                 match ts with
                 | hk :: r2 =>
                   match unhex (match hk with [x2d] => [] | _ => hk end), parse_j f r2 with
                   | Some key, Some (x, r3) => ms n' r3 ((key, x) :: acc)
                   | _, _ => None
                   end
                 | [] => None
                 end
               end) n r1 []
          | None => None
          end
        | [] => None
        end
      else None
    | _ => None
    end
  end.

Definition words (bs : bytes) : list bytes :=
  filter (fun w => negb (Nat.eqb (length w) 0)) (split_on sp bs).

(* output:  <model verdict: ok | E<code>> <spec verdict: T|F> <no_nullable_container: T|F> *)
Definition shape_model_line (line : bytes) : bytes :=
  match split_on semi line with
  | [o; s; d] =>
    match words o, parse_w (S (length s)) (words s), parse_j (S (length d)) (words d) with
    | [ob], Some (w, []), Some (v, []) =>
      match tok_bool ob with
      | Some optd =>
        let n := compile optd w in
        (match validate n v with None => [x6f; x6b] | Some e => x45 :: print_nat e end) ++ [sp] ++
        print_bool (shape_ok n v) ++ [sp] ++ print_bool (no_nullable_container n)
      | None => [x42; x41; x44]
      end
    | _, _, _ => [x42; x41; x44]
    end
  | _ => [x42; x41; x44]
  end.
