(* Machine.v — the event-driven validator as the code runs it
   (/repo/notations/jschema/internal/validator: tree.go, list.go, v_object.go, v_array.go,
   v_literal.go, v_any_nested_structure.go, v_additional_properties.go, and the driver loop of
   Schema.validate in /repo/notations/jschema/jschema.go).

   The document is the stream of lexical events the JSON scanner delivers for a value
   ([events]); the tree holds the live leaf validators; FeedLeaves gives every leaf the event,
   drops the leaves that fail, lets a finished leaf step back to its parent (or disappear when
   the parent already is a leaf - several alternatives of a union accepted the same value),
   replaces a leaf by the validators of a child position, and fails the document when every
   leaf failed (with the leaf's own error when there was one leaf, ErrOrRuleSetValidation
   otherwise).
   A validator with its chain of parents is a stack; validators carry an identity so that
   "the parent already is a leaf" (Tree.hasLeaf, pointer equality in Go) can be decided.
   Rules other than optional / nullable / any / type references / additionalProperties are
   outside this model (rule-free fragment, C01 and C03).  allOf is flattened before validation
   (loader.CompileAllOf): an object node lists its own and inherited members.
   No proofs in this file. *)
From Coq Require Import List NArith Bool Arith.
From Coq Require Import Strings.Byte.
Import ListNotations.
From JS Require Import Common.Wire Schema.Shape.

Definition tname := nat.

Inductive maddp :=
| MAPNone | MAPFalse | MAPAny | MAPKind (k : skind) | MAPObject | MAPArray | MAPType (n : tname).

Inductive mnode :=
| MLit (k : skind) (nullable any : bool)
| MObj (ms : list (bytes * bool * mnode)) (ap : maddp) (nullable any : bool)   (* (key, required, node) *)
| MArr (items : list mnode) (nullable any : bool)
| MRefs (names : list tname) (nullable : bool).     (* a node with a types list: @a | @b, {type: "@a"}, {or: [...]} *)

Definition menv := list (tname * mnode).
Fixpoint mlookup (g : menv) (n : tname) : option mnode :=
  match g with
  | [] => None
  | (m, t) :: r => if Nat.eqb m n then Some t else mlookup r n
  end.

(* ---------- events ---------- *)
Inductive event :=
| ELitBegin | ELitEnd (v : jval)                (* v is one of JNull JBool JStr JInt JFloat *)
| EObjBegin | EObjEnd | EKeyBegin | EKeyEnd (key : bytes) | EValBegin | EValEnd
| EArrBegin | EArrEnd | EItemBegin | EItemEnd.

Definition opening (e : event) : bool :=
  match e with
  | ELitBegin | EObjBegin | EKeyBegin | EValBegin | EArrBegin | EItemBegin => true
  | _ => false
  end.

Fixpoint events (v : jval) : list event :=
  match v with
  | JArr xs => EArrBegin :: flat_map (fun x => EItemBegin :: events x ++ [EItemEnd]) xs ++ [EArrEnd]
  | JObj ms => EObjBegin :: flat_map (fun m => EKeyBegin :: EKeyEnd (fst m) :: EValBegin :: events (snd m) ++ [EValEnd]) ms ++ [EObjEnd]
  | _ => [ELitBegin; ELitEnd v]
  end.

(* ---------- validators ---------- *)
Inductive apstate := APFresh | APIn (depth : nat).

Inductive vstate :=
| VLit (k : skind) (nullable : bool)                       (* literalValidator on a literal node *)
| VNull                                                    (* literalValidator with nullOnly (fixes 7566a1d, aecea4e, 3827ce7) *)
| VObj (ms : list (bytes * bool * mnode)) (ap : maddp) (req : list bytes) (last : option bytes)
| VArr (items : list mnode) (counter : nat)
| VAny (depth : nat)                                       (* anyNestedStructure *)
| VAddAny (depth : nat)                                    (* additionalPropertiesValidator.feedAny *)
| VAddObject | VAddArray                                   (* ... feedObject / feedArray before the first event *)
| VAddKind (k : skind)                                     (* ... feedLiteral *)
| VAddNotAllowed (key : bytes).

Definition E_OR : nat := 204.

Definition is_any (n : mnode) : bool :=
  match n with MLit _ _ a | MObj _ _ _ a | MArr _ _ a => a | MRefs _ _ => false end.

(* appendNodeValidators: the any validator wins over the kind; a nullable object/array gets the
   null validator next to it (fix 3827ce7), also when it is "any" *)
Definition node_validators (n : mnode) : list vstate :=
  let extra := match n with MObj _ _ true _ | MArr _ true _ => [VNull] | _ => [] end in
  match n with
  | MRefs _ _ => []
  | MLit k nl an => [if an then VAny 0 else VLit k nl]
  | MObj ms ap _ an =>
    (if an then VAny 0 else VObj ms ap (map (fun m => fst (fst m)) (filter (fun m => snd (fst m)) ms)) None) :: extra
  | MArr items _ an => (if an then VAny 0 else VArr items 0) :: extra
  end.

(* NodeValidatorList / buildList / appendTypeValidators: [added] = addedTypeNames.
   An unknown type name is MustType's panic (None). *)
Fixpoint build_list (fuel : nat) (g : menv) (added : list tname) (n : mnode) : option (list vstate * list tname) :=
  match fuel with
  | O => None
  | S f =>
    match n with
    | MRefs names nl =>
      let r :=
        fold_left (fun acc name =>
                     match acc with
                     | None => None
                     | Some (vs, added) =>
                       if existsb (Nat.eqb name) added then Some (vs, added)
                       else match mlookup g name with
                            | None => None
                            | Some body =>
                              match build_list f g (name :: added) body with
                              | None => None
                              | Some (vs', added') => Some (vs ++ vs', added')
                              end
                            end
                     end) names (Some ([], added)) in
      match r with
      | None => None
      | Some (vs, added') => Some (if nl then vs ++ [VNull] else vs, added')
      end
    | _ => Some (node_validators n, added)
    end
  end.
Definition validator_list (g : menv) (n : mnode) : option (list vstate) :=
  option_map fst (build_list (S (length g)) g [] n).

(* what one validator answers to one event *)
Inductive fed :=
| FStay (s : vstate)                        (* (nil, false) *)
| FDone                                     (* (nil, true) *)
| FChildren (s : vstate) (cs : list vstate) (* (children, false); s = the validator after the call *)
| FErr (code : nat)
| FPanic.                                   (* a panic that is not a document error *)

Definition lit_of_event (e : event) : option jval := match e with ELitEnd v => Some v | _ => None end.

Definition addp_validators (g : menv) (ap : maddp) (key : bytes) : option (list vstate) :=
  match ap with
  | MAPNone => None
  | MAPFalse => Some [VAddNotAllowed key]
  | MAPAny => Some [VAddAny 0]
  | MAPKind k => Some [VAddKind k]
  | MAPObject => Some [VAddObject]
  | MAPArray => Some [VAddArray]
  | MAPType n => match mlookup g n with Some body => validator_list g body | None => None end
  end.

Definition feed_any (mk : nat -> vstate) (depth : nat) (e : event) : fed :=
  let d := if opening e then S depth else depth - 1 in
  if Nat.eqb d 0 then FDone else FStay (mk d).

(* additionalPropertiesValidator.feedLiteral: SchemaType.IsEqualSoft of the declared kind and the guessed
   kind of the value - an integer is NOT accepted for "float" here (unlike checkNotAnEnum) *)
Definition addkind_ok (k : skind) (v : jval) : bool :=
  match k, v with
  | KStr, JStr | KInt, JInt | KFloat, JFloat | KBool, JBool | KNull, JNull => true
  | _, _ => false
  end.

Definition feed (g : menv) (s : vstate) (e : event) : fed :=
  match s with
  | VLit k nl =>
    match e with
    | ELitBegin => FStay s
    | ELitEnd v => if lit_kind_ok k nl v then FDone else FErr E_VALUE_TYPE
    | _ => FErr E_LEX_LITERAL
    end
  | VNull =>
    match e with
    | ELitBegin => FStay s
    | ELitEnd JNull => FDone
    | ELitEnd _ => FErr E_VALUE_TYPE
    | _ => FErr E_LEX_LITERAL
    end
  | VObj ms ap req last =>
    match e with
    | EObjBegin | EKeyBegin | EValEnd => FStay s
    | EKeyEnd key => FStay (VObj ms ap (filter (fun k => negb (bytes_eqb k key)) req) (Some key))
    | EValBegin =>
      match last with
      | None => FPanic
      | Some key =>
        match (fix find (ms : list (bytes * bool * mnode)) : option mnode :=
                 match ms with
                 | [] => None
                 | (k, _, x) :: r => if bytes_eqb k key then Some x else find r
                 end) ms with
        | Some child => match validator_list g child with Some cs => FChildren s cs | None => FPanic end
        | None =>
          match ap with
          | MAPNone => FErr E_UNKNOWN_KEY
          | _ => match addp_validators g ap key with Some cs => FChildren s cs | None => FPanic end
          end
        end
      end
    | EObjEnd => match req with [] => FDone | _ => FErr E_REQUIRED_KEY end
    | _ => FErr E_LEX_OBJECT
    end
  | VArr items counter =>
    match e with
    | EArrBegin | EItemEnd => FStay s
    | EItemBegin =>
      match last_or items counter with
      | None => FErr E_ELEMENT_NOT_FOUND
      | Some child => match validator_list g child with Some cs => FChildren (VArr items (S counter)) cs | None => FPanic end
      end
    | EArrEnd => FDone
    | _ => FErr E_LEX_ARRAY
    end
  | VAny depth => feed_any VAny depth e
  | VAddAny depth => feed_any VAddAny depth e
  | VAddObject => match e with EObjBegin => feed_any VAddAny 0 e | _ => FErr E_LEX_OBJECT end
  | VAddArray => match e with EArrBegin => feed_any VAddAny 0 e | _ => FErr E_LEX_ARRAY end
  | VAddKind k =>
    match e with
    | ELitBegin => FStay s
    | ELitEnd v => if addkind_ok k v then FDone else FErr E_VALUE_TYPE
    | _ => FErr E_LEX_LITERAL
    end
  | VAddNotAllowed _ => FErr E_UNKNOWN_KEY
  end.

(* ---------- the tree ---------- *)
(* a leaf: the validator and its ancestors, each with its identity *)
Definition leaf := list (nat * vstate).
Record tree := mktree { leaves : list leaf; next_id : nat }.

Definition head_id (l : leaf) : option nat := match l with (i, _) :: _ => Some i | [] => None end.
Definition has_leaf (ls : list leaf) (i : nat) : bool :=
  existsb (fun l => match head_id l with Some j => Nat.eqb i j | None => false end) ls.

Inductive outcome := OGo (t : tree) | OAccept | OReject (code : nat) | OPanic.

(* FeedLeaves: [todo] = leaves not yet visited in this round, [done] = leaves as they stand after their visit
   (reversed); a leaf created in this round is not visited in it. *)
Fixpoint feed_leaves (g : menv) (e : event) (todo : list leaf) (done : list leaf) (next : nat) (errors : nat) (last_err : nat)
  : option (list leaf * nat * nat * nat) :=       (* None = panic *)
  match todo with
  | [] => Some (frev done, next, errors, last_err)
  | l :: rest =>
    match l with
    | [] => None
    | (i, s) :: parents =>
      match feed g s e with
      | FPanic => None
      | FErr c => feed_leaves g e rest done next (S errors) c
      | FStay s' => feed_leaves g e rest (((i, s') :: parents) :: done) next errors last_err
      | FDone =>
        match parents with
        | [] => feed_leaves g e rest done next errors last_err
        | (p, _) :: _ =>
          if has_leaf (rest ++ done) p then feed_leaves g e rest done next errors last_err
          else feed_leaves g e rest (parents :: done) next errors last_err
        end
      | FChildren s' cs =>
        match cs with
        | [] => feed_leaves g e rest (((i, s') :: parents) :: done) next errors last_err
        | _ =>
          let stack := (i, s') :: parents in
          let fresh := combine (seq next (length cs)) cs in
          let news := map (fun c => c :: stack) fresh in
          (* the first child takes the place of the leaf, the others are added at the end *)
          match news with
          | first :: others => feed_leaves g e rest (frev others ++ first :: done) (next + length cs) errors last_err
          | [] => None
          end
        end
      end
    end
  end.

Definition step (g : menv) (t : tree) (e : event) : outcome :=
  let n := length (leaves t) in
  match feed_leaves g e (leaves t) [] (next_id t) 0 0 with
  | None => OPanic
  | Some (ls, next, errors, last_err) =>
    if Nat.eqb errors n then OReject (if Nat.eqb n 1 then last_err else E_OR)
    else match ls with
         | [] => OAccept
         | _ => OGo (mktree ls next)
         end
  end.

Fixpoint run (g : menv) (t : tree) (es : list event) : outcome :=
  match es with
  | [] => OGo t
  | e :: r =>
    match step g t e with
    | OGo t' => run g t' r
    | o => o           (* the driver loop breaks when the tree is finished: the value's events end there *)
    end
  end.

Definition tree0 (g : menv) (root : mnode) : option tree :=
  match validator_list g root with
  | Some vs => Some (mktree (map (fun c => [c]) (combine (seq 0 (length vs)) vs)) (length vs))
  | None => None
  end.

(* None = accepted, Some code = rejected; panics and a tree that is not finished at the end are 9999 *)
Definition machine_validate (g : menv) (root : mnode) (v : jval) : option nat :=
  match tree0 g root with
  | None => Some 9999
  | Some t =>
    match run g t (events v) with
    | OAccept => None
    | OReject c => Some c
    | OGo _ | OPanic => Some 9999
    end
  end.

(* ---------- embedding of the rule-free schemas of Shape.v ---------- *)
Fixpoint of_snode (n : snode) : mnode :=
  match n with
  | SLit k nl an => MLit k nl an
  | SObj ms nl an => MObj (map (fun m => (fst (fst m), snd (fst m), of_snode (snd m))) ms) MAPNone nl an
  | SArr items nl an => MArr (map of_snode items) nl an
  end.

(* wire: the line format of shape_model_line; output: <machine verdict> <recursive model verdict> *)
Definition print_verdict_opt (r : option nat) : bytes := match r with None => [x6f; x6b] | Some e => x45 :: print_nat e end.
Definition machine_model_line (line : bytes) : bytes :=
  match split_on semi line with
  | [o; s; d] =>
    match words o, parse_w (S (length s)) (words s), parse_j (S (length d)) (words d) with
    | [ob], Some (w, []), Some (v, []) =>
      match tok_bool ob with
      | Some optd =>
        let n := compile optd w in
        print_verdict_opt (machine_validate [] (of_snode n) v) ++ [sp] ++ print_verdict_opt (validate n v)
      | None => [x42; x41; x44]
      end
    | _, _, _ => [x42; x41; x44]
    end
  | _ => [x42; x41; x44]
  end.

(* ---------- wire for type graphs ----------
   node:  L k nl an                         k in S I F B N
          O nl an ap n (hexkey req node)^n  ap: - | f | * | kS kI kF kB kN | o | a | t<name>      req: 0/1
          A nl an n node^n
          R nl n name^n
   line:  <root node> ; <document (Shape wire)> ; <name> <node> ; <name> <node> ...
   output: ok | E<code> *)
Definition parse_kind (k : byte) : option skind :=
  if byte_eqb k x53 then Some KStr else if byte_eqb k x49 then Some KInt else if byte_eqb k x46 then Some KFloat
  else if byte_eqb k x42 then Some KBool else if byte_eqb k x4e then Some KNull else None.

Definition parse_ap (t : bytes) : option maddp :=
  match t with
  | [c] => if byte_eqb c x2d then Some MAPNone else if byte_eqb c x66 then Some MAPFalse else if byte_eqb c x2a then Some MAPAny
           else if byte_eqb c x6f then Some MAPObject else if byte_eqb c x61 then Some MAPArray else None
  | c :: r => if byte_eqb c x6b then match r with [k] => option_map MAPKind (parse_kind k) | _ => None end
              else if byte_eqb c x74 then option_map MAPType (parse_nat r) else None
  | [] => None
  end.

Fixpoint parse_m (fuel : nat) (ts : list bytes) : option (mnode * list bytes) :=
  match fuel with
  | O => None
  | S f =>
    match ts with
    | [c] :: r =>
      if byte_eqb c x4c then
        match r with
        | [k] :: nl :: an :: r1 =>
          match parse_kind k, tok_bool nl, tok_bool an with
          | Some k, Some nl, Some an => Some (MLit k nl an, r1)
          | _, _, _ => None
          end
        | _ => None
        end
      else if byte_eqb c x4f then
        match r with
        | nl :: an :: ap :: cnt :: r1 =>
          match tok_bool nl, tok_bool an, parse_ap ap, parse_nat cnt with
          | Some nl, Some an, Some ap, Some n =>
            (fix ms (n : nat) (ts : list bytes) (acc : list (bytes * bool * mnode)) :=
               match n with
               | O => Some (MObj (frev acc) ap nl an, ts)
               | S n' =>
                 match ts with
                 | hk :: rq :: r2 =>
                   match unhex (match hk with [x2d] => [] | _ => hk end), tok_bool rq, parse_m f r2 with
                   | Some key, Some rq, Some (x, r3) => ms n' r3 ((key, rq, x) :: acc)
                   | _, _, _ => None
                   end
                 | _ => None
                 end
               end) n r1 []
          | _, _, _, _ => None
          end
        | _ => None
        end
      else if byte_eqb c x41 then
        match r with
        | nl :: an :: cnt :: r1 =>
          match tok_bool nl, tok_bool an, parse_nat cnt with
          | Some nl, Some an, Some n =>
            (fix items (n : nat) (ts : list bytes) (acc : list mnode) :=
               match n with
               | O => Some (MArr (frev acc) nl an, ts)
               | S n' => match parse_m f ts with
                         | Some (x, r3) => items n' r3 (x :: acc)
                         | None => None
                         end
               end) n r1 []
          | _, _, _ => None
          end
        | _ => None
        end
      else if byte_eqb c x52 then
        match r with
        | nl :: cnt :: r1 =>
          match tok_bool nl, parse_nat cnt with
          | Some nl, Some n =>
            (fix names (n : nat) (ts : list bytes) (acc : list tname) :=
               match n with
               | O => Some (MRefs (frev acc) nl, ts)
               | S n' => match ts with
                         | nm :: r2 => match parse_nat nm with Some x => names n' r2 (x :: acc) | None => None end
                         | [] => None
                         end
               end) n r1 []
          | _, _ => None
          end
        | _ => None
        end
      else None
    | _ => None
    end
  end.

Definition parse_mentry (bs : bytes) : option (tname * mnode) :=
  match words bs with
  | nm :: rest =>
    match parse_nat nm, parse_m (S (length bs)) rest with
    | Some n, Some (t, []) => Some (n, t)
    | _, _ => None
    end
  | [] => None
  end.

Definition machine_graph_line (line : bytes) : bytes :=
  match split_on semi line with
  | rootb :: docb :: entries =>
    match parse_m (S (length rootb)) (words rootb), parse_j (S (length docb)) (words docb),
          all_some (map parse_mentry (filter (fun e => negb (Nat.eqb (length (words e)) 0)) entries)) with
    | Some (root, []), Some (v, []), Some g => print_verdict_opt (machine_validate g root v)
    | _, _, _ => [x42; x41; x44]
    end
  | _ => [x42; x41; x44]
  end.
