(* MachineProofs.v — the event-level machine of Machine.v computes the recursive model of
   Shape.v (C01, verdict and error code) and the denotation of MachineSpec.v (C03). *)
From Coq Require Import List NArith Bool Arith Lia.
From Coq Require Import Strings.Byte.
Import ListNotations.
From JS Require Import Common.Wire Schema.Shape Schema.ShapeProofs Schema.Machine Schema.MachineSpec.
Set Warnings "-abstract-large-number".

(* ------------------------------------------------------------------ *)
(* generalities                                                        *)
(* ------------------------------------------------------------------ *)
Lemma frev_is_rev {A} (l : list A) : frev l = rev l.
Proof. unfold frev. symmetry. apply rev_alt. Qed.

Lemma run_cons : forall g t e r,
  run g t (e :: r) = match step g t e with OGo t' => run g t' r | o => o end.
Proof. reflexivity. Qed.

(* the leaves made of the validators [cs] (identities a, a+1, ...) on top of the stack [P] *)
Definition mk (a : nat) (cs : list vstate) (P : leaf) : list leaf :=
  map (fun c => c :: P) (combine (seq a (length cs)) cs).

Definition pid_lt (P : leaf) (a : nat) : Prop :=
  match P with (p, _) :: _ => p < a | [] => True end.

Definition cont (g : menv) (P : leaf) (nx : nat) (rest : list event) : outcome :=
  match P with [] => OAccept | _ => run g (mktree [P] nx) rest end.

Lemma find_fix_eq : forall key (ms : list (bytes * bool * mnode)),
  (fix find (ms : list (bytes * bool * mnode)) : option mnode :=
     match ms with
     | [] => None
     | (k, _, x) :: r => if bytes_eqb k key then Some x else find r
     end) ms = mfind key ms.
Proof.
  intros key ms. induction ms as [|[[k b] x] r IH]; [reflexivity|].
  cbn [mfind]. rewrite IH. reflexivity.
Qed.

Lemma feed_obj_valbegin : forall g ms ap req key,
  feed g (VObj ms ap req (Some key)) EValBegin =
  match mfind key ms with
  | Some child => match validator_list g child with
                  | Some cs => FChildren (VObj ms ap req (Some key)) cs
                  | None => FPanic
                  end
  | None =>
    match ap with
    | MAPNone => FErr E_UNKNOWN_KEY
    | _ => match addp_validators g ap key with
           | Some cs => FChildren (VObj ms ap req (Some key)) cs
           | None => FPanic
           end
    end
  end.
Proof. intros. cbn [feed]. rewrite find_fix_eq. reflexivity. Qed.

(* one leaf *)
Lemma step1 : forall g i s P nx e,
  step g (mktree [(i, s) :: P] nx) e =
  match feed g s e with
  | FPanic => OPanic
  | FErr c => OReject c
  | FStay s' => OGo (mktree [(i, s') :: P] nx)
  | FDone => match P with [] => OAccept | _ => OGo (mktree [P] nx) end
  | FChildren s' cs =>
    match cs with
    | [] => OGo (mktree [(i, s') :: P] nx)
    | _ => OGo (mktree (mk nx cs ((i, s') :: P)) (nx + length cs))
    end
  end.
Proof.
  intros g i s P nx e. unfold step. cbn [leaves next_id length feed_leaves].
  destruct (feed g s e) as [s'|  |s' cs|c| ]; cbn [app].
  - reflexivity.
  - destruct P as [|[p ps] P']; [reflexivity|]. cbn [has_leaf existsb app]. reflexivity.
  - destruct cs as [|c cs']; [reflexivity|].
    cbn [length seq combine map feed_leaves]. rewrite !frev_is_rev.
    rewrite rev_app_distr, rev_involutive. cbn [rev app Nat.eqb].
    unfold mk. cbn [length seq combine map]. reflexivity.
  - reflexivity.
  - reflexivity.
Qed.

(* ------------------------------------------------------------------ *)
(* anyNestedStructure swallows one value (single leaf)                 *)
(* ------------------------------------------------------------------ *)
Definition item_events (x : jval) : list event := EItemBegin :: events x ++ [EItemEnd].
Definition member_events (m : bytes * jval) : list event :=
  EKeyBegin :: EKeyEnd (fst m) :: EValBegin :: events (snd m) ++ [EValEnd].

Lemma events_arr : forall xs, events (JArr xs) = EArrBegin :: flat_map item_events xs ++ [EArrEnd].
Proof. reflexivity. Qed.
Lemma events_obj : forall ms, events (JObj ms) = EObjBegin :: flat_map member_events ms ++ [EObjEnd].
Proof. reflexivity. Qed.

Definition any_pass_at (v : jval) : Prop :=
  forall g i d P nx rest,
    run g (mktree [(i, VAny (S d)) :: P] nx) (events v ++ rest) = run g (mktree [(i, VAny (S d)) :: P] nx) rest.

Lemma any_step_open : forall g i d P nx e, opening e = true ->
  step g (mktree [(i, VAny d) :: P] nx) e = OGo (mktree [(i, VAny (S d)) :: P] nx).
Proof. intros. rewrite step1. cbn [feed]. unfold feed_any. rewrite H. reflexivity. Qed.

Lemma any_step_close : forall g i d P nx e, opening e = false ->
  step g (mktree [(i, VAny (S (S d))) :: P] nx) e = OGo (mktree [(i, VAny (S d)) :: P] nx).
Proof. intros. rewrite step1. cbn [feed]. unfold feed_any. rewrite H. reflexivity. Qed.

Lemma any_step_close0 : forall g i P nx e, opening e = false ->
  step g (mktree [(i, VAny 1) :: P] nx) e = match P with [] => OAccept | _ => OGo (mktree [P] nx) end.
Proof. intros. rewrite step1. cbn [feed]. unfold feed_any. rewrite H. reflexivity. Qed.

Lemma any_items_pass : forall xs, Forall any_pass_at xs -> forall g i d P nx rest,
  run g (mktree [(i, VAny (S d)) :: P] nx) (flat_map item_events xs ++ rest) = run g (mktree [(i, VAny (S d)) :: P] nx) rest.
Proof.
  intros xs HF. induction HF as [|x r Hx HF IH]; intros g i d P nx rest; [reflexivity|].
  cbn [flat_map]. unfold item_events at 1. cbn [app]. rewrite <- !app_assoc.
  rewrite run_cons, any_step_open by reflexivity.
  rewrite Hx. cbn [app]. rewrite run_cons, any_step_close by reflexivity. apply IH.
Qed.

Lemma any_members_pass : forall ms, Forall (fun m => any_pass_at (snd m)) ms -> forall g i d P nx rest,
  run g (mktree [(i, VAny (S d)) :: P] nx) (flat_map member_events ms ++ rest) = run g (mktree [(i, VAny (S d)) :: P] nx) rest.
Proof.
  intros ms HF. induction HF as [|m r Hx HF IH]; intros g i d P nx rest; [reflexivity|].
  cbn [flat_map]. unfold member_events at 1. cbn [app]. rewrite <- !app_assoc.
  rewrite run_cons, any_step_open by reflexivity.
  rewrite run_cons, any_step_close by reflexivity.
  rewrite run_cons, any_step_open by reflexivity.
  rewrite Hx. cbn [app]. rewrite run_cons, any_step_close by reflexivity. apply IH.
Qed.

Lemma any_pass : forall v, any_pass_at v.
Proof.
  induction v as [| | | | |xs HF|ms HF] using jval_ind2; unfold any_pass_at; intros g i d P nx rest;
    try (cbn [events app]; rewrite run_cons, any_step_open by reflexivity;
         rewrite run_cons, any_step_close by reflexivity; reflexivity).
  - rewrite events_arr. cbn [app]. rewrite <- app_assoc.
    rewrite run_cons, any_step_open by reflexivity.
    rewrite any_items_pass by exact HF. cbn [app].
    rewrite run_cons, any_step_close by reflexivity. reflexivity.
  - rewrite events_obj. cbn [app]. rewrite <- app_assoc.
    rewrite run_cons, any_step_open by reflexivity.
    rewrite any_members_pass by exact HF. cbn [app].
    rewrite run_cons, any_step_close by reflexivity. reflexivity.
Qed.

Lemma any0_single : forall v g i P nx rest,
  run g (mktree [(i, VAny 0) :: P] nx) (events v ++ rest) = cont g P nx rest.
Proof.
  intros v g i P nx rest. destruct v as [| | | | |xs|ms];
    try (cbn [events app]; rewrite run_cons, any_step_open by reflexivity;
         rewrite run_cons, any_step_close0 by reflexivity; destruct P; reflexivity).
  - rewrite events_arr. cbn [app]. rewrite <- app_assoc.
    rewrite run_cons, any_step_open by reflexivity.
    rewrite any_items_pass by (apply Forall_forall; intros; apply any_pass). cbn [app].
    rewrite run_cons, any_step_close0 by reflexivity. destruct P; reflexivity.
  - rewrite events_obj. cbn [app]. rewrite <- app_assoc.
    rewrite run_cons, any_step_open by reflexivity.
    rewrite any_members_pass by (apply Forall_forall; intros; apply any_pass). cbn [app].
    rewrite run_cons, any_step_close0 by reflexivity. destruct P; reflexivity.
Qed.

(* ------------------------------------------------------------------ *)
(* two leaves                                                          *)
(* ------------------------------------------------------------------ *)
Lemma step2_err_err : forall g i1 s1 P1 i2 s2 P2 nx e c1 c2,
  feed g s1 e = FErr c1 -> feed g s2 e = FErr c2 ->
  step g (mktree [(i1, s1) :: P1; (i2, s2) :: P2] nx) e = OReject E_OR.
Proof.
  intros g i1 s1 P1 i2 s2 P2 nx e c1 c2 H1 H2. unfold step.
  cbn [leaves next_id length feed_leaves]. rewrite H1, H2. reflexivity.
Qed.

Lemma step2_err_stay : forall g i1 s1 P1 i2 s2 P2 nx e c1 s2',
  feed g s1 e = FErr c1 -> feed g s2 e = FStay s2' ->
  step g (mktree [(i1, s1) :: P1; (i2, s2) :: P2] nx) e = OGo (mktree [(i2, s2') :: P2] nx).
Proof.
  intros g i1 s1 P1 i2 s2 P2 nx e c1 s2' H1 H2. unfold step.
  cbn [leaves next_id length feed_leaves]. rewrite H1, H2. reflexivity.
Qed.

Lemma step2_stay_err : forall g i1 s1 P1 i2 s2 P2 nx e s1' c2,
  feed g s1 e = FStay s1' -> feed g s2 e = FErr c2 ->
  step g (mktree [(i1, s1) :: P1; (i2, s2) :: P2] nx) e = OGo (mktree [(i1, s1') :: P1] nx).
Proof.
  intros g i1 s1 P1 i2 s2 P2 nx e s1' c2 H1 H2. unfold step.
  cbn [leaves next_id length feed_leaves]. rewrite H1, H2. reflexivity.
Qed.

Lemma step2_stay_stay : forall g i1 s1 P1 i2 s2 P2 nx e s1' s2',
  feed g s1 e = FStay s1' -> feed g s2 e = FStay s2' ->
  step g (mktree [(i1, s1) :: P1; (i2, s2) :: P2] nx) e = OGo (mktree [(i1, s1') :: P1; (i2, s2') :: P2] nx).
Proof.
  intros g i1 s1 P1 i2 s2 P2 nx e s1' s2' H1 H2. unfold step.
  cbn [leaves next_id length feed_leaves]. rewrite H1, H2. reflexivity.
Qed.

Lemma step2_done_done : forall g i1 s1 i2 s2 P nx e,
  feed g s1 e = FDone -> feed g s2 e = FDone -> pid_lt P i2 ->
  step g (mktree [(i1, s1) :: P; (i2, s2) :: P] nx) e = match P with [] => OAccept | _ => OGo (mktree [P] nx) end.
Proof.
  intros g i1 s1 i2 s2 P nx e H1 H2 Hp. unfold step.
  cbn [leaves next_id length feed_leaves]. rewrite H1, H2.
  destruct P as [|[p ps] P']; [reflexivity|]. cbn [pid_lt] in Hp.
  cbn [app has_leaf existsb head_id]. 
  replace (Nat.eqb p i2) with false by (symmetry; apply Nat.eqb_neq; lia).
  cbn [orb feed_leaves app has_leaf existsb head_id]. rewrite Nat.eqb_refl. reflexivity.
Qed.

Lemma step2_done_err : forall g i1 s1 i2 s2 P nx e c2,
  feed g s1 e = FDone -> feed g s2 e = FErr c2 -> pid_lt P i2 ->
  step g (mktree [(i1, s1) :: P; (i2, s2) :: P] nx) e = match P with [] => OAccept | _ => OGo (mktree [P] nx) end.
Proof.
  intros g i1 s1 i2 s2 P nx e c2 H1 H2 Hp. unfold step.
  cbn [leaves next_id length feed_leaves]. rewrite H1.
  destruct P as [|[p ps] P']; [rewrite H2; reflexivity|]. cbn [pid_lt] in Hp.
  cbn [app has_leaf existsb head_id]. 
  replace (Nat.eqb p i2) with false by (symmetry; apply Nat.eqb_neq; lia).
  cbn [orb feed_leaves]. rewrite H2. reflexivity.
Qed.

(* ------------------------------------------------------------------ *)
(* T1: the rule-free fragment, verdict and error code                  *)
(* ------------------------------------------------------------------ *)
Definition omap (ms : list (bytes * bool * snode)) : list (bytes * bool * mnode) :=
  map (fun m => (fst (fst m), snd (fst m), of_snode (snd m))) ms.

Lemma mfind_omap : forall key ms, mfind key (omap ms) = option_map of_snode (find_member key ms).
Proof.
  intros key ms. induction ms as [|[[k b] x] r IH]; [reflexivity|].
  cbn [omap map fst snd mfind find_member]. destruct (bytes_eqb k key); [reflexivity|]. exact IH.
Qed.

Lemma required_omap : forall ms,
  map (fun m : bytes * bool * mnode => fst (fst m)) (filter (fun m => snd (fst m)) (omap ms)) = required_keys ms.
Proof.
  intros ms. unfold required_keys. induction ms as [|[[k b] x] r IH]; [reflexivity|].
  cbn [omap map filter fst snd]. destruct b; cbn [map fst]; unfold omap in IH; rewrite IH; reflexivity.
Qed.

Lemma last_or_map : forall A B (f : A -> B) l i, last_or (map f l) i = option_map f (last_or l i).
Proof.
  intros A B f l i. unfold last_or. destruct l as [|a l]; [reflexivity|].
  cbn [map]. rewrite <- map_cons, map_length. apply nth_error_map.
Qed.

Lemma validator_list_snode : forall g n, validator_list g (of_snode n) = Some (node_validators (of_snode n)).
Proof. intros g n. destruct n; reflexivity. Qed.

Lemma node_validators_snode_ne : forall n, exists c cs, node_validators (of_snode n) = c :: cs.
Proof. intros n. destruct n; cbn [of_snode node_validators]; eexists; eexists; reflexivity. Qed.

Definition T1_at (v : jval) : Prop :=
  forall n P a rest, pid_lt P a ->
    exists nx', a <= nx' /\
      run [] (mktree (mk a (node_validators (of_snode n)) P) (a + length (node_validators (of_snode n)))) (events v ++ rest) =
      match validate n v with Some c => OReject c | None => cont [] P nx' rest end.

Lemma cont_cons : forall g c P nx rest, cont g (c :: P) nx rest = run g (mktree [c :: P] nx) rest.
Proof. reflexivity. Qed.

Lemma obj_loop : forall ms dms, Forall (fun m => T1_at (snd m)) dms ->
  forall req last i P nx rest, i < nx ->
    exists nx', nx <= nx' /\
      run [] (mktree [(i, VObj (omap ms) MAPNone req last) :: P] nx) (flat_map member_events dms ++ EObjEnd :: rest) =
      match members_loop ms dms req with Some c => OReject c | None => cont [] P nx' rest end.
Proof.
  intros ms dms HF. induction HF as [|[key x] r Hx HF IH]; intros req last i P nx rest Hi.
  - exists nx. split; [lia|]. cbn [flat_map app members_loop]. rewrite run_cons, step1. cbn [feed].
    destruct req; [|reflexivity]. destruct P; reflexivity.
  - cbn [flat_map]. unfold member_events at 1. cbn [fst snd app members_loop]. rewrite <- !app_assoc.
    rewrite run_cons, step1. cbn [feed].
    rewrite run_cons, step1. cbn [feed].
    rewrite run_cons, step1, feed_obj_valbegin, mfind_omap.
    destruct (find_member key ms) as [child|]; cbn [option_map]; [|exists nx; split; [lia|reflexivity]].
    rewrite validator_list_snode.
    destruct (node_validators_snode_ne child) as [c [cs Hcs]].
    cbn [snd] in Hx.
    destruct (Hx child ((i, VObj (omap ms) MAPNone (filter (fun k => negb (bytes_eqb k key)) req) (Some key)) :: P) nx
                 ([EValEnd] ++ flat_map member_events r ++ EObjEnd :: rest) Hi) as [nx1 [Hle Hrun]].
    rewrite Hcs in Hrun |- *. rewrite Hrun.
    destruct (validate child x) as [e|]; [exists nx; split; [lia|reflexivity]|].
    rewrite cont_cons. cbn [app]. rewrite run_cons, step1. cbn [feed].
    destruct (IH (remove_key key req) (Some key) i P nx1 rest ltac:(lia)) as [nx2 [Hle2 Hrun2]].
    exists nx2. split; [lia|]. exact Hrun2.
Qed.

Lemma arr_loop : forall items xs, Forall T1_at xs ->
  forall c i P nx rest, i < nx ->
    exists nx', nx <= nx' /\
      run [] (mktree [(i, VArr (map of_snode items) c) :: P] nx) (flat_map item_events xs ++ EArrEnd :: rest) =
      match elems_loop items xs c with Some e => OReject e | None => cont [] P nx' rest end.
Proof.
  intros items xs HF. induction HF as [|x r Hx HF IH]; intros c i P nx rest Hi.
  - exists nx. split; [lia|]. cbn [flat_map app elems_loop]. rewrite run_cons, step1. cbn [feed].
    destruct P; reflexivity.
  - cbn [flat_map]. unfold item_events at 1. cbn [app elems_loop]. rewrite <- !app_assoc.
    rewrite run_cons, step1. cbn [feed]. rewrite last_or_map.
    destruct (last_or items c) as [child|]; cbn [option_map]; [|exists nx; split; [lia|reflexivity]].
    rewrite validator_list_snode.
    destruct (node_validators_snode_ne child) as [c0 [cs Hcs]].
    destruct (Hx child ((i, VArr (map of_snode items) (S c)) :: P) nx
                 ([EItemEnd] ++ flat_map item_events r ++ EArrEnd :: rest) Hi) as [nx1 [Hle Hrun]].
    rewrite Hcs in Hrun |- *. rewrite Hrun.
    destruct (validate child x) as [e|]; [exists nx; split; [lia|reflexivity]|].
    rewrite cont_cons. cbn [app]. rewrite run_cons, step1. cbn [feed].
    destruct (IH (S c) i P nx1 rest ltac:(lia)) as [nx2 [Hle2 Hrun2]].
    exists nx2. split; [lia|]. exact Hrun2.
Qed.

Lemma any1_arr_tail : forall xs g i P nx rest,
  run g (mktree [(i, VAny 1) :: P] nx) (flat_map item_events xs ++ EArrEnd :: rest) = cont g P nx rest.
Proof.
  intros. rewrite any_items_pass by (apply Forall_forall; intros; apply any_pass).
  rewrite run_cons, any_step_close0 by reflexivity. destruct P; reflexivity.
Qed.

Lemma any1_obj_tail : forall ms g i P nx rest,
  run g (mktree [(i, VAny 1) :: P] nx) (flat_map member_events ms ++ EObjEnd :: rest) = cont g P nx rest.
Proof.
  intros. rewrite any_members_pass by (apply Forall_forall; intros; apply any_pass).
  rewrite run_cons, any_step_close0 by reflexivity. destruct P; reflexivity.
Qed.

Lemma pid_lt_S : forall P a, pid_lt P a -> pid_lt P (S a).
Proof. intros [|[p s] P] a H; cbn [pid_lt] in *; [exact I|lia]. Qed.

Lemma any0_null : forall v g a P nx rest, pid_lt P a ->
  run g (mktree [(a, VAny 0) :: P; (S a, VNull) :: P] nx) (events v ++ rest) = cont g P nx rest.
Proof.
  intros v g a P nx rest Hp. apply pid_lt_S in Hp.
  destruct v as [| | | | |xs|ms];
    try (cbn [events app];
         rewrite run_cons, (step2_stay_stay g a (VAny 0) P (S a) VNull P nx ELitBegin (VAny 1) VNull) by reflexivity;
         rewrite run_cons;
         match goal with |- context [step _ _ ?e] =>
           first [ rewrite (step2_done_done g a (VAny 1) (S a) VNull P nx e eq_refl eq_refl Hp)
                 | rewrite (step2_done_err g a (VAny 1) (S a) VNull P nx e E_VALUE_TYPE eq_refl eq_refl Hp) ] end;
         destruct P; reflexivity).
  - rewrite events_arr. cbn [app]. rewrite <- app_assoc. cbn [app].
    rewrite run_cons, (step2_stay_err g a (VAny 0) P (S a) VNull P nx EArrBegin (VAny 1) E_LEX_LITERAL) by reflexivity.
    apply any1_arr_tail.
  - rewrite events_obj. cbn [app]. rewrite <- app_assoc. cbn [app].
    rewrite run_cons, (step2_stay_err g a (VAny 0) P (S a) VNull P nx EObjBegin (VAny 1) E_LEX_LITERAL) by reflexivity.
    apply any1_obj_tail.
Qed.

Lemma T1_any : forall v n P a rest, ShapeProofs.is_any n = true -> pid_lt P a ->
  exists nx', a <= nx' /\
    run [] (mktree (mk a (node_validators (of_snode n)) P) (a + length (node_validators (of_snode n)))) (events v ++ rest) =
    match validate n v with Some c => OReject c | None => cont [] P nx' rest end.
Proof.
  intros v n P a rest Ha Hp. rewrite (validate_any n v Ha).
  destruct n as [k nl an|ms nl an|items nl an]; cbn [ShapeProofs.is_any] in Ha; subst an;
    cbn [of_snode node_validators]; try destruct nl; cbn [mk length seq combine map app];
    eexists; (split; [|first [apply any0_single | apply any0_null; exact Hp]]); lia.
Qed.

Lemma T1_lit : forall v k nl P a rest,
  exists nx', a <= nx' /\
    run [] (mktree [(a, VLit k nl) :: P] (a + 1)) (events v ++ rest) =
    match validate (SLit k nl false) v with Some c => OReject c | None => cont [] P nx' rest end.
Proof.
  intros v k nl P a rest. exists (a + 1). split; [lia|]. rewrite validate_lit.
  destruct v as [| | | | |xs|ms]; cbn [is_container];
    try (cbn [events app]; rewrite run_cons, step1; cbn [feed]; rewrite run_cons, step1; cbn [feed];
         match goal with |- context [lit_kind_ok ?a ?b ?c] => destruct (lit_kind_ok a b c) end;
         try reflexivity; destruct P; reflexivity).
  - rewrite events_arr. cbn [app]. rewrite run_cons, step1. reflexivity.
  - rewrite events_obj. cbn [app]. rewrite run_cons, step1. reflexivity.
Qed.

Lemma nv_obj : forall ms nl,
  node_validators (of_snode (SObj ms nl false)) =
  VObj (omap ms) MAPNone (required_keys ms) None :: (if nl then [VNull] else []).
Proof.
  intros ms nl. cbn [of_snode node_validators]. fold (omap ms). rewrite required_omap.
  destruct nl; reflexivity.
Qed.

Lemma nv_arr : forall items nl,
  node_validators (of_snode (SArr items nl false)) =
  VArr (map of_snode items) 0 :: (if nl then [VNull] else []).
Proof. intros items nl. cbn [of_snode node_validators]. destruct nl; reflexivity. Qed.

Lemma T1_obj : forall v ms nl P a rest,
  (forall dms, v = JObj dms -> Forall (fun m => T1_at (snd m)) dms) -> pid_lt P a ->
  exists nx', a <= nx' /\
    run [] (mktree (mk a (node_validators (of_snode (SObj ms nl false))) P)
                   (a + length (node_validators (of_snode (SObj ms nl false))))) (events v ++ rest) =
    match validate (SObj ms nl false) v with Some c => OReject c | None => cont [] P nx' rest end.
Proof.
  intros v ms nl P a rest HF Hp. rewrite nv_obj.
  destruct nl; cbn [mk length seq combine map app].
  - (* two leaves *)
    destruct v as [| | | | |xs|dms].
    + exists (a + 2). split; [lia|]. cbn [events app validate container_mismatch].
      rewrite run_cons, (step2_err_stay [] a _ P (S a) VNull P (a + 2) ELitBegin E_LEX_OBJECT VNull) by reflexivity.
      rewrite run_cons, step1. cbn [feed]. destruct P; reflexivity.
    + exists a. split; [lia|]. cbn [events app validate container_mismatch].
      rewrite run_cons, (step2_err_stay [] a _ P (S a) VNull P (a + 2) ELitBegin E_LEX_OBJECT VNull) by reflexivity.
      rewrite run_cons, step1. reflexivity.
    + exists a. split; [lia|]. cbn [events app validate container_mismatch].
      rewrite run_cons, (step2_err_stay [] a _ P (S a) VNull P (a + 2) ELitBegin E_LEX_OBJECT VNull) by reflexivity.
      rewrite run_cons, step1. reflexivity.
    + exists a. split; [lia|]. cbn [events app validate container_mismatch].
      rewrite run_cons, (step2_err_stay [] a _ P (S a) VNull P (a + 2) ELitBegin E_LEX_OBJECT VNull) by reflexivity.
      rewrite run_cons, step1. reflexivity.
    + exists a. split; [lia|]. cbn [events app validate container_mismatch].
      rewrite run_cons, (step2_err_stay [] a _ P (S a) VNull P (a + 2) ELitBegin E_LEX_OBJECT VNull) by reflexivity.
      rewrite run_cons, step1. reflexivity.
    + exists a. split; [lia|]. rewrite events_arr. cbn [app validate container_mismatch].
      rewrite run_cons, (step2_err_err [] a _ P (S a) VNull P (a + 2) EArrBegin E_LEX_OBJECT E_LEX_LITERAL) by reflexivity.
      reflexivity.
    + rewrite events_obj, validate_obj_obj. cbn [app]. rewrite <- app_assoc. cbn [app].
      rewrite run_cons, (step2_stay_err [] a _ P (S a) VNull P (a + 2) EObjBegin _ E_LEX_LITERAL) by reflexivity.
      destruct (obj_loop ms dms (HF dms eq_refl) (required_keys ms) None a P (a + 2) rest ltac:(lia)) as [nx' [Hle Hrun]].
      exists nx'. split; [lia|]. exact Hrun.
  - (* one leaf *)
    destruct v as [| | | | |xs|dms];
      try (exists a; split; [lia|]; cbn [events app validate container_mismatch];
           rewrite run_cons, step1; reflexivity).
    + rewrite events_obj, validate_obj_obj. cbn [app]. rewrite <- app_assoc. cbn [app].
      rewrite run_cons, step1. cbn [feed].
      destruct (obj_loop ms dms (HF dms eq_refl) (required_keys ms) None a P (a + 1) rest ltac:(lia)) as [nx' [Hle Hrun]].
      exists nx'. split; [lia|]. exact Hrun.
Qed.

Lemma T1_arr : forall v items nl P a rest,
  (forall xs, v = JArr xs -> Forall T1_at xs) -> pid_lt P a ->
  exists nx', a <= nx' /\
    run [] (mktree (mk a (node_validators (of_snode (SArr items nl false))) P)
                   (a + length (node_validators (of_snode (SArr items nl false))))) (events v ++ rest) =
    match validate (SArr items nl false) v with Some c => OReject c | None => cont [] P nx' rest end.
Proof.
  intros v items nl P a rest HF Hp. rewrite nv_arr.
  destruct nl; cbn [mk length seq combine map app].
  - destruct v as [| | | | |xs|dms].
    + exists (a + 2). split; [lia|]. cbn [events app validate container_mismatch].
      rewrite run_cons, (step2_err_stay [] a _ P (S a) VNull P (a + 2) ELitBegin E_LEX_ARRAY VNull) by reflexivity.
      rewrite run_cons, step1. cbn [feed]. destruct P; reflexivity.
    + exists a. split; [lia|]. cbn [events app validate container_mismatch].
      rewrite run_cons, (step2_err_stay [] a _ P (S a) VNull P (a + 2) ELitBegin E_LEX_ARRAY VNull) by reflexivity.
      rewrite run_cons, step1. reflexivity.
    + exists a. split; [lia|]. cbn [events app validate container_mismatch].
      rewrite run_cons, (step2_err_stay [] a _ P (S a) VNull P (a + 2) ELitBegin E_LEX_ARRAY VNull) by reflexivity.
      rewrite run_cons, step1. reflexivity.
    + exists a. split; [lia|]. cbn [events app validate container_mismatch].
      rewrite run_cons, (step2_err_stay [] a _ P (S a) VNull P (a + 2) ELitBegin E_LEX_ARRAY VNull) by reflexivity.
      rewrite run_cons, step1. reflexivity.
    + exists a. split; [lia|]. cbn [events app validate container_mismatch].
      rewrite run_cons, (step2_err_stay [] a _ P (S a) VNull P (a + 2) ELitBegin E_LEX_ARRAY VNull) by reflexivity.
      rewrite run_cons, step1. reflexivity.
    + rewrite events_arr, validate_arr_arr. cbn [app]. rewrite <- app_assoc. cbn [app].
      rewrite run_cons, (step2_stay_err [] a _ P (S a) VNull P (a + 2) EArrBegin _ E_LEX_LITERAL) by reflexivity.
      destruct (arr_loop items xs (HF xs eq_refl) 0 a P (a + 2) rest ltac:(lia)) as [nx' [Hle Hrun]].
      exists nx'. split; [lia|]. exact Hrun.
    + exists a. split; [lia|]. rewrite events_obj. cbn [app validate container_mismatch].
      rewrite run_cons, (step2_err_err [] a _ P (S a) VNull P (a + 2) EObjBegin E_LEX_ARRAY E_LEX_LITERAL) by reflexivity.
      reflexivity.
  - destruct v as [| | | | |xs|dms];
      try (exists a; split; [lia|]; cbn [events app validate container_mismatch];
           rewrite run_cons, step1; reflexivity).
    + rewrite events_arr, validate_arr_arr. cbn [app]. rewrite <- app_assoc. cbn [app].
      rewrite run_cons, step1. cbn [feed].
      destruct (arr_loop items xs (HF xs eq_refl) 0 a P (a + 1) rest ltac:(lia)) as [nx' [Hle Hrun]].
      exists nx'. split; [lia|]. exact Hrun.
Qed.

Theorem T1_all : forall v, T1_at v.
Proof.
  assert (G : forall v, (forall dms, v = JObj dms -> Forall (fun m => T1_at (snd m)) dms) ->
                        (forall xs, v = JArr xs -> Forall T1_at xs) -> T1_at v).
  { intros v Ho Ha n P a rest Hp.
    destruct (ShapeProofs.is_any n) eqn:Hany; [apply T1_any; assumption|].
    destruct n as [k nl an|ms nl an|items nl an]; cbn [ShapeProofs.is_any] in Hany; subst an.
    - cbn [of_snode node_validators mk length seq combine map app]. apply T1_lit.
    - apply T1_obj; assumption.
    - apply T1_arr; assumption. }
  induction v as [| | | | |xs HF|dms HF] using jval_ind2; apply G;
    try (intros ? E; discriminate E).
  - intros xs' E. injection E as E. subst xs'. exact HF.
  - intros dms' E. injection E as E. subst dms'. exact HF.
Qed.

Theorem machine_eq_validate : forall n v, machine_validate [] (of_snode n) v = validate n v.
Proof.
  intros n v. unfold machine_validate, tree0. rewrite validator_list_snode.
  destruct (T1_all v n [] 0 [] I) as [nx' [_ Hrun]].
  rewrite app_nil_r in Hrun. unfold mk in Hrun. cbn [Nat.add] in Hrun.
  replace (map (fun c => [c]) (combine (seq 0 (length (node_validators (of_snode n)))) (node_validators (of_snode n))))
    with (map (fun c : nat * vstate => c :: ([] : leaf)) (combine (seq 0 (length (node_validators (of_snode n)))) (node_validators (of_snode n))))
    by reflexivity.
  rewrite Hrun. destruct (validate n v); reflexivity.
Qed.

(* ------------------------------------------------------------------ *)
(* T2: the denotation, its loops named, fuel monotonicity              *)
(* ------------------------------------------------------------------ *)
Fixpoint macc_items (f : nat) (g : menv) (items : list mnode) (xs : list jval) (i : nat) : bool :=
  match xs with
  | [] => true
  | x :: r => (match last_or items i with Some child => maccepts f g child x | None => false end
               && macc_items f g items r (S i))%bool
  end.

Definition macc_ap (f : nat) (g : menv) (ap : maddp) (x : jval) : bool :=
  match ap with
  | MAPNone | MAPFalse => false
  | MAPAny => true
  | MAPKind k => (negb (is_container x) && addkind_ok k x)%bool
  | MAPObject => match x with JObj _ => true | _ => false end
  | MAPArray => match x with JArr _ => true | _ => false end
  | MAPType t => match mlookup g t with Some body => maccepts f g body x | None => false end
  end.

Definition macc_member (f : nat) (g : menv) (ms : list (bytes * bool * mnode)) (ap : maddp) (key : bytes) (x : jval) : bool :=
  match mfind key ms with
  | Some child => maccepts f g child x
  | None => macc_ap f g ap x
  end.

Fixpoint macc_members (f : nat) (g : menv) (ms : list (bytes * bool * mnode)) (ap : maddp) (dms : list (bytes * jval)) : bool :=
  match dms with
  | [] => true
  | (key, x) :: r => (macc_member f g ms ap key x && macc_members f g ms ap r)%bool
  end.

Definition mreq_ok (ms : list (bytes * bool * mnode)) (dms : list (bytes * jval)) : bool :=
  forallb (fun m : bytes * bool * mnode =>
             let '(key, req, _) := m in (negb req || existsb (fun d : bytes * jval => bytes_eqb (fst d) key) dms)%bool) ms.

Definition macc_refs (f : nat) (g : menv) (names : list tname) (v : jval) : bool :=
  existsb (fun name => match mlookup g name with Some body => maccepts f g body v | None => false end) names.

Lemma maccepts_S : forall f g n v,
  maccepts (S f) g n v =
  match n with
  | MRefs names nl => ((nl && is_null v) || macc_refs f g names v)%bool
  | MLit k nl an => if an then true else (negb (is_container v) && lit_kind_ok k nl v)%bool
  | MArr items nl an =>
    if an then true
    else match v with JArr xs => macc_items f g items xs 0 | JNull => nl | _ => false end
  | MObj ms ap nl an =>
    if an then true
    else match v with
         | JObj dms => (mreq_ok ms dms && macc_members f g ms ap dms)%bool
         | JNull => nl
         | _ => false
         end
  end.
Proof.
  intros f g n v. destruct n as [k nl an|ms ap nl an|items nl an|names nl]; cbn [maccepts]; try reflexivity.
  - destruct an; [reflexivity|]. destruct v as [| | | | |xs|dms]; try reflexivity.
    fold (mreq_ok ms dms). f_equal.
    induction dms as [|[key x] r IH]; [reflexivity|].
    cbn [macc_members]. rewrite <- IH. unfold macc_member, macc_ap. reflexivity.
  - destruct an; [reflexivity|]. destruct v as [| | | | |xs|dms]; try reflexivity.
    generalize 0. induction xs as [|x r IH]; intros i; [reflexivity|].
    cbn [macc_items]. rewrite <- IH. reflexivity.
Qed.

Theorem maccepts_fuel_mono : forall F F' g n v, F <= F' -> maccepts F g n v = true -> maccepts F' g n v = true.
Proof.
  induction F as [|f IH]; intros F' g n v Hle H; [discriminate H|].
  destruct F' as [|f']; [lia|]. assert (Hle' : f <= f') by lia.
  rewrite maccepts_S in H |- *.
  destruct n as [k nl an|ms ap nl an|items nl an|names nl].
  - exact H.
  - destruct an; [reflexivity|]. destruct v as [| | | | |xs|dms]; try exact H.
    apply andb_true_iff in H. destruct H as [H1 H2]. rewrite H1. cbn [andb]. clear H1.
    induction dms as [|[key x] r IHd]; [reflexivity|].
    cbn [macc_members] in H2 |- *. apply andb_true_iff in H2. destruct H2 as [H2 H3].
    rewrite (IHd H3), andb_true_r. clear IHd H3.
    unfold macc_member in *. destruct (mfind key ms) as [child|]; [apply (IH f'); assumption|].
    unfold macc_ap in *. destruct ap; try exact H2.
    destruct (mlookup g n) as [body|]; [apply (IH f'); assumption|exact H2].
  - destruct an; [reflexivity|]. destruct v as [| | | | |xs|dms]; try exact H.
    revert H. generalize 0. induction xs as [|x r IHx]; intros i H; [reflexivity|].
    cbn [macc_items] in H |- *. apply andb_true_iff in H. destruct H as [H1 H2].
    rewrite (IHx _ H2), andb_true_r. destruct (last_or items i) as [child|]; [apply (IH f'); assumption|exact H1].
  - apply orb_true_iff in H. apply orb_true_iff. destruct H as [H|H]; [left; exact H|right].
    unfold macc_refs in *. apply existsb_exists in H. destruct H as [name [Hin H]].
    apply existsb_exists. exists name. split; [exact Hin|].
    destruct (mlookup g name) as [body|]; [apply (IH f'); assumption|exact H].
Qed.

(* ------------------------------------------------------------------ *)
(* T3/T4: one round of FeedLeaves on an arbitrary well-formed tree     *)
(* ------------------------------------------------------------------ *)
Definition hid (l : leaf) : nat := match l with (i, _) :: _ => i | [] => 0 end.
Definition hst (l : leaf) : vstate := match l with (_, s) :: _ => s | [] => VNull end.
Definition mem (p : nat) (seen : list nat) : bool := existsb (Nat.eqb p) seen.

(* a leaf is well formed w.r.t. the head identities H and the bound nx *)
Definition lwf (H : list nat) (nx : nat) (l : leaf) : Prop :=
  match l with
  | [] => False
  | (i, _) :: P => i < nx /\ match P with [] => True | (p, _) :: _ => p < nx /\ ~ In p H end
  end.
Definition Inv (L : list leaf) (nx : nat) : Prop :=
  NoDup (map hid L) /\ Forall (lwf (map hid L) nx) L.

Fixpoint roundE (g : menv) (e : event) (todo : list leaf) : nat :=
  match todo with
  | [] => 0
  | l :: rest =>
    match l with
    | [] => roundE g e rest
    | (_, s) :: _ => match feed g s e with FErr _ => S (roundE g e rest) | _ => roundE g e rest end
    end
  end.

Fixpoint roundN (g : menv) (e : event) (todo : list leaf) (nx : nat) : nat :=
  match todo with
  | [] => nx
  | l :: rest =>
    match l with
    | [] => roundN g e rest nx
    | (_, s) :: _ => match feed g s e with FChildren _ cs => roundN g e rest (nx + length cs) | _ => roundN g e rest nx end
    end
  end.

Fixpoint roundL (g : menv) (e : event) (todo : list leaf) (nx : nat) (seen : list nat) : list leaf :=
  match todo with
  | [] => []
  | l :: rest =>
    match l with
    | [] => roundL g e rest nx seen
    | (i, s) :: P =>
      match feed g s e with
      | FErr _ | FPanic => roundL g e rest nx seen
      | FStay s' => ((i, s') :: P) :: roundL g e rest nx seen
      | FDone =>
        match P with
        | [] => roundL g e rest nx seen
        | (p, _) :: _ => if mem p seen then roundL g e rest nx seen else P :: roundL g e rest nx (p :: seen)
        end
      | FChildren s' cs => mk nx cs ((i, s') :: P) ++ roundL g e rest (nx + length cs) seen
      end
    end
  end.

Definition clean_feed (g : menv) (e : event) (l : leaf) : Prop :=
  match l with
  | [] => False
  | (_, s) :: _ => match feed g s e with FPanic => False | FChildren _ [] => False | _ => True end
  end.

Lemma has_leaf_app : forall a b p, has_leaf (a ++ b) p = (has_leaf a p || has_leaf b p)%bool.
Proof. intros. unfold has_leaf. apply existsb_app. Qed.

Lemma has_leaf_notin : forall ls p, ~ In p (map hid ls) -> has_leaf ls p = false.
Proof.
  induction ls as [|l ls IH]; intros p Hn; [reflexivity|].
  cbn [has_leaf existsb]. fold (has_leaf ls p). rewrite IH by (intros Hi; apply Hn; right; exact Hi).
  destruct l as [|[i s] P]; [reflexivity|]. cbn [head_id].
  replace (Nat.eqb p i) with false; [reflexivity|].
  symmetry. apply Nat.eqb_neq. intros E. apply Hn. left. cbn [hid]. symmetry. exact E.
Qed.

Lemma has_leaf_mk_ge : forall cs a P p, p < a -> has_leaf (mk a cs P) p = false.
Proof.
  intros cs. unfold mk. induction cs as [|c cs IH]; intros a P p Hp; [reflexivity|].
  cbn [length seq combine map has_leaf existsb head_id].
  replace (Nat.eqb p a) with false by (symmetry; apply Nat.eqb_neq; lia).
  cbn [orb]. apply (IH (S a) P p). lia.
Qed.

Lemma has_leaf_rev : forall ls p, has_leaf (rev ls) p = has_leaf ls p.
Proof.
  intros ls p. unfold has_leaf. induction ls as [|l ls IH]; [reflexivity|].
  cbn [rev existsb]. rewrite existsb_app, IH. cbn [existsb]. rewrite orb_false_r. apply orb_comm.
Qed.

Lemma mk_cons : forall a c cs P, mk a (c :: cs) P = ((a, c) :: P) :: mk (S a) cs P.
Proof. reflexivity. Qed.

Lemma feed_err_lt : forall g s e c, feed g s e = FErr c -> c < 9999.
Proof.
  intros g s e c H.
  destruct s; destruct e; cbn [feed] in H; unfold feed_any in H; try discriminate H;
    repeat match type of H with
           | context [match ?x with _ => _ end] => destruct x; try discriminate H
           end;
    try (injection H as H; subst c; apply Nat.ltb_lt; vm_compute; reflexivity).
Qed.

Lemma feed_leaves_spec : forall g e H nx0 todo done nx errs le seen,
  Forall (clean_feed g e) todo ->
  Forall (lwf H nx0) todo -> incl (map hid todo) H -> nx0 <= nx ->
  (forall p, p < nx0 -> ~ In p H -> has_leaf done p = mem p seen) -> le < 9999 ->
  exists le', le' < 9999 /\
    feed_leaves g e todo done nx errs le =
    Some (rev done ++ roundL g e todo nx seen, roundN g e todo nx, errs + roundE g e todo, le').
Proof.
  intros g e H nx0 todo. induction todo as [|l rest IH]; intros done nx errs le seen Hc Hw Hi Hnx Hd Hlt.
  - exists le. split; [exact Hlt|]. cbn [feed_leaves roundL roundN roundE]. rewrite frev_is_rev, app_nil_r, Nat.add_0_r. reflexivity.
  - inversion Hc as [|? ? Hc1 Hc2]; subst. inversion Hw as [|? ? Hw1 Hw2]; subst.
    assert (Hi2 : incl (map hid rest) H) by (intros x Hx; apply Hi; right; exact Hx).
    destruct l as [|[i s] P]; [destruct Hc1|].
    assert (HiH : In i H) by (apply Hi; left; reflexivity).
    cbn [feed_leaves roundL roundN roundE]. cbn [clean_feed] in Hc1. cbn [lwf] in Hw1.
    destruct (feed g s e) as [s'|  |s' cs|c| ] eqn:Hfeed.
    + destruct (IH (((i, s') :: P) :: done) nx errs le seen Hc2 Hw2 Hi2 Hnx) as [le' [Hlt' Hle']]; [|exact Hlt|].
      { intros p Hp Hn. cbn [has_leaf existsb head_id]. fold (has_leaf done p).
        replace (Nat.eqb p i) with false; [apply Hd; assumption|].
        symmetry. apply Nat.eqb_neq. intros E. subst p. apply Hn. exact HiH. }
      exists le'. split; [exact Hlt'|]. rewrite Hle'. cbn [rev]. rewrite <- app_assoc. reflexivity.
    + destruct P as [|[p ps] P'].
      * apply IH; assumption.
      * destruct Hw1 as [_ [Hp Hn]].
        rewrite has_leaf_app, (has_leaf_notin rest p) by (intros Hx; apply Hn; apply Hi2; exact Hx).
        cbn [orb]. rewrite (Hd p Hp Hn).
        destruct (mem p seen) eqn:Hm; [apply IH; assumption|].
        destruct (IH (((p, ps) :: P') :: done) nx errs le (p :: seen) Hc2 Hw2 Hi2 Hnx) as [le' [Hlt' Hle']]; [|exact Hlt|].
        { intros q Hq Hnq. cbn [has_leaf existsb head_id mem]. fold (has_leaf done q). fold (mem q seen).
          rewrite (Hd q Hq Hnq). reflexivity. }
        exists le'. split; [exact Hlt'|]. rewrite Hle'. cbn [rev]. rewrite <- app_assoc. reflexivity.
    + destruct cs as [|c cs]; [destruct Hc1|].
      cbn [length seq combine map].
      destruct (IH (frev (map (fun c0 => c0 :: (i, s') :: P) (combine (seq (S nx) (length cs)) cs)) ++
                    ((nx, c) :: (i, s') :: P) :: done) (nx + S (length cs)) errs le seen Hc2 Hw2 Hi2 ltac:(lia)) as [le' [Hlt' Hle']]; [|exact Hlt|].
      { intros p Hp Hn. rewrite has_leaf_app, frev_is_rev, has_leaf_rev.
        fold (mk (S nx) cs ((i, s') :: P)). rewrite has_leaf_mk_ge by lia.
        cbn [orb has_leaf existsb head_id]. fold (has_leaf done p).
        replace (Nat.eqb p nx) with false by (symmetry; apply Nat.eqb_neq; lia).
        apply Hd; assumption. }
      exists le'. split; [exact Hlt'|]. rewrite Hle'. rewrite frev_is_rev, rev_app_distr, rev_involutive. cbn [rev].
      rewrite mk_cons. unfold mk. rewrite <- !app_assoc. reflexivity.
    + destruct (IH done nx (S errs) c seen Hc2 Hw2 Hi2 Hnx Hd (feed_err_lt g s e c Hfeed)) as [le' [Hlt' Hle']].
      exists le'. split; [exact Hlt'|]. rewrite Hle'. f_equal. f_equal. f_equal. lia.
    + destruct Hc1.
Qed.

Lemma roundE_le : forall g e L, roundE g e L <= length L.
Proof.
  intros g e L. induction L as [|l r IH]; [apply Nat.le_refl|].
  cbn [roundE length]. destruct l as [|[i s] P]; [lia|]. destruct (feed g s e); lia.
Qed.

Lemma step_spec : forall g e L nx, Inv L nx -> Forall (clean_feed g e) L ->
  exists c, c < 9999 /\
    step g (mktree L nx) e =
    if Nat.eqb (roundE g e L) (length L) then OReject c
    else match roundL g e L nx [] with
         | [] => OAccept
         | ls => OGo (mktree ls (roundN g e L nx))
         end.
Proof.
  intros g e L nx [Hnd Hw] Hc. unfold step. cbn [leaves next_id].
  destruct (feed_leaves_spec g e (map hid L) nx L [] nx 0 0 [] Hc Hw (incl_refl _) (Nat.le_refl _)) as [le' [Hlt' Hle']].
  { intros p _ _. reflexivity. }
  { apply Nat.ltb_lt. vm_compute. reflexivity. }
  rewrite Hle'. cbn [rev app Nat.add].
  exists (if Nat.eqb (length L) 1 then le' else E_OR).
  split; [destruct (Nat.eqb (length L) 1); [exact Hlt'|apply Nat.ltb_lt; vm_compute; reflexivity]|].
  destruct (Nat.eqb (roundE g e L) (length L)); [reflexivity|].
  destruct (roundL g e L nx []); reflexivity.
Qed.

(* ------------------------------------------------------------------ *)
(* per-leaf big-step results                                           *)
(* ------------------------------------------------------------------ *)
Inductive res := RFail | RDone | RStay (s : vstate) | RBad.

Definition is_done (r : res) : bool := match r with RDone => true | _ => false end.
Definition okN (r : res) : Prop := match r with RFail | RStay _ => True | _ => False end.
Definition okF (r : res) : Prop := match r with RBad => False | _ => True end.

Definition bindR (r : res) (k : vstate -> res) : res :=
  match r with RStay s => k s | RFail => RFail | _ => RBad end.

Definition ev1 (g : menv) (e : event) (s : vstate) : res :=
  match feed g s e with FStay s' => RStay s' | FErr _ => RFail | _ => RBad end.
Definition evF (g : menv) (e : event) (s : vstate) : res :=
  match feed g s e with FStay s' => RStay s' | FErr _ => RFail | FDone => RDone | _ => RBad end.

Definition fresh_ok (r : res) : bool := match r with RDone | RFail => true | _ => false end.

Definition kid_step (g : menv) (Tx : vstate -> res) (e : event) (s : vstate) : res :=
  match feed g s e with
  | FStay s' => match Tx s' with RStay s'' => RStay s'' | RFail => RFail | _ => RBad end
  | FErr _ => RFail
  | FChildren s' cs =>
    match cs with
    | [] => RBad
    | _ => if forallb (fun c => fresh_ok (Tx c)) cs
           then (if existsb (fun c => is_done (Tx c)) cs then RStay s' else RFail)
           else RBad
    end
  | _ => RBad
  end.

Definition updT (T : vstate -> res) (L : list leaf) : list leaf :=
  flat_map (fun l => match l with
                     | (i, s) :: P => match T s with RStay s' => [(i, s') :: P] | _ => [] end
                     | [] => []
                     end) L.

Fixpoint afterT (T : vstate -> res) (L : list leaf) (seen : list nat) : list leaf :=
  match L with
  | [] => []
  | l :: r =>
    match l with
    | [] => afterT T r seen
    | (i, s) :: P =>
      match T s with
      | RStay s' => ((i, s') :: P) :: afterT T r seen
      | RDone =>
        match P with
        | [] => afterT T r seen
        | (p, _) :: _ => if mem p seen then afterT T r seen else P :: afterT T r (p :: seen)
        end
      | _ => afterT T r seen
      end
    end
  end.

Definition ldone (T : vstate -> res) (l : leaf) : bool :=
  match l with [] => false | (_, s) :: _ => is_done (T s) end.
Definition anydone (T : vstate -> res) (L : list leaf) : bool := existsb (ldone T) L.

Definition rejected (o : outcome) : Prop := exists c, c < 9999 /\ o = OReject c.
Definition outN (g : menv) (o : outcome) (L' : list leaf) (nx' : nat) (rest : list event) : Prop :=
  match L' with [] => rejected o | _ => o = run g (mktree L' nx') rest end.

Definition outF (g : menv) (o : outcome) (T : vstate -> res) (L : list leaf) (nx' : nat) (rest : list event) : Prop :=
  match afterT T L [] with
  | [] => if anydone T L then o = OAccept else rejected o
  | L' => o = run g (mktree L' nx') rest
  end.

Definition SimN (g : menv) (es : list event) (T : vstate -> res) : Prop :=
  forall L nx rest, Inv L nx -> L <> [] -> Forall (fun l => okN (T (hst l))) L ->
    exists nx', nx <= nx' /\ outN g (run g (mktree L nx) (es ++ rest)) (updT T L) nx' rest.

Definition SimF (g : menv) (es : list event) (T : vstate -> res) : Prop :=
  forall L nx rest, Inv L nx -> L <> [] -> Forall (fun l => okF (T (hst l))) L ->
    exists nx', nx <= nx' /\ outF g (run g (mktree L nx) (es ++ rest)) T L nx' rest.

(* --- invariants under updT --- *)
Lemma updT_heads : forall T L x, In x (map hid (updT T L)) -> In x (map hid L).
Proof.
  intros T L x. induction L as [|l r IH]; [intros H; exact H|].
  cbn [updT flat_map]. fold (updT T r). rewrite map_app, in_app_iff. intros [H|H].
  - destruct l as [|[i s] P]; [destruct H|]. destruct (T s); cbn [map hid In] in H;
      try (exfalso; exact H). destruct H as [H|[]]. left. exact H.
  - right. apply IH. exact H.
Qed.

Lemma lwf_mono : forall H H' nx nx' i s s' P, (forall x, In x H' -> In x H) -> nx <= nx' ->
  lwf H nx ((i, s) :: P) -> lwf H' nx' ((i, s') :: P).
Proof.
  intros H H' nx nx' i s s' P Hin Hle. cbn [lwf]. intros [Hi HP]. split; [lia|].
  destruct P as [|[p ps] P']; [exact I|]. destruct HP as [Hp Hn]. split; [lia|].
  intros Hx. apply Hn. apply Hin. exact Hx.
Qed.

Lemma Inv_updT : forall T L nx nx', Inv L nx -> nx <= nx' -> Inv (updT T L) nx'.
Proof.
  intros T L nx nx' [Hnd Hw] Hle. split.
  - clear Hw. induction L as [|l r IH]; [constructor|].
    cbn [map] in Hnd. inversion Hnd as [|? ? Hn1 Hn2]; subst.
    cbn [updT flat_map]. fold (updT T r). rewrite map_app.
    destruct l as [|[i s] P]; [apply IH; exact Hn2|].
    destruct (T s); cbn [map app]; try (apply IH; exact Hn2).
    constructor; [|apply IH; exact Hn2]. intros Hx. apply Hn1. apply (updT_heads T). exact Hx.
  - assert (G : forall H', (forall x, In x H' -> In x (map hid L)) -> Forall (lwf H' nx') (updT T L)).
    { intros H' HH. clear Hnd. induction Hw as [|l r Hl Hw IH]; [constructor|].
      cbn [updT flat_map]. fold (updT T r). apply Forall_app. split.
      - destruct l as [|[i s] P]; [constructor|]. destruct (T s); try constructor; [|constructor].
        eapply lwf_mono; [exact HH|exact Hle|exact Hl].
      - exact IH. }
    apply G. intros x. apply updT_heads.
Qed.

Lemma updT_bind : forall T1 T2 L, updT (fun s => bindR (T1 s) T2) L = updT T2 (updT T1 L).
Proof.
  intros T1 T2 L. induction L as [|l r IH]; [reflexivity|].
  cbn [updT flat_map]. fold (updT (fun s => bindR (T1 s) T2) r). fold (updT T1 r).
  rewrite IH. unfold updT at 3. rewrite flat_map_app. fold (updT T2 (updT T1 r)). f_equal.
  destruct l as [|[i s] P]; [reflexivity|]. destruct (T1 s); cbn [bindR flat_map app]; try reflexivity.
  rewrite app_nil_r. reflexivity.
Qed.

Lemma updT_ok_bind : forall T1 T2 L,
  Forall (fun l => okN (bindR (T1 (hst l)) T2)) L ->
  Forall (fun l => okN (T1 (hst l))) L /\ Forall (fun l => okN (T2 (hst l))) (updT T1 L).
Proof.
  intros T1 T2 L H. induction H as [|l r Hl H [IH1 IH2]]; [split; constructor|].
  split.
  - constructor; [|exact IH1]. destruct (T1 (hst l)); try exact I; destruct Hl.
  - cbn [updT flat_map]. fold (updT T1 r). apply Forall_app. split; [|exact IH2].
    destruct l as [|[i s] P]; [constructor|]. cbn [hst] in Hl.
    destruct (T1 s); try constructor; [|constructor]. exact Hl.
Qed.

Lemma SimN_ext : forall g es T T', (forall s, T s = T' s) -> SimN g es T -> SimN g es T'.
Proof.
  intros g es T T' HE HS L nx rest HI Hne Hok.
  assert (HU : updT T' L = updT T L).
  { unfold updT. apply flat_map_ext. intros [|[i s] P]; [reflexivity|]. rewrite HE. reflexivity. }
  rewrite HU. apply HS; try assumption.
  eapply Forall_impl; [|exact Hok]. intros l Hl. rewrite HE. exact Hl.
Qed.

Lemma SimN_nil : forall g, SimN g [] RStay.
Proof.
  intros g L nx rest [Hnd Hw] Hne _. exists nx. split; [lia|].
  assert (HU : updT RStay L = L).
  { clear Hnd Hne. induction Hw as [|l r Hl Hw IH]; [reflexivity|].
    cbn [updT flat_map]. fold (updT RStay r). rewrite IH.
    destruct l as [|[i s] P]; [destruct Hl|]. reflexivity. }
  rewrite HU. unfold outN. destruct L; [exfalso; apply Hne; reflexivity|]. reflexivity.
Qed.

Lemma SimN_bind : forall g es1 es2 T1 T2, SimN g es1 T1 -> SimN g es2 T2 ->
  SimN g (es1 ++ es2) (fun s => bindR (T1 s) T2).
Proof.
  intros g es1 es2 T1 T2 H1 H2 L nx rest HI Hne Hok.
  destruct (updT_ok_bind T1 T2 L Hok) as [Hok1 Hok2].
  destruct (H1 L nx (es2 ++ rest) HI Hne Hok1) as [nx1 [Hle1 Ho1]].
  rewrite <- app_assoc, updT_bind.
  destruct (updT T1 L) as [|l1 L1] eqn:HU.
  - exists nx1. split; [exact Hle1|]. exact Ho1.
  - unfold outN in Ho1. rewrite Ho1.
    assert (HI1 : Inv (l1 :: L1) nx1) by (rewrite <- HU; eapply Inv_updT; eassumption).
    destruct (H2 (l1 :: L1) nx1 rest HI1 ltac:(discriminate) Hok2) as [nx2 [Hle2 Ho2]].
    exists nx2. split; [lia|]. exact Ho2.
Qed.

(* --- one simple event --- *)
Lemma round_ev1 : forall g e L nx seen,
  Forall (fun l => l <> []) L -> Forall (fun l => okN (ev1 g e (hst l))) L ->
  roundL g e L nx seen = updT (ev1 g e) L /\ roundN g e L nx = nx /\
  roundE g e L + length (updT (ev1 g e) L) = length L /\ Forall (clean_feed g e) L.
Proof.
  intros g e L nx seen Hne Hok. induction Hok as [|l r Hl Hok IH].
  - repeat split; constructor.
  - inversion Hne as [|? ? Hn1 Hn2]; subst. destruct (IH Hn2) as [IH1 [IH2 [IH3 IH4]]].
    destruct l as [|[i s] P]; [exfalso; apply Hn1; reflexivity|].
    cbn [hst] in Hl. unfold ev1 in Hl.
    cbn [roundL roundN roundE updT flat_map]. fold (updT (ev1 g e) r). unfold ev1 at 1 3.
    assert (Hcl : clean_feed g e ((i, s) :: P) \/ False).
    { cbn [clean_feed]. destruct (feed g s e); try (left; exact I); destruct Hl. }
    destruct Hcl as [Hcl|[]].
    destruct (feed g s e) as [s'|  |s' cs|c| ]; try destruct Hl; cbn [app length].
    + rewrite IH1, IH2. repeat split; try reflexivity; [lia|constructor; assumption].
    + rewrite IH1, IH2. repeat split; try reflexivity; [lia|constructor; assumption].
Qed.

Lemma Inv_nonempty : forall L nx, Inv L nx -> Forall (fun l => l <> []) L.
Proof.
  intros L nx [_ Hw]. eapply Forall_impl; [|exact Hw]. intros l Hl E. subst l. exact Hl.
Qed.

Lemma SimN_ev1 : forall g e, SimN g [e] (ev1 g e).
Proof.
  intros g e L nx rest HI Hne Hok. exists nx. split; [lia|].
  destruct (round_ev1 g e L nx [] (Inv_nonempty L nx HI) Hok) as [R1 [R2 [R3 R4]]].
  destruct (step_spec g e L nx HI R4) as [c [Hc9 Hs]].
  cbn [app]. rewrite run_cons, Hs, R1, R2. unfold outN.
  destruct (Nat.eqb_spec (roundE g e L) (length L)) as [E|E].
  - assert (HL : length (updT (ev1 g e) L) = 0) by (unfold leaf in *; lia).
    destruct (updT (ev1 g e) L); [|discriminate HL]. exists c. split; [exact Hc9|reflexivity].
  - destruct (updT (ev1 g e) L) as [|l' L'] eqn:HU; [cbn [length] in R3; unfold leaf in *; lia|]. reflexivity.
Qed.

(* --- the last event of a value --- *)
Lemma round_evF : forall g e L nx seen,
  Forall (fun l => l <> []) L -> Forall (fun l => okF (evF g e (hst l))) L ->
  roundL g e L nx seen = afterT (evF g e) L seen /\ roundN g e L nx = nx /\ Forall (clean_feed g e) L.
Proof.
  intros g e L nx seen Hne Hok. revert seen. induction Hok as [|l r Hl Hok IH]; intros seen.
  - repeat split; constructor.
  - inversion Hne as [|? ? Hn1 Hn2]; subst.
    destruct l as [|[i s] P]; [exfalso; apply Hn1; reflexivity|].
    cbn [hst] in Hl. unfold evF in Hl.
    cbn [roundL roundN afterT]. unfold evF at 1.
    assert (Hcl : clean_feed g e ((i, s) :: P) \/ False).
    { cbn [clean_feed]. destruct (feed g s e); try (left; exact I); destruct Hl. }
    destruct Hcl as [Hcl|[]].
    destruct (feed g s e) as [s'|  |s' cs|c| ]; try destruct Hl.
    + destruct (IH Hn2 seen) as [IH1 [IH2 IH3]]. rewrite IH1, IH2.
      repeat split; try reflexivity. constructor; assumption.
    + destruct P as [|[p ps] P'].
      * destruct (IH Hn2 seen) as [IH1 [IH2 IH3]]. rewrite IH1, IH2.
        repeat split; try reflexivity. constructor; assumption.
      * destruct (mem p seen).
        -- destruct (IH Hn2 seen) as [IH1 [IH2 IH3]]. rewrite IH1, IH2.
           repeat split; try reflexivity. constructor; assumption.
        -- destruct (IH Hn2 (p :: seen)) as [IH1 [IH2 IH3]]. rewrite IH1, IH2.
           repeat split; try reflexivity. constructor; assumption.
    + destruct (IH Hn2 seen) as [IH1 [IH2 IH3]]. rewrite IH1, IH2.
      repeat split; try reflexivity. constructor; assumption.
Qed.

Lemma roundE_all : forall g e L seen, roundE g e L = length L ->
  afterT (evF g e) L seen = [] /\ anydone (evF g e) L = false.
Proof.
  intros g e L. induction L as [|l r IH]; intros seen HE; [split; reflexivity|].
  cbn [roundE length] in HE. pose proof (roundE_le g e r) as Hle.
  destruct l as [|[i s] P]; [lia|].
  cbn [afterT anydone existsb ldone]. fold (anydone (evF g e) r).
  assert (Hs : evF g e s = RFail) by (unfold evF; destruct (feed g s e); try lia; reflexivity).
  rewrite Hs. cbn [is_done orb]. apply IH. destruct (feed g s e); lia.
Qed.

Lemma roundE_some : forall g e L seen, Forall (fun l => l <> []) L ->
  Forall (fun l => okF (evF g e (hst l))) L -> roundE g e L < length L ->
  afterT (evF g e) L seen = [] -> anydone (evF g e) L = true.
Proof.
  intros g e L. induction L as [|l r IH]; intros seen Hne Hok HE HA; [cbn in HE; lia|].
  inversion Hne as [|? ? Hn1 Hn2]; subst. inversion Hok as [|? ? Ho1 Ho2]; subst.
  destruct l as [|[i s] P]; [exfalso; apply Hn1; reflexivity|].
  cbn [roundE length] in HE. cbn [afterT] in HA. cbn [hst] in Ho1.
  cbn [anydone existsb ldone]. fold (anydone (evF g e) r). unfold evF in HA at 1. unfold evF at 1.
  unfold evF in Ho1.
  destruct (feed g s e) as [s'|  |s' cs|c| ]; cbn [is_done orb]; try reflexivity; try destruct Ho1.
  - discriminate HA.
  - apply (IH seen); [exact Hn2|exact Ho2|lia|exact HA].
Qed.

Lemma SimF_ev : forall g e, SimF g [e] (evF g e).
Proof.
  intros g e L nx rest HI Hne Hok. exists nx. split; [lia|].
  pose proof (Inv_nonempty L nx HI) as Hnn.
  destruct (round_evF g e L nx [] Hnn Hok) as [R1 [R2 R4]].
  destruct (step_spec g e L nx HI R4) as [c [Hc9 Hs]].
  cbn [app]. rewrite run_cons, Hs, R1, R2. unfold outF.
  destruct (Nat.eqb_spec (roundE g e L) (length L)) as [E|E].
  - destruct (roundE_all g e L [] E) as [HA HD]. rewrite HA, HD. exists c. split; [exact Hc9|reflexivity].
  - destruct (afterT (evF g e) L []) as [|l' L'] eqn:HA; [|reflexivity].
    rewrite (roundE_some g e L [] Hnn Hok); [reflexivity| |exact HA].
    pose proof (roundE_le g e L). unfold leaf in *. lia.
Qed.

Lemma afterT_bind : forall T1 T2 L seen,
  afterT (fun s => bindR (T1 s) T2) L seen = afterT T2 (updT T1 L) seen.
Proof.
  intros T1 T2 L. induction L as [|l r IH]; intros seen; [reflexivity|].
  cbn [updT flat_map]. fold (updT T1 r). cbn [afterT].
  destruct l as [|[i s] P]; [apply IH|].
  destruct (T1 s) as [| |s1| ]; cbn [bindR app afterT]; try apply IH.
  destruct (T2 s1); try apply IH.
  - destruct P as [|[p ps] P']; [apply IH|]. destruct (mem p seen); [apply IH|]. rewrite IH. reflexivity.
  - rewrite IH. reflexivity.
Qed.

Lemma anydone_bind : forall T1 T2 L,
  anydone (fun s => bindR (T1 s) T2) L = anydone T2 (updT T1 L).
Proof.
  intros T1 T2 L. induction L as [|l r IH]; [reflexivity|].
  cbn [updT flat_map]. fold (updT T1 r). unfold anydone in *. rewrite existsb_app. cbn [existsb].
  rewrite IH. f_equal.
  destruct l as [|[i s] P]; [reflexivity|]. cbn [ldone].
  destruct (T1 s); cbn [bindR existsb ldone is_done orb]; try reflexivity. apply eq_sym, orb_false_r.
Qed.

Lemma okF_bind : forall T1 T2 L,
  Forall (fun l => okF (bindR (T1 (hst l)) T2)) L ->
  Forall (fun l => okN (T1 (hst l))) L /\ Forall (fun l => okF (T2 (hst l))) (updT T1 L).
Proof.
  intros T1 T2 L H. induction H as [|l r Hl H [IH1 IH2]]; [split; constructor|].
  split.
  - constructor; [|exact IH1]. destruct (T1 (hst l)); try exact I; destruct Hl.
  - cbn [updT flat_map]. fold (updT T1 r). apply Forall_app. split; [|exact IH2].
    destruct l as [|[i s] P]; [constructor|]. cbn [hst] in Hl.
    destruct (T1 s); try constructor; [|constructor]. exact Hl.
Qed.

Lemma SimNF_bind : forall g es1 es2 T1 T2, SimN g es1 T1 -> SimF g es2 T2 ->
  SimF g (es1 ++ es2) (fun s => bindR (T1 s) T2).
Proof.
  intros g es1 es2 T1 T2 H1 H2 L nx rest HI Hne Hok.
  destruct (okF_bind T1 T2 L Hok) as [Hok1 Hok2].
  destruct (H1 L nx (es2 ++ rest) HI Hne Hok1) as [nx1 [Hle1 Ho1]].
  rewrite <- app_assoc. unfold outF. rewrite afterT_bind, anydone_bind.
  destruct (updT T1 L) as [|l1 L1] eqn:HU.
  - exists nx1. split; [exact Hle1|]. exact Ho1.
  - unfold outN in Ho1. rewrite Ho1.
    assert (HI1 : Inv (l1 :: L1) nx1) by (rewrite <- HU; eapply Inv_updT; eassumption).
    destruct (H2 (l1 :: L1) nx1 rest HI1 ltac:(discriminate) Hok2) as [nx2 [Hle2 Ho2]].
    exists nx2. split; [lia|]. exact Ho2.
Qed.

Lemma afterT_ext : forall T T' L seen, (forall s, T s = T' s) -> afterT T L seen = afterT T' L seen.
Proof.
  intros T T' L seen HE. revert seen. induction L as [|l r IH]; intros seen; [reflexivity|].
  cbn [afterT]. destruct l as [|[i s] P]; [apply IH|]. rewrite <- HE.
  destruct (T s); try apply IH.
  - destruct P as [|[p ps] P']; [apply IH|]. destruct (mem p seen); [apply IH|]. rewrite IH. reflexivity.
  - rewrite IH. reflexivity.
Qed.

Lemma SimF_ext : forall g es T T', (forall s, T s = T' s) -> SimF g es T -> SimF g es T'.
Proof.
  intros g es T T' HE HS L nx rest HI Hne Hok.
  assert (Hok' : Forall (fun l => okF (T (hst l))) L).
  { eapply Forall_impl; [|exact Hok]. intros l Hl. rewrite HE. exact Hl. }
  destruct (HS L nx rest HI Hne Hok') as [nx' [Hle Ho]]. exists nx'. split; [exact Hle|].
  unfold outF in *. rewrite <- (afterT_ext T T' L [] HE).
  assert (HD : anydone T' L = anydone T L).
  { unfold anydone. clear -HE. induction L as [|[|[i s] P] r IH]; [reflexivity| |]; cbn [existsb ldone]; rewrite IH; [reflexivity|].
    rewrite HE. reflexivity. }
  rewrite HD. exact Ho.
Qed.

(* --- an event that opens a child position (EValBegin / EItemBegin) --- *)
Definition nodone (g : menv) (e : event) (l : leaf) : Prop :=
  match l with [] => False | (_, s) :: _ => feed g s e <> FDone end.

Lemma mk_in : forall cs a P l, In l (mk a cs P) ->
  exists a' c, l = (a', c) :: P /\ a <= a' /\ a' < a + length cs /\ In c cs.
Proof.
  induction cs as [|c cs IH]; intros a P l H; [destruct H|].
  rewrite mk_cons in H. destruct H as [H|H].
  - exists a, c. subst l. cbn [length]. repeat split; [lia|lia|left; reflexivity].
  - destruct (IH (S a) P l H) as [a' [c' [E [H1 [H2 H3]]]]].
    exists a', c'. cbn [length]. repeat split; [exact E|lia|lia|right; exact H3].
Qed.

Lemma mk_heads : forall cs a P, map hid (mk a cs P) = seq a (length cs).
Proof.
  induction cs as [|c cs IH]; intros a P; [reflexivity|].
  rewrite mk_cons. cbn [map hid length seq]. rewrite IH. reflexivity.
Qed.

Lemma roundN_ge : forall g e L nx, nx <= roundN g e L nx.
Proof.
  intros g e L. induction L as [|l r IH]; intros nx; [apply Nat.le_refl|].
  cbn [roundN]. destruct l as [|[i s] P]; [apply IH|].
  destruct (feed g s e); try apply IH. eapply Nat.le_trans; [|apply IH]. lia.
Qed.

Lemma round_in : forall g e L nx seen l2, Forall (nodone g e) L -> In l2 (roundL g e L nx seen) ->
  (exists i s s' P, In ((i, s) :: P) L /\ feed g s e = FStay s' /\ l2 = (i, s') :: P) \/
  (exists i s s' cs P a c, In ((i, s) :: P) L /\ feed g s e = FChildren s' cs /\ In c cs /\
                           l2 = (a, c) :: (i, s') :: P /\ nx <= a /\ a < roundN g e L nx).
Proof.
  intros g e L. induction L as [|l r IH]; intros nx seen l2 Hnd Hin; [destruct Hin|].
  inversion Hnd as [|? ? Hd1 Hd2]; subst.
  destruct l as [|[i s] P]; [destruct Hd1|]. cbn [nodone] in Hd1.
  cbn [roundL roundN] in Hin |- *.
  assert (Hrec : forall nx' seen', nx <= nx' -> In l2 (roundL g e r nx' seen') ->
            (exists i0 s0 s' P0, In ((i0, s0) :: P0) (((i, s) :: P) :: r) /\ feed g s0 e = FStay s' /\ l2 = (i0, s') :: P0) \/
            (exists i0 s0 s' cs P0 a c, In ((i0, s0) :: P0) (((i, s) :: P) :: r) /\ feed g s0 e = FChildren s' cs /\ In c cs /\
                           l2 = (a, c) :: (i0, s') :: P0 /\ nx <= a /\ a < roundN g e r nx')).
  { intros nx' seen' Hle H. destruct (IH nx' seen' l2 Hd2 H) as [[i0 [s0 [s' [P0 [H1 [H2 H3]]]]]]|[i0 [s0 [s' [cs [P0 [a [c [H1 [H2 [H3 [H4 [H5 H6]]]]]]]]]]]]].
    - left. exists i0, s0, s', P0. repeat split; [right; exact H1|exact H2|exact H3].
    - right. exists i0, s0, s', cs, P0, a, c. repeat split; try assumption; [right; exact H1|lia]. }
  destruct (feed g s e) as [s'|  |s' cs|c| ] eqn:Hf.
  - destruct Hin as [Hin|Hin]; [|apply (Hrec nx seen (Nat.le_refl _) Hin)].
    left. exists i, s, s', P. repeat split; [left; reflexivity|exact Hf|symmetry; exact Hin].
  - exfalso. apply Hd1. reflexivity.
  - apply in_app_iff in Hin. destruct Hin as [Hin|Hin]; [|apply (Hrec (nx + length cs) seen ltac:(lia) Hin)].
    destruct (mk_in cs nx ((i, s') :: P) l2 Hin) as [a [c [E [H1 [H2 H3]]]]].
    right. exists i, s, s', cs, P, a, c. repeat split; try assumption; [left; reflexivity|].
    pose proof (roundN_ge g e r (nx + length cs)). lia.
  - apply (Hrec nx seen (Nat.le_refl _) Hin).
  - apply (Hrec nx seen (Nat.le_refl _) Hin).
Qed.

Lemma round_heads : forall g e L nx seen x, Forall (nodone g e) L ->
  In x (map hid (roundL g e L nx seen)) -> In x (map hid L) \/ (nx <= x /\ x < roundN g e L nx).
Proof.
  intros g e L nx seen x Hnd Hin. apply in_map_iff in Hin. destruct Hin as [l2 [E Hin]].
  destruct (round_in g e L nx seen l2 Hnd Hin) as [[i [s [s' [P [H1 [H2 H3]]]]]]|[i [s [s' [cs [P [a [c [H1 [H2 [H3 [H4 [H5 H6]]]]]]]]]]]]].
  - left. subst l2 x. cbn [hid]. apply in_map_iff. exists ((i, s) :: P). split; [reflexivity|exact H1].
  - right. subst l2 x. cbn [hid]. split; assumption.
Qed.

Lemma NoDup_app_intro : forall A (a b : list A), NoDup a -> NoDup b -> (forall x, In x a -> ~ In x b) -> NoDup (a ++ b).
Proof.
  intros A a b Ha Hb Hd. induction Ha as [|x a Hx Ha IH]; [exact Hb|].
  cbn [app]. constructor.
  - intros Hin. apply in_app_iff in Hin. destruct Hin as [Hin|Hin]; [apply Hx; exact Hin|].
    apply (Hd x); [left; reflexivity|exact Hin].
  - apply IH. intros y Hy. apply Hd. right. exact Hy.
Qed.

Lemma round_nodup : forall g e L nx0 nx seen, nx0 <= nx -> (forall x, In x (map hid L) -> x < nx0) ->
  NoDup (map hid L) -> Forall (nodone g e) L -> NoDup (map hid (roundL g e L nx seen)).
Proof.
  intros g e L nx0. induction L as [|l r IH]; intros nx seen Hle Hlt Hn Hnd; [constructor|].
  inversion Hnd as [|? ? Hd1 Hd2]; subst. cbn [map] in Hn. inversion Hn as [|? ? Hn1 Hn2]; subst.
  assert (Hlt2 : forall x, In x (map hid r) -> x < nx0) by (intros x Hx; apply Hlt; right; exact Hx).
  destruct l as [|[i s] P]; [destruct Hd1|]. cbn [nodone] in Hd1. cbn [hid] in Hn1.
  assert (Hi : i < nx0) by (apply Hlt; left; reflexivity).
  cbn [roundL]. destruct (feed g s e) as [s'|  |s' cs|c| ].
  - cbn [map hid]. constructor; [|apply IH; assumption].
    intros Hin. destruct (round_heads g e r nx seen i Hd2 Hin) as [H|[H _]]; [apply Hn1; exact H|lia].
  - exfalso. apply Hd1. reflexivity.
  - rewrite map_app, mk_heads. apply NoDup_app_intro; [apply seq_NoDup|apply IH; try assumption; lia|].
    intros x Hx Hin. apply in_seq in Hx.
    destruct (round_heads g e r (nx + length cs) seen x Hd2 Hin) as [H|[H _]]; [apply Hlt2 in H; lia|lia].
  - apply IH; assumption.
  - apply IH; assumption.
Qed.

Lemma nodup_hid_inj : forall (L : list leaf) l1 l2, NoDup (map hid L) -> In l1 L -> In l2 L -> hid l1 = hid l2 -> l1 = l2.
Proof.
  induction L as [|l r IH]; intros l1 l2 Hn H1 H2 E; [destruct H1|].
  cbn [map] in Hn. inversion Hn as [|? ? Hn1 Hn2]; subst.
  destruct H1 as [H1|H1]; destruct H2 as [H2|H2].
  - subst. reflexivity.
  - subst l1. exfalso. apply Hn1. rewrite E. apply in_map. exact H2.
  - subst l2. exfalso. apply Hn1. rewrite <- E. apply in_map. exact H1.
  - apply IH; assumption.
Qed.

Lemma Inv_round : forall g e L nx seen, Inv L nx -> Forall (nodone g e) L ->
  Inv (roundL g e L nx seen) (roundN g e L nx).
Proof.
  intros g e L nx seen [Hn Hw] Hnd. pose proof (roundN_ge g e L nx) as Hge.
  assert (Hlt : forall x, In x (map hid L) -> x < nx).
  { intros x Hx. apply in_map_iff in Hx. destruct Hx as [l [E Hl]]. rewrite Forall_forall in Hw.
    specialize (Hw l Hl). destruct l as [|[i s] P]; [destruct Hw|]. cbn [lwf] in Hw. subst x. cbn [hid]. tauto. }
  split; [apply (round_nodup g e L nx nx seen (Nat.le_refl _) Hlt Hn Hnd)|].
  apply Forall_forall. intros l2 Hin.
  rewrite Forall_forall in Hw.
  destruct (round_in g e L nx seen l2 Hnd Hin) as [[i [s [s' [P [H1 [H2 H3]]]]]]|[i [s [s' [cs [P [a [c [H1 [H2 [H3 [H4 [H5 H6]]]]]]]]]]]]].
  - subst l2. pose proof (Hw _ H1) as Hl. cbn [lwf] in Hl |- *. destruct Hl as [Hi HP]. split; [lia|].
    destruct P as [|[p ps] P']; [exact I|]. destruct HP as [Hp Hnp]. split; [lia|].
    intros Hx. destruct (round_heads g e L nx seen p Hnd Hx) as [H|[H _]]; [apply Hnp; exact H|lia].
  - subst l2. pose proof (Hw _ H1) as Hl. cbn [lwf] in Hl |- *. destruct Hl as [Hi HP].
    split; [exact H6|]. split; [lia|].
    intros Hx. apply in_map_iff in Hx. destruct Hx as [l3 [E3 Hin3]].
    destruct (round_in g e L nx seen l3 Hnd Hin3) as [[i3 [s3 [s3' [P3 [G1 [G2 G3]]]]]]|[i3 [s3 [s3' [cs3 [P3 [a3 [c3 [G1 [G2 [G3 [G4 [G5 G6]]]]]]]]]]]]].
    + subst l3. cbn [hid] in E3. subst i3.
      assert (EE : (i, s3) :: P3 = (i, s) :: P) by (apply (nodup_hid_inj L); try assumption; reflexivity).
      injection EE as E1 E2. subst s3. rewrite H2 in G2. discriminate G2.
    + subst l3. cbn [hid] in E3. lia.
Qed.

Lemma round_kid_E : forall g Tx e L nx seen,
  Forall (fun l => l <> []) L -> Forall (fun l => okN (kid_step g Tx e (hst l))) L ->
  Forall (clean_feed g e) L /\ Forall (nodone g e) L /\
  (roundE g e L = length L -> updT (kid_step g Tx e) L = []) /\
  (roundE g e L < length L -> roundL g e L nx seen <> []).
Proof.
  intros g Tx e L nx seen Hne Hok. revert nx. induction Hok as [|l r Hl Hok IH]; intros nx.
  - repeat split; try constructor. cbn. lia.
  - inversion Hne as [|? ? Hn1 Hn2]; subst. destruct (IH Hn2 nx) as [IH1 [IH2 [IH3 _]]].
    destruct l as [|[i s] P]; [exfalso; apply Hn1; reflexivity|].
    cbn [hst] in Hl. pose proof (roundE_le g e r) as Hle.
    cbn [roundE roundL length updT flat_map]. fold (updT (kid_step g Tx e) r).
    unfold kid_step in Hl. unfold kid_step at 1.
    destruct (feed g s e) as [s'|  |s' cs|c| ] eqn:Hf; try destruct Hl.
    + repeat split.
      * constructor; [cbn [clean_feed]; rewrite Hf; exact I|exact IH1].
      * constructor; [cbn [nodone]; rewrite Hf; discriminate|exact IH2].
      * intros HE. unfold leaf in *; lia.
      * intros _. discriminate.
    + destruct cs as [|c0 cs]; [destruct Hl|]. repeat split.
      * constructor; [cbn [clean_feed]; rewrite Hf; exact I|exact IH1].
      * constructor; [cbn [nodone]; rewrite Hf; discriminate|exact IH2].
      * intros HE. unfold leaf in *; lia.
      * intros _. rewrite mk_cons. discriminate.
    + repeat split.
      * constructor; [cbn [clean_feed]; rewrite Hf; exact I|exact IH1].
      * constructor; [cbn [nodone]; rewrite Hf; discriminate|exact IH2].
      * intros HE. cbn [app]. apply IH3. unfold leaf in *; lia.
      * intros HE. destruct (IH Hn2 nx) as [_ [_ [_ IH4]]]. apply IH4. unfold leaf in *; lia.
Qed.

Lemma mem_cons : forall p q seen, mem p (q :: seen) = (Nat.eqb p q || mem p seen)%bool.
Proof. reflexivity. Qed.

Lemma after_group : forall Tx cs a i s' P R seen,
  forallb (fun c => fresh_ok (Tx c)) cs = true ->
  afterT Tx (mk a cs ((i, s') :: P) ++ R) seen =
  if mem i seen then afterT Tx R seen
  else if existsb (fun c => is_done (Tx c)) cs then ((i, s') :: P) :: afterT Tx R (i :: seen)
       else afterT Tx R seen.
Proof.
  intros Tx cs. induction cs as [|c cs IH]; intros a i s' P R seen Hf.
  - cbn [mk length seq combine map app existsb]. destruct (mem i seen); reflexivity.
  - cbn [forallb] in Hf. apply andb_true_iff in Hf. destruct Hf as [Hc Hf].
    rewrite mk_cons. cbn [app afterT existsb].
    destruct (Tx c); try discriminate Hc; cbn [is_done orb].
    + rewrite (IH (S a) i s' P R seen Hf). reflexivity.
    + destruct (mem i seen) eqn:Hm.
      * rewrite (IH (S a) i s' P R seen Hf), Hm. reflexivity.
      * rewrite (IH (S a) i s' P R (i :: seen) Hf), mem_cons, Nat.eqb_refl. reflexivity.
Qed.

Lemma after_round : forall g Tx e L nx seen seen',
  NoDup (map hid L) -> (forall x, In x (map hid L) -> mem x seen' = false) ->
  Forall (fun l => l <> []) L -> Forall (fun l => okN (kid_step g Tx e (hst l))) L ->
  afterT Tx (roundL g e L nx seen) seen' = updT (kid_step g Tx e) L.
Proof.
  intros g Tx e L. induction L as [|l r IH]; intros nx seen seen' Hn Hs Hne Hok; [reflexivity|].
  cbn [map] in Hn. inversion Hn as [|? ? Hn1 Hn2]; subst.
  inversion Hne as [|? ? Hne1 Hne2]; subst. inversion Hok as [|? ? Hl Hok2]; subst.
  destruct l as [|[i s] P]; [exfalso; apply Hne1; reflexivity|].
  cbn [hst] in Hl. cbn [hid] in Hn1.
  assert (Hs2 : forall x, In x (map hid r) -> mem x seen' = false) by (intros x Hx; apply Hs; right; exact Hx).
  cbn [roundL updT flat_map]. fold (updT (kid_step g Tx e) r).
  unfold kid_step in Hl. unfold kid_step at 1.
  destruct (feed g s e) as [s'|  |s' cs|c| ]; try destruct Hl.
  - cbn [afterT]. destruct (Tx s'); try destruct Hl; cbn [app]; rewrite (IH nx seen seen'); try assumption; reflexivity.
  - destruct cs as [|c0 cs]; [destruct Hl|].
    destruct (forallb (fun c => fresh_ok (Tx c)) (c0 :: cs)) eqn:Hfo; [|destruct Hl].
    rewrite after_group by exact Hfo. rewrite (Hs i) by (left; reflexivity).
    destruct (existsb (fun c => is_done (Tx c)) (c0 :: cs)); cbn [app].
    + rewrite (IH (nx + length (c0 :: cs)) seen (i :: seen')); try assumption; [reflexivity|].
      intros x Hx. rewrite mem_cons, (Hs2 x Hx), orb_false_r. apply Nat.eqb_neq.
      intros E. subst x. apply Hn1. exact Hx.
    + apply IH; assumption.
  - cbn [app]. apply IH; assumption.
Qed.

Lemma afterT_nil_nodone : forall T L,
  Forall (fun l => ldone T l = true -> 2 <= length l) L -> afterT T L [] = [] -> anydone T L = false.
Proof.
  intros T L H. induction H as [|l r Hl H IH]; intros HA; [reflexivity|].
  cbn [anydone existsb]. fold (anydone T r). cbn [afterT] in HA.
  destruct l as [|[i s] P]; [apply IH; exact HA|]. cbn [ldone] in Hl |- *.
  destruct (T s); cbn [is_done orb]; try (apply IH; exact HA); [|discriminate HA].
  specialize (Hl eq_refl). destruct P as [|[p ps] P']; [cbn in Hl; lia|]. cbn [mem existsb] in HA. discriminate HA.
Qed.

Lemma SimN_kid : forall g es Tx e, SimF g es Tx -> SimN g (e :: es) (kid_step g Tx e).
Proof.
  intros g es Tx e HS L nx rest HI Hne Hok.
  pose proof (Inv_nonempty L nx HI) as Hnn.
  destruct (round_kid_E g Tx e L nx [] Hnn Hok) as [Hcl [Hnd [HE1 HE2]]].
  destruct (step_spec g e L nx HI Hcl) as [c [Hc9 Hs]].
  cbn [app]. rewrite run_cons, Hs.
  destruct (Nat.eqb_spec (roundE g e L) (length L)) as [E|E].
  - exists nx. split; [lia|]. rewrite (HE1 E). exists c. split; [exact Hc9|reflexivity].
  - assert (Hlt : roundE g e L < length L) by (pose proof (roundE_le g e L); unfold leaf in *; lia).
    specialize (HE2 Hlt).
    pose proof (Inv_round g e L nx [] HI Hnd) as HI2.
    destruct (roundL g e L nx []) as [|l2 L2] eqn:HL2; [exfalso; apply HE2; reflexivity|].
    assert (Hok2 : Forall (fun l => okF (Tx (hst l))) (l2 :: L2) /\
                   Forall (fun l => ldone Tx l = true -> 2 <= length l) (l2 :: L2)).
    { rewrite <- HL2. split; apply Forall_forall; intros l3 Hin;
        rewrite Forall_forall in Hok;
        destruct (round_in g e L nx [] l3 Hnd Hin) as [[i [s [s' [P [H1 [H2 H3]]]]]]|[i [s [s' [cs [P [a [c0 [H1 [H2 [H3 [H4 [H5 H6]]]]]]]]]]]]];
        specialize (Hok _ H1); cbn [hst] in Hok; unfold kid_step in Hok; rewrite H2 in Hok; subst l3; cbn [hst ldone].
      - destruct (Tx s'); try exact I; destruct Hok.
      - destruct cs as [|c1 cs]; [destruct Hok|].
        destruct (forallb (fun c => fresh_ok (Tx c)) (c1 :: cs)) eqn:Hfo; [|destruct Hok].
        rewrite forallb_forall in Hfo. specialize (Hfo c0 H3). destruct (Tx c0); try exact I; discriminate Hfo.
      - destruct (Tx s'); try destruct Hok; intros HH; discriminate HH.
      - intros _. cbn [length]. lia. }
    destruct Hok2 as [Hok2 Hdn].
    destruct (HS (l2 :: L2) (roundN g e L nx) rest HI2 ltac:(discriminate) Hok2) as [nx' [Hle Ho]].
    exists nx'. split; [pose proof (roundN_ge g e L nx); lia|].
    unfold outF in Ho. rewrite <- HL2 in Ho, Hdn.
    destruct HI as [HIn HIw].
    rewrite (after_round g Tx e L nx [] []) in Ho; try assumption; [|intros; reflexivity].
    unfold outN. destruct (updT (kid_step g Tx e) L) as [|l' L'] eqn:HU.
    + rewrite (afterT_nil_nodone Tx _ Hdn) in Ho; [rewrite HL2 in Ho; exact Ho|].
      rewrite (after_round g Tx e L nx [] []); try assumption; intros; reflexivity.
    + rewrite HL2 in Ho. exact Ho.
Qed.

(* ------------------------------------------------------------------ *)
(* what one validator (with the validators of its child positions)    *)
(* answers to the events of one value                                  *)
(* ------------------------------------------------------------------ *)
Definition seq_loop {A : Type} (step : A -> vstate -> res) : list A -> vstate -> res :=
  fix loop (l : list A) (s : vstate) : res :=
    match l with
    | [] => RStay s
    | a :: r => bindR (step a s) (loop r)
    end.

Definition item_res (g : menv) (Tx : vstate -> res) (s : vstate) : res :=
  bindR (kid_step g Tx EItemBegin s) (ev1 g EItemEnd).

Definition member_res (g : menv) (key : bytes) (Tx : vstate -> res) (s : vstate) : res :=
  bindR (ev1 g EKeyBegin s) (fun s1 =>
  bindR (ev1 g (EKeyEnd key) s1) (fun s2 =>
  bindR (kid_step g Tx EValBegin s2) (ev1 g EValEnd))).

Fixpoint vres (g : menv) (s : vstate) (v : jval) {struct v} : res :=
  match v with
  | JArr xs =>
    bindR (ev1 g EArrBegin s) (fun s1 =>
    bindR (seq_loop (fun x => item_res g (fun c => vres g c x)) xs s1) (evF g EArrEnd))
  | JObj ms =>
    bindR (ev1 g EObjBegin s) (fun s1 =>
    bindR (seq_loop (fun m => match m with (key, x) => member_res g key (fun c => vres g c x) end) ms s1) (evF g EObjEnd))
  | _ => bindR (ev1 g ELitBegin s) (evF g (ELitEnd v))
  end.

Lemma SimN_loop : forall g A (evs : A -> list event) (step : A -> vstate -> res) l,
  Forall (fun a => SimN g (evs a) (step a)) l -> SimN g (flat_map evs l) (seq_loop step l).
Proof.
  intros g A evs step l H. induction H as [|a r Ha H IH].
  - apply (SimN_ext g [] RStay); [reflexivity|apply SimN_nil].
  - cbn [flat_map]. apply (SimN_ext g _ (fun s => bindR (step a s) (seq_loop step r))); [reflexivity|].
    apply SimN_bind; assumption.
Qed.

Lemma SimN_item : forall g x Tx, SimF g (events x) Tx -> SimN g (item_events x) (item_res g Tx).
Proof.
  intros g x Tx H. change (item_events x) with ((EItemBegin :: events x) ++ [EItemEnd]).
  apply (SimN_bind g (EItemBegin :: events x) [EItemEnd] (kid_step g Tx EItemBegin) (ev1 g EItemEnd)).
  - apply SimN_kid. exact H.
  - apply SimN_ev1.
Qed.

Lemma SimN_member : forall g m Tx, SimF g (events (snd m)) Tx -> SimN g (member_events m) (member_res g (fst m) Tx).
Proof.
  intros g m Tx H.
  change (member_events m) with ([EKeyBegin] ++ ([EKeyEnd (fst m)] ++ ((EValBegin :: events (snd m)) ++ [EValEnd]))).
  apply (SimN_bind g [EKeyBegin] _ (ev1 g EKeyBegin)); [apply SimN_ev1|].
  apply (SimN_bind g [EKeyEnd (fst m)] _ (ev1 g (EKeyEnd (fst m)))); [apply SimN_ev1|].
  apply (SimN_bind g (EValBegin :: events (snd m)) [EValEnd] (kid_step g Tx EValBegin) (ev1 g EValEnd)).
  - apply SimN_kid. exact H.
  - apply SimN_ev1.
Qed.

Theorem SimF_value : forall g v, SimF g (events v) (fun s => vres g s v).
Proof.
  intros g. induction v as [| | | | |xs HF|ms HF] using jval_ind2;
    try (apply (SimNF_bind g [ELitBegin] [ELitEnd _] (ev1 g ELitBegin) (evF g (ELitEnd _))); [apply SimN_ev1|apply SimF_ev]).
  - rewrite events_arr. change (EArrBegin :: flat_map item_events xs ++ [EArrEnd]) with ([EArrBegin] ++ (flat_map item_events xs ++ [EArrEnd])).
    apply (SimF_ext g _ (fun s => bindR (ev1 g EArrBegin s) (fun s1 =>
             bindR (seq_loop (fun x => item_res g (fun c => vres g c x)) xs s1) (evF g EArrEnd)))); [reflexivity|].
    apply (SimNF_bind g [EArrBegin] _ (ev1 g EArrBegin)); [apply SimN_ev1|].
    apply (SimNF_bind g (flat_map item_events xs) [EArrEnd]); [|apply SimF_ev].
    apply SimN_loop. eapply Forall_impl; [|exact HF]. intros x Hx. apply SimN_item. exact Hx.
  - rewrite events_obj. change (EObjBegin :: flat_map member_events ms ++ [EObjEnd]) with ([EObjBegin] ++ (flat_map member_events ms ++ [EObjEnd])).
    apply (SimF_ext g _ (fun s => bindR (ev1 g EObjBegin s) (fun s1 =>
             bindR (seq_loop (fun m => match m with (key, x) => member_res g key (fun c => vres g c x) end) ms s1) (evF g EObjEnd)))); [reflexivity|].
    apply (SimNF_bind g [EObjBegin] _ (ev1 g EObjBegin)); [apply SimN_ev1|].
    apply (SimNF_bind g (flat_map member_events ms) [EObjEnd]); [|apply SimF_ev].
    apply SimN_loop. eapply Forall_impl; [|exact HF]. intros [key x] Hm. apply (SimN_member g (key, x)). exact Hm.
Qed.

(* ------------------------------------------------------------------ *)
(* the whole run, in terms of [vres]                                   *)
(* ------------------------------------------------------------------ *)
Lemma events_nonempty : forall v, exists e es, events v = e :: es.
Proof. intros v. destruct v; eexists; eexists; reflexivity. Qed.

Lemma Inv_mk_root : forall vs a, Inv (mk a vs []) (a + length vs).
Proof.
  intros vs a. split.
  - rewrite mk_heads. apply seq_NoDup.
  - apply Forall_forall. intros l Hin. destruct (mk_in vs a [] l Hin) as [a' [c [E [H1 [H2 H3]]]]].
    subst l. cbn [lwf]. split; [exact H2|exact I].
Qed.

Lemma afterT_roots : forall T vs a seen, Forall (fun c => fresh_ok (T c) = true) vs -> afterT T (mk a vs []) seen = [].
Proof.
  intros T vs. induction vs as [|c vs IH]; intros a seen H; [reflexivity|].
  inversion H as [|? ? H1 H2]; subst. rewrite mk_cons. cbn [afterT].
  destruct (T c); try discriminate H1; apply IH; exact H2.
Qed.

Lemma anydone_roots : forall T vs a, anydone T (mk a vs []) = existsb (fun c => is_done (T c)) vs.
Proof.
  intros T vs. induction vs as [|c vs IH]; intros a; [reflexivity|].
  rewrite mk_cons. cbn [anydone existsb ldone]. fold (anydone T (mk (S a) vs [])). rewrite IH. reflexivity.
Qed.

Lemma machine_vres : forall g root v vs,
  validator_list g root = Some vs -> Forall (fun c => fresh_ok (vres g c v) = true) vs ->
  (machine_validate g root v = None <-> existsb (fun c => is_done (vres g c v)) vs = true) /\
  machine_validate g root v <> Some 9999.
Proof.
  intros g root v vs Hvl Hok. unfold machine_validate, tree0. rewrite Hvl.
  change (map (fun c => [c]) (combine (seq 0 (length vs)) vs)) with (mk 0 vs []).
  destruct vs as [|c0 vs0].
  - destruct (events_nonempty v) as [e [es Hev]]. rewrite Hev. cbn. split; [split; intros H; discriminate H|].
    intros H. discriminate H.
  - set (vs := c0 :: vs0) in *.
    assert (Hne : mk 0 vs [] <> []) by (unfold vs; rewrite mk_cons; discriminate).
    assert (HokF : Forall (fun l => okF (vres g (hst l) v)) (mk 0 vs [])).
    { apply Forall_forall. intros l Hin. destruct (mk_in vs 0 [] l Hin) as [a' [c [E [_ [_ H3]]]]].
      subst l. cbn [hst]. rewrite Forall_forall in Hok. specialize (Hok c H3).
      destruct (vres g c v); try exact I; discriminate Hok. }
    destruct (SimF_value g v (mk 0 vs []) (length vs) [] (Inv_mk_root vs 0) Hne HokF) as [nx' [_ Ho]].
    rewrite app_nil_r in Ho. unfold outF in Ho.
    rewrite (afterT_roots (fun s => vres g s v) vs 0 [] Hok), anydone_roots in Ho.
    destruct (existsb (fun c => is_done (vres g c v)) vs).
    + rewrite Ho. split; [split; reflexivity|discriminate].
    + destruct Ho as [c [Hc Ho]]. rewrite Ho. split; [split; intros H; discriminate H|].
      intros H. injection H as H. rewrite H in Hc. exact (Nat.lt_irrefl _ Hc).
Qed.

(* ------------------------------------------------------------------ *)
(* [vres] on the validators that occur                                 *)
(* ------------------------------------------------------------------ *)
Lemma vres_lit : forall g s v, is_container v = false ->
  vres g s v = bindR (ev1 g ELitBegin s) (evF g (ELitEnd v)).
Proof. intros g s v H. destruct v; try reflexivity; discriminate H. Qed.

Lemma vres_arr : forall g s xs,
  vres g s (JArr xs) =
  bindR (ev1 g EArrBegin s) (fun s1 =>
  bindR (seq_loop (fun x => item_res g (fun c => vres g c x)) xs s1) (evF g EArrEnd)).
Proof. reflexivity. Qed.

Lemma vres_obj : forall g s ms,
  vres g s (JObj ms) =
  bindR (ev1 g EObjBegin s) (fun s1 =>
  bindR (seq_loop (fun m => match m with (key, x) => member_res g key (fun c => vres g c x) end) ms s1) (evF g EObjEnd)).
Proof. reflexivity. Qed.

Lemma seq_loop_cons : forall A (step : A -> vstate -> res) a r s,
  seq_loop step (a :: r) s = bindR (step a s) (seq_loop step r).
Proof. reflexivity. Qed.

Lemma seq_loop_nil : forall A (step : A -> vstate -> res) s, seq_loop step [] s = RStay s.
Proof. reflexivity. Qed.

(* anyNestedStructure and additionalProperties:any share feed_any *)
Definition anyS (b : bool) (d : nat) : vstate := if b then VAny d else VAddAny d.

Lemma feed_anyS : forall g b d e, feed g (anyS b d) e = feed_any (anyS b) d e.
Proof. intros g b d e. destruct b; reflexivity. Qed.

Lemma ev1_any_open : forall g b d e, opening e = true -> ev1 g e (anyS b d) = RStay (anyS b (S d)).
Proof. intros g b d e H. unfold ev1. rewrite feed_anyS. unfold feed_any. rewrite H. reflexivity. Qed.

Lemma ev1_any_close : forall g b d e, opening e = false -> ev1 g e (anyS b (S (S d))) = RStay (anyS b (S d)).
Proof. intros g b d e H. unfold ev1. rewrite feed_anyS. unfold feed_any. rewrite H. reflexivity. Qed.

Lemma evF_any_close : forall g b d e, opening e = false -> evF g e (anyS b (S (S d))) = RStay (anyS b (S d)).
Proof. intros g b d e H. unfold evF. rewrite feed_anyS. unfold feed_any. rewrite H. reflexivity. Qed.

Lemma evF_any_close0 : forall g b e, opening e = false -> evF g e (anyS b 1) = RDone.
Proof. intros g b e H. unfold evF. rewrite feed_anyS. unfold feed_any. rewrite H. reflexivity. Qed.

Lemma kid_step_any : forall g Tx b d e, opening e = true ->
  Tx (anyS b (S d)) = RStay (anyS b (S d)) -> kid_step g Tx e (anyS b d) = RStay (anyS b (S d)).
Proof.
  intros g Tx b d e H HT. unfold kid_step. rewrite feed_anyS. unfold feed_any. rewrite H.
  cbn [Nat.eqb]. rewrite HT. reflexivity.
Qed.

Definition passive_at (v : jval) : Prop :=
  forall g b d, vres g (anyS b (S d)) v = RStay (anyS b (S d)).

Lemma passive_items : forall g b xs, Forall passive_at xs -> forall d,
  seq_loop (fun x => item_res g (fun c => vres g c x)) xs (anyS b (S d)) = RStay (anyS b (S d)).
Proof.
  intros g b xs HF. induction HF as [|x r Hx HF IH]; intros d; [reflexivity|].
  rewrite seq_loop_cons. unfold item_res at 1.
  rewrite (kid_step_any g _ b (S d) EItemBegin eq_refl (Hx g b (S d))). cbn [bindR].
  rewrite ev1_any_close by reflexivity. cbn [bindR]. apply IH.
Qed.

Lemma passive_members : forall g b ms, Forall (fun m => passive_at (snd m)) ms -> forall d,
  seq_loop (fun m : bytes * jval => match m with (key, x) => member_res g key (fun c => vres g c x) end) ms (anyS b (S d))
  = RStay (anyS b (S d)).
Proof.
  intros g b ms HF. induction HF as [|[key x] r Hx HF IH]; intros d; [reflexivity|].
  rewrite seq_loop_cons. unfold member_res at 1. cbn [snd] in Hx.
  rewrite ev1_any_open by reflexivity. cbn [bindR].
  rewrite ev1_any_close by reflexivity. cbn [bindR].
  rewrite (kid_step_any g _ b (S d) EValBegin eq_refl (Hx g b (S d))). cbn [bindR].
  rewrite ev1_any_close by reflexivity. cbn [bindR]. apply IH.
Qed.

Lemma passive_all : forall v, passive_at v.
Proof.
  induction v as [| | | | |xs HF|ms HF] using jval_ind2; intros g b d;
    try (rewrite vres_lit by reflexivity; rewrite ev1_any_open by reflexivity; cbn [bindR];
         apply evF_any_close; reflexivity).
  - rewrite vres_arr, ev1_any_open by reflexivity. cbn [bindR].
    rewrite (passive_items g b xs HF). cbn [bindR]. apply evF_any_close. reflexivity.
  - rewrite vres_obj, ev1_any_open by reflexivity. cbn [bindR].
    rewrite (passive_members g b ms HF). cbn [bindR]. apply evF_any_close. reflexivity.
Qed.

Lemma vres_any0 : forall g b v, vres g (anyS b 0) v = RDone.
Proof.
  intros g b v. destruct v as [| | | | |xs|ms];
    try (rewrite vres_lit by reflexivity; rewrite ev1_any_open by reflexivity; cbn [bindR];
         apply evF_any_close0; reflexivity).
  - rewrite vres_arr, ev1_any_open by reflexivity. cbn [bindR].
    rewrite (passive_items g b xs) by (apply Forall_forall; intros; apply passive_all).
    cbn [bindR]. apply evF_any_close0. reflexivity.
  - rewrite vres_obj, ev1_any_open by reflexivity. cbn [bindR].
    rewrite (passive_members g b ms) by (apply Forall_forall; intros; apply passive_all).
    cbn [bindR]. apply evF_any_close0. reflexivity.
Qed.

Lemma vres_VLit : forall g k nl v,
  vres g (VLit k nl) v = if (negb (is_container v) && lit_kind_ok k nl v)%bool then RDone else RFail.
Proof.
  intros g k nl v. destruct v as [| | | | |xs|ms]; try reflexivity;
    rewrite vres_lit by reflexivity; unfold ev1, evF; cbn [feed bindR is_container negb andb];
    destruct (lit_kind_ok k nl _); reflexivity.
Qed.

Lemma vres_VNull : forall g v, vres g VNull v = if is_null v then RDone else RFail.
Proof. intros g v. destruct v; reflexivity. Qed.

Lemma vres_VAddKind : forall g k v,
  vres g (VAddKind k) v = if (negb (is_container v) && addkind_ok k v)%bool then RDone else RFail.
Proof.
  intros g k v. destruct v as [| | | | |xs|ms]; try reflexivity;
    rewrite vres_lit by reflexivity; unfold ev1, evF; cbn [feed bindR is_container negb andb];
    destruct (addkind_ok k _); reflexivity.
Qed.

Lemma vres_VAddNotAllowed : forall g key v, vres g (VAddNotAllowed key) v = RFail.
Proof. intros g key v. destruct v; reflexivity. Qed.

Lemma vres_VAddObject : forall g v,
  vres g VAddObject v = match v with JObj _ => RDone | _ => RFail end.
Proof.
  intros g v. destruct v as [| | | | |xs|ms]; try reflexivity.
  rewrite vres_obj. unfold ev1 at 1. cbn [feed]. unfold feed_any. cbn [opening Nat.eqb bindR].
  rewrite (passive_members g false ms) by (apply Forall_forall; intros; apply passive_all).
  cbn [bindR]. apply (evF_any_close0 g false). reflexivity.
Qed.

Lemma vres_VAddArray : forall g v,
  vres g VAddArray v = match v with JArr _ => RDone | _ => RFail end.
Proof.
  intros g v. destruct v as [| | | | |xs|ms]; try reflexivity.
  rewrite vres_arr. unfold ev1 at 1. cbn [feed]. unfold feed_any. cbn [opening Nat.eqb bindR].
  rewrite (passive_items g false xs) by (apply Forall_forall; intros; apply passive_all).
  cbn [bindR]. apply (evF_any_close0 g false). reflexivity.
Qed.

(* --- arrays and objects --- *)
Fixpoint arr_loop_res (g : menv) (items : list mnode) (xs : list jval) (c : nat) : res :=
  match xs with
  | [] => RDone
  | x :: r =>
    match last_or items c with
    | None => RFail
    | Some child =>
      match validator_list g child with
      | Some (k :: ks) =>
        if forallb (fun c' => fresh_ok (vres g c' x)) (k :: ks)
        then (if existsb (fun c' => is_done (vres g c' x)) (k :: ks) then arr_loop_res g items r (S c) else RFail)
        else RBad
      | _ => RBad
      end
    end
  end.

Lemma vres_VArr : forall g items c v,
  vres g (VArr items c) v = match v with JArr xs => arr_loop_res g items xs c | _ => RFail end.
Proof.
  intros g items c v. destruct v as [| | | | |xs|ms]; try reflexivity.
  rewrite vres_arr. unfold ev1 at 1. cbn [feed bindR]. revert c.
  induction xs as [|x r IH]; intros c; [reflexivity|].
  rewrite seq_loop_cons. cbn [arr_loop_res]. unfold item_res at 1. unfold kid_step. cbn [feed].
  destruct (last_or items c) as [child|]; [|reflexivity].
  destruct (validator_list g child) as [[|k ks]|]; try reflexivity.
  destruct (forallb (fun c' => fresh_ok (vres g c' x)) (k :: ks)); [|reflexivity].
  destruct (existsb (fun c' => is_done (vres g c' x)) (k :: ks)); [|reflexivity].
  cbn [bindR]. unfold ev1 at 1. cbn [feed bindR]. apply IH.
Qed.

Inductive kids := KErr | KBad | KOk (cs : list vstate).

Definition obj_cs (g : menv) (ms : list (bytes * bool * mnode)) (ap : maddp) (key : bytes) : kids :=
  match mfind key ms with
  | Some child => match validator_list g child with Some cs => KOk cs | None => KBad end
  | None =>
    match ap with
    | MAPNone => KErr
    | _ => match addp_validators g ap key with Some cs => KOk cs | None => KBad end
    end
  end.

Fixpoint obj_loop_res (g : menv) (ms : list (bytes * bool * mnode)) (ap : maddp) (dms : list (bytes * jval)) (req : list bytes) : res :=
  match dms with
  | [] => match req with [] => RDone | _ => RFail end
  | (key, x) :: r =>
    match obj_cs g ms ap key with
    | KErr => RFail
    | KBad => RBad
    | KOk [] => RBad
    | KOk cs =>
      if forallb (fun c' => fresh_ok (vres g c' x)) cs
      then (if existsb (fun c' => is_done (vres g c' x)) cs then obj_loop_res g ms ap r (remove_key key req) else RFail)
      else RBad
    end
  end.

Lemma vres_VObj : forall g ms ap req last v,
  vres g (VObj ms ap req last) v = match v with JObj dms => obj_loop_res g ms ap dms req | _ => RFail end.
Proof.
  intros g ms ap req last v. destruct v as [| | | | |xs|dms]; try reflexivity.
  rewrite vres_obj. unfold ev1 at 1. cbn [feed bindR]. revert req last.
  induction dms as [|[key x] r IH]; intros req last.
  - cbn [seq_loop bindR obj_loop_res]. unfold evF. cbn [feed]. destruct req; reflexivity.
  - rewrite seq_loop_cons. cbn [obj_loop_res]. unfold member_res at 1.
    unfold ev1 at 1. cbn [feed bindR]. unfold ev1 at 1. cbn [feed bindR].
    unfold kid_step. rewrite feed_obj_valbegin. unfold obj_cs.
    destruct (mfind key ms) as [child|].
    + destruct (validator_list g child) as [[|k ks]|]; try reflexivity.
      destruct (forallb (fun c' => fresh_ok (vres g c' x)) (k :: ks)); [|reflexivity].
      destruct (existsb (fun c' => is_done (vres g c' x)) (k :: ks)); [|reflexivity].
      cbn [bindR]. unfold ev1 at 1. cbn [feed bindR]. apply IH.
    + destruct ap; try reflexivity;
        (destruct (addp_validators g _ key) as [[|k0 ks0]|]; try reflexivity;
         destruct (forallb (fun c' => fresh_ok (vres g c' x)) (k0 :: ks0)); [|reflexivity];
         destruct (existsb (fun c' => is_done (vres g c' x)) (k0 :: ks0)); [|reflexivity];
         cbn [bindR]; unfold ev1 at 1; cbn [feed bindR]; apply IH).
Qed.

(* ------------------------------------------------------------------ *)
(* NodeValidatorList: each type name once per position                 *)
(* ------------------------------------------------------------------ *)
Definition notrefs (n : mnode) : Prop := match n with MRefs _ _ => False | _ => True end.

Inductive reach (g : menv) : mnode -> mnode -> Prop :=
| reach_refl : forall n, reach g n n
| reach_step : forall names nl name body n',
    In name names -> mlookup g name = Some body -> reach g body n' -> reach g (MRefs names nl) n'.

Definition origin (g : menv) (n : mnode) (c : vstate) : Prop :=
  exists n', reach g n n' /\
             ((notrefs n' /\ In c (node_validators n')) \/ (exists names, n' = MRefs names true /\ c = VNull)).

Definition handled (vs : list vstate) (A : list tname) (n : mnode) : Prop :=
  match n with
  | MRefs names nl => (forall name, In name names -> In name A) /\ (nl = true -> In VNull vs)
  | _ => incl (node_validators n) vs
  end.

Lemma handled_mono : forall vs A vs' A' n, incl vs vs' -> incl A A' -> handled vs A n -> handled vs' A' n.
Proof.
  intros vs A vs' A' n Hv HA H. destruct n as [k nl an|ms ap nl an|items nl an|names nl]; cbn [handled] in *;
    try (eapply incl_tran; eassumption).
  destruct H as [H1 H2]. split; [intros name Hn; apply HA, H1, Hn|intros E; apply Hv, H2, E].
Qed.

Definition bl_step (f : nat) (g : menv) (acc : option (list vstate * list tname)) (name : tname)
  : option (list vstate * list tname) :=
  match acc with
  | None => None
  | Some (vs, added) =>
    if existsb (Nat.eqb name) added then Some (vs, added)
    else match mlookup g name with
         | None => None
         | Some body =>
           match build_list f g (name :: added) body with
           | None => None
           | Some (vs', added') => Some (vs ++ vs', added')
           end
         end
  end.

Lemma build_list_refs : forall f g added names nl,
  build_list (S f) g added (MRefs names nl) =
  match fold_left (bl_step f g) names (Some ([], added)) with
  | None => None
  | Some (vs, added') => Some (if nl then vs ++ [VNull] else vs, added')
  end.
Proof. reflexivity. Qed.

Lemma build_list_notrefs : forall f g added n, notrefs n -> build_list (S f) g added n = Some (node_validators n, added).
Proof. intros f g added n H. destruct n; try reflexivity. destruct H. Qed.

Definition closedg (g : menv) : Prop := forall name body, mlookup g name = Some body -> mclosed_node g body = true.

Lemma mlookup_in : forall g name body, mlookup g name = Some body -> In (name, body) g.
Proof.
  induction g as [|[m t] r IH]; intros name body H; [discriminate H|].
  cbn [mlookup] in H. destruct (Nat.eqb_spec m name) as [E|E].
  - injection H as H. subst. left. reflexivity.
  - right. apply IH. exact H.
Qed.

Lemma mlookup_key : forall g name body, mlookup g name = Some body -> In name (map fst g).
Proof. intros g name body H. apply mlookup_in in H. apply in_map_iff. exists (name, body). split; [reflexivity|exact H]. Qed.

Lemma existsb_eqb_in : forall name l, existsb (Nat.eqb name) l = true <-> In name l.
Proof.
  intros name l. rewrite existsb_exists. split.
  - intros [x [Hx E]]. apply Nat.eqb_eq in E. subst x. exact Hx.
  - intros H. exists name. split; [exact H|apply Nat.eqb_refl].
Qed.

Lemma build_list_spec : forall g, closedg g -> forall f A n,
  mclosed_node g n = true -> NoDup A -> incl A (map fst g) -> length g < f + length A ->
  exists vs A', build_list f g A n = Some (vs, A') /\ incl A A' /\ NoDup A' /\ incl A' (map fst g) /\
    (forall c, In c vs -> origin g n c) /\ handled vs A' n /\
    (forall m, In m A' -> ~ In m A -> exists body, mlookup g m = Some body /\ handled vs A' body).
Proof.
  intros g Hcg. induction f as [|f IHf]; intros A n Hcn HnA HiA Hfuel.
  - exfalso. pose proof (NoDup_incl_length HnA HiA) as Hl. rewrite map_length in Hl. cbn in Hfuel. lia.
  - assert (Hnr : notrefs n -> exists vs A', build_list (S f) g A n = Some (vs, A') /\ incl A A' /\ NoDup A' /\ incl A' (map fst g) /\
              (forall c, In c vs -> origin g n c) /\ handled vs A' n /\
              (forall m, In m A' -> ~ In m A -> exists body, mlookup g m = Some body /\ handled vs A' body)).
    { intros Hn. exists (node_validators n), A. rewrite (build_list_notrefs f g A n Hn).
      repeat split; try assumption; try apply incl_refl.
      - intros c Hc. exists n. split; [apply reach_refl|left; split; assumption].
      - destruct n; try apply incl_refl. destruct Hn.
      - intros m Hm Hnm. exfalso. apply Hnm. exact Hm. }
    destruct n as [k nl an|ms ap nl an|items nl an|names nl]; try (apply Hnr; exact I). clear Hnr.
    cbn [mclosed_node] in Hcn. rewrite forallb_forall in Hcn.
    assert (Fold : forall names' vs0 A0,
              (forall name, In name names' -> In name names) -> incl A A0 -> NoDup A0 -> incl A0 (map fst g) ->
              exists vs1 A1, fold_left (bl_step f g) names' (Some (vs0, A0)) = Some (vs0 ++ vs1, A1) /\
                incl A0 A1 /\ NoDup A1 /\ incl A1 (map fst g) /\
                (forall name, In name names' -> In name A1) /\
                (forall c, In c vs1 -> exists name body, In name names' /\ mlookup g name = Some body /\ origin g body c) /\
                (forall m, In m A1 -> ~ In m A0 -> exists body, mlookup g m = Some body /\ handled (vs0 ++ vs1) A1 body)).
    { induction names' as [|name rest IHn]; intros vs0 A0 Hsub HAA0 HnA0 HiA0.
      - exists [], A0. cbn [fold_left]. rewrite app_nil_r. repeat split; try assumption; try apply incl_refl.
        + intros name [].
        + intros c [].
        + intros m Hm Hnm. exfalso. apply Hnm. exact Hm.
      - cbn [fold_left]. cbn [bl_step].
        assert (Hsub' : forall name0, In name0 rest -> In name0 names) by (intros x Hx; apply Hsub; right; exact Hx).
        destruct (existsb (Nat.eqb name) A0) eqn:Hex.
        + apply existsb_eqb_in in Hex.
          destruct (IHn vs0 A0 Hsub' HAA0 HnA0 HiA0) as [vs1 [A1 [E [H1 [H2 [H3 [H4 [H5 H6]]]]]]]].
          exists vs1, A1. repeat split; try assumption.
          * intros x [Hx|Hx]; [subst x; apply H1; exact Hex|apply H4; exact Hx].
          * intros c Hc. destruct (H5 c Hc) as [nm [body [G1 [G2 G3]]]]. exists nm, body. repeat split; [right; exact G1|exact G2|exact G3].
        + assert (Hnin : ~ In name A0) by (intros Hx; apply existsb_eqb_in in Hx; rewrite Hx in Hex; discriminate Hex).
          specialize (Hcn name (Hsub name (or_introl eq_refl))).
          destruct (mlookup g name) as [body|] eqn:Hlk; [|discriminate Hcn].
          assert (HlenA : length A <= length A0) by (apply NoDup_incl_length; assumption).
          destruct (IHf (name :: A0) body (Hcg name body Hlk)) as [vs' [A'' [Eb [B1 [B2 [B3 [B4 [B5 B6]]]]]]]].
          { constructor; assumption. }
          { intros x [Hx|Hx]; [subst x; eapply mlookup_key; exact Hlk|apply HiA0; exact Hx]. }
          { cbn [length]. lia. }
          rewrite Eb.
          assert (HA0A'' : incl A0 A'') by (intros x Hx; apply B1; right; exact Hx).
          destruct (IHn (vs0 ++ vs') A'' Hsub' (incl_tran HAA0 HA0A'') B2 B3) as [v2 [A2 [E [H1 [H2 [H3 [H4 [H5 H6]]]]]]]].
          exists (vs' ++ v2), A2. rewrite app_assoc. repeat split; try assumption.
          * eapply incl_tran; eassumption.
          * intros x [Hx|Hx]; [subst x; apply H1, B1; left; reflexivity|apply H4; exact Hx].
          * intros c Hc. apply in_app_iff in Hc. destruct Hc as [Hc|Hc].
            -- exists name, body. repeat split; [left; reflexivity|exact Hlk|apply B4; exact Hc].
            -- destruct (H5 c Hc) as [nm [body' [G1 [G2 G3]]]]. exists nm, body'. repeat split; [right; exact G1|exact G2|exact G3].
          * intros m Hm Hnm. destruct (in_dec Nat.eq_dec m A'') as [HmA|HmA].
            -- assert (Hmono : forall b, handled vs' A'' b -> handled ((vs0 ++ vs') ++ v2) A2 b).
               { intros b. apply handled_mono; [|exact H1].
                 intros x Hx. apply in_app_iff. left. apply in_app_iff. right. exact Hx. }
               destruct (Nat.eq_dec m name) as [Emn|Emn].
               ++ subst m. exists body. split; [exact Hlk|apply Hmono; exact B5].
               ++ destruct (B6 m HmA) as [bm [G1 G2]].
                  { intros [Hx|Hx]; [apply Emn; symmetry; exact Hx|apply Hnm; exact Hx]. }
                  exists bm. split; [exact G1|apply Hmono; exact G2].
            -- apply (H6 m Hm HmA). }
    destruct (Fold names [] A (fun x Hx => Hx) (incl_refl _) HnA HiA) as [vs1 [A1 [E [H1 [H2 [H3 [H4 [H5 H6]]]]]]]].
    cbn [app] in E, H6. rewrite build_list_refs, E.
    exists (if nl then vs1 ++ [VNull] else vs1), A1.
    assert (Hincl : incl vs1 (if nl then vs1 ++ [VNull] else vs1)).
    { destruct nl; [intros x Hx; apply in_app_iff; left; exact Hx|apply incl_refl]. }
    repeat split; try assumption.
    + intros c Hc.
      assert (Hc' : In c vs1 \/ (nl = true /\ c = VNull)).
      { destruct nl; [|left; exact Hc]. apply in_app_iff in Hc. destruct Hc as [Hc|[Hc|[]]]; [left; exact Hc|right; split; [reflexivity|symmetry; exact Hc]]. }
      destruct Hc' as [Hc'|[Enl Ec]].
      * destruct (H5 c Hc') as [nm [body [G1 [G2 [n' [G3 G4]]]]]].
        exists n'. split; [eapply reach_step; eassumption|exact G4].
      * subst nl c. exists (MRefs names true). split; [apply reach_refl|right; exists names; split; reflexivity].
    + intros E'. subst nl. apply in_app_iff. right. left. reflexivity.
    + intros m Hm Hnm. destruct (H6 m Hm Hnm) as [body [G1 G2]]. exists body. split; [exact G1|].
      eapply handled_mono; [exact Hincl|apply incl_refl|exact G2].
Qed.

Lemma validator_list_spec : forall g n, closedg g -> mclosed_node g n = true ->
  exists vs, validator_list g n = Some vs /\
    (forall c, In c vs -> origin g n c) /\
    (forall n', reach g n n' ->
       (notrefs n' -> incl (node_validators n') vs) /\ (forall names, n' = MRefs names true -> In VNull vs)).
Proof.
  intros g n Hcg Hcn.
  destruct (build_list_spec g Hcg (S (length g)) [] n Hcn (NoDup_nil _) (incl_nil_l _) ltac:(cbn [length]; lia))
    as [vs [A' [E [_ [_ [_ [Ho [Hh Hall]]]]]]]].
  exists vs. unfold validator_list. rewrite E. split; [reflexivity|]. split; [exact Ho|].
  assert (G : forall n0 n', reach g n0 n' -> handled vs A' n0 ->
            (notrefs n' -> incl (node_validators n') vs) /\ (forall names, n' = MRefs names true -> In VNull vs)).
  { intros n0 n' Hr. induction Hr as [n0|names nl name body n' Hin Hlk Hr IH]; intros Hh0.
    - split.
      + intros Hn. destruct n0; try exact Hh0. destruct Hn.
      + intros names E0. subst n0. cbn [handled] in Hh0. apply Hh0. reflexivity.
    - apply IH. cbn [handled] in Hh0. destruct Hh0 as [H1 _].
      destruct (Hall name (H1 name Hin) (fun x => x)) as [body' [G1 G2]].
      rewrite Hlk in G1. injection G1 as G1. subst body'. exact G2. }
  intros n' Hr. apply (G n n' Hr Hh).
Qed.

(* --- the denotation along alias chains --- *)
Definition macc (g : menv) (n : mnode) (v : jval) : Prop := exists F, maccepts F g n v = true.

Lemma macc_reach_fwd : forall g F n v, maccepts F g n v = true ->
  exists n', reach g n n' /\
    ((notrefs n' /\ maccepts F g n' v = true) \/ (exists names, n' = MRefs names true /\ is_null v = true)).
Proof.
  intros g. induction F as [|f IH]; intros n v H; [discriminate H|].
  destruct n as [k nl an|ms ap nl an|items nl an|names nl];
    try (eexists; split; [apply reach_refl|left; split; [exact I|exact H]]).
  rewrite maccepts_S in H. apply orb_true_iff in H. destruct H as [H|H].
  - apply andb_true_iff in H. destruct H as [H1 H2]. subst nl.
    exists (MRefs names true). split; [apply reach_refl|right; exists names; split; [reflexivity|exact H2]].
  - unfold macc_refs in H. apply existsb_exists in H. destruct H as [name [Hin H]].
    destruct (mlookup g name) as [body|] eqn:Hlk; [|discriminate H].
    destruct (IH body v H) as [n' [Hr Hc]]. exists n'. split; [eapply reach_step; eassumption|].
    destruct Hc as [[Hn Hc]|Hc]; [left; split; [exact Hn|]|right; exact Hc].
    apply (maccepts_fuel_mono f (S f)); [lia|exact Hc].
Qed.

Lemma macc_reach_bwd : forall g n n' v, reach g n n' -> macc g n' v -> macc g n v.
Proof.
  intros g n n' v Hr. induction Hr as [n0|names nl name body n' Hin Hlk Hr IH]; intros Hm; [exact Hm|].
  destruct (IH Hm) as [F HF]. exists (S F). rewrite maccepts_S. apply orb_true_iff. right.
  unfold macc_refs. apply existsb_exists. exists name. split; [exact Hin|]. rewrite Hlk. exact HF.
Qed.

Lemma macc_null_refs : forall g names v, is_null v = true -> macc g (MRefs names true) v.
Proof. intros g names v H. exists 1. rewrite maccepts_S, H. reflexivity. Qed.

(* --- hypotheses on the type graph --- *)
Definition vl_nonempty (g : menv) (n : mnode) : bool :=
  match validator_list g n with Some [] => false | _ => true end.

Fixpoint mprod_node (g : menv) (n : mnode) : bool :=
  match n with
  | MLit _ _ _ => true
  | MRefs _ _ => vl_nonempty g n
  | MArr items _ _ => forallb (mprod_node g) items
  | MObj ms _ _ _ => forallb (fun m => mprod_node g (snd m)) ms
  end.

Definition prodg (g : menv) : Prop := forall name body, mlookup g name = Some body -> mprod_node g body = true.
Definition good (g : menv) (n : mnode) : Prop := mclosed_node g n = true /\ mprod_node g n = true.

Lemma reach_good : forall g n n', closedg g -> prodg g -> reach g n n' -> good g n -> good g n'.
Proof.
  intros g n n' Hc Hp Hr. induction Hr as [n0|names nl name body n' Hin Hlk Hr IH]; intros Hg; [exact Hg|].
  apply IH. split; [eapply Hc; exact Hlk|eapply Hp; exact Hlk].
Qed.

Lemma reach_good2 : forall g n n', closedg g -> prodg g -> reach g n n' ->
  mclosed_node g n = true -> (notrefs n -> mprod_node g n = true) -> notrefs n' -> good g n'.
Proof.
  intros g n n' Hc Hp Hr. induction Hr as [n0|names nl name body n' Hin Hlk Hr IH]; intros H1 H2 Hn.
  - split; [exact H1|apply H2; exact Hn].
  - apply IH; [eapply Hc; exact Hlk|intros _; eapply Hp; exact Hlk|exact Hn].
Qed.

Lemma node_validators_ne : forall n, notrefs n -> exists k ks, node_validators n = k :: ks.
Proof. intros n H. destruct n; try (destruct H); cbn [node_validators]; eexists; eexists; reflexivity. Qed.

Lemma validator_list_notrefs : forall g n, notrefs n -> validator_list g n = Some (node_validators n).
Proof. intros g n H. unfold validator_list. rewrite build_list_notrefs by exact H. reflexivity. Qed.

Lemma good_vl : forall g n, closedg g -> good g n -> exists k ks, validator_list g n = Some (k :: ks).
Proof.
  intros g n Hc [Hcn Hpn]. destruct n as [k nl an|ms ap nl an|items nl an|names nl];
    try (rewrite validator_list_notrefs by exact I;
         match goal with |- context [node_validators ?n] => destruct (node_validators_ne n I) as [k0 [ks0 E0]]; rewrite E0 end;
         exists k0, ks0; reflexivity).
  destruct (validator_list_spec g (MRefs names nl) Hc Hcn) as [vs [E _]].
  cbn [mprod_node] in Hpn. unfold vl_nonempty in Hpn. rewrite E in Hpn |- *.
  destruct vs as [|k ks]; [discriminate Hpn|]. exists k, ks. reflexivity.
Qed.

Lemma macc_items_mono : forall F F' g items xs c, F <= F' ->
  macc_items F g items xs c = true -> macc_items F' g items xs c = true.
Proof.
  intros F F' g items xs. induction xs as [|x r IH]; intros c Hle H; [reflexivity|].
  cbn [macc_items] in H |- *. apply andb_true_iff in H. destruct H as [H1 H2].
  rewrite (IH (S c) Hle H2), andb_true_r.
  destruct (last_or items c) as [child|]; [eapply maccepts_fuel_mono; eassumption|exact H1].
Qed.

Lemma macc_member_mono : forall F F' g ms ap key x, F <= F' ->
  macc_member F g ms ap key x = true -> macc_member F' g ms ap key x = true.
Proof.
  intros F F' g ms ap key x Hle H. unfold macc_member in *.
  destruct (mfind key ms) as [child|]; [eapply maccepts_fuel_mono; eassumption|].
  unfold macc_ap in *. destruct ap; try exact H.
  destruct (mlookup g n) as [body|]; [eapply maccepts_fuel_mono; eassumption|exact H].
Qed.

Lemma macc_members_mono : forall F F' g ms ap dms, F <= F' ->
  macc_members F g ms ap dms = true -> macc_members F' g ms ap dms = true.
Proof.
  intros F F' g ms ap dms Hle. induction dms as [|[key x] r IH]; intros H; [reflexivity|].
  cbn [macc_members] in H |- *. apply andb_true_iff in H. destruct H as [H1 H2].
  rewrite (IH H2), andb_true_r. eapply macc_member_mono; eassumption.
Qed.

Lemma mfind_snd_in : forall key ms child, mfind key ms = Some child -> exists m, In m ms /\ snd m = child.
Proof.
  intros key ms child. induction ms as [|[[k b] x] r IH]; intros H; [discriminate H|].
  cbn [mfind] in H. destruct (bytes_eqb k key).
  - injection H as H. subst x. exists (k, b, child). split; [left; reflexivity|reflexivity].
  - destruct (IH H) as [m [H1 H2]]. exists m. split; [right; exact H1|exact H2].
Qed.

Section Sem.
  Variable g : menv.
  Hypothesis Hc : closedg g.
  Hypothesis Hp : prodg g.

  Definition freshF (v : jval) (c : vstate) : Prop := fresh_ok (vres g c v) = true.
  Definition doneb (v : jval) (cs : list vstate) : bool := existsb (fun c => is_done (vres g c v)) cs.

  Definition Main (v : jval) : Prop := forall n vs,
    mclosed_node g n = true -> (notrefs n -> mprod_node g n = true) -> validator_list g n = Some vs ->
    Forall (freshF v) vs /\ (doneb v vs = true <-> macc g n v).
  Definition Main0 (v : jval) : Prop := forall n, good g n -> notrefs n ->
    Forall (freshF v) (node_validators n) /\ (doneb v (node_validators n) = true <-> macc g n v).

  Lemma Main_lift : forall v, Main0 v -> Main v.
  Proof.
    intros v H0 n vs Hcn Hpn Hvl.
    destruct (validator_list_spec g n Hc Hcn) as [vs' [E [Ho Hcomp]]].
    rewrite Hvl in E. injection E as E. subst vs'. split.
    - apply Forall_forall. intros c Hin. destruct (Ho c Hin) as [n' [Hr [[Hn Hin']|[names [E1 E2]]]]].
      + pose proof (reach_good2 g n n' Hc Hp Hr Hcn Hpn Hn) as Hg'.
        destruct (H0 n' Hg' Hn) as [HF _]. rewrite Forall_forall in HF. apply HF. exact Hin'.
      + subst c. unfold freshF. rewrite vres_VNull. destruct (is_null v); reflexivity.
    - split.
      + intros Hd. unfold doneb in Hd. apply existsb_exists in Hd. destruct Hd as [c [Hin Hd]].
        destruct (Ho c Hin) as [n' [Hr [[Hn Hin']|[names [E1 E2]]]]].
        * pose proof (reach_good2 g n n' Hc Hp Hr Hcn Hpn Hn) as Hg'.
          apply (macc_reach_bwd g n n' v Hr). apply (H0 n' Hg' Hn).
          unfold doneb. apply existsb_exists. exists c. split; assumption.
        * subst c n'. apply (macc_reach_bwd g n _ v Hr). apply macc_null_refs.
          rewrite vres_VNull in Hd. destruct (is_null v); [reflexivity|discriminate Hd].
      + intros [F HF]. destruct (macc_reach_fwd g F n v HF) as [n' [Hr [[Hn Hm]|[names [E1 E2]]]]].
        * pose proof (reach_good2 g n n' Hc Hp Hr Hcn Hpn Hn) as Hg'.
          destruct (H0 n' Hg' Hn) as [_ [_ Hb]]. specialize (Hb (ex_intro _ F Hm)).
          unfold doneb in Hb. apply existsb_exists in Hb. destruct Hb as [c [Hin Hd]].
          unfold doneb. apply existsb_exists. exists c. split; [|exact Hd].
          apply (proj1 (Hcomp n' Hr) Hn). exact Hin.
        * unfold doneb. apply existsb_exists. exists VNull. split; [apply (proj2 (Hcomp n' Hr) names E1)|].
          rewrite vres_VNull, E2. reflexivity.
  Qed.

  Lemma Main_vl : forall v n, Main v -> good g n ->
    exists k ks, validator_list g n = Some (k :: ks) /\
      forallb (fun c' => fresh_ok (vres g c' v)) (k :: ks) = true /\
      (existsb (fun c' => is_done (vres g c' v)) (k :: ks) = true <-> macc g n v).
  Proof.
    intros v n HM Hg. destruct (good_vl g n Hc Hg) as [k [ks E]].
    destruct (HM n (k :: ks) (proj1 Hg) (fun _ => proj2 Hg) E) as [HF Hiff]. exists k, ks. split; [exact E|]. split; [|exact Hiff].
    apply forallb_forall. rewrite Forall_forall in HF. exact HF.
  Qed.

  Lemma arr_sem : forall items, (forall child, In child items -> good g child) ->
    forall xs, Forall Main xs -> forall c,
      fresh_ok (arr_loop_res g items xs c) = true /\
      (arr_loop_res g items xs c = RDone <-> exists F, macc_items F g items xs c = true).
  Proof.
    intros items Hgi xs HF. induction HF as [|x r Hx HF IH]; intros c.
    - cbn [arr_loop_res]. split; [reflexivity|]. split; [intros _; exists 0; reflexivity|intros _; reflexivity].
    - cbn [arr_loop_res macc_items].
      destruct (last_or items c) as [child|] eqn:Hl.
      + assert (Hin : In child items).
        { unfold last_or in Hl. destruct items; [discriminate Hl|]. eapply nth_error_In. exact Hl. }
        destruct (Main_vl x child Hx (Hgi child Hin)) as [k [ks [E [Hfo Hiff]]]].
        rewrite E, Hfo. destruct (IH (S c)) as [IH1 IH2].
        destruct (existsb (fun c' => is_done (vres g c' x)) (k :: ks)) eqn:Hex.
        * split; [exact IH1|]. split.
          -- intros Hd. destruct (proj1 IH2 Hd) as [F2 HF2]. destruct (proj1 Hiff eq_refl) as [F1 HF1].
             exists (Nat.max F1 F2).
             rewrite (maccepts_fuel_mono F1 (Nat.max F1 F2) g child x (Nat.le_max_l _ _) HF1).
             rewrite (macc_items_mono F2 (Nat.max F1 F2) g items r (S c) (Nat.le_max_r _ _) HF2). reflexivity.
          -- intros [F HF']. apply andb_true_iff in HF'. destruct HF' as [_ H2]. apply IH2. exists F. exact H2.
        * split; [reflexivity|]. split; [intros Hd; discriminate Hd|].
          intros [F HF']. apply andb_true_iff in HF'. destruct HF' as [H1 _].
          assert (Ht : false = true) by (apply Hiff; exists F; exact H1). discriminate Ht.
      + split; [reflexivity|]. split; [intros Hd; discriminate Hd|]. intros [F HF']. discriminate HF'.
  Qed.

  Lemma member_sem : forall ms ap key x, Main x ->
    (forall child, mfind key ms = Some child -> good g child) ->
    (forall t, ap = MAPType t -> exists body, mlookup g t = Some body) ->
    (obj_cs g ms ap key = KErr /\ forall F, macc_member F g ms ap key x = false) \/
    (exists k ks, obj_cs g ms ap key = KOk (k :: ks) /\
       forallb (fun c' => fresh_ok (vres g c' x)) (k :: ks) = true /\
       (existsb (fun c' => is_done (vres g c' x)) (k :: ks) = true <-> exists F, macc_member F g ms ap key x = true)).
  Proof.
    intros ms ap key x Hx Hgm Hap. unfold obj_cs, macc_member.
    destruct (mfind key ms) as [child|].
    - right. destruct (Main_vl x child Hx (Hgm child eq_refl)) as [k [ks [E [Hfo Hiff]]]].
      exists k, ks. rewrite E. split; [reflexivity|]. split; [exact Hfo|exact Hiff].
    - destruct ap as [| | |k| | |t]; cbn [addp_validators macc_ap].
      + left. split; [reflexivity|intros F; reflexivity].
      + right. exists (VAddNotAllowed key), []. split; [reflexivity|]. cbn [forallb existsb].
        rewrite vres_VAddNotAllowed. split; [reflexivity|]. split; [intros H; discriminate H|intros [F H]; discriminate H].
      + right. exists (VAddAny 0), []. split; [reflexivity|]. cbn [forallb existsb].
        change (VAddAny 0) with (anyS false 0).
        rewrite (vres_any0 g false x). split; [reflexivity|]. split; [intros _; exists 0; reflexivity|intros _; reflexivity].
      + right. exists (VAddKind k), []. split; [reflexivity|]. cbn [forallb existsb].
        rewrite vres_VAddKind. destruct (negb (is_container x) && addkind_ok k x)%bool.
        * split; [reflexivity|]. split; [intros _; exists 0; reflexivity|intros _; reflexivity].
        * split; [reflexivity|]. split; [intros H; discriminate H|intros [F H]; discriminate H].
      + right. exists VAddObject, []. split; [reflexivity|]. cbn [forallb existsb].
        rewrite vres_VAddObject. destruct x; (split; [reflexivity|]);
          (split; [intros H; try discriminate H; exists 0; reflexivity|intros [F H]; try discriminate H; reflexivity]).
      + right. exists VAddArray, []. split; [reflexivity|]. cbn [forallb existsb].
        rewrite vres_VAddArray. destruct x; (split; [reflexivity|]);
          (split; [intros H; try discriminate H; exists 0; reflexivity|intros [F H]; try discriminate H; reflexivity]).
      + right. destruct (Hap t eq_refl) as [body Hlk]. rewrite Hlk.
        assert (Hgb : good g body) by (split; [eapply Hc; exact Hlk|eapply Hp; exact Hlk]).
        destruct (Main_vl x body Hx Hgb) as [k [ks [E [Hfo Hiff]]]].
        exists k, ks. rewrite E. split; [reflexivity|]. split; [exact Hfo|exact Hiff].
  Qed.

  Lemma obj_sem : forall ms ap,
    (forall key child, mfind key ms = Some child -> good g child) ->
    (forall t, ap = MAPType t -> exists body, mlookup g t = Some body) ->
    forall dms, Forall (fun m => Main (snd m)) dms -> forall req,
      fresh_ok (obj_loop_res g ms ap dms req) = true /\
      (obj_loop_res g ms ap dms req = RDone <->
       keys_present dms req = true /\ exists F, macc_members F g ms ap dms = true).
  Proof.
    intros ms ap Hgm Hap dms HF. induction HF as [|[key x] r Hx HF IH]; intros req.
    - cbn [obj_loop_res]. destruct req as [|k req].
      + split; [reflexivity|]. split; [intros _; split; [reflexivity|exists 0; reflexivity]|intros _; reflexivity].
      + split; [reflexivity|]. split; [intros H; discriminate H|].
        intros [H _]. apply keys_present_nil in H. discriminate H.
    - cbn [obj_loop_res macc_members]. rewrite keys_present_cons. cbn [snd] in Hx.
      destruct (member_sem ms ap key x Hx (Hgm key) Hap) as [[E Hno]|[k [ks [E [Hfo Hiff]]]]]; rewrite E.
      + split; [reflexivity|]. split; [intros H; discriminate H|].
        intros [_ [F H]]. rewrite Hno in H. discriminate H.
      + rewrite Hfo. destruct (IH (remove_key key req)) as [IH1 IH2].
        destruct (existsb (fun c' => is_done (vres g c' x)) (k :: ks)) eqn:Hex.
        * split; [exact IH1|]. split.
          -- intros Hd. destruct (proj1 IH2 Hd) as [Hk [F2 HF2]]. destruct (proj1 Hiff eq_refl) as [F1 HF1].
             split; [exact Hk|]. exists (Nat.max F1 F2).
             rewrite (macc_member_mono F1 (Nat.max F1 F2) g ms ap key x (Nat.le_max_l _ _) HF1).
             rewrite (macc_members_mono F2 (Nat.max F1 F2) g ms ap r (Nat.le_max_r _ _) HF2). reflexivity.
          -- intros [Hk [F HF']]. apply andb_true_iff in HF'. destruct HF' as [_ H2]. apply IH2.
             split; [exact Hk|exists F; exact H2].
        * split; [reflexivity|]. split; [intros Hd; discriminate Hd|].
          intros [_ [F HF']]. apply andb_true_iff in HF'. destruct HF' as [H1 _].
          assert (Ht : false = true) by (apply Hiff; exists F; exact H1). discriminate Ht.
  Qed.

  Lemma mreq_ok_keys : forall ms dms,
    mreq_ok ms dms = keys_present dms (map (fun m : bytes * bool * mnode => fst (fst m)) (filter (fun m => snd (fst m)) ms)).
  Proof.
    intros ms dms. unfold mreq_ok, keys_present. induction ms as [|[[k b] x] r IH]; [reflexivity|].
    cbn [forallb filter fst snd]. rewrite IH. destruct b; reflexivity.
  Qed.

  Lemma macc_S_iff : forall n v, macc g n v <-> exists f, maccepts (S f) g n v = true.
  Proof.
    intros n v. split.
    - intros [[|f] H]; [discriminate H|exists f; exact H].
    - intros [f H]. exists (S f). exact H.
  Qed.

  Lemma macc_const : forall n v b, (forall f, maccepts (S f) g n v = b) -> (b = true <-> macc g n v).
  Proof.
    intros n v b H. rewrite macc_S_iff. split.
    - intros E. exists 0. rewrite H. exact E.
    - intros [f Hf]. rewrite H in Hf. exact Hf.
  Qed.

  Lemma good_arr_items : forall items nl an child, good g (MArr items nl an) -> In child items -> good g child.
  Proof.
    intros items nl an child [H1 H2] Hin. cbn [mclosed_node mprod_node] in H1, H2.
    rewrite forallb_forall in H1, H2. split; [apply H1|apply H2]; exact Hin.
  Qed.

  Lemma good_obj_members : forall ms ap nl an key child,
    good g (MObj ms ap nl an) -> mfind key ms = Some child -> good g child.
  Proof.
    intros ms ap nl an key child [H1 H2] Hf. cbn [mclosed_node mprod_node] in H1, H2.
    apply andb_true_iff in H1. destruct H1 as [H1 _]. rewrite forallb_forall in H1, H2.
    destruct (mfind_snd_in key ms child Hf) as [m [Hin E]]. subst child. split; [apply H1|apply H2]; exact Hin.
  Qed.

  Lemma good_obj_ap : forall ms ap nl an t,
    good g (MObj ms ap nl an) -> ap = MAPType t -> exists body, mlookup g t = Some body.
  Proof.
    intros ms ap nl an t [H1 _] E. subst ap. cbn [mclosed_node] in H1.
    apply andb_true_iff in H1. destruct H1 as [_ H1].
    destruct (mlookup g t) as [body|]; [exists body; reflexivity|discriminate H1].
  Qed.

  Lemma is_done_fresh : forall r, fresh_ok r = true -> (is_done r = true <-> r = RDone).
  Proof. intros r H. destruct r; try discriminate H; split; intros E; try reflexivity; discriminate E. Qed.

  Lemma Main0_of_subs : forall v,
    (forall xs, v = JArr xs -> Forall Main xs) ->
    (forall dms, v = JObj dms -> Forall (fun m => Main (snd m)) dms) -> Main0 v.
  Proof.
    intros v HA HO n Hg Hn. destruct n as [k nl an|ms ap nl an|items nl an|names nl]; [| | |destruct Hn].
    - (* literal node *)
      cbn [node_validators]. destruct an.
      + change (VAny 0) with (anyS true 0). split.
        * constructor; [unfold freshF; rewrite vres_any0; reflexivity|constructor].
        * unfold doneb. cbn [existsb]. rewrite vres_any0. cbn [is_done orb].
          apply macc_const. intros f. reflexivity.
      + split.
        * constructor; [|constructor]. unfold freshF. rewrite vres_VLit. destruct (_ && _)%bool; reflexivity.
        * unfold doneb. cbn [existsb]. rewrite vres_VLit, orb_false_r.
          assert (E : forall b : bool, is_done (if b then RDone else RFail) = b) by (intros [|]; reflexivity).
          rewrite E. apply macc_const. intros f. rewrite maccepts_S. reflexivity.
    - (* object node *)
      assert (HnullF : freshF v VNull) by (unfold freshF; rewrite vres_VNull; destruct (is_null v); reflexivity).
      destruct an.
      + (* any *)
        assert (E : node_validators (MObj ms ap nl true) = anyS true 0 :: (if nl then [VNull] else []))
          by (destruct nl; reflexivity).
        rewrite E. split.
        * constructor; [unfold freshF; rewrite vres_any0; reflexivity|destruct nl; constructor; [exact HnullF|constructor]].
        * unfold doneb. cbn [existsb]. rewrite vres_any0. cbn [is_done orb].
          apply macc_const. intros f. reflexivity.
      + set (req0 := map (fun m : bytes * bool * mnode => fst (fst m)) (filter (fun m => snd (fst m)) ms)).
        assert (E : node_validators (MObj ms ap nl false) = VObj ms ap req0 None :: (if nl then [VNull] else []))
          by (destruct nl; reflexivity).
        rewrite E.
        assert (Hsem : forall dms, v = JObj dms ->
                  fresh_ok (obj_loop_res g ms ap dms req0) = true /\
                  (obj_loop_res g ms ap dms req0 = RDone <->
                   keys_present dms req0 = true /\ exists F, macc_members F g ms ap dms = true)).
        { intros dms Ev. apply obj_sem.
          - intros key child. apply (good_obj_members ms ap nl false key child Hg).
          - intros t. apply (good_obj_ap ms ap nl false t Hg).
          - apply HO. exact Ev. }
        split.
        * constructor; [|destruct nl; constructor; [exact HnullF|constructor]].
          unfold freshF. rewrite vres_VObj. destruct v; try reflexivity. apply (Hsem ms0 eq_refl).
        * unfold doneb. cbn [existsb]. rewrite vres_VObj.
          destruct v as [| | | | |xs|dms].
          -- assert (E2 : (is_done RFail || existsb (fun c => is_done (vres g c JNull)) (if nl then [VNull] else []))%bool = nl)
               by (destruct nl; reflexivity).
             rewrite E2. apply macc_const. intros f. rewrite maccepts_S. reflexivity.
          -- assert (E2 : (is_done RFail || existsb (fun c => is_done (vres g c JBool)) (if nl then [VNull] else []))%bool = false)
               by (destruct nl; reflexivity).
             rewrite E2. apply macc_const. intros f. rewrite maccepts_S. reflexivity.
          -- assert (E2 : (is_done RFail || existsb (fun c => is_done (vres g c JStr)) (if nl then [VNull] else []))%bool = false)
               by (destruct nl; reflexivity).
             rewrite E2. apply macc_const. intros f. rewrite maccepts_S. reflexivity.
          -- assert (E2 : (is_done RFail || existsb (fun c => is_done (vres g c JInt)) (if nl then [VNull] else []))%bool = false)
               by (destruct nl; reflexivity).
             rewrite E2. apply macc_const. intros f. rewrite maccepts_S. reflexivity.
          -- assert (E2 : (is_done RFail || existsb (fun c => is_done (vres g c JFloat)) (if nl then [VNull] else []))%bool = false)
               by (destruct nl; reflexivity).
             rewrite E2. apply macc_const. intros f. rewrite maccepts_S. reflexivity.
          -- assert (E2 : (is_done RFail || existsb (fun c => is_done (vres g c (JArr xs))) (if nl then [VNull] else []))%bool = false)
               by (destruct nl; reflexivity).
             rewrite E2. apply macc_const. intros f. rewrite maccepts_S. reflexivity.
          -- destruct (Hsem dms eq_refl) as [Hfr Hiff].
             assert (E2 : existsb (fun c => is_done (vres g c (JObj dms))) (if nl then [VNull] else []) = false)
               by (destruct nl; reflexivity).
             rewrite E2, orb_false_r, (is_done_fresh _ Hfr), Hiff, macc_S_iff. split.
             ++ intros [Hk [F HF]]. exists F. rewrite maccepts_S, mreq_ok_keys. fold req0. rewrite Hk, HF. reflexivity.
             ++ intros [f Hf]. rewrite maccepts_S, mreq_ok_keys in Hf. fold req0 in Hf.
                apply andb_true_iff in Hf. destruct Hf as [H1 H2]. split; [exact H1|exists f; exact H2].
    - (* array node *)
      assert (HnullF : freshF v VNull) by (unfold freshF; rewrite vres_VNull; destruct (is_null v); reflexivity).
      destruct an.
      + assert (E : node_validators (MArr items nl true) = anyS true 0 :: (if nl then [VNull] else []))
          by (destruct nl; reflexivity).
        rewrite E. split.
        * constructor; [unfold freshF; rewrite vres_any0; reflexivity|destruct nl; constructor; [exact HnullF|constructor]].
        * unfold doneb. cbn [existsb]. rewrite vres_any0. cbn [is_done orb].
          apply macc_const. intros f. reflexivity.
      + assert (E : node_validators (MArr items nl false) = VArr items 0 :: (if nl then [VNull] else []))
          by (destruct nl; reflexivity).
        rewrite E.
        assert (Hsem : forall xs, v = JArr xs ->
                  fresh_ok (arr_loop_res g items xs 0) = true /\
                  (arr_loop_res g items xs 0 = RDone <-> exists F, macc_items F g items xs 0 = true)).
        { intros xs Ev. apply arr_sem.
          - intros child. apply (good_arr_items items nl false child Hg).
          - apply HA. exact Ev. }
        split.
        * constructor; [|destruct nl; constructor; [exact HnullF|constructor]].
          unfold freshF. rewrite vres_VArr. destruct v; try reflexivity. apply (Hsem xs eq_refl).
        * unfold doneb. cbn [existsb]. rewrite vres_VArr.
          destruct v as [| | | | |xs|dms].
          -- assert (E2 : (is_done RFail || existsb (fun c => is_done (vres g c JNull)) (if nl then [VNull] else []))%bool = nl)
               by (destruct nl; reflexivity).
             rewrite E2. apply macc_const. intros f. rewrite maccepts_S. reflexivity.
          -- assert (E2 : (is_done RFail || existsb (fun c => is_done (vres g c JBool)) (if nl then [VNull] else []))%bool = false)
               by (destruct nl; reflexivity).
             rewrite E2. apply macc_const. intros f. rewrite maccepts_S. reflexivity.
          -- assert (E2 : (is_done RFail || existsb (fun c => is_done (vres g c JStr)) (if nl then [VNull] else []))%bool = false)
               by (destruct nl; reflexivity).
             rewrite E2. apply macc_const. intros f. rewrite maccepts_S. reflexivity.
          -- assert (E2 : (is_done RFail || existsb (fun c => is_done (vres g c JInt)) (if nl then [VNull] else []))%bool = false)
               by (destruct nl; reflexivity).
             rewrite E2. apply macc_const. intros f. rewrite maccepts_S. reflexivity.
          -- assert (E2 : (is_done RFail || existsb (fun c => is_done (vres g c JFloat)) (if nl then [VNull] else []))%bool = false)
               by (destruct nl; reflexivity).
             rewrite E2. apply macc_const. intros f. rewrite maccepts_S. reflexivity.
          -- destruct (Hsem xs eq_refl) as [Hfr Hiff].
             assert (E2 : existsb (fun c => is_done (vres g c (JArr xs))) (if nl then [VNull] else []) = false)
               by (destruct nl; reflexivity).
             rewrite E2, orb_false_r, (is_done_fresh _ Hfr), Hiff, macc_S_iff. split.
             ++ intros [F HF]. exists F. rewrite maccepts_S. exact HF.
             ++ intros [f Hf]. rewrite maccepts_S in Hf. exists f. exact Hf.
          -- assert (E2 : (is_done RFail || existsb (fun c => is_done (vres g c (JObj dms))) (if nl then [VNull] else []))%bool = false)
               by (destruct nl; reflexivity).
             rewrite E2. apply macc_const. intros f. rewrite maccepts_S. reflexivity.
  Qed.

  Theorem Main_all : forall v, Main v.
  Proof.
    induction v as [| | | | |xs HF|dms HF] using jval_ind2; apply Main_lift; apply Main0_of_subs;
      try (intros ? E; discriminate E).
    - intros xs' E. injection E as E. subst xs'. exact HF.
    - intros dms' E. injection E as E. subst dms'. exact HF.
  Qed.
End Sem.

(* ------------------------------------------------------------------ *)
(* T3, T4                                                              *)
(* ------------------------------------------------------------------ *)
(* every type-reference position strictly below the root, and every one in the graph, has at
   least one validator: no empty reference list, no alias whose chain only leads back to itself.
   (For the root itself an empty validator list is harmless: the machine rejects.) *)
Definition mprod (g : menv) (root : mnode) : bool :=
  (match root with MRefs _ _ => true | _ => mprod_node g root end &&
   forallb (fun p => mprod_node g (snd p)) g)%bool.

Lemma mclosed_closedg : forall g root, mclosed g root = true -> mclosed_node g root = true /\ closedg g.
Proof.
  intros g root H. unfold mclosed in H. apply andb_true_iff in H. destruct H as [H1 H2].
  split; [exact H1|]. intros name body Hlk. rewrite forallb_forall in H2.
  apply (H2 (name, body)). apply mlookup_in. exact Hlk.
Qed.

Lemma mprod_prodg : forall g root, mprod g root = true -> (notrefs root -> mprod_node g root = true) /\ prodg g.
Proof.
  intros g root H. unfold mprod in H. apply andb_true_iff in H. destruct H as [H1 H2]. split.
  - intros Hn. destruct root; try exact H1. destruct Hn.
  - intros name body Hlk. rewrite forallb_forall in H2. apply (H2 (name, body)). apply mlookup_in. exact Hlk.
Qed.

Lemma machine_sem : forall g root v, mclosed g root = true -> mprod g root = true ->
  (machine_validate g root v = None <-> macc g root v) /\ machine_validate g root v <> Some 9999.
Proof.
  intros g root v Hcl Hpr.
  destruct (mclosed_closedg g root Hcl) as [Hcn Hc]. destruct (mprod_prodg g root Hpr) as [Hpn Hp].
  destruct (validator_list_spec g root Hc Hcn) as [vs [E _]].
  destruct (Main_all g Hc Hp v root vs Hcn Hpn E) as [HF Hiff].
  destruct (machine_vres g root v vs E HF) as [M1 M2]. split; [|exact M2].
  rewrite M1. exact Hiff.
Qed.

(* T3.  The statement asked for,
     forall g root v, mclosed g root = true ->
       exists F0, forall F, F0 <= F -> (machine_validate g root v = None <-> maccepts F g root v = true),
   is FALSE (see [machine_empty_alias_refuted] below).  What is added: the decidable hypothesis
   [mprod g root = true]; nothing else changes.  [mprod_of_productive] shows that [mprod] holds as
   soon as every alias chain of every reference position reaches a non-alias type or a nullable
   reference.  T4 carries the same hypothesis. *)
Theorem machine_iff_maccepts : forall g root v, mclosed g root = true -> mprod g root = true ->
  exists F0, forall F, F0 <= F -> (machine_validate g root v = None <-> maccepts F g root v = true).
Proof.
  intros g root v Hcl Hpr. destruct (machine_sem g root v Hcl Hpr) as [Hiff _].
  destruct (machine_validate g root v) as [c|] eqn:Hm.
  - exists 0. intros F _. split; [intros H; discriminate H|].
    intros H. apply Hiff. exists F. exact H.
  - destruct (proj1 Hiff eq_refl) as [F0 HF0]. exists F0. intros F Hle. split; [|intros _; reflexivity].
    intros _. apply (maccepts_fuel_mono F0 F); assumption.
Qed.

Theorem machine_no_panic : forall g root v, mclosed g root = true -> mprod g root = true ->
  machine_validate g root v <> Some 9999.
Proof. intros g root v Hcl Hpr. exact (proj2 (machine_sem g root v Hcl Hpr)). Qed.

(* the statement of T3 without [mprod] is refuted: an alias that only refers to itself gives the
   member position an empty validator list; FeedLeaves then leaves the object validator as the
   leaf, which consumes the events of the member's value as its own and finishes early *)
Theorem machine_empty_alias_refuted :
  let g := [(0, MRefs [0] false)] in
  let root := MObj [([x61], true, MRefs [0] false)] MAPNone false false in
  let v := JObj [([x61], JObj [])] in
  mclosed g root = true /\ mprod g root = false /\ validator_list g (MRefs [0] false) = Some [] /\
  machine_validate g root v = None /\ (forall F, maccepts F g root v = false).
Proof.
  cbv zeta. split; [vm_compute; reflexivity|]. split; [vm_compute; reflexivity|].
  split; [vm_compute; reflexivity|]. split; [vm_compute; reflexivity|].
  assert (A : forall F, maccepts F [(0, MRefs [0] false)] (MRefs [0] false) (JObj []) = false).
  { induction F as [|f IH]; [reflexivity|]. rewrite maccepts_S.
    cbn [andb orb macc_refs existsb mlookup Nat.eqb]. rewrite IH. reflexivity. }
  intros [|f]; [reflexivity|]. rewrite maccepts_S.
  cbn [macc_members]. unfold macc_member. cbn [mfind].
  assert (E : bytes_eqb [x61] [x61] = true) by (vm_compute; reflexivity). rewrite E.
  rewrite A. rewrite andb_false_r. reflexivity.
Qed.

Example machine_examples :
  (* types: 0 = {"a": integer}, 1 = string, 2 = alias (0 | 1) nullable, 3 = alias of 2 *)
  let g := [(0, MObj [([x61], true, MLit KInt false false)] MAPNone false false);
            (1, MLit KStr false false);
            (2, MRefs [0; 1] true);
            (3, MRefs [2] false)] in
  (* [ @0 | @1 ] : a union of an object type and a scalar type inside an array *)
  let arr := MArr [MRefs [0; 1] false] false false in
  (* { ... additionalProperties: @0 } *)
  let addp := MObj [] (MAPType 0) false false in
  mclosed g arr = true /\ mprod g arr = true /\
  machine_validate g arr (JArr [JObj [([x61], JInt)]; JStr; JObj [([x61], JInt)]]) = None /\
  maccepts 9 g arr (JArr [JObj [([x61], JInt)]; JStr; JObj [([x61], JInt)]]) = true /\
  machine_validate g arr (JArr [JObj [([x61], JStr)]]) = Some 210 /\
  maccepts 9 g arr (JArr [JObj [([x61], JStr)]]) = false /\
  machine_validate g arr (JArr [JStr; JArr []]) = Some 204 /\
  maccepts 9 g arr (JArr [JStr; JArr []]) = false /\
  (* the nullable alias, through a second alias *)
  machine_validate g (MRefs [3] false) JNull = None /\ maccepts 9 g (MRefs [3] false) JNull = true /\
  machine_validate g (MRefs [3] false) JStr = None /\
  machine_validate g (MRefs [3] false) JBool = Some 204 /\ maccepts 9 g (MRefs [3] false) JBool = false /\
  (* additionalProperties of a user type *)
  mclosed g addp = true /\ mprod g addp = true /\
  machine_validate g addp (JObj [([x78], JObj [([x61], JInt)]); ([x79], JObj [([x61], JInt)])]) = None /\
  maccepts 9 g addp (JObj [([x78], JObj [([x61], JInt)]); ([x79], JObj [([x61], JInt)])]) = true /\
  machine_validate g addp (JObj [([x78], JInt)]) = Some 208 /\
  maccepts 9 g addp (JObj [([x78], JInt)]) = false.
Proof. vm_compute. repeat split; reflexivity. Qed.

(* ------------------------------------------------------------------ *)
(* when does [mprod] hold?  A reference position whose alias chains    *)
(* reach a type that is not an alias (or a nullable reference) has a   *)
(* non-empty validator list.                                           *)
(* ------------------------------------------------------------------ *)
Definition productive (g : menv) (n : mnode) : Prop :=
  exists n', reach g n n' /\ (notrefs n' \/ exists names, n' = MRefs names true).

Lemma vl_nonempty_productive : forall g n, closedg g -> mclosed_node g n = true ->
  productive g n -> vl_nonempty g n = true.
Proof.
  intros g n Hc Hcn [n' [Hr Hn']].
  destruct (validator_list_spec g n Hc Hcn) as [vs [E [_ Hcomp]]].
  unfold vl_nonempty. rewrite E. destruct (Hcomp n' Hr) as [H1 H2].
  destruct Hn' as [Hn'|[names E']].
  - destruct (node_validators_ne n' Hn') as [k [ks Ek]]. specialize (H1 Hn'). rewrite Ek in H1.
    destruct vs as [|c vs]; [|reflexivity]. exfalso. apply (H1 k). left. reflexivity.
  - specialize (H2 names E'). destruct vs as [|c vs]; [destruct H2|reflexivity].
Qed.

Section MnodeInd.
  Variable P : mnode -> Prop.
  Hypothesis HLit : forall k nl an, P (MLit k nl an).
  Hypothesis HObj : forall ms ap nl an, Forall (fun m => P (snd m)) ms -> P (MObj ms ap nl an).
  Hypothesis HArr : forall items nl an, Forall P items -> P (MArr items nl an).
  Hypothesis HRefs : forall names nl, P (MRefs names nl).

  Fixpoint mnode_ind2 (n : mnode) : P n :=
    match n with
    | MLit k nl an => HLit k nl an
    | MObj ms ap nl an =>
      HObj ms ap nl an
           ((fix go (l : list (bytes * bool * mnode)) : Forall (fun m => P (snd m)) l :=
               match l with
               | [] => Forall_nil _
               | m :: r => Forall_cons m (match m as m0 return P (snd m0) with (_, x) => mnode_ind2 x end) (go r)
               end) ms)
    | MArr items nl an =>
      HArr items nl an
           ((fix go (l : list mnode) : Forall P l :=
               match l with
               | [] => Forall_nil _
               | x :: r => Forall_cons x (mnode_ind2 x) (go r)
               end) items)
    | MRefs names nl => HRefs names nl
    end.
End MnodeInd.

(* every reference position inside [n] satisfies Q *)
Fixpoint refs_all (Q : mnode -> Prop) (n : mnode) : Prop :=
  match n with
  | MLit _ _ _ => True
  | MRefs _ _ => Q n
  | MArr items _ _ => (fix all (l : list mnode) : Prop := match l with [] => True | x :: r => refs_all Q x /\ all r end) items
  | MObj ms _ _ _ =>
    (fix all (l : list (bytes * bool * mnode)) : Prop :=
       match l with [] => True | (_, x) :: r => refs_all Q x /\ all r end) ms
  end.

Lemma mprod_node_productive : forall g, closedg g -> forall n,
  mclosed_node g n = true -> refs_all (productive g) n -> mprod_node g n = true.
Proof.
  intros g Hc. induction n as [k nl an|ms ap nl an HF|items nl an HF|names nl] using mnode_ind2; intros Hcn Hr.
  - reflexivity.
  - cbn [mprod_node mclosed_node] in *. apply andb_true_iff in Hcn. destruct Hcn as [Hcn _].
    cbn [refs_all] in Hr. induction HF as [|[[k b] x] r Hx HF IH]; [reflexivity|].
    cbn [forallb snd] in *. apply andb_true_iff in Hcn. destruct Hcn as [H1 H2]. destruct Hr as [R1 R2].
    rewrite (Hx H1 R1). apply IH; assumption.
  - cbn [mprod_node mclosed_node] in *. cbn [refs_all] in Hr.
    induction HF as [|x r Hx HF IH]; [reflexivity|].
    cbn [forallb] in *. apply andb_true_iff in Hcn. destruct Hcn as [H1 H2]. destruct Hr as [R1 R2].
    rewrite (Hx H1 R1). apply IH; assumption.
  - cbn [mprod_node]. cbn [refs_all] in Hr. apply vl_nonempty_productive; assumption.
Qed.

(* no pure alias cycle and no empty non-nullable reference list => mprod *)
Theorem mprod_of_productive : forall g root, mclosed g root = true ->
  refs_all (productive g) root -> (forall p, In p g -> refs_all (productive g) (snd p)) ->
  mprod g root = true.
Proof.
  intros g root Hcl Hr Hg. destruct (mclosed_closedg g root Hcl) as [Hcn Hc].
  unfold mprod. apply andb_true_iff. split.
  - destruct root; try reflexivity; apply mprod_node_productive; assumption.
  - apply forallb_forall. intros [name body] Hin. cbn [snd].
    apply mprod_node_productive; [exact Hc| |apply (Hg (name, body) Hin)].
    unfold mclosed in Hcl. apply andb_true_iff in Hcl. destruct Hcl as [_ H2].
    rewrite forallb_forall in H2. apply (H2 (name, body) Hin).
Qed.
