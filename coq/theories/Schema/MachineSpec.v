(* MachineSpec.v — what the event-level machine of Machine.v is supposed to compute: the
   set semantics of the statement of C03 (and of C01 on the rule-free fragment) over the same
   node type.  [maccepts] is a denotation with fuel (type graphs may be recursive; a document
   is finite, so some fuel suffices and more fuel changes nothing).  No proofs in this file. *)
From Coq Require Import List NArith Bool Arith.
From Coq Require Import Strings.Byte.
Import ListNotations.
From JS Require Import Common.Wire Schema.Shape Schema.Machine.

Definition is_null (v : jval) : bool := match v with JNull => true | _ => false end.

Fixpoint mfind (key : bytes) (ms : list (bytes * bool * mnode)) : option mnode :=
  match ms with
  | [] => None
  | (k, _, x) :: r => if bytes_eqb k key then Some x else mfind key r
  end.

Fixpoint maccepts (fuel : nat) (g : menv) (n : mnode) (v : jval) {struct fuel} : bool :=
  match fuel with
  | O => false
  | S f =>
    match n with
    | MRefs names nl =>
      ((nl && is_null v) ||
       existsb (fun name => match mlookup g name with Some body => maccepts f g body v | None => false end) names)%bool
    | MLit k nl an => if an then true else (negb (is_container v) && lit_kind_ok k nl v)%bool
    | MArr items nl an =>
      if an then true
      else match v with
           | JArr xs =>
             (fix all (xs : list jval) (i : nat) : bool :=
                match xs with
                | [] => true
                | x :: r => (match last_or items i with Some child => maccepts f g child x | None => false end && all r (S i))%bool
                end) xs 0
           | JNull => nl
           | _ => false
           end
    | MObj ms ap nl an =>
      if an then true
      else match v with
           | JObj dms =>
             (forallb (fun m => let '(key, req, _) := m in (negb req || existsb (fun d => bytes_eqb (fst d) key) dms)%bool) ms &&
              (fix all (dms : list (bytes * jval)) : bool :=
                 match dms with
                 | [] => true
                 | (key, x) :: r =>
                   (match mfind key ms with
                    | Some child => maccepts f g child x
                    | None =>
                      match ap with
                      | MAPNone | MAPFalse => false
                      | MAPAny => true
                      | MAPKind k => (negb (is_container x) && addkind_ok k x)%bool
                      | MAPObject => match x with JObj _ => true | _ => false end
                      | MAPArray => match x with JArr _ => true | _ => false end
                      | MAPType t => match mlookup g t with Some body => maccepts f g body x | None => false end
                      end
                    end && all r)%bool
                 end) dms)%bool
           | JNull => nl
           | _ => false
           end
    end
  end.

(* every type name that occurs is defined *)
Fixpoint mclosed_node (g : menv) (n : mnode) : bool :=
  match n with
  | MLit _ _ _ => true
  | MRefs names _ => forallb (fun t => match mlookup g t with Some _ => true | None => false end) names
  | MArr items _ _ => forallb (mclosed_node g) items
  | MObj ms ap _ _ =>
    (forallb (fun m => mclosed_node g (snd m)) ms &&
     match ap with MAPType t => match mlookup g t with Some _ => true | None => false end | _ => true end)%bool
  end.
Definition mclosed (g : menv) (root : mnode) : bool :=
  (mclosed_node g root && forallb (fun p => mclosed_node g (snd p)) g)%bool.

(* wire: same line as machine_graph_line; output: <machine verdict> <maccepts with ample fuel: T|F> <mclosed: T|F> *)
Fixpoint jdepth (v : jval) : nat :=
  match v with
  | JArr xs => S (fold_right (fun x n => Nat.max (jdepth x) n) 0 xs)
  | JObj ms => S (fold_right (fun m n => Nat.max (jdepth (snd m)) n) 0 ms)
  | _ => 1
  end.
Definition ample_fuel (g : menv) (v : jval) : nat := S ((S (length g)) * (S (jdepth v))).
Definition machine_spec_line (line : bytes) : bytes :=
  match split_on semi line with
  | rootb :: docb :: entries =>
    match parse_m (S (length rootb)) (words rootb), parse_j (S (length docb)) (words docb),
          all_some (map parse_mentry (filter (fun e => negb (Nat.eqb (length (words e)) 0)) entries)) with
    | Some (root, []), Some (v, []), Some g =>
      print_verdict_opt (machine_validate g root v) ++ [sp] ++ print_bool (maccepts (ample_fuel g v) g root v) ++ [sp] ++ print_bool (mclosed g root)
    | _, _, _ => [x42; x41; x44]
    end
  | _ => [x42; x41; x44]
  end.
