(* RecursionE2E.v - property C09 from the schema TEXTS, inside Coq:

     root text, type texts --SchemaScanner.scan + Loader.load--> loaded nodes
       --tnode_of_node--> what the recursion checker looks at (Recursion.tnode) --check_all--> verdict

   [tnode_of_node] is the model of what CompileBasic + the recursion checker make of a loaded node in the
   fragment the C09 generators write: objects (named keys and key shortcuts), arrays, type shortcuts, literals,
   with no rules other than optional, nullable, minItems, maxItems and additionalProperties (which the walk does
   not follow); anything else is outside the fragment (None).  A property is required unless it is optional
   (rule "optional", or the KeysAreOptionalByDefault option without the rule); an array requires the items at
   its first minItems positions (fix fb8368b); a nullable node is NOT optional (the library refuses a nullable
   required self-reference).  The executable composition [rec_e2e_model_line] is run against Schema.Check on the
   texts of every generated type graph by lib/check_c09.py, next to the verdict of the abstract wire model, so
   the abstraction from text to graph is itself inside the extracted model.  No proofs in this file. *)
From Coq Require Import String.
From Coq Require Import List NArith Bool Arith.
From Coq Require Import Strings.Byte.
Import ListNotations.
From JS Require Import Common.Wire Schema.Recursion.
From JS Require SchemaScan.Loader Num.NumModel.

Definition lit_bool (r : Loader.rval) : option bool :=
  match r with
  | Loader.RLit t => if Loader.is "true" t then Some true else if Loader.is "false" t then Some false else None
  | _ => None
  end.

(* the rules of the fragment, as written on one node *)
Record rflags := mkrflags { rf_opt : option bool; rf_min : N }.

Fixpoint rflags_of (rs : list (bytes * Loader.rval)) (f : rflags) : option rflags :=
  match rs with
  | [] => Some f
  | (name, v) :: r =>
    if Loader.is "optional" name then
      match lit_bool v with Some b => rflags_of r (mkrflags (Some b) (rf_min f)) | None => None end
    else if Loader.is "nullable" name then
      match lit_bool v with Some _ => rflags_of r f | None => None end
    else if Loader.is "minItems" name then
      match v with
      | Loader.RLit t => match NumModel.parse_uint t with Some n => rflags_of r (mkrflags (rf_opt f) n) | None => None end
      | _ => None
      end
    else if Loader.is "maxItems" name then
      match v with Loader.RLit _ => rflags_of r f | _ => None end
    else if Loader.is "additionalProperties" name then
      match v with Loader.RLit _ => rflags_of r f | _ => None end
    else None
  end.
Definition rflags0 : rflags := mkrflags None 0%N.

Definition bytes_eqb (a b : bytes) : bool :=
  (Nat.eqb (length a) (length b) && forallb (fun p => byte_eqb (fst p) (snd p)) (combine a b))%bool.

(* the number of a type name: its place in the list of the added types; an unknown name gets a number
   beyond the list (the checker then finds no schema for it) *)
Fixpoint index_of (names : list bytes) (n : bytes) (i : nat) : nat :=
  match names with
  | [] => S i                      (* not found: any number that is no index *)
  | x :: r => if bytes_eqb x n then i else index_of r n (S i)
  end.

(* (optional?, node) *)
Fixpoint tnode_of_node (optd : bool) (names : list bytes) (n : Loader.node) : option (bool * tnode) :=
  let opt_of (f : rflags) : bool := match rf_opt f with Some b => b | None => optd end in
  match n with
  | Loader.NLit _ a =>
    match rflags_of (Loader.a_rules a) rflags0 with
    | Some f => Some (opt_of f, TLeaf)
    | None => None
    end
  | Loader.NRef _ ns a =>
    match rflags_of (Loader.a_rules a) rflags0 with
    | Some f => Some (opt_of f, TRef (map (fun x => index_of names x 0) ns))
    | None => None
    end
  | Loader.NObj ms a =>
    match rflags_of (Loader.a_rules a) rflags0 with
    | None => None
    | Some f =>
      let fix members (ms : list (bytes * bool * Loader.node)) : option (list (bool * tnode)) :=
          match ms with
          | [] => Some []
          | (_, _, x) :: r =>
            match tnode_of_node optd names x, members r with
            | Some p, Some t => Some (p :: t)
            | _, _ => None
            end
          end in
      match members ms with
      | Some l => Some (opt_of f, TObj l)
      | None => None
      end
    end
  | Loader.NArr items a =>
    match rflags_of (Loader.a_rules a) rflags0 with
    | None => None
    | Some f =>
      (* positions below minItems are required, the others are not walked *)
      let fix elems (i : N) (xs : list Loader.node) : option (list (bool * tnode)) :=
          match xs with
          | [] => Some []
          | x :: r =>
            match tnode_of_node optd names x, elems (N.succ i) r with
            | Some (_, t), Some l => Some ((negb (N.ltb i (rf_min f)), t) :: l)
            | _, _ => None
            end
          end in
      match elems 0%N items with
      | Some l => Some (opt_of f, TObj l)
      | None => None
      end
    end
  end.

Inductive rec_result :=
| RLoad (which : nat) (code pos : N)     (* text number [which] (0 = root, i+1 = type i) is refused by scanner / loader *)
| ROutside                               (* loaded, but outside the fragment *)
| RVerdict (v : option bool).            (* Recursion.check_all *)

Definition load_tnode (optd : bool) (names : list bytes) (which : nat) (text : bytes) : rec_result + (bool * tnode) :=
  match Loader.load text with
  | Loader.LError c p => inl (RLoad which c p)
  | Loader.LTree (Some n) =>
    match tnode_of_node optd names n with Some p => inr p | None => inl ROutside end
  | _ => inl ROutside
  end.

Fixpoint load_env (optd : bool) (names : list bytes) (i : nat) (texts : list bytes) : rec_result + env :=
  match texts with
  | [] => inr []
  | t :: r =>
    match load_tnode optd names (S i) t with
    | inl e => inl e
    | inr (_, body) =>
      match load_env optd names (S i) r with
      | inl e => inl e
      | inr g => inr ((i, body) :: g)
      end
    end
  end.

(* Check's recursion verdict on the texts: [types] = (name, text) in the order they are added *)
Definition rec_e2e (optd : bool) (root : bytes) (types : list (bytes * bytes)) : rec_result :=
  let names := map fst types in
  match load_tnode optd names 0 root with
  | inl e => e
  | inr (_, r) =>
    match load_env optd names 0 (map snd types) with
    | inl e => e
    | inr g => RVerdict (check_all g r)
    end
  end.

(* wire:  <optdefault 0/1> ; <hex root text> ; <hex name> <hex text> ; <hex name> <hex text> ...
   output: ok | E104 | FUEL | OUT | L<which>:<code>@<pos> | BAD *)
Definition tok_bool01 (t : bytes) : option bool :=
  match t with [x30] => Some false | [x31] => Some true | _ => None end.
Definition words (bs : bytes) : list bytes := filter (fun w => negb (Nat.eqb (length w) 0)) (split_on sp bs).

Definition parse_type_entry (e : bytes) : option (bytes * bytes) :=
  match words e with
  | [n; t] => match unhex n, unhex t with Some a, Some b => Some (a, b) | _, _ => None end
  | _ => None
  end.

Definition rec_e2e_model_line (line : bytes) : bytes :=
  let bad := [x42; x41; x44] in
  match split_on semi line with
  | o :: h :: entries =>
    match words o, words h, all_some (map parse_type_entry (filter (fun e => negb (Nat.eqb (length (words e)) 0)) entries)) with
    | [ob], [hx], Some types =>
      match tok_bool01 ob, unhex hx with
      | Some optd, Some root =>
        match rec_e2e optd root types with
        | RLoad w c p => [x4c] ++ print_nat w ++ [x3a] ++ print_N c ++ [x40] ++ print_N p
        | ROutside => [x4f; x55; x54]
        | RVerdict (Some true) => [x6f; x6b]
        | RVerdict (Some false) => [x45; x31; x30; x34]
        | RVerdict None => [x46; x55; x45; x4c]
        end
      | _, _ => bad
      end
    | _, _, _ => bad
    end
  | _ => bad
  end.
