(* RecursionProofs.v — property C09: the depth-first recursion checker of Recursion.v
   decides "the type has a finite inhabitant" and never runs out of its fuel.
   Axiom-free; Recursion.v is not modified. *)
From Coq Require Import List Arith Lia Bool Wf_nat.
Import ListNotations.
From JS Require Import Schema.Recursion.

(* ------------------------------------------------------------------ *)
(* 1. The two local loops of [check] as stand-alone functions          *)
(* ------------------------------------------------------------------ *)

Definition all_props (chk : tnode -> option bool) : list (bool * tnode) -> option bool :=
  fix all (ps : list (bool * tnode)) : option bool :=
    match ps with
    | [] => Some true
    | (opt, p) :: r =>
      if opt then all r
      else match chk p with
           | Some true => all r
           | x => x
           end
    end.

Definition alts_names (stp : tname -> option bool) : list tname -> bool -> bool -> option bool :=
  fix alts (ns : list tname) (any_ok seen_one : bool) : option bool :=
    match ns with
    | [] => Some (any_ok || negb seen_one)
    | n :: r =>
      match stp n with
      | None => None
      | Some ok => alts r (any_ok || ok) true
      end
    end.

Lemma all_props_nil : forall chk, all_props chk [] = Some true.
Proof. reflexivity. Qed.

Lemma all_props_cons : forall chk o p r,
  all_props chk ((o, p) :: r) =
  if o then all_props chk r
  else match chk p with
       | Some true => all_props chk r
       | x => x
       end.
Proof. reflexivity. Qed.

Lemma alts_nil : forall stp a s, alts_names stp [] a s = Some (a || negb s).
Proof. reflexivity. Qed.

Lemma alts_cons : forall stp n r a s,
  alts_names stp (n :: r) a s =
  match stp n with
  | None => None
  | Some ok => alts_names stp r (a || ok) true
  end.
Proof. reflexivity. Qed.

(* what the checker does with one alternative of an or-list *)
Definition step (f : nat) (g : env) (vis : list tname) (n : tname) : option bool :=
  if mem n vis then Some false
  else match lookup g n with
       | None => Some true
       | Some body => check f g (n :: vis) body
       end.

Lemma check_S : forall f g vis t,
  check (S f) g vis t =
  match t with
  | TLeaf => Some true
  | TObj props => all_props (check f g vis) props
  | TRef names => alts_names (step f g vis) names false false
  end.
Proof. intros f g vis t. destruct t; reflexivity. Qed.

Lemma check_O : forall g vis t, check 0 g vis t = None.
Proof. reflexivity. Qed.

(* ---------- mem ---------- *)
Lemma mem_In : forall n l, mem n l = true <-> In n l.
Proof.
  intros n l. unfold mem. rewrite existsb_exists. split.
  - intros [x [Hin Heq]]. apply Nat.eqb_eq in Heq. subst. exact Hin.
  - intros Hin. exists n. split; [exact Hin | apply Nat.eqb_refl].
Qed.

Lemma mem_false_not_In : forall n l, mem n l = false -> ~ In n l.
Proof.
  intros n l Hm Hin. apply mem_In in Hin. rewrite Hin in Hm. discriminate.
Qed.

(* ---------- all_props ---------- *)
Lemma all_props_true : forall chk ps,
  all_props chk ps = Some true -> forall p, In (false, p) ps -> chk p = Some true.
Proof.
  intros chk ps. induction ps as [|[o q] r IH]; intros H p Hin.
  - destruct Hin.
  - rewrite all_props_cons in H. destruct o.
    + destruct Hin as [E|Hin]; [discriminate E|]. apply IH; assumption.
    + destruct (chk q) as [[|]|] eqn:Eq; try discriminate H.
      destruct Hin as [E|Hin].
      * inversion E; subst; exact Eq.
      * apply IH; assumption.
Qed.

Lemma all_props_intro_true : forall chk ps,
  (forall p, In (false, p) ps -> chk p = Some true) -> all_props chk ps = Some true.
Proof.
  intros chk ps. induction ps as [|[o q] r IH]; intros H.
  - reflexivity.
  - rewrite all_props_cons. destruct o.
    + apply IH. intros p Hin. apply H. right; exact Hin.
    + rewrite (H q (or_introl eq_refl)). apply IH. intros p Hin. apply H. right; exact Hin.
Qed.

Lemma all_props_not_true : forall chk ps res,
  res <> Some true -> all_props chk ps = res ->
  exists p, In (false, p) ps /\ chk p = res.
Proof.
  intros chk ps res Hres. induction ps as [|[o q] r IH]; intros H.
  - rewrite all_props_nil in H. symmetry in H. contradiction.
  - rewrite all_props_cons in H. destruct o.
    + destruct (IH H) as [p [Hin Hp]]. exists p. split; [right; exact Hin | exact Hp].
    + destruct (chk q) as [[|]|] eqn:Eq.
      * destruct (IH H) as [p [Hin Hp]]. exists p. split; [right; exact Hin | exact Hp].
      * exists q. split; [left; reflexivity | rewrite Eq; exact H].
      * exists q. split; [left; reflexivity | rewrite Eq; exact H].
Qed.

Lemma all_props_mono : forall chk chk' ps b,
  (forall p, In (false, p) ps -> forall c, chk p = Some c -> chk' p = Some c) ->
  all_props chk ps = Some b -> all_props chk' ps = Some b.
Proof.
  intros chk chk' ps b. induction ps as [|[o q] r IH]; intros Hm H.
  - exact H.
  - rewrite all_props_cons in *. destruct o.
    + apply IH; [|exact H]. intros p Hin. apply Hm. right; exact Hin.
    + destruct (chk q) as [[|]|] eqn:Eq.
      * rewrite (Hm q (or_introl eq_refl) true Eq).
        apply IH; [|exact H]. intros p Hin. apply Hm. right; exact Hin.
      * rewrite (Hm q (or_introl eq_refl) false Eq). exact H.
      * discriminate H.
Qed.

(* ---------- alts_names ---------- *)
Lemma alts_none : forall stp ns a s,
  alts_names stp ns a s = None -> exists n, In n ns /\ stp n = None.
Proof.
  intros stp ns. induction ns as [|n r IH]; intros a s H.
  - discriminate H.
  - rewrite alts_cons in H. destruct (stp n) as [ok|] eqn:En.
    + destruct (IH _ _ H) as [m [Hin Hm]]. exists m. split; [right; exact Hin | exact Hm].
    + exists n. split; [left; reflexivity | exact En].
Qed.

Lemma alts_false : forall stp ns a s,
  alts_names stp ns a s = Some false ->
  a = false /\ (forall n, In n ns -> stp n = Some false) /\ (s = true \/ ns <> []).
Proof.
  intros stp ns. induction ns as [|n r IH]; intros a s H.
  - rewrite alts_nil in H. injection H as H1.
    apply orb_false_iff in H1. destruct H1 as [Ha Hs].
    apply negb_false_iff in Hs.
    split; [exact Ha|]. split; [intros n [] | left; exact Hs].
  - rewrite alts_cons in H. destruct (stp n) as [ok|] eqn:En; [|discriminate H].
    destruct (IH _ _ H) as [Hao [Hall _]].
    apply orb_false_iff in Hao. destruct Hao as [Ha Hok]. subst ok.
    split; [exact Ha|]. split.
    + intros m [E|Hin]; [subst m; exact En | apply Hall; exact Hin].
    + right. discriminate.
Qed.

Lemma alts_true : forall stp ns a s,
  alts_names stp ns a s = Some true ->
  a = true \/ (s = false /\ ns = []) \/ exists n, In n ns /\ stp n = Some true.
Proof.
  intros stp ns. induction ns as [|n r IH]; intros a s H.
  - rewrite alts_nil in H. injection H as H1.
    destruct a; [left; reflexivity|]. destruct s; [discriminate H1|].
    right. left. split; reflexivity.
  - rewrite alts_cons in H. destruct (stp n) as [ok|] eqn:En; [|discriminate H].
    destruct (IH _ _ H) as [Hao | [[Hs _] | [m [Hin Hm]]]].
    + apply orb_true_iff in Hao. destruct Hao as [Ha|Hok].
      * left; exact Ha.
      * subst ok. right. right. exists n. split; [left; reflexivity | exact En].
    + discriminate Hs.
    + right. right. exists m. split; [right; exact Hin | exact Hm].
Qed.

Lemma alts_mono : forall stp stp' ns a s b,
  (forall n, In n ns -> forall c, stp n = Some c -> stp' n = Some c) ->
  alts_names stp ns a s = Some b -> alts_names stp' ns a s = Some b.
Proof.
  intros stp stp' ns. induction ns as [|n r IH]; intros a s b Hm H.
  - exact H.
  - rewrite alts_cons in *. destruct (stp n) as [ok|] eqn:En; [|discriminate H].
    rewrite (Hm n (or_introl eq_refl) ok En).
    apply IH; [|exact H]. intros m Hin. apply Hm. right; exact Hin.
Qed.

(* ------------------------------------------------------------------ *)
(* 2. Fuel monotonicity                                                *)
(* ------------------------------------------------------------------ *)

Theorem check_fuel_mono : forall f g vis t b,
  check f g vis t = Some b -> forall f', f <= f' -> check f' g vis t = Some b.
Proof.
  intros f g. induction f as [|f IH]; intros vis t b H f' Hle.
  - discriminate H.
  - destruct f' as [|f']; [lia|]. assert (Hle' : f <= f') by lia.
    rewrite check_S in *. destruct t as [|props|names].
    + exact H.
    + apply all_props_mono with (chk := check f g vis); [|exact H].
      intros p _ c Hc. apply IH with (f' := f') in Hc; assumption.
    + apply alts_mono with (stp := step f g vis); [|exact H].
      intros n _ c Hc. unfold step in *.
      destruct (mem n vis); [exact Hc|].
      destruct (lookup g n) as [body|]; [|exact Hc].
      apply IH with (f' := f') in Hc; assumption.
Qed.

(* ------------------------------------------------------------------ *)
(* 3. Acceptance is sound                                              *)
(* ------------------------------------------------------------------ *)

Lemma accept_gen : forall f g vis t, check f g vis t = Some true -> Inhabited g t.
Proof.
  intros f g. induction f as [|f IH]; intros vis t H.
  - discriminate H.
  - rewrite check_S in H. destruct t as [|props|names].
    + constructor.
    + apply InhObj. intros p Hin. apply IH with (vis := vis).
      apply all_props_true with (ps := props); assumption.
    + apply alts_true in H. destruct H as [Ha | [[_ Hn] | [n [Hin Hn]]]].
      * discriminate Ha.
      * subst names. apply InhRefEmpty.
      * unfold step in Hn. destruct (mem n vis); [discriminate Hn|].
        destruct (lookup g n) as [body|] eqn:El.
        -- apply InhRef with (n := n) (body := body); [exact Hin | exact El |].
           apply IH with (vis := n :: vis). exact Hn.
        -- apply InhRefUnknown with (n := n); assumption.
Qed.

Theorem accept_sound : forall g root, check_recursion g root = Some true -> Inhabited g root.
Proof.
  intros g root H. unfold check_recursion in H. apply accept_gen in H. exact H.
Qed.

(* ------------------------------------------------------------------ *)
(* 4. Depth-indexed inhabitation: [InhN g k t] = t has an inhabitant   *)
(*    whose derivation expands at most k type names along any branch   *)
(* ------------------------------------------------------------------ *)

Inductive InhN (g : env) : nat -> tnode -> Prop :=
| NLeaf : forall k, InhN g k TLeaf
| NObj : forall k props,
    (forall p, In (false, p) props -> InhN g k p) -> InhN g k (TObj props)
| NRefEmpty : forall k, InhN g k (TRef [])
| NRef : forall k names n body,
    In n names -> lookup g n = Some body -> InhN g k body -> InhN g (S k) (TRef names)
| NRefUnknown : forall k names n,
    In n names -> lookup g n = None -> InhN g k (TRef names).

Section InhN_induction.
  Variable g : env.
  Variable P : nat -> tnode -> Prop.
  Hypothesis HLeaf : forall k, P k TLeaf.
  Hypothesis HObj : forall k props,
    (forall p, In (false, p) props -> InhN g k p) ->
    (forall p, In (false, p) props -> P k p) -> P k (TObj props).
  Hypothesis HEmpty : forall k, P k (TRef []).
  Hypothesis HRef : forall k names n body,
    In n names -> lookup g n = Some body -> InhN g k body -> P k body -> P (S k) (TRef names).
  Hypothesis HUnk : forall k names n,
    In n names -> lookup g n = None -> P k (TRef names).

  Fixpoint InhN_ind' (k : nat) (t : tnode) (h : InhN g k t) {struct h} : P k t :=
    match h in InhN _ k0 t0 return P k0 t0 with
    | NLeaf _ k1 => HLeaf k1
    | NObj _ k1 props H => HObj k1 props H (fun p hin => InhN_ind' k1 p (H p hin))
    | NRefEmpty _ k1 => HEmpty k1
    | NRef _ k1 names n body hin hl hb =>
        HRef k1 names n body hin hl hb (InhN_ind' k1 body hb)
    | NRefUnknown _ k1 names n hin hl => HUnk k1 names n hin hl
    end.
End InhN_induction.

Section Inhabited_induction.
  Variable g : env.
  Variable P : tnode -> Prop.
  Hypothesis HLeaf : P TLeaf.
  Hypothesis HObj : forall props,
    (forall p, In (false, p) props -> Inhabited g p) ->
    (forall p, In (false, p) props -> P p) -> P (TObj props).
  Hypothesis HEmpty : P (TRef []).
  Hypothesis HRef : forall names n body,
    In n names -> lookup g n = Some body -> Inhabited g body -> P body -> P (TRef names).
  Hypothesis HUnk : forall names n,
    In n names -> lookup g n = None -> P (TRef names).

  Fixpoint Inhabited_ind' (t : tnode) (h : Inhabited g t) {struct h} : P t :=
    match h in Inhabited _ t0 return P t0 with
    | InhLeaf _ => HLeaf
    | InhObj _ props H => HObj props H (fun p hin => Inhabited_ind' p (H p hin))
    | InhRefEmpty _ => HEmpty
    | InhRef _ names n body hin hl hb =>
        HRef names n body hin hl hb (Inhabited_ind' body hb)
    | InhRefUnknown _ names n hin hl => HUnk names n hin hl
    end.
End Inhabited_induction.

Lemma InhN_mono : forall g k t, InhN g k t -> forall k', k <= k' -> InhN g k' t.
Proof.
  intros g k t H. induction H using InhN_ind'; intros k' Hle.
  - apply NLeaf.
  - apply NObj. intros p Hin. apply H0; assumption.
  - apply NRefEmpty.
  - destruct k' as [|k']; [lia|].
    apply NRef with (n := n) (body := body); [assumption | assumption |].
    apply IHInhN. lia.
  - apply NRefUnknown with (n := n); assumption.
Qed.

Lemma InhN_Inhabited : forall g k t, InhN g k t -> Inhabited g t.
Proof.
  intros g k t H. induction H using InhN_ind'.
  - apply InhLeaf.
  - apply InhObj. assumption.
  - apply InhRefEmpty.
  - apply InhRef with (n := n) (body := body); assumption.
  - apply InhRefUnknown with (n := n); assumption.
Qed.

Lemma props_common_bound : forall g (ps : list (bool * tnode)),
  (forall p, In (false, p) ps -> exists k, InhN g k p) ->
  exists k, forall p, In (false, p) ps -> InhN g k p.
Proof.
  intros g ps. induction ps as [|[o q] r IH]; intros H.
  - exists 0. intros p [].
  - destruct IH as [kr Hr].
    { intros p Hin. apply H. right; exact Hin. }
    destruct o.
    + exists kr. intros p [E|Hin]; [discriminate E | apply Hr; exact Hin].
    + destruct (H q (or_introl eq_refl)) as [kq Hq].
      exists (Nat.max kq kr). intros p [E|Hin].
      * inversion E; subst p. apply InhN_mono with (k := kq); [exact Hq | apply Nat.le_max_l].
      * apply InhN_mono with (k := kr); [apply Hr; exact Hin | apply Nat.le_max_r].
Qed.

Lemma Inhabited_InhN : forall g t, Inhabited g t -> exists k, InhN g k t.
Proof.
  intros g t H. induction H using Inhabited_ind'.
  - exists 0. apply NLeaf.
  - destruct (props_common_bound g props H0) as [k Hk].
    exists k. apply NObj. exact Hk.
  - exists 0. apply NRefEmpty.
  - destruct IHInhabited as [k Hk]. exists (S k).
    apply NRef with (n := n) (body := body); assumption.
  - exists 0. apply NRefUnknown with (n := n); assumption.
Qed.

Theorem Inhabited_iff_InhN : forall g t, Inhabited g t <-> exists k, InhN g k t.
Proof.
  intros g t. split.
  - apply Inhabited_InhN.
  - intros [k H]. apply InhN_Inhabited with (k := k). exact H.
Qed.

(* ------------------------------------------------------------------ *)
(* 5. Rejection is sound                                               *)
(* ------------------------------------------------------------------ *)

(* path invariant: every name on the current path is defined and its body has no
   inhabitant of expansion depth < k (its "rank" is at least k) *)
Definition path_inv (g : env) (vis : list tname) (k : nat) : Prop :=
  forall v, In v vis ->
    exists b, lookup g v = Some b /\ forall j, j < k -> ~ InhN g j b.

Lemma path_inv_nil : forall g k, path_inv g [] k.
Proof. intros g k v []. Qed.

Lemma reject_gen : forall f g vis t k,
  check f g vis t = Some false -> path_inv g vis k -> ~ InhN g k t.
Proof.
  intros f g. induction f as [|f IH]; intros vis t k H Hinv HN.
  - discriminate H.
  - rewrite check_S in H. destruct t as [|props|names].
    + discriminate H.
    + apply all_props_not_true in H; [|discriminate].
      destruct H as [p [Hin Hp]].
      inversion HN as [|k0 props0 Hall| | |]; subst.
      apply (IH vis p k Hp Hinv). apply Hall. exact Hin.
    + apply alts_false in H. destruct H as [_ [Hall Hne]].
      destruct Hne as [Hne|Hne]; [discriminate Hne|].
      inversion HN as [| |k0|k0 names0 n body Hin Hl Hb|k0 names0 n Hin Hl]; subst.
      * apply Hne. reflexivity.
      * (* expanded a defined name n *)
        specialize (Hall n Hin). unfold step in Hall.
        destruct (mem n vis) eqn:Em.
        -- apply mem_In in Em. destruct (Hinv n Em) as [b [Hlb Hrank]].
           rewrite Hl in Hlb. inversion Hlb; subst b.
           apply (Hrank k0); [lia | exact Hb].
        -- rewrite Hl in Hall.
           (* no depth j <= k0 can inhabit body: strong induction on j *)
           assert (Hno : forall j, j <= k0 -> ~ InhN g j body).
           { intros j. induction j as [j IHj] using lt_wf_ind. intros Hj.
             apply (IH (n :: vis) body j Hall).
             intros v [E|Hv].
             - subst v. exists body. split; [exact Hl|].
               intros i Hi. apply IHj; lia.
             - destruct (Hinv v Hv) as [b [Hlb Hrank]]. exists b. split; [exact Hlb|].
               intros i Hi. apply Hrank. lia. }
           apply (Hno k0 (le_n _) Hb).
      * (* an undefined alternative makes the checker accept *)
        specialize (Hall n Hin). unfold step in Hall.
        destruct (mem n vis) eqn:Em.
        -- apply mem_In in Em. destruct (Hinv n Em) as [b [Hlb _]].
           rewrite Hl in Hlb. discriminate Hlb.
        -- rewrite Hl in Hall. discriminate Hall.
Qed.

Theorem reject_sound : forall g root, check_recursion g root = Some false -> ~ Inhabited g root.
Proof.
  intros g root H Hinh. unfold check_recursion in H.
  apply Inhabited_InhN in Hinh. destruct Hinh as [k Hk].
  exact (reject_gen _ g [] root k H (path_inv_nil g k) Hk).
Qed.

(* the same for any fuel *)
Theorem reject_sound_fuel : forall f g root, check f g [] root = Some false -> ~ Inhabited g root.
Proof.
  intros f g root H Hinh.
  apply Inhabited_InhN in Hinh. destruct Hinh as [k Hk].
  exact (reject_gen f g [] root k H (path_inv_nil g k) Hk).
Qed.

Theorem accept_sound_fuel : forall f g vis root, check f g vis root = Some true -> Inhabited g root.
Proof. exact accept_gen. Qed.

Theorem check_iff_inhabited_fuel : forall f g root b,
  check f g [] root = Some b -> (b = true <-> Inhabited g root).
Proof.
  intros f g root b H. split.
  - intros Hb. subst b. apply accept_gen in H. exact H.
  - intros Hinh. destruct b; [reflexivity|].
    exfalso. exact (reject_sound_fuel f g root H Hinh).
Qed.

Theorem check_iff_inhabited : forall g root b,
  check_recursion g root = Some b -> (b = true <-> Inhabited g root).
Proof.
  intros g root b H. unfold check_recursion in H.
  exact (check_iff_inhabited_fuel _ g root b H).
Qed.

(* ------------------------------------------------------------------ *)
(* 6. Termination: the fuel bound is never hit                         *)
(* ------------------------------------------------------------------ *)

(* number of entries of g whose name is not on the path *)
Definition unvisited (g : env) (vis : list tname) : nat :=
  length (filter (fun p => negb (mem (fst p) vis)) g).

Lemma size_pos : forall t, 1 <= size t.
Proof. intros t. destruct t; cbn [size]; lia. Qed.

Lemma size_in_props : forall (ps : list (bool * tnode)) o p,
  In (o, p) ps -> size p <= fold_right (fun q n => size (snd q) + n) 0 ps.
Proof.
  intros ps o p. induction ps as [|q r IH]; intros Hin.
  - destruct Hin.
  - cbn [fold_right]. destruct Hin as [E|Hin].
    + subst q. cbn [snd]. lia.
    + specialize (IH Hin). lia.
Qed.

Lemma lookup_size : forall g n body, lookup g n = Some body -> size body <= env_size g.
Proof.
  intros g n body. unfold env_size. induction g as [|[m t] r IH]; intros H.
  - discriminate H.
  - cbn [lookup] in H. cbn [fold_right snd]. destruct (Nat.eqb m n).
    + inversion H; subst. lia.
    + specialize (IH H). lia.
Qed.

Lemma unvisited_nil : forall g, unvisited g [] = length g.
Proof.
  intros g. unfold unvisited. induction g as [|p r IH].
  - reflexivity.
  - cbn [filter]. change (mem (fst p) []) with false. cbn [negb length]. f_equal. exact IH.
Qed.

Lemma mem_cons : forall x n vis, mem x (n :: vis) = (Nat.eqb x n || mem x vis)%bool.
Proof. reflexivity. Qed.

Lemma unvisited_cons_le : forall g n vis, unvisited g (n :: vis) <= unvisited g vis.
Proof.
  intros g n vis. unfold unvisited. induction g as [|[x t] r IH].
  - apply le_n.
  - cbn [filter fst]. rewrite mem_cons.
    destruct (Nat.eqb x n); destruct (mem x vis); cbn [orb negb length]; lia.
Qed.

Lemma unvisited_cons_lt : forall g n vis body,
  mem n vis = false -> lookup g n = Some body -> unvisited g (n :: vis) < unvisited g vis.
Proof.
  intros g n vis body Hm. unfold unvisited. induction g as [|[x t] r IH]; intros Hl.
  - discriminate Hl.
  - cbn [lookup] in Hl. cbn [filter fst]. rewrite mem_cons.
    destruct (Nat.eqb x n) eqn:Ex.
    + apply Nat.eqb_eq in Ex. subst x. rewrite Hm. cbn [orb negb length].
      pose proof (unvisited_cons_le r n vis) as Hle. unfold unvisited in Hle. lia.
    + specialize (IH Hl). destruct (mem x vis); cbn [orb negb length]; lia.
Qed.

Lemma terminates_gen : forall f g vis t,
  size t + unvisited g vis * S (env_size g) <= f -> check f g vis t <> None.
Proof.
  intros f g. induction f as [|f IH]; intros vis t Hf.
  - pose proof (size_pos t). lia.
  - rewrite check_S. destruct t as [|props|names].
    + discriminate.
    + intros H. apply all_props_not_true in H; [|discriminate].
      destruct H as [p [Hin Hp]]. revert Hp. apply IH.
      pose proof (size_in_props props false p Hin) as Hs.
      cbn [size] in Hf. lia.
    + intros H. apply alts_none in H. destruct H as [n [Hin Hn]].
      unfold step in Hn. destruct (mem n vis) eqn:Em; [discriminate Hn|].
      destruct (lookup g n) as [body|] eqn:El; [|discriminate Hn].
      revert Hn. apply IH.
      pose proof (lookup_size g n body El) as Hs.
      pose proof (unvisited_cons_lt g n vis body Em El) as Hlt.
      cbn [size] in Hf.
      assert (Hmul : S (unvisited g (n :: vis)) * S (env_size g)
                     <= unvisited g vis * S (env_size g)).
      { apply Nat.mul_le_mono_r. exact Hlt. }
      rewrite Nat.mul_succ_l in Hmul. lia.
Qed.

Theorem check_terminates : forall g root, check_recursion g root <> None.
Proof.
  intros g root. unfold check_recursion, fuel_for.
  apply terminates_gen. rewrite unvisited_nil. rewrite Nat.mul_succ_l. lia.
Qed.

(* the checker is a total decision procedure for inhabitation *)
Corollary check_decides : forall g root,
  (check_recursion g root = Some true /\ Inhabited g root) \/
  (check_recursion g root = Some false /\ ~ Inhabited g root).
Proof.
  intros g root. destruct (check_recursion g root) as [[|]|] eqn:E.
  - left. split; [reflexivity | apply accept_sound; exact E].
  - right. split; [reflexivity | apply reject_sound; exact E].
  - exfalso. exact (check_terminates g root E).
Qed.

(* ------------------------------------------------------------------ *)
(* 7. fix 9a9fdc3: every named type expanded as a root of its own       *)
(* ------------------------------------------------------------------ *)

Lemma lookup_in_names : forall g n body, lookup g n = Some body -> In n (map fst g).
Proof.
  induction g as [|[m t] r IH]; intros n body H; cbn [lookup] in H; [discriminate H|].
  cbn [map fst]. destruct (Nat.eqb m n) eqn:E.
  - left. apply Nat.eqb_eq. exact E.
  - right. exact (IH n body H).
Qed.

(* a type expanded with its own name on the path: rejected only if its body has no finite inhabitant *)
Lemma reject_own_root : forall f g n body,
  lookup g n = Some body -> check f g [n] body = Some false -> ~ Inhabited g body.
Proof.
  intros f g n body Hl H Hinh.
  apply Inhabited_InhN in Hinh. destruct Hinh as [k Hk].
  assert (Hno : forall j, ~ InhN g j body).
  { intros j. induction j as [j IHj] using lt_wf_ind.
    apply (reject_gen f g [n] body j H).
    intros v [E|[]]. subst v. exists body. split; [exact Hl|].
    intros i Hi. exact (IHj i Hi). }
  exact (Hno k Hk).
Qed.

Lemma check_names_true : forall g ns, check_names g ns = Some true ->
  forall n body, In n ns -> lookup g n = Some body -> Inhabited g body.
Proof.
  intros g ns. induction ns as [|m r IH]; intros H n body Hin Hl; [destruct Hin|].
  cbn [check_names] in H. destruct Hin as [E|Hin].
  - subst m. rewrite Hl in H.
    destruct (check (fuel_for g body) g [n] body) as [[|]|] eqn:Ec; try discriminate H.
    exact (accept_gen _ g [n] body Ec).
  - destruct (lookup g m) as [bm|] eqn:Em.
    + destruct (check (fuel_for g bm) g [m] bm) as [[|]|] eqn:Ec; try discriminate H.
      exact (IH H n body Hin Hl).
    + exact (IH H n body Hin Hl).
Qed.

Lemma check_names_false : forall g ns, check_names g ns = Some false ->
  exists n body, In n ns /\ lookup g n = Some body /\ ~ Inhabited g body.
Proof.
  intros g ns. induction ns as [|m r IH]; intros H; cbn [check_names] in H; [discriminate H|].
  destruct (lookup g m) as [bm|] eqn:Em.
  - destruct (check (fuel_for g bm) g [m] bm) as [[|]|] eqn:Ec.
    + destruct (IH H) as [n [body [Hin [Hl Hno]]]]. exists n, body. split; [right; exact Hin|split; assumption].
    + exists m, bm. split; [left; reflexivity|split; [exact Em|]].
      exact (reject_own_root _ g m bm Em Ec).
    + discriminate H.
  - destruct (IH H) as [n [body [Hin [Hl Hno]]]]. exists n, body. split; [right; exact Hin|split; assumption].
Qed.

Lemma check_names_terminates : forall g ns, check_names g ns <> None.
Proof.
  intros g ns. induction ns as [|m r IH]; cbn [check_names]; [discriminate|].
  destruct (lookup g m) as [bm|] eqn:Em; [|exact IH].
  destruct (check (fuel_for g bm) g [m] bm) as [[|]|] eqn:Ec; [exact IH|discriminate|].
  exfalso. revert Ec. apply terminates_gen. unfold fuel_for.
  pose proof (unvisited_cons_le g m []) as Hle. rewrite unvisited_nil in Hle.
  assert (Hm : unvisited g [m] * S (env_size g) <= length g * S (env_size g)) by (apply Nat.mul_le_mono_r; exact Hle).
  rewrite Nat.mul_succ_l. lia.
Qed.

(* the whole check of the repaired CheckRecursion: accepted exactly when the root and every defined type
   have a finite inhabitant *)
Theorem check_all_iff_inhabited : forall g root b,
  check_all g root = Some b ->
  (b = true <-> (Inhabited g root /\ forall n body, lookup g n = Some body -> Inhabited g body)).
Proof.
  intros g root b H. unfold check_all in H.
  destruct (check_recursion g root) as [[|]|] eqn:Er.
  - pose proof (accept_sound g root Er) as Hroot. split.
    + intros Hb. subst b. split; [exact Hroot|].
      intros n body Hl. exact (check_names_true g _ H n body (lookup_in_names g n body Hl) Hl).
    + intros [_ Hall]. destruct b; [reflexivity|]. exfalso.
      destruct (check_names_false g _ H) as [n [body [_ [Hl Hno]]]]. exact (Hno (Hall n body Hl)).
  - inversion H; subst b. split; [discriminate|].
    intros [Hroot _]. exfalso. exact (reject_sound g root Er Hroot).
  - discriminate H.
Qed.

Theorem check_all_terminates : forall g root, check_all g root <> None.
Proof.
  intros g root. unfold check_all.
  destruct (check_recursion g root) as [[|]|] eqn:Er; [apply check_names_terminates|discriminate|].
  exfalso. exact (check_terminates g root Er).
Qed.

(* the root walk alone (the checker before the fix) misses a required loop the root does not require *)
Example root_walk_misses_unreferenced_loop :
  check_recursion [(0, TObj [(true, TRef [1])]); (1, TObj [(false, TRef [1])])] (TRef [0]) = Some true /\
  check_all [(0, TObj [(true, TRef [1])]); (1, TObj [(false, TRef [1])])] (TRef [0]) = Some false.
Proof. vm_compute. split; reflexivity. Qed.
