(* ExampleProofs.v — property C15 for user types: what the example builder (Schema/Example.v)
   returns in strict mode is a document the set semantics of the node ([maccepts],
   Schema/MachineSpec.v) accepts; on the plain fragment of Shape.v the builder returns
   [ShapeSelf.example_value]; more fuel never changes a result that is not BErr.
   Object keys have to be pairwise distinct ([mkeys_distinct]): [mfind] returns the first member
   with a key (the library rejects a schema with a repeated key, ErrDuplicateKeysInSchema).
   The hypothesis [mclosed] of the statements is not used by the proofs: an undefined type name
   makes the builder return BErr, never a value. *)
From Coq Require Import List NArith Bool Arith Lia.
From Coq Require Import Strings.Byte.
Import ListNotations.
From JS Require Import Common.Wire Schema.Shape Schema.ShapeProofs Schema.ShapeSelf.
From JS Require Import Schema.Machine Schema.MachineSpec Schema.Example.

(* ------------------------------------------------------------------ *)
(* well-formedness: distinct keys at every object                      *)
(* ------------------------------------------------------------------ *)
Fixpoint mkeys_distinct (n : mnode) : bool :=
  match n with
  | MLit _ _ _ => true
  | MObj ms _ _ _ =>
    (nodup_keys (map (fun m => fst (fst m)) ms) && forallb (fun m => mkeys_distinct (snd m)) ms)%bool
  | MArr items _ _ => forallb mkeys_distinct items
  | MRefs _ _ => true
  end.

Definition mwf (g : menv) (root : mnode) : bool :=
  (mkeys_distinct root && forallb (fun p => mkeys_distinct (snd p)) g)%bool.

Lemma mkeys_distinct_obj : forall ms ap nl an,
  mkeys_distinct (MObj ms ap nl an) =
  (nodup_keys (map (fun m => fst (fst m)) ms) && forallb (fun m => mkeys_distinct (snd m)) ms)%bool.
Proof. intros. reflexivity. Qed.

Lemma mkeys_distinct_arr : forall items nl an,
  mkeys_distinct (MArr items nl an) = forallb mkeys_distinct items.
Proof. intros. reflexivity. Qed.

Lemma mlookup_wf : forall g t body,
  forallb (fun p => mkeys_distinct (snd p)) g = true -> mlookup g t = Some body ->
  mkeys_distinct body = true.
Proof.
  intros g t body. induction g as [|[m b] g IH]; intros Hg Hl.
  - discriminate Hl.
  - cbn [forallb snd] in Hg. apply andb_true_iff in Hg. destruct Hg as [Hb Hg].
    cbn [mlookup] in Hl. destruct (Nat.eqb m t).
    + injection Hl as Hl. subst b. exact Hb.
    + apply IH; assumption.
Qed.

(* ------------------------------------------------------------------ *)
(* the inner loops of [build] and [maccepts], named                    *)
(* ------------------------------------------------------------------ *)
Section BuildLoops.
  Variable bf : mnode -> bres.
  Variable strict : bool.

  Fixpoint bmembers (ms : list (bytes * bool * mnode)) (acc : list (bytes * jval)) : bres :=
    match ms with
    | [] => BVal (JObj (frev acc))
    | (key, req, child) :: r =>
      match bf child with
      | BErr => BErr
      | BNil => if (strict && req)%bool then BNil else bmembers r acc
      | BVal x => bmembers r ((key, x) :: acc)
      end
    end.

  Fixpoint belems (items : list mnode) (acc : list jval) : bres :=
    match items with
    | [] => BVal (JArr (frev acc))
    | child :: r =>
      match bf child with
      | BErr => BErr
      | BNil => if strict then BVal (JArr (frev acc)) else belems r acc
      | BVal x => belems r (x :: acc)
      end
    end.
End BuildLoops.

Section AltsLoop.
  Variable bf : list tname -> mnode -> bres.
  Variable strict : bool.
  Variable g : menv.
  Variable path : list tname.

  Definition bone (t : tname) : bres :=
    if Nat.ltb 1 (occurrences t path) then BNil
    else match mlookup g t with
         | None => BErr
         | Some body => bf (t :: path) body
         end.

  Fixpoint balts (names : list tname) : bres :=
    match names with
    | [] => BNil
    | t :: r =>
      let one := bone t in
      match one with
      | BNil => if strict then balts r else BNil
      | x => x
      end
    end.
End AltsLoop.

Lemma build_O : forall s g path n, build 0 s g path n = BErr.
Proof. intros. reflexivity. Qed.

Lemma build_S : forall f s g path n,
  build (S f) s g path n =
  match n with
  | MLit k _ _ => BVal (kind_value k)
  | MObj ms _ _ _ => bmembers (build f s g path) s ms []
  | MArr items _ _ => belems (build f s g path) s items []
  | MRefs names _ => balts (build f s g) s g path names
  end.
Proof. intros f s g path n. destruct n; reflexivity. Qed.

Section AcceptLoops.
  Variable af : mnode -> jval -> bool.
  Variable g : menv.

  Section Elems.
    Variable items : list mnode.
    Fixpoint acc_elems (xs : list jval) (i : nat) : bool :=
      match xs with
      | [] => true
      | x :: r =>
        (match last_or items i with Some child => af child x | None => false end && acc_elems r (S i))%bool
      end.
  End Elems.

  Definition addp_ok (ap : maddp) (x : jval) : bool :=
    match ap with
    | MAPNone | MAPFalse => false
    | MAPAny => true
    | MAPKind k => (negb (is_container x) && addkind_ok k x)%bool
    | MAPObject => match x with JObj _ => true | _ => false end
    | MAPArray => match x with JArr _ => true | _ => false end
    | MAPType t => match mlookup g t with Some body => af body x | None => false end
    end.

  Section Members.
    Variable ms : list (bytes * bool * mnode).
    Variable ap : maddp.
    Fixpoint acc_members (dms : list (bytes * jval)) : bool :=
      match dms with
      | [] => true
      | (key, x) :: r =>
        (match mfind key ms with
         | Some child => af child x
         | None => addp_ok ap x
         end && acc_members r)%bool
      end.
  End Members.
End AcceptLoops.

Definition req_present (dms : list (bytes * jval)) (m : bytes * bool * mnode) : bool :=
  let '(key, req, _) := m in (negb req || existsb (fun d => bytes_eqb (fst d) key) dms)%bool.

Lemma maccepts_O : forall g n v, maccepts 0 g n v = false.
Proof. intros. reflexivity. Qed.

Lemma maccepts_S : forall f g n v,
  maccepts (S f) g n v =
  match n with
  | MRefs names nl =>
    ((nl && is_null v) ||
     existsb (fun name => match mlookup g name with Some body => maccepts f g body v | None => false end) names)%bool
  | MLit k nl an => if an then true else (negb (is_container v) && lit_kind_ok k nl v)%bool
  | MArr items nl an =>
    if an then true
    else match v with
         | JArr xs => acc_elems (maccepts f g) items xs 0
         | JNull => nl
         | _ => false
         end
  | MObj ms ap nl an =>
    if an then true
    else match v with
         | JObj dms => (forallb (req_present dms) ms && acc_members (maccepts f g) g ms ap dms)%bool
         | JNull => nl
         | _ => false
         end
  end.
Proof. intros f g n v. destruct n; reflexivity. Qed.

Lemma frev_rev : forall A (l : list A), frev l = rev l.
Proof. intros A l. unfold frev. symmetry. apply rev_alt. Qed.

(* ------------------------------------------------------------------ *)
(* more fuel preserves acceptance                                      *)
(* ------------------------------------------------------------------ *)
Lemma acc_elems_mono : forall (af af' : mnode -> jval -> bool) items,
  (forall c x, af c x = true -> af' c x = true) ->
  forall xs i, acc_elems af items xs i = true -> acc_elems af' items xs i = true.
Proof.
  intros af af' items Haf xs. induction xs as [|x r IH]; intros i H.
  - reflexivity.
  - cbn [acc_elems] in H |- *. apply andb_true_iff in H. destruct H as [H1 H2].
    apply andb_true_iff. split.
    + destruct (last_or items i) as [child|]; [apply Haf; exact H1|discriminate H1].
    + apply IH. exact H2.
Qed.

Lemma acc_members_mono : forall (af af' : mnode -> jval -> bool) g ms ap,
  (forall c x, af c x = true -> af' c x = true) ->
  forall dms, acc_members af g ms ap dms = true -> acc_members af' g ms ap dms = true.
Proof.
  intros af af' g ms ap Haf dms. induction dms as [|[key x] r IH]; intros H.
  - reflexivity.
  - cbn [acc_members] in H |- *. apply andb_true_iff in H. destruct H as [H1 H2].
    apply andb_true_iff. split.
    + destruct (mfind key ms) as [child|]; [apply Haf; exact H1|].
      destruct ap as [| | |k| | |t]; cbn [addp_ok] in H1 |- *; try exact H1.
      destruct (mlookup g t) as [body|]; [apply Haf; exact H1|discriminate H1].
    + apply IH. exact H2.
Qed.

Lemma maccepts_mono : forall g F F' n v,
  F <= F' -> maccepts F g n v = true -> maccepts F' g n v = true.
Proof.
  intros g F. induction F as [|f IH]; intros F' n v Hle H.
  - rewrite maccepts_O in H. discriminate H.
  - destruct F' as [|f']; [lia|].
    assert (IH' : forall c x, maccepts f g c x = true -> maccepts f' g c x = true).
    { intros c x Hc. apply IH; [lia|exact Hc]. }
    rewrite maccepts_S in H. rewrite maccepts_S.
    destruct n as [k nl an|ms ap nl an|items nl an|names nl].
    + exact H.
    + destruct an; [reflexivity|]. destruct v as [| | | | |xs|dms]; try exact H.
      apply andb_true_iff in H. destruct H as [H1 H2]. apply andb_true_iff. split; [exact H1|].
      eapply acc_members_mono; [exact IH'|exact H2].
    + destruct an; [reflexivity|]. destruct v as [| | | | |xs|dms]; try exact H.
      eapply acc_elems_mono; [exact IH'|exact H].
    + apply orb_true_iff in H. apply orb_true_iff. destruct H as [H|H]; [left; exact H|right].
      apply existsb_exists in H. destruct H as [t [Hi Ht]]. apply existsb_exists.
      exists t. split; [exact Hi|].
      destruct (mlookup g t) as [body|]; [apply IH'; exact Ht|discriminate Ht].
Qed.

(* ------------------------------------------------------------------ *)
(* objects: what the strict member loop returns                        *)
(* ------------------------------------------------------------------ *)
Inductive built (bf : mnode -> bres) : list (bytes * bool * mnode) -> list (bytes * jval) -> Prop :=
| built_nil : built bf [] []
| built_val : forall key req child r x dms,
    bf child = BVal x -> built bf r dms -> built bf ((key, req, child) :: r) ((key, x) :: dms)
| built_skip : forall key child r dms,
    bf child = BNil -> built bf r dms -> built bf ((key, false, child) :: r) dms.

Lemma bmembers_built : forall bf ms acc ex,
  bmembers bf true ms acc = BVal ex -> exists dms, ex = JObj (rev acc ++ dms) /\ built bf ms dms.
Proof.
  intros bf ms. induction ms as [|[[key req] child] r IH]; intros acc ex H.
  - cbn [bmembers] in H. injection H as H. subst ex. exists [].
    rewrite app_nil_r, frev_rev. split; [reflexivity|constructor].
  - cbn [bmembers] in H. destruct (bf child) as [|x|] eqn:Hc.
    + cbn [andb] in H. destruct req; [discriminate H|].
      destruct (IH _ _ H) as [dms [E B]]. exists dms. split; [exact E|].
      apply built_skip; assumption.
    + destruct (IH _ _ H) as [dms [E B]]. exists ((key, x) :: dms). split.
      * rewrite E. cbn [rev]. rewrite <- app_assoc. reflexivity.
      * apply built_val; assumption.
    + discriminate H.
Qed.

Lemma req_present_cons : forall d dms m, req_present dms m = true -> req_present (d :: dms) m = true.
Proof.
  intros d dms [[key req] c] H. cbn [req_present] in H |- *.
  apply orb_true_iff in H. apply orb_true_iff. destruct H as [H|H]; [left; exact H|right].
  cbn [existsb]. rewrite H. apply orb_true_r.
Qed.

Lemma built_req : forall bf ms dms, built bf ms dms -> forallb (req_present dms) ms = true.
Proof.
  intros bf ms dms B. induction B as [|key req child r x dms Hc B IH|key child r dms Hc B IH].
  - reflexivity.
  - cbn [forallb]. apply andb_true_iff. split.
    + cbn [req_present existsb fst]. rewrite bytes_eqb_refl. cbn [orb]. apply orb_true_r.
    + apply forallb_forall. intros m Hm. apply req_present_cons.
      rewrite forallb_forall in IH. apply IH. exact Hm.
  - cbn [forallb]. apply andb_true_iff. split; [reflexivity|exact IH].
Qed.

Lemma built_in : forall bf ms dms, built bf ms dms ->
  forall key x, In (key, x) dms -> exists req child, In (key, req, child) ms /\ bf child = BVal x.
Proof.
  intros bf ms dms B. induction B as [|key0 req child r x0 dms Hc B IH|key0 child r dms Hc B IH];
    intros key x Hi.
  - destruct Hi.
  - destruct Hi as [Hi|Hi].
    + injection Hi as E1 E2. subst key0 x0. exists req, child. split; [left; reflexivity|exact Hc].
    + destruct (IH _ _ Hi) as [rq [c [Hin Hb]]]. exists rq, c. split; [right; exact Hin|exact Hb].
  - destruct (IH _ _ Hi) as [rq [c [Hin Hb]]]. exists rq, c. split; [right; exact Hin|exact Hb].
Qed.

Lemma in_mkeys : forall (key : bytes) (req : bool) (child : mnode) ms,
  In (key, req, child) ms -> In key (map (fun m : bytes * bool * mnode => fst (fst m)) ms).
Proof.
  intros key req child ms H.
  change key with ((fun m : bytes * bool * mnode => fst (fst m)) (key, req, child)).
  apply in_map. exact H.
Qed.

(* with distinct keys, looking a member's key up finds that member *)
Lemma mfind_nodup : forall ms key req child,
  nodup_keys (map (fun m : bytes * bool * mnode => fst (fst m)) ms) = true ->
  In (key, req, child) ms -> mfind key ms = Some child.
Proof.
  intros ms key req child. induction ms as [|[[k0 r0] c0] ms IH]; intros Hn Hi.
  - destruct Hi.
  - cbn [map fst nodup_keys] in Hn. apply andb_true_iff in Hn. destruct Hn as [Hh Hn].
    apply negb_true_iff in Hh. cbn [mfind]. destruct Hi as [Hi|Hi].
    + injection Hi as E1 E2 E3. subst k0 r0 c0. rewrite bytes_eqb_refl. reflexivity.
    + rewrite (existsb_false_in k0 _ key Hh (in_mkeys key req child ms Hi)).
      apply IH; assumption.
Qed.

Lemma acc_members_in : forall af g ms ap dms,
  (forall key x, In (key, x) dms -> exists child, mfind key ms = Some child /\ af child x = true) ->
  acc_members af g ms ap dms = true.
Proof.
  intros af g ms ap dms. induction dms as [|[key x] r IH]; intros H.
  - reflexivity.
  - cbn [acc_members]. apply andb_true_iff. split.
    + destruct (H key x (or_introl eq_refl)) as [child [Hf Ha]]. rewrite Hf. exact Ha.
    + apply IH. intros k y Hi. apply H. right. exact Hi.
Qed.

(* ------------------------------------------------------------------ *)
(* arrays: the strict element loop returns the examples of a prefix    *)
(* ------------------------------------------------------------------ *)
Lemma belems_prefix : forall bf items acc ex,
  belems bf true items acc = BVal ex ->
  exists xs, ex = JArr (rev acc ++ xs) /\
  exists pre post, items = pre ++ post /\ Forall2 (fun c x => bf c = BVal x) pre xs.
Proof.
  intros bf items. induction items as [|child r IH]; intros acc ex H.
  - cbn [belems] in H. injection H as H. subst ex. exists []. rewrite app_nil_r, frev_rev.
    split; [reflexivity|]. exists [], []. split; [reflexivity|constructor].
  - cbn [belems] in H. destruct (bf child) as [|x|] eqn:Hc.
    + injection H as H. subst ex. exists []. rewrite app_nil_r, frev_rev.
      split; [reflexivity|]. exists [], (child :: r). split; [reflexivity|constructor].
    + destruct (IH _ _ H) as [xs [E [pre [post [Ei HF]]]]]. exists (x :: xs). split.
      * rewrite E. cbn [rev]. rewrite <- app_assoc. reflexivity.
      * exists (child :: pre), post. split; [rewrite Ei; reflexivity|].
        constructor; assumption.
    + discriminate H.
Qed.

Lemma last_or_nth : forall A (l : list A) i c, nth_error l i = Some c -> last_or l i = Some c.
Proof.
  intros A l i c H.
  assert (Hlt : i < length l) by (apply nth_error_Some; rewrite H; discriminate).
  unfold last_or. destruct l as [|a l]; [cbn [length] in Hlt; lia|].
  replace (Nat.min i (length (a :: l) - 1)) with i by lia. exact H.
Qed.

Lemma acc_elems_prefix : forall (af : mnode -> jval -> bool) pre xs,
  Forall2 (fun c x => af c x = true) pre xs ->
  forall done post, acc_elems af (done ++ pre ++ post) xs (length done) = true.
Proof.
  intros af pre xs HF. induction HF as [|c x pre xs Hcx HF IH]; intros done post.
  - reflexivity.
  - cbn [acc_elems]. apply andb_true_iff. split.
    + rewrite (last_or_nth _ _ _ c); [exact Hcx|].
      rewrite nth_error_app2 by lia. rewrite Nat.sub_diag. reflexivity.
    + specialize (IH (done ++ [c]) post). rewrite <- app_assoc in IH. cbn [app] in IH.
      rewrite app_length in IH. cbn [length] in IH.
      replace (length done + 1) with (S (length done)) in IH by lia. exact IH.
Qed.

Lemma Forall2_impl_in : forall A B (P Q : A -> B -> Prop) l l',
  Forall2 P l l' -> (forall a b, In a l -> P a b -> Q a b) -> Forall2 Q l l'.
Proof.
  intros A B P Q l l' HF. induction HF as [|a b l l' Hab HF IH]; intros H.
  - constructor.
  - constructor.
    + apply H; [left; reflexivity|exact Hab].
    + apply IH. intros a' b' Hi Hp. apply H; [right; exact Hi|exact Hp].
Qed.

(* ------------------------------------------------------------------ *)
(* type shortcuts: the alternative that was built                      *)
(* ------------------------------------------------------------------ *)
Lemma balts_some : forall bf g path names ex,
  balts bf true g path names = BVal ex ->
  exists t body, In t names /\ mlookup g t = Some body /\ bf (t :: path) body = BVal ex.
Proof.
  intros bf g path names ex. induction names as [|t r IH]; intros H.
  - discriminate H.
  - cbn [balts] in H. unfold bone in H. destruct (Nat.ltb 1 (occurrences t path)).
    + destruct (IH H) as [t' [body [Hi [Hl Hb]]]]. exists t', body.
      split; [right; exact Hi|]. split; assumption.
    + destruct (mlookup g t) as [body|] eqn:Hl; [|discriminate H].
      destruct (bf (t :: path) body) as [|v|] eqn:Hb.
      * destruct (IH H) as [t' [body' [Hi [Hl' Hb']]]]. exists t', body'.
        split; [right; exact Hi|]. split; assumption.
      * injection H as H. subst v. exists t, body. split; [left; reflexivity|]. split; assumption.
      * discriminate H.
Qed.

(* ------------------------------------------------------------------ *)
(* S1                                                                  *)
(* ------------------------------------------------------------------ *)
(* the builder and the denotation consume fuel in lockstep: the build fuel suffices *)
Lemma build_strict_sound_fuel : forall g,
  forallb (fun p => mkeys_distinct (snd p)) g = true ->
  forall F path n ex, mkeys_distinct n = true ->
  build F true g path n = BVal ex -> maccepts F g n ex = true.
Proof.
  intros g Hg F. induction F as [|f IH]; intros path n ex Hn Hb.
  - rewrite build_O in Hb. discriminate Hb.
  - rewrite build_S in Hb. rewrite maccepts_S.
    destruct n as [k nl an|ms ap nl an|items nl an|names nl].
    + injection Hb as Hb. subst ex. destruct an; [reflexivity|]. destruct k; destruct nl; reflexivity.
    + destruct an; [reflexivity|].
      apply bmembers_built in Hb. destruct Hb as [dms [E B]]. subst ex. cbn [rev app].
      rewrite mkeys_distinct_obj in Hn. apply andb_true_iff in Hn. destruct Hn as [Hnd Hch].
      apply andb_true_iff. split.
      * eapply built_req. exact B.
      * apply acc_members_in. intros key x Hi.
        destruct (built_in _ _ _ B key x Hi) as [req [child [Hin Hbc]]].
        exists child. split.
        -- eapply mfind_nodup; [exact Hnd|exact Hin].
        -- eapply IH; [|exact Hbc]. rewrite forallb_forall in Hch. apply (Hch _ Hin).
    + destruct an; [reflexivity|].
      apply belems_prefix in Hb. destruct Hb as [xs [E [pre [post [Ei HF]]]]]. subst ex items.
      cbn [rev app]. rewrite mkeys_distinct_arr in Hn.
      apply (acc_elems_prefix (maccepts f g) pre xs) with (done := []) (post := post).
      eapply Forall2_impl_in; [exact HF|]. intros c x Hi Hc. cbn beta in Hc.
      eapply IH; [|exact Hc]. rewrite forallb_forall in Hn. apply Hn.
      apply in_or_app. left. exact Hi.
    + apply balts_some in Hb. destruct Hb as [t [body [Hi [Hl Hb]]]].
      apply orb_true_iff. right. apply existsb_exists. exists t. split; [exact Hi|].
      rewrite Hl. eapply IH; [|exact Hb]. eapply mlookup_wf; [exact Hg|exact Hl].
Qed.

(* S1: whatever the strict builder returns is accepted by the set semantics of the node it was
   built for *)
Theorem build_strict_sound : forall F g path n ex, mwf g n = true -> mclosed g n = true ->
  build F true g path n = BVal ex -> exists F0, forall F', F0 <= F' -> maccepts F' g n ex = true.
Proof.
  intros F g path n ex Hwf _ Hb. unfold mwf in Hwf. apply andb_true_iff in Hwf.
  destruct Hwf as [Hn Hg]. exists F. intros F' Hle.
  apply (maccepts_mono g F F' n ex Hle).
  exact (build_strict_sound_fuel g Hg F path n ex Hn Hb).
Qed.

(* S2: the same for Build() when it did not have to fall back *)
Corollary build_example_sound : forall F g root ex, mwf g root = true -> mclosed g root = true ->
  build_example F g root = (BVal ex, false) -> exists F0, forall F', F0 <= F' -> maccepts F' g root ex = true.
Proof.
  intros F g root ex Hwf Hcl Hb. apply (build_strict_sound F g [] root ex Hwf Hcl).
  unfold build_example in Hb. destruct (build F true g [] root) as [|v|].
  - discriminate Hb.
  - injection Hb as Hb. subst v. reflexivity.
  - discriminate Hb.
Qed.

(* ------------------------------------------------------------------ *)
(* S4: more fuel does not change a result that is not BErr             *)
(* ------------------------------------------------------------------ *)
Lemma bmembers_ext : forall (bf bf' : mnode -> bres) s,
  (forall c, bf c <> BErr -> bf' c = bf c) ->
  forall ms acc, bmembers bf s ms acc <> BErr -> bmembers bf' s ms acc = bmembers bf s ms acc.
Proof.
  intros bf bf' s Hbf ms. induction ms as [|[[key req] child] r IH]; intros acc H.
  - reflexivity.
  - cbn [bmembers] in H |- *. destruct (bf child) as [|x|] eqn:Hc.
    + rewrite (Hbf child) by (rewrite Hc; discriminate). rewrite Hc.
      destruct (s && req)%bool; [reflexivity|]. apply IH. exact H.
    + rewrite (Hbf child) by (rewrite Hc; discriminate). rewrite Hc. apply IH. exact H.
    + exfalso. apply H. reflexivity.
Qed.

Lemma belems_ext : forall (bf bf' : mnode -> bres) s,
  (forall c, bf c <> BErr -> bf' c = bf c) ->
  forall items acc, belems bf s items acc <> BErr -> belems bf' s items acc = belems bf s items acc.
Proof.
  intros bf bf' s Hbf items. induction items as [|child r IH]; intros acc H.
  - reflexivity.
  - cbn [belems] in H |- *. destruct (bf child) as [|x|] eqn:Hc.
    + rewrite (Hbf child) by (rewrite Hc; discriminate). rewrite Hc.
      destruct s; [reflexivity|]. apply IH. exact H.
    + rewrite (Hbf child) by (rewrite Hc; discriminate). rewrite Hc. apply IH. exact H.
    + exfalso. apply H. reflexivity.
Qed.

Lemma balts_ext : forall (bf bf' : list tname -> mnode -> bres) s g path,
  (forall p c, bf p c <> BErr -> bf' p c = bf p c) ->
  forall names, balts bf s g path names <> BErr -> balts bf' s g path names = balts bf s g path names.
Proof.
  intros bf bf' s g path Hbf names. induction names as [|t r IH]; intros H.
  - reflexivity.
  - cbn [balts] in H |- *.
    assert (E : bone bf g path t <> BErr -> bone bf' g path t = bone bf g path t).
    { unfold bone. destruct (Nat.ltb 1 (occurrences t path)); [reflexivity|].
      destruct (mlookup g t) as [body|]; [apply Hbf|reflexivity]. }
    destruct (bone bf g path t) as [|v|] eqn:Hc.
    + rewrite E by discriminate. destruct s; [|reflexivity]. apply IH. exact H.
    + rewrite E by discriminate. reflexivity.
    + exfalso. apply H. reflexivity.
Qed.

Lemma build_fuel_mono_eq : forall s g F F' path n,
  F <= F' -> build F s g path n <> BErr -> build F' s g path n = build F s g path n.
Proof.
  intros s g F. induction F as [|f IH]; intros F' path n Hle H.
  - rewrite build_O in H. exfalso. apply H. reflexivity.
  - destruct F' as [|f']; [lia|].
    assert (IH' : forall p c, build f s g p c <> BErr -> build f' s g p c = build f s g p c).
    { intros p c Hc. apply IH; [lia|exact Hc]. }
    rewrite build_S in H. rewrite !build_S.
    destruct n as [k nl an|ms ap nl an|items nl an|names nl].
    + reflexivity.
    + apply bmembers_ext; [intros c; apply IH'|exact H].
    + apply belems_ext; [intros c; apply IH'|exact H].
    + apply balts_ext; [exact IH'|exact H].
Qed.

Theorem build_fuel_mono : forall F F' s g path n r,
  F <= F' -> build F s g path n = r -> r <> BErr -> build F' s g path n = r.
Proof.
  intros F F' s g path n r Hle Hb Hr. subst r. apply build_fuel_mono_eq; assumption.
Qed.

(* ------------------------------------------------------------------ *)
(* S3: the plain fragment                                              *)
(* ------------------------------------------------------------------ *)
Lemma Forall_ex_fuel : forall A (P : nat -> A -> Prop) l,
  Forall (fun a => exists F0, forall F, F0 <= F -> P F a) l ->
  exists F0, forall F, F0 <= F -> Forall (P F) l.
Proof.
  intros A P l H. induction H as [|a l [Fa Ha] _ [Fl Hl]].
  - exists 0. intros F _. constructor.
  - exists (Nat.max Fa Fl). intros F HF. constructor; [apply Ha; lia|apply Hl; lia].
Qed.

Definition mmember (m : bytes * bool * snode) : bytes * bool * mnode :=
  (fst (fst m), snd (fst m), of_snode (snd m)).

Lemma of_snode_obj : forall optd ms nl an,
  of_snode (compile optd (WObj ms nl an)) = MObj (map mmember (map (cmember optd) ms)) MAPNone nl an.
Proof. intros. reflexivity. Qed.

Lemma of_snode_arr : forall optd items nl an,
  of_snode (compile optd (WArr items nl an)) = MArr (map of_snode (map (compile optd) items)) nl an.
Proof. intros. reflexivity. Qed.

Lemma bmembers_plain : forall bf optd ms,
  Forall (fun m => bf (of_snode (compile optd (snd m))) = BVal (example_value (snd m))) ms ->
  forall acc, bmembers bf true (map mmember (map (cmember optd) ms)) acc =
              BVal (JObj (rev acc ++ map emember ms)).
Proof.
  intros bf optd ms HF. induction HF as [|[[k mark] x] ms Hx HF IH]; intros acc.
  - cbn [map bmembers]. rewrite app_nil_r, frev_rev. reflexivity.
  - cbn [snd] in Hx. cbn [map cmember mmember fst snd bmembers]. rewrite Hx. rewrite IH.
    cbn [rev emember]. rewrite <- app_assoc. reflexivity.
Qed.

Lemma belems_plain : forall bf optd items,
  Forall (fun w => bf (of_snode (compile optd w)) = BVal (example_value w)) items ->
  forall acc, belems bf true (map of_snode (map (compile optd) items)) acc =
              BVal (JArr (rev acc ++ map example_value items)).
Proof.
  intros bf optd items HF. induction HF as [|w items Hw HF IH]; intros acc.
  - cbn [map belems]. rewrite app_nil_r, frev_rev. reflexivity.
  - cbn [map belems]. rewrite Hw. rewrite IH. cbn [rev]. rewrite <- app_assoc. reflexivity.
Qed.

(* S3: without type references the strict builder always succeeds and returns the example
   itself: for the plain fragment of Shape.v it is [example_value] *)
Theorem build_plain : forall optd w, exists F0, forall F, F0 <= F ->
  build F true [] [] (of_snode (compile optd w)) = BVal (ShapeSelf.example_value w).
Proof.
  intros optd w. induction w as [k nl an|ms nl an HF|items nl an HF] using wnode_ind2.
  - exists 1. intros F HF. destruct F as [|f]; [lia|]. destruct k; reflexivity.
  - destruct (Forall_ex_fuel _
      (fun F m => build F true [] [] (of_snode (compile optd (snd m))) = BVal (example_value (snd m)))
      ms HF) as [F0 H0].
    exists (S F0). intros F HFle. destruct F as [|f]; [lia|].
    rewrite of_snode_obj, build_S, example_obj.
    rewrite (bmembers_plain _ optd ms) by (apply H0; lia). reflexivity.
  - destruct (Forall_ex_fuel _
      (fun F w => build F true [] [] (of_snode (compile optd w)) = BVal (example_value w))
      items HF) as [F0 H0].
    exists (S F0). intros F HFle. destruct F as [|f]; [lia|].
    rewrite of_snode_arr, build_S, example_arr.
    rewrite (belems_plain _ optd items) by (apply H0; lia). reflexivity.
Qed.

(* ------------------------------------------------------------------ *)
(* non-vacuity                                                         *)
(* ------------------------------------------------------------------ *)
Definition key_v : bytes := [x76].
Definition key_next : bytes := [x6e; x65; x78; x74].
Definition key_x : bytes := [x78].

(* @0 = {"v": 1, "next": @0 (optional)} *)
Definition g_list : menv :=
  [(0, MObj [(key_v, true, MLit KInt false false); (key_next, false, MRefs [0] false)] MAPNone false false)].
(* @0 = {"x": @0} (required: cannot be built), @1 = "str" *)
Definition g_loop : menv :=
  [(0, MObj [(key_x, true, MRefs [0] false)] MAPNone false false); (1, MLit KStr false false)].

Example example_examples :
  (* the recursive list is unfolded twice *)
  build_example 16 g_list (MRefs [0] false) =
    (BVal (JObj [(key_v, JInt); (key_next, JObj [(key_v, JInt)])]), false) /\
  mwf g_list (MRefs [0] false) = true /\ mclosed g_list (MRefs [0] false) = true /\
  maccepts 16 g_list (MRefs [0] false) (JObj [(key_v, JInt); (key_next, JObj [(key_v, JInt)])]) = true /\
  (* a union whose first alternative loops takes the second *)
  build_example 16 g_loop (MRefs [0; 1] false) = (BVal JStr, false) /\
  mwf g_loop (MRefs [0; 1] false) = true /\ mclosed g_loop (MRefs [0; 1] false) = true /\
  maccepts 16 g_loop (MRefs [0; 1] false) JStr = true /\
  (* an array whose first item loops is cut to [] *)
  build_example 16 g_loop (MArr [MRefs [0] false; MLit KInt false false] false false) = (BVal (JArr []), false) /\
  maccepts 16 g_loop (MArr [MRefs [0] false; MLit KInt false false] false false) (JArr []) = true /\
  (* the looping type alone: the strict builder yields nothing, Build() falls back *)
  build 16 true g_loop [] (MRefs [0] false) = BNil /\
  snd (build_example 16 g_loop (MRefs [0] false)) = true /\
  (* too little fuel is BErr, never a wrong value *)
  build 2 true g_list [] (MRefs [0] false) = BErr /\
  (* an undefined type name is BErr *)
  build 16 true g_list [] (MRefs [7] false) = BErr.
Proof. vm_compute. repeat split; reflexivity. Qed.

(* the hypothesis on keys is needed: with a repeated key the builder's document is refused *)
Definition dup_node : mnode :=
  MObj [(key_v, true, MLit KStr false false); (key_v, true, MLit KInt false false)] MAPNone false false.
Example dup_keys_refuted :
  build 8 true [] [] dup_node = BVal (JObj [(key_v, JStr); (key_v, JInt)]) /\
  mkeys_distinct dup_node = false /\
  maccepts 8 [] dup_node (JObj [(key_v, JStr); (key_v, JInt)]) = false.
Proof. vm_compute. repeat split; reflexivity. Qed.

Print Assumptions build_strict_sound.
Print Assumptions build_example_sound.
Print Assumptions build_plain.
Print Assumptions build_fuel_mono.
Print Assumptions example_examples.
