(* AstProofs.v — property C16 on the rule-free fragment: proofs that [ast_of] mirrors the
   written schema: one AST node per example value in source order (with key and token
   kind), the node count, the root's key and written rules, and the children of an object
   in declaration order. *)
From Coq Require Import List Bool Arith.
From Coq Require Import Strings.Byte.
Import ListNotations.
From JS Require Import Common.Wire Schema.Shape Schema.Ast.

(* ------------------------------------------------------------------ *)
(* induction principle for the nested inductive [wnode]                *)
(* ------------------------------------------------------------------ *)
Section WnodeIndAst.
  Variable P : wnode -> Prop.
  Hypothesis HLit : forall k nl an, P (WLit k nl an).
  Hypothesis HObj : forall ms nl an, Forall (fun m => P (snd m)) ms -> P (WObj ms nl an).
  Hypothesis HArr : forall items nl an, Forall P items -> P (WArr items nl an).

  Fixpoint wnode_ind_ast (w : wnode) : P w :=
    match w with
    | WLit k nl an => HLit k nl an
    | WObj ms nl an =>
      HObj ms nl an
           ((fix go (l : list (bytes * option bool * wnode)) : Forall (fun m => P (snd m)) l :=
               match l with
               | [] => Forall_nil _
               | m :: r =>
                 Forall_cons m
                   (match m as m0 return P (snd m0) with (_, x) => wnode_ind_ast x end)
                   (go r)
               end) ms)
    | WArr items nl an =>
      HArr items nl an
           ((fix go (l : list wnode) : Forall P l :=
               match l with
               | [] => Forall_nil _
               | x :: r => Forall_cons x (wnode_ind_ast x) (go r)
               end) items)
    end.
End WnodeIndAst.

(* ------------------------------------------------------------------ *)
(* preorder                                                            *)
(* ------------------------------------------------------------------ *)
Lemma ast_preorder_gen : forall w key mark,
  preorder (ast_of key mark w) = values_in_order key w.
Proof.
  induction w as [k nl an|ms nl an HF|items nl an HF] using wnode_ind_ast; intros key mark.
  - reflexivity.
  - cbn [ast_of preorder values_in_order]. f_equal.
    induction HF as [|[[k mk] x] r Hx HF IH]; [reflexivity|].
    cbn [map flat_map]. cbn [snd] in Hx. rewrite IH, Hx. reflexivity.
  - cbn [ast_of preorder values_in_order]. f_equal.
    induction HF as [|x r Hx HF IH]; [reflexivity|].
    cbn [map flat_map]. rewrite IH, Hx. reflexivity.
Qed.

Theorem ast_preorder : forall key mark w,
  preorder (ast_of key mark w) = values_in_order key w.
Proof. intros key mark w. apply ast_preorder_gen. Qed.

(* ------------------------------------------------------------------ *)
(* size                                                                *)
(* ------------------------------------------------------------------ *)
Lemma ast_size_gen : forall w key mark,
  ast_size (ast_of key mark w) = count_nodes w.
Proof.
  induction w as [k nl an|ms nl an HF|items nl an HF] using wnode_ind_ast; intros key mark.
  - reflexivity.
  - cbn [ast_of ast_size count_nodes]. f_equal.
    induction HF as [|[[k mk] x] r Hx HF IH]; [reflexivity|].
    cbn [map fold_right]. cbn [snd] in *. rewrite IH, Hx. reflexivity.
  - cbn [ast_of ast_size count_nodes]. f_equal.
    induction HF as [|x r Hx HF IH]; [reflexivity|].
    cbn [map fold_right]. rewrite IH, Hx. reflexivity.
Qed.

Theorem ast_size_is_node_count : forall key mark w,
  ast_size (ast_of key mark w) = count_nodes w.
Proof. intros key mark w. apply ast_size_gen. Qed.

(* ------------------------------------------------------------------ *)
(* root                                                                *)
(* ------------------------------------------------------------------ *)
Theorem ast_root : forall key mark w,
  match ast_of key mark w with
  | ANode k _ _ rs _ =>
    k = key /\
    rs = rules_of mark (match w with WLit _ nl _ | WObj _ nl _ | WArr _ nl _ => nl end)
                       (match w with WLit _ _ an | WObj _ _ an | WArr _ _ an => an end)
  end.
Proof. intros key mark [k nl an|ms nl an|items nl an]; cbn [ast_of]; split; reflexivity. Qed.

(* ------------------------------------------------------------------ *)
(* children of an object: declaration order                            *)
(* ------------------------------------------------------------------ *)
Lemma ast_key : forall key mark w,
  match ast_of key mark w with ANode k _ _ _ _ => k end = key.
Proof. intros key mark [k nl an|ms nl an|items nl an]; reflexivity. Qed.

Theorem ast_children_keys : forall key mark ms nl an,
  match ast_of key mark (WObj ms nl an) with
  | ANode _ _ _ _ ch =>
    map (fun a => match a with ANode k _ _ _ _ => k end) ch = map (fun m => Some (fst (fst m))) ms
  end.
Proof.
  intros key mark ms nl an. cbn [ast_of]. rewrite map_map.
  apply map_ext. intros [[k mk] x]. cbn [fst]. apply ast_key.
Qed.
