(* Union.v — property C03: the set semantics of type references, unions (or), allOf and
   additionalProperties, as a specification over a type environment, and the one-leaf /
   many-leaves machines of the validator for a value position that names types.
   [accepts] is the denotation (with fuel: recursive type graphs are allowed, a document is
   finite, so fuel proportional to the document's depth times the number of types suffices).
   No proofs in this file. *)
From Coq Require Import List Bool Arith.
From Coq Require Import Strings.Byte.
Import ListNotations.
From JS Require Import Common.Wire Schema.Shape.

Definition tname := nat.

Inductive addp :=
| APNone            (* rule absent: keys the example does not name are forbidden *)
| APFalse
| APAny             (* additionalProperties: true *)
| APKind (k : skind)
| APType (n : tname).

Inductive tnode :=
| TLit (k : skind) (nullable : bool)
| TObj (ms : list (bytes * bool * tnode)) (ap : addp) (parents : list tname)   (* (key, required, node); allOf parents *)
| TArr (items : list tnode)
| TRefs (names : list tname) (nullable : bool).                                (* @a | @b | ...  /  {type: "@a"} / {or: [...]} *)

Definition env := list (tname * tnode).
Fixpoint lookup (g : env) (n : tname) : option tnode :=
  match g with
  | [] => None
  | (m, t) :: r => if Nat.eqb m n then Some t else lookup r n
  end.

(* own + transitively inherited property requirements (allOf), with fuel for the parent chain *)
Fixpoint members_of (fuel : nat) (g : env) (t : tnode) : list (bytes * bool * tnode) :=
  match fuel with
  | O => []
  | S f =>
    match t with
    | TObj ms _ parents =>
      ms ++ flat_map (fun p => match lookup g p with Some pt => members_of f g pt | None => [] end) parents
    | _ => []
    end
  end.

Fixpoint find_tmember (key : bytes) (ms : list (bytes * bool * tnode)) : option tnode :=
  match ms with
  | [] => None
  | (k, _, x) :: r => if bytes_eqb k key then Some x else find_tmember key r
  end.

Definition kind_value_ok (k : skind) (v : jval) : bool := lit_kind_ok k false v.

(* the denotation: does the node accept the document? *)
Fixpoint accepts (fuel : nat) (g : env) (t : tnode) (v : jval) {struct fuel} : bool :=
  match fuel with
  | O => false
  | S f =>
    match t with
    | TLit k nl => (negb (is_container v) && lit_kind_ok k nl v)%bool
    | TRefs names nl =>
      ((nl && match v with JNull => true | _ => false end) ||
       existsb (fun n => match lookup g n with Some body => accepts f g body v | None => false end) names)%bool
    | TArr items =>
      match v with
      | JArr xs =>
        (fix all (xs : list jval) (i : nat) : bool :=
           match xs with
           | [] => true
           | x :: r => (match last_or items i with Some child => accepts f g child x | None => false end && all r (S i))%bool
           end) xs 0
      | _ => false
      end
    | TObj _ ap _ =>
      match v with
      | JObj dms =>
        let ms := members_of (S (length g)) g t in
        (forallb (fun m => let '(key, req, _) := m in (negb req || existsb (fun d => bytes_eqb (fst d) key) dms)%bool) ms &&
         (fix all (dms : list (bytes * jval)) : bool :=
            match dms with
            | [] => true
            | (key, x) :: r =>
              (match find_tmember key ms with
               | Some child => accepts f g child x
               | None =>
                 match ap with
                 | APNone | APFalse => false
                 | APAny => true
                 | APKind k => (negb (is_container x) && kind_value_ok k x)%bool
                 | APType n => match lookup g n with Some body => accepts f g body x | None => false end
                 end
               end && all r)%bool
            end) dms)%bool
      | _ => false
      end
    end
  end.

(* ---------- the validator at a position that names types ----------
   NodeValidatorList expands the names transitively into a list of leaf validators, adding
   each type name at most once per position (addedTypeNames); nullable adds a literal
   validator for the position itself.  FeedLeaves fails the position only when every leaf
   failed.  [expand] computes the list of non-reference nodes that become leaves. *)
Fixpoint expand (fuel : nat) (g : env) (added : list tname) (names : list tname) : list tnode * list tname :=
  match fuel with
  | O => ([], added)
  | S f =>
    fold_left
      (fun acc n =>
         let '(leaves, added) := acc in
         if existsb (Nat.eqb n) added then (leaves, added)
         else match lookup g n with
              | None => (leaves, n :: added)
              | Some (TRefs ns _) => let '(l2, a2) := expand f g (n :: added) ns in (leaves ++ l2, a2)
              | Some body => (leaves ++ [body], n :: added)
              end)
      names ([], added)
  end.

(* many-leaves machine: the position accepts iff some expanded leaf accepts
   (nullable of the position itself admits null; nullable written on an inner alias type is
   honoured by the inner TRefs when it is expanded: modelled by [null_via_alias]) *)
Fixpoint null_via_alias (fuel : nat) (g : env) (names : list tname) : bool :=
  match fuel with
  | O => false
  | S f => existsb (fun n => match lookup g n with
                             | Some (TRefs ns nl) => (nl || null_via_alias f g ns)%bool
                             | _ => false
                             end) names
  end.
Definition validate_refs (fuel : nat) (g : env) (names : list tname) (nl : bool) (v : jval) : bool :=
  ((match v with JNull => (nl || null_via_alias (S (length g)) g names)%bool | _ => false end) ||
   existsb (fun leaf => accepts fuel g leaf v) (fst (expand (S (length g)) g [] names)))%bool.
