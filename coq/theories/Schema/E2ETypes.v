(* E2ETypes.v - property C03 from the TEXTS, inside Coq, for the rule-free fragment with user types:

     root text, type texts --SchemaScanner.scan + Loader.load--> loaded nodes --mnode_of_node--> the type graph of
     Machine.v (references, unions, optional / nullable / any, additionalProperties in every form)
     document text --Json.Scanner.scan + E2E.mevents_of--> events --Machine.run--> verdict

   [mnode_of_node] is the model of what CompileBasic makes of a loaded node in that fragment.  Outside the fragment
   (None): key shortcuts, allOf, `or` rules, enum, scalar rules.  The executable composition [e2e_types_model_line]
   is run against Schema.Validate on the texts of the rule-free skeletons of every generated C03 graph
   (lib/check_c03.py), next to the wire-fed machine model and the set semantics.  No proofs in this file. *)
From Coq Require Import String.
From Coq Require Import List NArith Bool Arith.
From Coq Require Import Strings.Byte.
Import ListNotations.
From JS Require Import Common.Wire Schema.Shape Schema.Machine Schema.E2E.
From JS Require SchemaScan.Loader Json.Scanner Schema.RecursionE2E.

Record tflags := mktflags { tf_opt : option bool; tf_nullable : bool; tf_any : bool; tf_type : option bytes; tf_ap : option bytes }.
Definition tflags0 : tflags := mktflags None false false None None.

Definition is_type_name (t : bytes) : bool := match t with c :: _ => byte_eqb c x40 | [] => false end.

Fixpoint tflags_of (rs : list (bytes * Loader.rval)) (f : tflags) : option tflags :=
  match rs with
  | [] => Some f
  | (name, v) :: r =>
    if Loader.is "optional" name then
      match lit_bool v with Some b => tflags_of r (mktflags (Some b) (tf_nullable f) (tf_any f) (tf_type f) (tf_ap f)) | None => None end
    else if Loader.is "nullable" name then
      match lit_bool v with Some b => tflags_of r (mktflags (tf_opt f) b (tf_any f) (tf_type f) (tf_ap f)) | None => None end
    else if Loader.is "type" name then
      match v with
      | Loader.RLit t =>
        let u := Loader.unquote t in
        if Loader.is "any" u then tflags_of r (mktflags (tf_opt f) (tf_nullable f) true (tf_type f) (tf_ap f))
        else if is_type_name u then tflags_of r (mktflags (tf_opt f) (tf_nullable f) (tf_any f) (Some u) (tf_ap f))
        else None
      | _ => None
      end
    else if Loader.is "additionalProperties" name then
      match v with
      | Loader.RLit t => tflags_of r (mktflags (tf_opt f) (tf_nullable f) (tf_any f) (tf_type f) (Some (Loader.unquote t)))
      | _ => None
      end
    else None
  end.

Definition addp_of (names : list bytes) (a : option bytes) : option maddp :=
  match a with
  | None => Some MAPNone
  | Some t =>
    if Loader.is "true" t then Some MAPAny else if Loader.is "any" t then Some MAPAny
    else if Loader.is "false" t then Some MAPFalse
    else if Loader.is "string" t then Some (MAPKind KStr) else if Loader.is "integer" t then Some (MAPKind KInt)
    else if Loader.is "float" t then Some (MAPKind KFloat) else if Loader.is "boolean" t then Some (MAPKind KBool)
    else if Loader.is "null" t then Some (MAPKind KNull)
    else if Loader.is "object" t then Some MAPObject else if Loader.is "array" t then Some MAPArray
    else if is_type_name t then Some (MAPType (RecursionE2E.index_of names t 0))
    else None
  end.

(* (required?, node) *)
Fixpoint mnode_of_node (optd : bool) (names : list bytes) (n : Loader.node) : option (bool * mnode) :=
  let req_of (f : tflags) : bool := negb (match tf_opt f with Some b => b | None => optd end) in
  match n with
  | Loader.NLit tok a =>
    match tflags_of (Loader.a_rules a) tflags0 with
    | None => None
    | Some f =>
      match tf_ap f, tf_type f with
      | Some _, _ => None
      | None, Some t => if tf_any f then None else Some (req_of f, MRefs [RecursionE2E.index_of names t 0] (tf_nullable f))
      | None, None =>
        match kind_of_token tok with
        | Some k => Some (req_of f, MLit k (tf_nullable f) (tf_any f))
        | None => None
        end
      end
    end
  | Loader.NRef _ ns a =>
    match tflags_of (Loader.a_rules a) tflags0 with
    | Some f =>
      match tf_ap f, tf_type f, tf_any f with
      | None, None, false => Some (req_of f, MRefs (map (fun x => RecursionE2E.index_of names x 0) ns) (tf_nullable f))
      | _, _, _ => None
      end
    | None => None
    end
  | Loader.NObj ms a =>
    match tflags_of (Loader.a_rules a) tflags0 with
    | None => None
    | Some f =>
      let fix members (ms : list (bytes * bool * Loader.node)) : option (list (bytes * bool * mnode)) :=
          match ms with
          | [] => Some []
          | (key, short, x) :: r =>
            if short then None
            else match mnode_of_node optd names x, members r with
                 | Some (rq, m), Some t => Some ((key, rq, m) :: t)
                 | _, _ => None
                 end
          end in
      match tf_type f, members ms, addp_of names (tf_ap f) with
      | None, Some l, Some ap => Some (req_of f, MObj l ap (tf_nullable f) (tf_any f))
      | _, _, _ => None
      end
    end
  | Loader.NArr items a =>
    match tflags_of (Loader.a_rules a) tflags0 with
    | None => None
    | Some f =>
      let fix elems (xs : list Loader.node) : option (list mnode) :=
          match xs with
          | [] => Some []
          | x :: r =>
            match mnode_of_node optd names x, elems r with
            | Some (_, m), Some t => Some (m :: t)
            | _, _ => None
            end
          end in
      match tf_type f, tf_ap f, elems items with
      | None, None, Some l => Some (req_of f, MArr l (tf_nullable f) (tf_any f))
      | _, _, _ => None
      end
    end
  end.

Definition load_mnode (optd : bool) (names : list bytes) (text : bytes) : e2e_result + mnode :=
  match Loader.load text with
  | Loader.LError c p => inl (ELoad c p)
  | Loader.LTree (Some n) => match mnode_of_node optd names n with Some (_, m) => inr m | None => inl EOutside end
  | _ => inl EOutside
  end.

Fixpoint load_menv (optd : bool) (names : list bytes) (i : nat) (texts : list bytes) : e2e_result + menv :=
  match texts with
  | [] => inr []
  | t :: r =>
    match load_mnode optd names t with
    | inl e => inl e
    | inr body => match load_menv optd names (S i) r with inl e => inl e | inr g => inr ((i, body) :: g) end
    end
  end.

(* Schema.Validate on the texts of a root schema, its added types and a document *)
Definition validate_typed_texts (optd : bool) (root : bytes) (types : list (bytes * bytes)) (doc : bytes) : texts_result :=
  let names := map fst types in
  match load_mnode optd names root with
  | inl r => TSchema r
  | inr rt =>
    match load_menv optd names 0 (map snd types) with
    | inl r => TSchema r
    | inr g =>
      match doc_events doc with
      | DErr c p => TDoc c p
      | DStuck => TStuck
      | DEvents [] => TDoc 203 0
      | DEvents es =>
        match Machine.tree0 g rt with
        | None => TStuck
        | Some t =>
          match Machine.run g t es with
          | Machine.OAccept => TVerdict None
          | Machine.OReject c => TVerdict (Some c)
          | _ => TStuck
          end
        end
      end
    end
  end.

(* wire:  <optdefault 0/1> ; <hex root text> ; <hex document text | -> ; <hex name> <hex text> ; ...
   output: ok | E<code> | D<code>@<pos> | L<code>@<pos> | OUT | STUCK | BAD *)
Definition e2e_types_model_line (line : bytes) : bytes :=
  let bad := [x42; x41; x44] in
  match split_on semi line with
  | o :: h :: d :: entries =>
    match RecursionE2E.words o, RecursionE2E.words h, RecursionE2E.words d,
          all_some (map RecursionE2E.parse_type_entry (filter (fun e => negb (Nat.eqb (length (RecursionE2E.words e)) 0)) entries)) with
    | [ob], [hx], [dx], Some types =>
      match RecursionE2E.tok_bool01 ob, unhex hx, unhex (match dx with [x2d] => [] | _ => dx end) with
      | Some optd, Some root, Some doc =>
        match validate_typed_texts optd root types doc with
        | TSchema (ELoad c p) => [x4c] ++ print_N c ++ [x40] ++ print_N p
        | TSchema _ => [x4f; x55; x54]
        | TDoc c p => [x44] ++ print_nat c ++ [x40] ++ print_N p
        | TStuck => [x53; x54; x55; x43; x4b]
        | TVerdict None => [x6f; x6b]
        | TVerdict (Some e) => x45 :: print_nat e
        end
      | _, _, _ => bad
      end
    | _, _, _, _ => bad
    end
  | _ => bad
  end.
