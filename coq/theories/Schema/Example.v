(* Example.v — the example builder (/repo/notations/jschema/example.go after fix 6ca17f0) on the
   node type of Machine.v.  A literal contributes its example (here: a value of its kind); a type
   shortcut @a | @b expands the first alternative that can be built within the recursion limit
   (a type is not entered when it already occurs twice on the current path); an object that cannot
   build a required property is itself not built; an array ends at the first element that cannot
   be built; only optional properties are left out.  When nothing can be built that way, the
   builder falls back to its former best-effort mode (skip whatever is nil, first alternative only).
   Nodes that carry a types list next to a literal example ({type: "@T"}, {or: [...]}) return
   their own literal and are not part of this model; MRefs here is the bare shortcut.
   No proofs in this file. *)
From Coq Require Import List NArith Bool Arith.
From Coq Require Import Strings.Byte.
Import ListNotations.
From JS Require Import Common.Wire Schema.Shape Schema.Machine.

Inductive bres := BNil | BVal (v : jval) | BErr.

Definition kind_value (k : skind) : jval :=
  match k with KStr => JStr | KInt => JInt | KFloat => JFloat | KBool => JBool | KNull => JNull end.

Definition occurrences (t : tname) (path : list tname) : nat := length (filter (Nat.eqb t) path).

Fixpoint build (fuel : nat) (strict : bool) (g : menv) (path : list tname) (n : mnode) {struct fuel} : bres :=
  match fuel with
  | O => BErr
  | S f =>
    match n with
    | MLit k _ _ => BVal (kind_value k)
    | MObj ms _ _ _ =>
      (fix members (ms : list (bytes * bool * mnode)) (acc : list (bytes * jval)) : bres :=
         match ms with
         | [] => BVal (JObj (frev acc))
         | (key, req, child) :: r =>
           match build f strict g path child with
           | BErr => BErr
           | BNil => if (strict && req)%bool then BNil else members r acc
           | BVal x => members r ((key, x) :: acc)
           end
         end) ms []
    | MArr items _ _ =>
      (fix elems (items : list mnode) (acc : list jval) : bres :=
         match items with
         | [] => BVal (JArr (frev acc))
         | child :: r =>
           match build f strict g path child with
           | BErr => BErr
           | BNil => if strict then BVal (JArr (frev acc)) else elems r acc
           | BVal x => elems r (x :: acc)
           end
         end) items []
    | MRefs names _ =>
      (fix alts (names : list tname) : bres :=
         match names with
         | [] => BNil                           (* len(tt) == 0 is ErrLoader in Go; the loader never produces it *)
         | t :: r =>
           let one :=
             if Nat.ltb 1 (occurrences t path) then BNil
             else match mlookup g t with
                  | None => BErr
                  | Some body => build f strict g (t :: path) body
                  end in
           match one with
           | BNil => if strict then alts r else BNil
           | x => x
           end
         end) names
    end
  end.

(* exampleBuilder.Build: strict first, best effort when that yields nothing *)
Definition example_fuel (g : menv) (n : mnode) : nat :=
  S ((S (S (S (length g)))) * (S (fold_right (fun p s => s + 1) 0 g)) * 4 + 64).
Definition build_example (fuel : nat) (g : menv) (root : mnode) : bres * bool :=
  match build fuel true g [] root with
  | BNil => (build fuel false g [] root, true)
  | r => (r, false)
  end.

(* ---------- wire: "<root node> ; <name> <node> ; ..." (node syntax of Machine.v)
   output: the document in the Shape wire syntax, or NIL / ERR, then " strict" or " fallback" ---------- *)
Fixpoint print_j (fuel : nat) (v : jval) : bytes :=
  match fuel with
  | O => []
  | S f =>
    match v with
    | JNull => [x6e] | JBool => [x62] | JStr => [x73] | JInt => [x69] | JFloat => [x66]
    | JArr xs => [x61; sp] ++ print_nat (length xs) ++ flat_map (fun x => sp :: print_j f x) xs
    | JObj ms => [x6f; sp] ++ print_nat (length ms) ++
                 flat_map (fun m => sp :: (match hex (fst m) with [] => [x2d] | h => h end) ++ sp :: print_j f (snd m)) ms
    end
  end.
Fixpoint jsize (v : jval) : nat :=
  match v with
  | JArr xs => S (fold_right (fun x n => jsize x + n) 0 xs)
  | JObj ms => S (fold_right (fun m n => jsize (snd m) + n) 0 ms)
  | _ => 1
  end.

Definition example_model_line (line : bytes) : bytes :=
  match split_on semi line with
  | rootb :: entries =>
    match parse_m (S (length rootb)) (words rootb),
          all_some (map parse_mentry (filter (fun e => negb (Nat.eqb (length (words e)) 0)) entries)) with
    | Some (root, []), Some g =>
      let '(r, fb) := build_example (S (length line)) g root in
      (match r with
       | BVal v => print_j (S (jsize v)) v
       | BNil => [x4e; x49; x4c]
       | BErr => [x45; x52; x52]
       end) ++ (if fb then [sp; x66; x61; x6c; x6c; x62; x61; x63; x6b] else [sp; x73; x74; x72; x69; x63; x74])
    | _, _ => [x42; x41; x44]
    end
  | [] => [x42; x41; x44]
  end.
