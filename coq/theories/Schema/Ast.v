(* Ast.v — property C16 on the rule-free fragment: the AST mirrors the schema text.
   [ast_of] models schema/ast.go astNodeFromNode for plain nodes: one AST node per example
   value, token kind and inferred schema type from the example, children in declaration
   order, the written rules (optional / nullable / type "any") in a fixed written order.
   No proofs in this file. *)
From Coq Require Import List Bool Arith.
From Coq Require Import Strings.Byte.
Import ListNotations.
From JS Require Import Common.Wire Schema.Shape.

Inductive token := TString | TNumber | TBoolean | TNull | TObject | TArray.
Inductive stype := StString | StInteger | StFloat | StBoolean | StNull | StObject | StArray | StAny.
Inductive wrule := ROptional (b : bool) | RNullable | RAny.

Inductive ast :=
| ANode (key : option bytes) (tok : token) (st : stype) (rules : list wrule) (children : list ast).

Definition tok_of (k : skind) : token :=
  match k with KStr => TString | KInt | KFloat => TNumber | KBool => TBoolean | KNull => TNull end.
Definition st_of (k : skind) : stype :=
  match k with KStr => StString | KInt => StInteger | KFloat => StFloat | KBool => StBoolean | KNull => StNull end.
Definition rules_of (mark : option bool) (nl an : bool) : list wrule :=
  (match mark with Some b => [ROptional b] | None => [] end) ++ (if nl then [RNullable] else []) ++ (if an then [RAny] else []).

(* getASTNodeSchemaType: a declared type (here only "any") wins over the inferred kind *)
Fixpoint ast_of (key : option bytes) (mark : option bool) (w : wnode) : ast :=
  match w with
  | WLit k nl an => ANode key (tok_of k) (if an then StAny else st_of k) (rules_of mark nl an) []
  | WObj ms nl an =>
    ANode key TObject (if an then StAny else StObject) (rules_of mark nl an)
          (map (fun m => let '(k, mk, x) := m in ast_of (Some k) mk x) ms)
  | WArr items nl an =>
    ANode key TArray (if an then StAny else StArray) (rules_of mark nl an) (map (ast_of None None) items)
  end.

(* source order of the example values (what the schema text lists, top to bottom) *)
Fixpoint values_in_order (key : option bytes) (w : wnode) : list (option bytes * token) :=
  match w with
  | WLit k _ _ => [(key, tok_of k)]
  | WObj ms _ _ => (key, TObject) :: flat_map (fun m => let '(k, _, x) := m in values_in_order (Some k) x) ms
  | WArr items _ _ => (key, TArray) :: flat_map (values_in_order None) items
  end.
Fixpoint preorder (a : ast) : list (option bytes * token) :=
  match a with ANode key tok _ _ ch => (key, tok) :: flat_map preorder ch end.

Fixpoint count_nodes (w : wnode) : nat :=
  match w with
  | WLit _ _ _ => 1
  | WObj ms _ _ => S (fold_right (fun m n => count_nodes (snd m) + n) 0 ms)
  | WArr items _ _ => S (fold_right (fun x n => count_nodes x + n) 0 items)
  end.
Fixpoint ast_size (a : ast) : nat :=
  match a with ANode _ _ _ _ ch => S (fold_right (fun x n => ast_size x + n) 0 ch) end.
