(* E2E.v - from the schema TEXT to the verdict, all inside Coq, for the rule-free fragment of C01:

     bytes --SchemaScanner.scan--> events --Loader.load--> example nodes with their rules as written
           --w_of_node--> Shape.wnode --Shape.compile--> Shape.snode --Shape.validate--> verdict

   [w_of_node] is the (small) model of what CompileBasic makes of a loaded node in that fragment: the
   JSON kind of a literal is read off its token (json.Guess), and the only rules are optional (true /
   false), nullable (true / false) and type "any".  Everything else is outside the fragment: None.
   The executable composition [e2e_model_line] is run against Schema.Validate on the TEXTS of the
   generated rule-free schemas on every check (lib/check_c01.py), so the scanner model, the loader
   model and the validator model are exercised as one pipeline; E2EProofs.v proves, for plain JSON
   schema texts of any size and layout, that the pipeline computes exactly Shape.validate of the
   schema tree the text spells (and hence, with C01_validate_iff_shape, accepts exactly the documents
   of the example's shape).  No proofs in this file. *)
From Coq Require Import String.
From Coq Require Import List NArith Bool Arith.
From Coq Require Import Strings.Byte.
Import ListNotations.
From JS Require Import Common.Wire Schema.Shape.
From JS Require SchemaScan.Loader Json.Scanner Schema.Machine Text.Unquote Num.NumModel.

Definition kind_of_token (t : bytes) : option skind :=
  match Loader.literal_json_type t with
  | Some Loader.JString => Some KStr
  | Some Loader.JInteger => Some KInt
  | Some Loader.JFloat => Some KFloat
  | Some Loader.JBoolean => Some KBool
  | Some Loader.JNull => Some KNull
  | _ => None
  end.

(* the three rules of the fragment, as written *)
Record flags := mkflags { f_opt : option bool; f_nullable : bool; f_any : bool }.
Definition flags0 : flags := mkflags None false false.

Definition lit_bool (r : Loader.rval) : option bool :=
  match r with
  | Loader.RLit t => if Loader.is "true" t then Some true else if Loader.is "false" t then Some false else None
  | _ => None
  end.

Fixpoint flags_of (rs : list (bytes * Loader.rval)) (f : flags) : option flags :=
  match rs with
  | [] => Some f
  | (name, v) :: r =>
    if Loader.is "optional" name then
      match lit_bool v with Some b => flags_of r (mkflags (Some b) (f_nullable f) (f_any f)) | None => None end
    else if Loader.is "nullable" name then
      match lit_bool v with Some b => flags_of r (mkflags (f_opt f) b (f_any f)) | None => None end
    else if Loader.is "type" name then
      match v with
      | Loader.RLit t => if Loader.is "any" (Loader.unquote t) then flags_of r (mkflags (f_opt f) (f_nullable f) true) else None
      | _ => None
      end
    else None
  end.

(* a loaded node of the fragment: (optional mark, written node) *)
Fixpoint w_of_node (n : Loader.node) : option (option bool * wnode) :=
  match n with
  | Loader.NLit tok a =>
    match kind_of_token tok, flags_of (Loader.a_rules a) flags0 with
    | Some k, Some f => Some (f_opt f, WLit k (f_nullable f) (f_any f))
    | _, _ => None
    end
  | Loader.NObj ms a =>
    match flags_of (Loader.a_rules a) flags0 with
    | None => None
    | Some f =>
      let fix members (ms : list (bytes * bool * Loader.node)) : option (list (bytes * option bool * wnode)) :=
          match ms with
          | [] => Some []
          | (key, short, x) :: r =>
            if short then None
            else match w_of_node x, members r with
                 | Some (mark, w), Some t => Some ((key, mark, w) :: t)
                 | _, _ => None
                 end
          end in
      match members ms with
      | Some l => Some (f_opt f, WObj l (f_nullable f) (f_any f))
      | None => None
      end
    end
  | Loader.NArr items a =>
    match flags_of (Loader.a_rules a) flags0 with
    | None => None
    | Some f =>
      let fix elems (xs : list Loader.node) : option (list wnode) :=
          match xs with
          | [] => Some []
          | x :: r =>
            match w_of_node x, elems r with
            | Some (_, w), Some t => Some (w :: t)
            | _, _ => None
            end
          end in
      match elems items with
      | Some l => Some (f_opt f, WArr l (f_nullable f) (f_any f))
      | None => None
      end
    end
  | Loader.NRef _ _ _ => None
  end.

Inductive e2e_result :=
| ELoad (code pos : N)            (* the schema text is refused by the scanner / loader *)
| EOutside                        (* loaded, but outside the rule-free fragment (or no example at all) *)
| EVerdict (v : option nat).      (* Shape.validate of the compiled schema: None = accepted *)

Definition schema_of_text (optd : bool) (text : bytes) : e2e_result + snode :=
  match Loader.load text with
  | Loader.LError c p => inl (ELoad c p)
  | Loader.LTree (Some n) =>
    match w_of_node n with
    | Some (_, w) => inr (compile optd w)
    | None => inl EOutside
    end
  | _ => inl EOutside
  end.

Definition e2e_validate (optd : bool) (text : bytes) (d : jval) : e2e_result :=
  match schema_of_text optd text with
  | inl r => r
  | inr s => EVerdict (validate s d)
  end.

(* wire:  <optdefault 0/1> ; <hex of the schema text> ; <doc tokens of Shape.v>
   output: ok | E<code> | L<code>@<pos> | OUT | BAD *)
Definition e2e_model_line (line : bytes) : bytes :=
  let bad := [x42; x41; x44] in
  match split_on semi line with
  | [o; h; d] =>
    match words o, words h, parse_j (S (length d)) (words d) with
    | [ob], [hx], Some (v, []) =>
      match tok_bool ob, unhex hx with
      | Some optd, Some text =>
        match e2e_validate optd text v with
        | ELoad c p => [x4c] ++ print_N c ++ [x40] ++ print_N p
        | EOutside => [x4f; x55; x54]
        | EVerdict None => [x6f; x6b]
        | EVerdict (Some e) => x45 :: print_nat e
        end
      | _, _ => bad
      end
    | _, _, _ => bad
    end
  | _ => bad
  end.

(* ------------------------------------------------------------------ the document side, from its TEXT
   Schema.Validate reads the document through the JSON scanner (Json/Scanner.v) and feeds the lexical
   events to the tree of leaf validators (Schema/Machine.v).  The machine's events carry what the
   validators read off the lexemes: the unquoted key (ObjectKeyEnd) and the kind of the literal
   (LiteralEnd, json.Guess). *)
Definition slice (text : bytes) (b e : N) : bytes :=
  firstn (N.to_nat (e - b + 1)) (skipn (N.to_nat b) text).

Definition scalar_of_token (t : bytes) : option jval :=
  match Loader.literal_json_type t with
  | Some Loader.JString => Some JStr
  | Some Loader.JInteger => Some JInt
  | Some Loader.JFloat => Some JFloat
  | Some Loader.JBoolean => Some JBool
  | Some Loader.JNull => Some JNull
  | _ => None
  end.

Definition mevent_of (text : bytes) (e : Scanner.lexev) : option (option Machine.event) :=
  let tok := slice text (Scanner.e_begin e) (Scanner.e_end e) in
  match Scanner.e_type e with
  | Scanner.LiteralBegin => Some (Some Machine.ELitBegin)
  | Scanner.LiteralEnd => match scalar_of_token tok with Some v => Some (Some (Machine.ELitEnd v)) | None => None end
  | Scanner.ObjectBegin => Some (Some Machine.EObjBegin)
  | Scanner.ObjectEnd => Some (Some Machine.EObjEnd)
  | Scanner.ObjectKeyBegin => Some (Some Machine.EKeyBegin)
  | Scanner.ObjectKeyEnd => Some (Some (Machine.EKeyEnd (Unquote.unquote tok)))
  | Scanner.ObjectValueBegin => Some (Some Machine.EValBegin)
  | Scanner.ObjectValueEnd => Some (Some Machine.EValEnd)
  | Scanner.ArrayBegin => Some (Some Machine.EArrBegin)
  | Scanner.ArrayEnd => Some (Some Machine.EArrEnd)
  | Scanner.ArrayItemBegin => Some (Some Machine.EItemBegin)
  | Scanner.ArrayItemEnd => Some (Some Machine.EItemEnd)
  | Scanner.EndTop => Some None
  end.

Fixpoint mevents_of (text : bytes) (evs : list Scanner.lexev) : option (list Machine.event) :=
  match evs with
  | [] => Some []
  | e :: r =>
    match mevent_of text e, mevents_of text r with
    | Some (Some m), Some t => Some (m :: t)
    | Some None, Some t => Some t
    | _, _ => None
    end
  end.

Inductive doc_result :=
| DErr (code : nat) (pos : N)     (* the document is not a JSON text: DocumentError of the JSON scanner *)
| DStuck                          (* a lexeme the conversion does not understand (believed unreachable) *)
| DEvents (es : list Machine.event).

Definition doc_events (text : bytes) : doc_result :=
  match Scanner.scan false text with
  | (evs, Scanner.Done) => match mevents_of text evs with Some es => DEvents es | None => DStuck end
  | (_, Scanner.Err c p) => DErr c p
  | (_, Scanner.Panic) => DStuck
  end.

(* Schema.validate on the two texts: the machine runs over the events of the document text with the validators of the schema text.
   (The library delivers the events one by one and stops at the first validator error; a scanner error
   after that point is never seen: [run] stops at the first rejection the same way, but here the whole
   document is scanned first, so a document that is not JSON is reported as such whatever the schema says -
   the check compares only documents that are JSON texts or are refused by both.) *)
Inductive texts_result :=
| TSchema (r : e2e_result)            (* the schema text is refused / outside the fragment *)
| TDoc (code : nat) (pos : N)
| TStuck
| TVerdict (v : option nat).

Definition validate_texts (optd : bool) (schema_text doc_text : bytes) : texts_result :=
  match schema_of_text optd schema_text with
  | inl r => TSchema r
  | inr s =>
    match doc_events doc_text with
    | DErr c p => TDoc c p
    | DStuck => TStuck
    | DEvents [] => TDoc 203 0          (* no lexeme at all: ErrEmptyJson (reported without a position) *)
    | DEvents es =>
      match Machine.tree0 [] (Machine.of_snode s) with
      | None => TStuck
      | Some t =>
        match Machine.run [] t es with
        | Machine.OAccept => TVerdict None
        | Machine.OReject c => TVerdict (Some c)
        | _ => TStuck
        end
      end
    end
  end.

(* wire:  <optdefault 0/1> ; <hex of the schema text> ; <hex of the document text>
   output: ok | E<code> | D<code>@<pos> | L<code>@<pos> | OUT | STUCK | BAD *)
Definition e2e_texts_model_line (line : bytes) : bytes :=
  let bad := [x42; x41; x44] in
  match split_on semi line with
  | [o; h; d] =>
    match words o, words h, words d with
    | [ob], [hx], [dx] =>
      match tok_bool ob, unhex hx, unhex (match dx with [x2d] => [] | _ => dx end) with
      | Some optd, Some st, Some dt =>
        match validate_texts optd st dt with
        | TSchema (ELoad c p) => [x4c] ++ print_N c ++ [x40] ++ print_N p
        | TSchema _ => [x4f; x55; x54]
        | TDoc c p => [x44] ++ print_nat c ++ [x40] ++ print_N p
        | TStuck => [x53; x54; x55; x43; x4b]
        | TVerdict None => [x6f; x6b]
        | TVerdict (Some e) => x45 :: print_nat e
        end
      | _, _, _ => bad
      end
    | _, _, _ => bad
    end
  | _ => bad
  end.
