(* UnionProofs.v — property C03: type references, unions and allOf compose as set operations;
   the validator's "each name once" expansion computes the same union as the denotation. *)
From Coq Require Import List Bool Arith Lia.
From Coq Require Import Strings.Byte.
Import ListNotations.
From JS Require Import Common.Wire Schema.Shape Schema.Union.

(* ---------- named forms of the local fixpoints of [accepts] ---------- *)
Definition arr_all (A : tnode -> jval -> bool) (items : list tnode) : list jval -> nat -> bool :=
  fix all (xs : list jval) (i : nat) : bool :=
    match xs with
    | [] => true
    | x :: r => (match last_or items i with Some child => A child x | None => false end && all r (S i))%bool
    end.

Definition ap_ok (A : tnode -> jval -> bool) (g : env) (ap : addp) (x : jval) : bool :=
  match ap with
  | APNone | APFalse => false
  | APAny => true
  | APKind k => (negb (is_container x) && kind_value_ok k x)%bool
  | APType n => match lookup g n with Some body => A body x | None => false end
  end.

Definition obj_all (A : tnode -> jval -> bool) (g : env) (ap : addp) (ms : list (bytes * bool * tnode))
  : list (bytes * jval) -> bool :=
  fix all (dms : list (bytes * jval)) : bool :=
    match dms with
    | [] => true
    | (key, x) :: r =>
      (match find_tmember key ms with
       | Some child => A child x
       | None => ap_ok A g ap x
       end && all r)%bool
    end.

Definition req_ok (ms : list (bytes * bool * tnode)) (dms : list (bytes * jval)) : bool :=
  forallb (fun m : bytes * bool * tnode =>
             let '(key, req, _) := m in (negb req || existsb (fun d : bytes * jval => bytes_eqb (fst d) key) dms)%bool) ms.

Definition ref_ok (A : tnode -> jval -> bool) (g : env) (v : jval) (n : tname) : bool :=
  match lookup g n with Some body => A body v | None => false end.

Definition is_null (v : jval) : bool := match v with JNull => true | _ => false end.

Lemma accepts_lit : forall f g k nl v,
  accepts (S f) g (TLit k nl) v = (negb (is_container v) && lit_kind_ok k nl v)%bool.
Proof. reflexivity. Qed.

Lemma accepts_refs : forall f g ns nl v,
  accepts (S f) g (TRefs ns nl) v = ((nl && is_null v) || existsb (ref_ok (accepts f g) g v) ns)%bool.
Proof. reflexivity. Qed.

Lemma accepts_arr : forall f g items xs,
  accepts (S f) g (TArr items) (JArr xs) = arr_all (accepts f g) items xs 0.
Proof. reflexivity. Qed.

Lemma accepts_arr_other : forall f g items v,
  (forall xs, v <> JArr xs) -> accepts (S f) g (TArr items) v = false.
Proof. intros f g items v Hv. destruct v; try reflexivity. exfalso. eapply Hv. reflexivity. Qed.

Lemma accepts_obj : forall f g ms ap ps dms,
  accepts (S f) g (TObj ms ap ps) (JObj dms) =
  (req_ok (members_of (S (length g)) g (TObj ms ap ps)) dms &&
   obj_all (accepts f g) g ap (members_of (S (length g)) g (TObj ms ap ps)) dms)%bool.
Proof. reflexivity. Qed.

Lemma accepts_obj_other : forall f g ms ap ps v,
  (forall dms, v <> JObj dms) -> accepts (S f) g (TObj ms ap ps) v = false.
Proof. intros f g ms ap ps v Hv. destruct v; try reflexivity. exfalso. eapply Hv. reflexivity. Qed.

(* ---------- set laws ---------- *)
Theorem accepts_union : forall f g a b nl v,
  accepts (S f) g (TRefs (a ++ b) nl) v = (accepts (S f) g (TRefs a nl) v || accepts (S f) g (TRefs b nl) v)%bool.
Proof.
  intros f g a b nl v. rewrite !accepts_refs. rewrite existsb_app.
  destruct (nl && is_null v)%bool; destruct (existsb (ref_ok (accepts f g) g v) a);
    destruct (existsb (ref_ok (accepts f g) g v) b); reflexivity.
Qed.

Theorem accepts_nullable_null : forall f g ns, accepts (S f) g (TRefs ns true) JNull = true.
Proof. intros f g ns. rewrite accepts_refs. reflexivity. Qed.

Theorem accepts_member : forall f g ns nl n body v,
  In n ns -> lookup g n = Some body -> accepts f g body v = true -> accepts (S f) g (TRefs ns nl) v = true.
Proof.
  intros f g ns nl n body v Hin Hl Ha. rewrite accepts_refs.
  apply orb_true_iff. right. apply existsb_exists. exists n. split; [exact Hin|].
  unfold ref_ok. rewrite Hl. exact Ha.
Qed.

(* ---------- fuel monotonicity ---------- *)
Definition sub_acc (A B : tnode -> jval -> bool) : Prop := forall t v, A t v = true -> B t v = true.

Lemma arr_all_mono : forall A B items, sub_acc A B ->
  forall xs i, arr_all A items xs i = true -> arr_all B items xs i = true.
Proof.
  intros A B items HAB xs. induction xs as [|x r IH]; intros i H; [reflexivity|].
  simpl in *. apply andb_true_iff in H. destruct H as [H1 H2].
  apply andb_true_iff. split; [|apply IH; exact H2].
  destruct (last_or items i) as [c|]; [apply HAB; exact H1|discriminate].
Qed.

Lemma ap_ok_mono : forall A B g ap x, sub_acc A B -> ap_ok A g ap x = true -> ap_ok B g ap x = true.
Proof.
  intros A B g ap x HAB H. destruct ap as [| | |k|n]; simpl in *; try exact H.
  destruct (lookup g n) as [body|]; [apply HAB; exact H|discriminate].
Qed.

Lemma obj_all_mono : forall A B g ap ms, sub_acc A B ->
  forall dms, obj_all A g ap ms dms = true -> obj_all B g ap ms dms = true.
Proof.
  intros A B g ap ms HAB dms. induction dms as [|[key x] r IH]; intros H; [reflexivity|].
  simpl in *. apply andb_true_iff in H. destruct H as [H1 H2].
  apply andb_true_iff. split; [|apply IH; exact H2].
  destruct (find_tmember key ms) as [c|]; [apply HAB; exact H1|eapply ap_ok_mono; eassumption].
Qed.

Lemma ref_ok_mono : forall A B g v n, sub_acc A B -> ref_ok A g v n = true -> ref_ok B g v n = true.
Proof.
  intros A B g v n HAB H. unfold ref_ok in *.
  destruct (lookup g n) as [body|]; [apply HAB; exact H|discriminate].
Qed.

Lemma existsb_mono : forall (X : Type) (p q : X -> bool) l,
  (forall x, p x = true -> q x = true) -> existsb p l = true -> existsb q l = true.
Proof.
  intros X p q l Hpq H. apply existsb_exists in H. destruct H as [x [Hin Hp]].
  apply existsb_exists. exists x. split; [exact Hin|apply Hpq; exact Hp].
Qed.

Lemma accepts_step_mono : forall f f' g, sub_acc (accepts f g) (accepts f' g) ->
  sub_acc (accepts (S f) g) (accepts (S f') g).
Proof.
  intros f f' g HAB t v H. destruct t as [k nl|ms ap ps|items|ns nl].
  - rewrite accepts_lit in *. exact H.
  - destruct v as [| | | | |xs|dms]; try discriminate H.
    rewrite accepts_obj in *. apply andb_true_iff in H. destruct H as [H1 H2].
    apply andb_true_iff. split; [exact H1|]. eapply obj_all_mono; eassumption.
  - destruct v as [| | | | |xs|dms]; try discriminate H.
    rewrite accepts_arr in *. eapply arr_all_mono; eassumption.
  - rewrite accepts_refs in *. apply orb_true_iff in H. apply orb_true_iff.
    destruct H as [H|H]; [left; exact H|right].
    eapply existsb_mono; [|exact H]. intros n Hn. eapply ref_ok_mono; eassumption.
Qed.

Theorem accepts_fuel_mono : forall f g t v, accepts f g t v = true -> forall f', f <= f' -> accepts f' g t v = true.
Proof.
  intros f g. induction f as [|f IH]; intros t v H f' Hle.
  - discriminate H.
  - destruct f' as [|f']; [lia|].
    revert t v H. apply accepts_step_mono. intros t v H. apply IH; [exact H|lia].
Qed.

(* ---------- allOf = inherited members written out ---------- *)
Lemma members_of_flat : forall f g ms ap, members_of (S f) g (TObj ms ap []) = ms.
Proof. intros f g ms ap. simpl. apply app_nil_r. Qed.

Theorem allOf_flatten : forall f g ms ap parents v,
  accepts (S f) g (TObj ms ap parents) v = accepts (S f) g (TObj (members_of (S (length g)) g (TObj ms ap parents)) ap []) v.
Proof.
  intros f g ms ap parents v.
  destruct v as [| | | | |xs|dms]; try reflexivity.
  rewrite !accepts_obj. rewrite members_of_flat. reflexivity.
Qed.

(* ====================================================================================
   The validator's expansion
   ==================================================================================== *)

(* one step of the fold inside [expand], with the recursive call abstracted *)
Definition estep (rec : list tname -> list tname -> list tnode * list tname) (g : env)
  (acc : list tnode * list tname) (n : tname) : list tnode * list tname :=
  let '(leaves, added) := acc in
  if existsb (Nat.eqb n) added then (leaves, added)
  else match lookup g n with
       | None => (leaves, n :: added)
       | Some (TRefs ns _) => let '(l2, a2) := rec (n :: added) ns in (leaves ++ l2, a2)
       | Some body => (leaves ++ [body], n :: added)
       end.

Lemma expand_S : forall f g added ns,
  expand (S f) g added ns = fold_left (estep (expand f g) g) ns ([], added).
Proof. reflexivity. Qed.

Lemma mem_In : forall n A, existsb (Nat.eqb n) A = true <-> In n A.
Proof.
  intros n A. rewrite existsb_exists. split.
  - intros [x [Hin Hx]]. apply Nat.eqb_eq in Hx. subst x. exact Hin.
  - intros Hin. exists n. split; [exact Hin|apply Nat.eqb_refl].
Qed.

Lemma mem_not_In : forall n A, existsb (Nat.eqb n) A = false <-> ~ In n A.
Proof.
  intros n A. rewrite <- mem_In. destruct (existsb (Nat.eqb n) A); split; intro H; try reflexivity; try discriminate.
  exfalso. apply H. reflexivity.
Qed.

(* alias reachability: [n] is named at the position, or reached through alias types *)
Inductive reach (g : env) : list tname -> tname -> Prop :=
| reach_here : forall ns n, In n ns -> reach g ns n
| reach_step : forall ns m ns' nl' n,
    In m ns -> lookup g m = Some (TRefs ns' nl') -> reach g ns' n -> reach g ns n.

Definition leaf_from (g : env) (ns : list tname) (leaf : tnode) : Prop :=
  exists n, reach g ns n /\ lookup g n = Some leaf.

Definition is_refs (t : tnode) : bool := match t with TRefs _ _ => true | _ => false end.

(* ---------- (1) every expanded leaf is reachable ---------- *)
Definition rec_sound (g : env) (rec : list tname -> list tname -> list tnode * list tname) : Prop :=
  forall added ns leaf, In leaf (fst (rec added ns)) -> leaf_from g ns leaf.

Lemma estep_sound : forall g rec ns acc n,
  rec_sound g rec -> In n ns ->
  (forall leaf, In leaf (fst acc) -> leaf_from g ns leaf) ->
  forall leaf, In leaf (fst (estep rec g acc n)) -> leaf_from g ns leaf.
Proof.
  intros g rec ns [L A] n Hrec Hn Hacc leaf Hin. unfold estep in Hin.
  destruct (existsb (Nat.eqb n) A); [apply Hacc; exact Hin|].
  destruct (lookup g n) as [body|] eqn:Hl; [|apply Hacc; exact Hin].
  assert (Hbody : In leaf (L ++ [body]) -> leaf_from g ns leaf).
  { intros H. apply in_app_or in H. destruct H as [H|H]; [apply Hacc; exact H|].
    destruct H as [H|[]]. subst leaf. exists n. split; [apply reach_here; exact Hn|exact Hl]. }
  destruct body as [k nl|ms ap ps|items|ns' nl']; try (apply Hbody; exact Hin).
  destruct (rec (n :: A) ns') as [l2 a2] eqn:Hr. simpl in Hin.
  apply in_app_or in Hin. destruct Hin as [H|H]; [apply Hacc; exact H|].
  assert (Hlf : leaf_from g ns' leaf). { apply (Hrec (n :: A) ns'). rewrite Hr. exact H. }
  destruct Hlf as [n' [Hre Hl']]. exists n'. split; [|exact Hl'].
  eapply reach_step; eassumption.
Qed.

Lemma fold_estep_sound : forall g rec ns, rec_sound g rec ->
  forall ns0 acc, incl ns0 ns ->
  (forall leaf, In leaf (fst acc) -> leaf_from g ns leaf) ->
  forall leaf, In leaf (fst (fold_left (estep rec g) ns0 acc)) -> leaf_from g ns leaf.
Proof.
  intros g rec ns Hrec ns0. induction ns0 as [|n r IH]; intros acc Hincl Hacc leaf Hin.
  - apply Hacc. exact Hin.
  - simpl in Hin. eapply IH; [| |exact Hin].
    + intros x Hx. apply Hincl. right. exact Hx.
    + apply estep_sound; [exact Hrec|apply Hincl; left; reflexivity|exact Hacc].
Qed.

Lemma expand_sound : forall f g, rec_sound g (expand f g).
Proof.
  intros f g. induction f as [|f IH]; intros added ns leaf Hin.
  - destruct Hin.
  - rewrite expand_S in Hin. eapply fold_estep_sound; [exact IH|apply incl_refl| |exact Hin].
    intros l [].
Qed.

Lemma reach_accepts : forall g ns n, reach g ns n ->
  forall nl body f v, lookup g n = Some body -> accepts f g body v = true ->
  exists f', accepts f' g (TRefs ns nl) v = true.
Proof.
  intros g ns n Hre. induction Hre as [ns n Hin|ns m ns' nl' n Hin Hl Hre IH]; intros nl body f v Hb Ha.
  - exists (S f). eapply accepts_member; eassumption.
  - destruct (IH nl' body f v Hb Ha) as [f' Hf']. exists (S f'). eapply accepts_member; eassumption.
Qed.

Lemma null_via_alias_accepts : forall k g ns nl,
  null_via_alias k g ns = true -> accepts (S k) g (TRefs ns nl) JNull = true.
Proof.
  intros k g. induction k as [|k IH]; intros ns nl H; [discriminate H|].
  simpl in H. apply existsb_exists in H. destruct H as [n [Hin Hn]].
  destruct (lookup g n) as [body|] eqn:Hl; [|discriminate Hn].
  destruct body as [k0 nl0|ms ap ps|items|ns' nl']; try discriminate Hn.
  eapply accepts_member; [exact Hin|exact Hl|].
  apply orb_true_iff in Hn. destruct Hn as [Hn|Hn].
  - subst nl'. apply accepts_nullable_null.
  - apply IH. exact Hn.
Qed.

Theorem validate_refs_sound : forall f g ns nl v,
  validate_refs f g ns nl v = true -> exists f', accepts f' g (TRefs ns nl) v = true.
Proof.
  intros f g ns nl v H. unfold validate_refs in H. apply orb_true_iff in H. destruct H as [H|H].
  - destruct v; try discriminate H. apply orb_true_iff in H. destruct H as [H|H].
    + subst nl. exists 1. apply accepts_nullable_null.
    + eexists. apply null_via_alias_accepts. exact H.
  - apply existsb_exists in H. destruct H as [leaf [Hin Ha]].
    apply expand_sound in Hin. destruct Hin as [n [Hre Hl]].
    eapply reach_accepts; eassumption.
Qed.

(* ---------- the fuel measure: names of [g] not yet in [added] ---------- *)
Lemma filter_length_le : forall (X : Type) (p q : X -> bool) l,
  (forall x, In x l -> p x = true -> q x = true) -> length (filter p l) <= length (filter q l).
Proof.
  intros X p q l. induction l as [|a r IH]; intros H; [apply Nat.le_refl|].
  assert (IH' : length (filter p r) <= length (filter q r)).
  { apply IH. intros x Hx. apply H. right. exact Hx. }
  simpl. destruct (p a) eqn:Hp.
  - rewrite (H a (or_introl eq_refl) Hp). simpl. lia.
  - destruct (q a); simpl; lia.
Qed.

Lemma filter_length_lt : forall (X : Type) (p q : X -> bool) l a,
  (forall x, In x l -> p x = true -> q x = true) -> In a l -> p a = false -> q a = true ->
  length (filter p l) < length (filter q l).
Proof.
  intros X p q l a. induction l as [|b r IH]; intros H Hin Hp Hq; [destruct Hin|].
  assert (Hr : forall x, In x r -> p x = true -> q x = true).
  { intros x Hx. apply H. right. exact Hx. }
  simpl. destruct Hin as [Heq|Hin].
  - subst b. rewrite Hp, Hq. simpl. pose proof (filter_length_le X p q r Hr). lia.
  - pose proof (IH Hr Hin Hp Hq) as IH'. destruct (p b) eqn:Hpb.
    + rewrite (H b (or_introl eq_refl) Hpb). simpl. lia.
    + destruct (q b); simpl; lia.
Qed.

Definition fresh (g : env) (A : list tname) : nat :=
  length (filter (fun x => negb (existsb (Nat.eqb x) A)) (map fst g)).

Lemma fresh_nil : forall g, fresh g [] = length g.
Proof.
  intros g. unfold fresh. simpl. rewrite <- (map_length fst g).
  induction (map fst g) as [|a r IH]; [reflexivity|]. simpl. rewrite IH. reflexivity.
Qed.

Lemma fresh_incl : forall g A A', incl A A' -> fresh g A' <= fresh g A.
Proof.
  intros g A A' Hincl. unfold fresh. apply filter_length_le. intros x _ Hx.
  apply negb_true_iff in Hx. apply negb_true_iff. apply mem_not_In. apply mem_not_In in Hx.
  intros Hin. apply Hx. apply Hincl. exact Hin.
Qed.

Lemma fresh_cons_lt : forall g A n, In n (map fst g) -> ~ In n A -> fresh g (n :: A) < fresh g A.
Proof.
  intros g A n Hdom Hn. unfold fresh. apply filter_length_lt with (a := n).
  - intros x _ Hx. apply negb_true_iff in Hx. apply negb_true_iff. apply mem_not_In. apply mem_not_In in Hx.
    intros Hin. apply Hx. right. exact Hin.
  - exact Hdom.
  - apply negb_false_iff. apply mem_In. left. reflexivity.
  - apply negb_true_iff. apply mem_not_In. exact Hn.
Qed.

Lemma lookup_In : forall g n body, lookup g n = Some body -> In n (map fst g).
Proof.
  intros g n body. induction g as [|[m t] r IH]; intros H; [discriminate H|].
  simpl in *. destruct (Nat.eqb m n) eqn:He.
  - left. apply Nat.eqb_eq. exact He.
  - right. apply IH. exact H.
Qed.

(* ---------- (2) the final [added] set is closed under alias edges ---------- *)
Definition cond (g : env) (L : list tnode) (A : list tname) (n : tname) : Prop :=
  forall body, lookup g n = Some body ->
    match body with TRefs ns' _ => incl ns' A | _ => In body L end.

Lemma cond_mono : forall g L A L' A' n, incl L L' -> incl A A' -> cond g L A n -> cond g L' A' n.
Proof.
  intros g L A L' A' n HL HA Hc body Hl. specialize (Hc body Hl).
  destruct body as [k nl|ms ap ps|items|ns' nl']; try (apply HL; exact Hc).
  intros x Hx. apply HA. apply Hc. exact Hx.
Qed.

Definition closed_above (g : env) (B : list tname) (r : list tnode * list tname) : Prop :=
  forall n, In n (snd r) -> ~ In n B -> cond g (fst r) (snd r) n.

Definition rec_ok (g : env) (f : nat) (rec : list tname -> list tname -> list tnode * list tname) : Prop :=
  forall added ns, fresh g added < f ->
    incl added (snd (rec added ns)) /\ incl ns (snd (rec added ns)) /\ closed_above g added (rec added ns).

Lemma In_nat_dec : forall (n : nat) A, In n A \/ ~ In n A.
Proof. intros n A. destruct (in_dec Nat.eq_dec n A) as [H|H]; [left|right]; exact H. Qed.

Lemma estep_ok : forall g f rec B L0 A0 n,
  rec_ok g f rec -> fresh g A0 <= f -> closed_above g B (L0, A0) ->
  incl A0 (snd (estep rec g (L0, A0) n)) /\ In n (snd (estep rec g (L0, A0) n)) /\
  incl L0 (fst (estep rec g (L0, A0) n)) /\
  closed_above g B (estep rec g (L0, A0) n).
Proof.
  intros g f rec B L0 A0 n Hrec Hfr Hcl. unfold estep.
  destruct (existsb (Nat.eqb n) A0) eqn:Hmem.
  { simpl. split; [apply incl_refl|]. split; [apply mem_In; exact Hmem|]. split; [apply incl_refl|exact Hcl]. }
  apply mem_not_In in Hmem.
  destruct (lookup g n) as [body|] eqn:Hl.
  2:{ simpl. split; [apply incl_tl; apply incl_refl|]. split; [left; reflexivity|]. split; [apply incl_refl|].
      intros n' Hn' HB. simpl in Hn'. simpl. destruct Hn' as [Heq|Hn'].
      - subst n'. intros body Hb. rewrite Hl in Hb. discriminate Hb.
      - eapply cond_mono; [apply incl_refl|apply incl_tl; apply incl_refl|]. apply (Hcl n' Hn' HB). }
  assert (Hleaf : is_refs body = false ->
     incl A0 (n :: A0) /\ In n (n :: A0) /\ incl L0 (L0 ++ [body]) /\ closed_above g B (L0 ++ [body], n :: A0)).
  { intros Hnr. split; [apply incl_tl; apply incl_refl|]. split; [left; reflexivity|].
    split; [apply incl_appl; apply incl_refl|].
    intros n' Hn' HB. simpl in Hn'. simpl. destruct Hn' as [Heq|Hn'].
    - subst n'. intros body' Hb. rewrite Hl in Hb. injection Hb as Hb. subst body'.
      destruct body as [k nl|ms ap ps|items|ns' nl']; try discriminate Hnr;
        apply in_or_app; right; left; reflexivity.
    - eapply cond_mono; [apply incl_appl; apply incl_refl|apply incl_tl; apply incl_refl|].
      apply (Hcl n' Hn' HB). }
  destruct body as [k nl|ms ap ps|items|ns' nl']; try (apply Hleaf; reflexivity).
  clear Hleaf.
  assert (Hlt : fresh g (n :: A0) < f).
  { pose proof (fresh_cons_lt g A0 n (lookup_In g n _ Hl) Hmem). lia. }
  destruct (Hrec (n :: A0) ns' Hlt) as [Hi1 [Hi2 Hc2]].
  destruct (rec (n :: A0) ns') as [l2 a2] eqn:Hr. simpl in *.
  split; [intros x Hx; apply Hi1; right; exact Hx|]. split; [apply Hi1; left; reflexivity|].
  split; [apply incl_appl; apply incl_refl|].
  intros n' Hn' HB. simpl in Hn'. simpl.
  destruct (In_nat_dec n' (n :: A0)) as [Hold|Hnew].
  - destruct Hold as [Heq|Hold].
    + subst n'. intros body' Hb. rewrite Hl in Hb. injection Hb as Hb. subst body'. exact Hi2.
    + eapply cond_mono; [apply incl_appl; apply incl_refl| |apply (Hcl n' Hold HB)].
      intros x Hx. apply Hi1. right. exact Hx.
  - eapply cond_mono; [apply incl_appr; apply incl_refl|apply incl_refl|].
    apply (Hc2 n' Hn' Hnew).
Qed.

Lemma fold_estep_ok : forall g f rec B, rec_ok g f rec ->
  forall ns0 L0 A0, fresh g A0 <= f -> closed_above g B (L0, A0) ->
  incl A0 (snd (fold_left (estep rec g) ns0 (L0, A0))) /\
  incl ns0 (snd (fold_left (estep rec g) ns0 (L0, A0))) /\
  closed_above g B (fold_left (estep rec g) ns0 (L0, A0)).
Proof.
  intros g f rec B Hrec ns0. induction ns0 as [|n r IH]; intros L0 A0 Hfr Hcl.
  - simpl. split; [apply incl_refl|]. split; [intros x []|exact Hcl].
  - cbn [fold_left]. destruct (estep_ok g f rec B L0 A0 n Hrec Hfr Hcl) as [Hi [Hn [_ Hc]]].
    destruct (estep rec g (L0, A0) n) as [L1 A1]. simpl in Hi, Hn.
    assert (Hfr1 : fresh g A1 <= f). { pose proof (fresh_incl g A0 A1 Hi). lia. }
    destruct (IH L1 A1 Hfr1 Hc) as [Hi' [Hr' Hc']].
    split; [intros x Hx; apply Hi'; apply Hi; exact Hx|].
    split; [|exact Hc'].
    intros x [Hx|Hx]; [subst x; apply Hi'; exact Hn|apply Hr'; exact Hx].
Qed.

Lemma expand_ok : forall g f, rec_ok g f (expand f g).
Proof.
  intros g f. induction f as [|f IH]; intros added ns Hfr; [lia|].
  rewrite expand_S.
  assert (Hcl : closed_above g added ([], added)).
  { intros n Hn HB. simpl in Hn. contradiction. }
  apply (fold_estep_ok g f (expand f g) added IH ns [] added); [lia|exact Hcl].
Qed.

Lemma expand_complete : forall g ns n leaf,
  reach g ns n -> lookup g n = Some leaf -> is_refs leaf = false ->
  In leaf (fst (expand (S (length g)) g [] ns)).
Proof.
  intros g ns n leaf Hre Hl Hnr.
  assert (Hfr : fresh g [] < S (length g)). { rewrite fresh_nil. lia. }
  destruct (expand_ok g (S (length g)) [] ns Hfr) as [_ [Hns Hcl]].
  set (r := expand (S (length g)) g [] ns) in *.
  assert (HA : forall ns0 n0, reach g ns0 n0 -> incl ns0 (snd r) -> In n0 (snd r)).
  { intros ns0 n0 H. induction H as [ns0 n0 Hin|ns0 m ns' nl' n0 Hin Hlm Hre' IH']; intros Hincl.
    - apply Hincl. exact Hin.
    - apply IH'. assert (Hm : In m (snd r)) by (apply Hincl; exact Hin).
      apply (Hcl m Hm (fun x => x) _ Hlm). }
  assert (Hn : In n (snd r)) by (apply (HA ns n Hre Hns)).
  pose proof (Hcl n Hn (fun x => x) _ Hl) as Hc.
  destruct leaf as [k nl|ms ap ps|items|ns' nl']; try exact Hc. discriminate Hnr.
Qed.

(* ---------- null through nullable aliases: a chain avoiding [vis] ---------- *)
Inductive npath (g : env) (vis : list tname) : list tname -> Prop :=
| np_here : forall ns n ns', In n ns -> ~ In n vis -> lookup g n = Some (TRefs ns' true) -> npath g vis ns
| np_step : forall ns n ns' nl', In n ns -> ~ In n vis -> lookup g n = Some (TRefs ns' nl') ->
    npath g vis ns' -> npath g vis ns.

(* cutting a chain at its last visit of [n] *)
Lemma npath_split : forall g vis ns0, npath g vis ns0 ->
  forall n ns', lookup g n = Some (TRefs ns' false) ->
  npath g (n :: vis) ns0 \/ npath g (n :: vis) ns'.
Proof.
  intros g vis ns0 H. induction H as [ns0 n0 ns0' Hin Hvis Hl0|ns0 n0 ns0' nl0' Hin Hvis Hl0 Hp IH];
    intros n ns' Hl.
  - destruct (Nat.eq_dec n0 n) as [Heq|Hne].
    + subst n0. rewrite Hl in Hl0. discriminate Hl0.
    + left. eapply np_here; [exact Hin| |exact Hl0].
      intros [H|H]; [apply Hne; symmetry; exact H|apply Hvis; exact H].
  - destruct (Nat.eq_dec n0 n) as [Heq|Hne].
    + subst n0. rewrite Hl in Hl0. injection Hl0 as Hns Hnl. subst ns0'.
      right. destruct (IH n ns' Hl) as [H|H]; exact H.
    + destruct (IH n ns' Hl) as [H|H]; [left|right; exact H].
      eapply np_step; [exact Hin| |exact Hl0|exact H].
      intros [H'|H']; [apply Hne; symmetry; exact H'|apply Hvis; exact H'].
Qed.

Lemma npath_null_via_alias : forall g k vis ns,
  fresh g vis <= k -> npath g vis ns -> null_via_alias k g ns = true.
Proof.
  intros g k. induction k as [|k IH]; intros vis ns Hfr Hp.
  - exfalso. inversion Hp as [ns0 n ns' Hin Hvis Hl|ns0 n ns' nl' Hin Hvis Hl Hp']; subst;
      pose proof (fresh_cons_lt g vis n (lookup_In g n _ Hl) Hvis); lia.
  - simpl. apply existsb_exists.
    inversion Hp as [ns0 n ns' Hin Hvis Hl|ns0 n ns' nl' Hin Hvis Hl Hp']; subst;
      exists n; (split; [exact Hin|]); rewrite Hl; [reflexivity|].
    destruct nl'; [reflexivity|]. simpl.
    apply (IH (n :: vis) ns').
    + pose proof (fresh_cons_lt g vis n (lookup_In g n _ Hl) Hvis). lia.
    + destruct (npath_split g vis ns' Hp' n ns' Hl) as [H|H]; exact H.
Qed.

(* ---------- what an accepting union position decomposes into ---------- *)
Lemma accepts_refs_inv : forall g f ns nl v,
  accepts f g (TRefs ns nl) v = true ->
  (v = JNull /\ (nl = true \/ npath g [] ns)) \/
  (exists n leaf f', reach g ns n /\ lookup g n = Some leaf /\ is_refs leaf = false /\
                     accepts f' g leaf v = true).
Proof.
  intros g f. induction f as [|f IH]; intros ns nl v H; [discriminate H|].
  rewrite accepts_refs in H. apply orb_true_iff in H. destruct H as [H|H].
  - apply andb_true_iff in H. destruct H as [Hnl Hv]. left.
    destruct v; try discriminate Hv. split; [reflexivity|left; exact Hnl].
  - apply existsb_exists in H. destruct H as [n [Hin Hn]]. unfold ref_ok in Hn.
    destruct (lookup g n) as [body|] eqn:Hl; [|discriminate Hn].
    assert (Hleaf : is_refs body = false ->
      exists n leaf f', reach g ns n /\ lookup g n = Some leaf /\ is_refs leaf = false /\
                        accepts f' g leaf v = true).
    { intros Hnr. exists n, body, f. split; [apply reach_here; exact Hin|].
      split; [exact Hl|]. split; [exact Hnr|exact Hn]. }
    destruct body as [k0 nl0|ms ap ps|items|ns' nl']; try (right; apply Hleaf; reflexivity).
    clear Hleaf. destruct (IH ns' nl' v Hn) as [[Hv Hnull]|[n' [leaf [f' [Hre [Hl' [Hnr Ha]]]]]]].
    + left. split; [exact Hv|]. right. destruct Hnull as [Hnl|Hp].
      * subst nl'. eapply np_here; [exact Hin|intros []|exact Hl].
      * eapply np_step; [exact Hin|intros []|exact Hl|exact Hp].
    + right. exists n', leaf, f'. split; [eapply reach_step; eassumption|].
      split; [exact Hl'|]. split; [exact Hnr|exact Ha].
Qed.

Theorem validate_refs_complete : forall f g ns nl v,
  accepts f g (TRefs ns nl) v = true -> exists f', validate_refs f' g ns nl v = true.
Proof.
  intros f g ns nl v H. apply accepts_refs_inv in H.
  destruct H as [[Hv Hnull]|[n [leaf [f' [Hre [Hl [Hnr Ha]]]]]]].
  - subst v. exists 0. unfold validate_refs. apply orb_true_iff. left. apply orb_true_iff.
    destruct Hnull as [Hnl|Hp]; [left; exact Hnl|right].
    apply (npath_null_via_alias g (S (length g)) [] ns); [rewrite fresh_nil; lia|exact Hp].
  - exists f'. unfold validate_refs. apply orb_true_iff. right. apply existsb_exists.
    exists leaf. split; [|exact Ha]. eapply expand_complete; eassumption.
Qed.

(* the two directions together *)
Corollary validate_refs_iff : forall g ns nl v,
  (exists f, validate_refs f g ns nl v = true) <-> (exists f, accepts f g (TRefs ns nl) v = true).
Proof.
  intros g ns nl v. split; intros [f H].
  - eapply validate_refs_sound. exact H.
  - eapply validate_refs_complete. exact H.
Qed.
