(* RecursionE2EProofs.v - the verdict computed from the schema texts is the inhabitation verdict of the graph the texts spell *)
From Coq Require Import List NArith Bool Arith.
Import ListNotations.
From JS Require Import Common.Wire Schema.Recursion Schema.RecursionProofs Schema.RecursionE2E.

(* whenever the pipeline reaches a verdict, the root and the types were loaded into a graph, and the verdict says exactly
   whether the root and every type of that graph have a finite inhabitant *)
Theorem rec_e2e_verdict : forall optd root types v,
  rec_e2e optd root types = RVerdict v ->
  exists o r g,
    load_tnode optd (map fst types) 0 root = inr (o, r) /\
    load_env optd (map fst types) 0 (map snd types) = inr g /\
    exists b, v = Some b /\
      (b = true <-> (Inhabited g r /\ forall n body, lookup g n = Some body -> Inhabited g body)).
Proof.
  intros optd root types v H. unfold rec_e2e in H.
  destruct (load_tnode optd (map fst types) 0 root) as [e|[o r]] eqn:Er.
  - subst e. unfold load_tnode in Er. destruct (Loader.load root) as [[n|]|c p| |]; try discriminate Er.
    destruct (tnode_of_node optd (map fst types) n); discriminate Er.
  - destruct (load_env optd (map fst types) 0 (map snd types)) as [e|g] eqn:Eg.
    + subst e. exfalso. revert Eg. generalize 0 at 1. generalize (map snd types). intros l.
      induction l as [|t l IH]; intros i Eg; cbn [load_env] in Eg; [discriminate Eg|].
      destruct (load_tnode optd (map fst types) (S i) t) as [e|[o' body]] eqn:Et.
      * inversion Eg as [He]. subst e. unfold load_tnode in Et.
        destruct (Loader.load t) as [[n|]|c p| |]; try discriminate Et.
        destruct (tnode_of_node optd (map fst types) n); discriminate Et.
      * destruct (load_env optd (map fst types) (S i) l) as [e|g] eqn:El; [|discriminate Eg].
        inversion Eg as [He]. subst e. exact (IH (S i) El).
    + inversion H as [Hv]. exists o, r, g. split; [reflexivity|]. split; [reflexivity|].
      destruct (check_all g r) as [b|] eqn:Ec.
      * exists b. split; [reflexivity|]. exact (check_all_iff_inhabited g r b Ec).
      * exfalso. exact (check_all_terminates g r Ec).
Qed.
