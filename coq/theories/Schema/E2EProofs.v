(* E2EProofs.v — the pipeline of E2E.v (schema TEXT -> scan -> load -> w_of_node -> Shape.compile ->
   Shape.validate) on plain JSON schema texts of any depth, width and layout:
     E1 [e2e_plain_json]                    the pipeline computes Shape.validate of the schema the text spells;
     E2 [e2e_plain_json_accepts_iff_shape]  it accepts exactly the documents of the example's shape;
     E3 [e2e_layout_invariant]              two texts with the same mirror image give the same verdict;
     E4 [e2e_duplicate_key]                 a repeated key is refused (402) at the computed position.
   The hypotheses are those of LoaderProofs.load_mirrors_json (number tokens without exponent part:
   the schema scanner refuses 'e' / 'E'). *)
From Coq Require Import List NArith Bool Arith.
From Coq Require Import Strings.Byte.
Import ListNotations.
From JS Require Import Common.Wire Json.Grammar Schema.Shape Schema.ShapeProofs Schema.E2E SchemaScan.Loader
                       SchemaScan.LoaderProofs.
From JS Require Json.GrammarProofs.

(* the written schema a plain JSON value tree spells: every scalar token gives its kind, no rules anywhere *)
Fixpoint w_of_jv (v : jv) : option wnode :=
  match v with
  | JTok t => option_map (fun k => WLit k false false) (kind_of_token t)
  | JArr0 _ => Some (WArr [] false false)
  | Grammar.JArr items =>
    option_map (fun l => WArr l false false) (all_some (map (fun i => let '(_, x, _) := i in w_of_jv x) items))
  | JObj0 _ => Some (WObj [] false false)
  | Grammar.JObj ms =>
    option_map (fun l => WObj l false false)
               (all_some (map (fun m => let '(_, k, _, _, x, _) := m in
                                        option_map (fun w => (Loader.unquote k, @None bool, w)) (w_of_jv x)) ms))
  end.

Lemma w_of_node_mirror : forall v, w_of_node (mirror v) = option_map (fun w => (None, w)) (w_of_jv v).
Proof.
  induction v as [t|w|items IH|w|ms IH] using GrammarProofs.jv_ind2.
  - cbn [mirror w_of_node w_of_jv no_annot a_rules flags_of]. destruct (kind_of_token t); reflexivity.
  - reflexivity.
  - cbn [mirror w_of_node w_of_jv no_annot a_rules flags_of flags0 f_opt f_nullable f_any].
    match goal with |- match ?e with _ => _ end = _ =>
      assert (He : e = all_some (map (fun i => let '(_, x, _) := i in w_of_jv x) items)); [|rewrite He] end.
    { induction items as [|[[w1 x] w2] l IHl]; [reflexivity|].
      inversion IH as [|? ? Hx IH']; subst. cbn [fst snd] in Hx. cbn [map all_some].
      rewrite Hx, (IHl IH'). destruct (w_of_jv x); [|reflexivity]. cbn [option_map].
      destruct (all_some (map (fun i => let '(_, x0, _) := i in w_of_jv x0) l)); reflexivity. }
    destruct (all_some (map (fun i => let '(_, x, _) := i in w_of_jv x) items)); reflexivity.
  - reflexivity.
  - cbn [mirror w_of_node w_of_jv no_annot a_rules flags_of flags0 f_opt f_nullable f_any].
    match goal with |- match ?e with _ => _ end = _ =>
      assert (He : e = all_some (map (fun m => let '(_, k, _, _, x, _) := m in
                             option_map (fun w => (Loader.unquote k, @None bool, w)) (w_of_jv x)) ms)); [|rewrite He] end.
    { induction ms as [|[[[[[w1 k] w2] w3] x] w4] l IHl]; [reflexivity|].
      inversion IH as [|? ? Hx IH']; subst. cbn [fst snd] in Hx. cbn [map all_some].
      rewrite Hx, (IHl IH'). destruct (w_of_jv x); [|reflexivity]. cbn [option_map].
      destruct (all_some (map (fun m => let '(_, k0, _, _, x0, _) := m in
                      option_map (fun w0 => (Loader.unquote k0, @None bool, w0)) (w_of_jv x0)) l)); reflexivity. }
    destruct (all_some (map (fun m => let '(_, k, _, _, x, _) := m in
                 option_map (fun w => (Loader.unquote k, @None bool, w)) (w_of_jv x)) ms)); reflexivity.
Qed.

Lemma kind_of_token_total t : Grammar.wf (JTok t) = true -> tok_noexp t = true -> exists k, kind_of_token t = Some k.
Proof.
  intros Hw Hn. unfold kind_of_token. rewrite (tok_type t Hw Hn).
  destruct t as [|c r]; [discriminate Hw|]. unfold tok_kind.
  destruct (SchemaScanner.ch c 34); [eexists; reflexivity|].
  destruct (SchemaScanner.ch c 116 || SchemaScanner.ch c 102)%bool; [eexists; reflexivity|].
  destruct (SchemaScanner.ch c 110); [eexists; reflexivity|].
  destruct (has_dot (c :: r)); eexists; reflexivity.
Qed.

Lemma all_some_total {A B} (f : A -> option B) l :
  (forall a, In a l -> exists b, f a = Some b) -> exists bs, all_some (map f l) = Some bs.
Proof.
  induction l as [|a l IH]; intros H; [exists []; reflexivity|].
  destruct (H a (or_introl eq_refl)) as [b Hb]. destruct IH as [bs Hbs]; [intros x Hx; apply H; right; exact Hx|].
  exists (b :: bs). cbn [map all_some]. rewrite Hb, Hbs. reflexivity.
Qed.

Lemma w_of_jv_total : forall v, Grammar.wf v = true -> no_exponent v = true -> exists w, w_of_jv v = Some w.
Proof.
  induction v as [t|w|items IH|w|ms IH] using GrammarProofs.jv_ind2; intros Hw Hn.
  - cbn [w_of_jv]. cbn [no_exponent] in Hn. destruct (kind_of_token_total t Hw Hn) as [k ->]. eexists; reflexivity.
  - eexists; reflexivity.
  - rewrite GrammarProofs.wf_arr in Hw. apply andb_prop in Hw. destruct Hw as [_ Hw]. cbn [no_exponent] in Hn.
    cbn [w_of_jv].
    destruct (all_some_total (fun i => let '(_, x, _) := i in w_of_jv x) items) as [bs ->]; [|eexists; reflexivity].
    rewrite forallb_forall in Hw, Hn. rewrite Forall_forall in IH. intros [[w1 x] w2] Hin.
    specialize (Hw _ Hin). specialize (Hn _ Hin). specialize (IH _ Hin). cbn in Hw, Hn, IH.
    apply andb_prop in Hw. destruct Hw as [Hw _]. apply andb_prop in Hw. destruct Hw as [_ Hx]. apply IH; assumption.
  - eexists; reflexivity.
  - rewrite GrammarProofs.wf_obj in Hw. apply andb_prop in Hw. destruct Hw as [_ Hw]. cbn [no_exponent] in Hn.
    cbn [w_of_jv].
    destruct (all_some_total (fun m => let '(_, k, _, _, x, _) := m in
                 option_map (fun w => (Loader.unquote k, @None bool, w)) (w_of_jv x)) ms) as [bs ->]; [|eexists; reflexivity].
    rewrite forallb_forall in Hw, Hn. rewrite Forall_forall in IH. intros [[[[[w1 k] w2] w3] x] w4] Hin.
    specialize (Hw _ Hin). specialize (Hn _ Hin). specialize (IH _ Hin). cbn in Hw, Hn, IH.
    repeat match type of Hw with (_ && _)%bool = true => apply andb_prop in Hw; destruct Hw as [Hw ?] end.
    destruct IH as [w Hwx]; [assumption|assumption|]. rewrite Hwx. eexists; reflexivity.
Qed.

(* the schema the pipeline compiles from such a text *)
Lemma schema_of_plain_json : forall optd w1 v w2 w,
  all_blank w1 = true -> Grammar.wf v = true -> all_blank w2 = true -> no_exponent v = true -> distinct_keys v = true ->
  w_of_jv v = Some w ->
  schema_of_text optd (w1 ++ render v ++ w2) = inr (compile optd w).
Proof.
  intros optd w1 v w2 w H1 Hv H2 Hn Hd Hw. unfold schema_of_text.
  rewrite (load_mirrors_json w1 v w2 H1 Hv H2 Hn Hd), w_of_node_mirror, Hw. reflexivity.
Qed.

(* E1 *)
Theorem e2e_plain_json : forall optd w1 v w2 w d,
  all_blank w1 = true -> Grammar.wf v = true -> all_blank w2 = true -> no_exponent v = true -> distinct_keys v = true ->
  w_of_jv v = Some w ->
  e2e_validate optd (w1 ++ render v ++ w2) d = EVerdict (validate (compile optd w) d).
Proof.
  intros optd w1 v w2 w d H1 Hv H2 Hn Hd Hw. unfold e2e_validate.
  rewrite (schema_of_plain_json optd w1 v w2 w H1 Hv H2 Hn Hd Hw). reflexivity.
Qed.

(* E2 *)
Corollary e2e_plain_json_accepts_iff_shape : forall optd w1 v w2 w d,
  all_blank w1 = true -> Grammar.wf v = true -> all_blank w2 = true -> no_exponent v = true -> distinct_keys v = true ->
  w_of_jv v = Some w ->
  (e2e_validate optd (w1 ++ render v ++ w2) d = EVerdict None <-> shape_ok (compile optd w) d = true).
Proof.
  intros optd w1 v w2 w d H1 Hv H2 Hn Hd Hw.
  rewrite (e2e_plain_json optd w1 v w2 w d H1 Hv H2 Hn Hd Hw), <- validate_iff_shape.
  split; [intros H; inversion H; reflexivity|intros ->; reflexivity].
Qed.

(* the w of E1/E2 always exists *)
Corollary e2e_plain_json_verdict : forall optd w1 v w2 d,
  all_blank w1 = true -> Grammar.wf v = true -> all_blank w2 = true -> no_exponent v = true -> distinct_keys v = true ->
  exists w, w_of_jv v = Some w /\
            e2e_validate optd (w1 ++ render v ++ w2) d = EVerdict (validate (compile optd w) d).
Proof.
  intros optd w1 v w2 d H1 Hv H2 Hn Hd. destruct (w_of_jv_total v Hv Hn) as [w Hw].
  exists w. split; [exact Hw|apply e2e_plain_json; assumption].
Qed.

(* E3 *)
Theorem e2e_layout_invariant : forall optd w1 v w2 w1' v' w2' d,
  all_blank w1 = true -> Grammar.wf v = true -> all_blank w2 = true -> no_exponent v = true -> distinct_keys v = true ->
  all_blank w1' = true -> Grammar.wf v' = true -> all_blank w2' = true -> no_exponent v' = true -> distinct_keys v' = true ->
  mirror v = mirror v' ->
  e2e_validate optd (w1 ++ render v ++ w2) d = e2e_validate optd (w1' ++ render v' ++ w2') d.
Proof.
  intros optd w1 v w2 w1' v' w2' d H1 Hv H2 Hn Hd H1' Hv' H2' Hn' Hd' Hm.
  unfold e2e_validate, schema_of_text.
  rewrite (load_mirrors_json w1 v w2 H1 Hv H2 Hn Hd), (load_mirrors_json w1' v' w2' H1' Hv' H2' Hn' Hd'), Hm.
  reflexivity.
Qed.

(* E3', property C13 (schema half): user comments in the gaps change no verdict.  [is_gap]: blanks and
   line comments; the last gap may end inside a comment ([is_gap_end]) *)
Theorem e2e_json_with_comments : forall optd w1 v w2 w d,
  is_gap w1 = true -> wfg is_gap v = true -> is_gap_end w2 = true -> no_exponent v = true -> distinct_keys v = true ->
  w_of_jv v = Some w ->
  e2e_validate optd (w1 ++ render v ++ w2) d = EVerdict (validate (compile optd w) d).
Proof.
  intros optd w1 v w2 w d H1 Hv H2 Hn Hd Hw. unfold e2e_validate, schema_of_text.
  rewrite (load_mirrors_json_with_comments w1 v w2 H1 Hv H2 Hn Hd), w_of_node_mirror, Hw. reflexivity.
Qed.
Theorem e2e_comments_invariant : forall optd w1 v w2 w1' v' w2' d,
  is_gap w1 = true -> wfg is_gap v = true -> is_gap_end w2 = true -> no_exponent v = true -> distinct_keys v = true ->
  is_gap w1' = true -> wfg is_gap v' = true -> is_gap_end w2' = true -> no_exponent v' = true -> distinct_keys v' = true ->
  mirror v = mirror v' ->
  e2e_validate optd (w1 ++ render v ++ w2) d = e2e_validate optd (w1' ++ render v' ++ w2') d.
Proof.
  intros optd w1 v w2 w1' v' w2' d H1 Hv H2 Hn Hd H1' Hv' H2' Hn' Hd' Hm.
  unfold e2e_validate, schema_of_text.
  rewrite (load_mirrors_json_with_comments w1 v w2 H1 Hv H2 Hn Hd),
          (load_mirrors_json_with_comments w1' v' w2' H1' Hv' H2' Hn' Hd'), Hm.
  reflexivity.
Qed.
(* in particular: a commented layout and a comment-free layout of the same value *)
Corollary e2e_comments_do_not_change_verdicts : forall optd w1 v w2 w1' v' w2' d,
  is_gap w1 = true -> wfg is_gap v = true -> is_gap_end w2 = true -> no_exponent v = true -> distinct_keys v = true ->
  all_blank w1' = true -> Grammar.wf v' = true -> all_blank w2' = true -> no_exponent v' = true -> distinct_keys v' = true ->
  mirror v = mirror v' ->
  e2e_validate optd (w1 ++ render v ++ w2) d = e2e_validate optd (w1' ++ render v' ++ w2') d.
Proof.
  intros optd w1 v w2 w1' v' w2' d H1 Hv H2 Hn Hd H1' Hv' H2' Hn' Hd' Hm.
  apply e2e_comments_invariant; try assumption;
    [exact (all_blank_gap false w1' H1')|apply wf_wfg_gap; exact Hv'|exact (all_blank_gap true w2' H2')].
Qed.

(* E4 *)
Theorem e2e_duplicate_key : forall optd w1 v w2 p d,
  all_blank w1 = true -> Grammar.wf v = true -> all_blank w2 = true -> no_exponent v = true ->
  dup_pos (len w1) v = Some p ->
  e2e_validate optd (w1 ++ render v ++ w2) d = ELoad 402 p.
Proof.
  intros optd w1 v w2 p d H1 Hv H2 Hn Hp. unfold e2e_validate, schema_of_text.
  rewrite (duplicate_key_refused_json w1 v w2 p H1 Hv H2 Hn Hp). reflexivity.
Qed.
