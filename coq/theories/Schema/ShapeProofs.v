(* ShapeProofs.v — property C01: proofs about the rule-free fragment (Schema/Shape.v).
   The operational validator model [validate] accepts exactly the documents of the example's
   shape ([shape_ok]), for every schema, unconditionally.  (Before fix 3827ce7 a nullable
   container refused null and the equivalence needed the hypothesis [no_nullable_container];
   the former finding C01-nullable-container is repaired and the hypothesis is gone.) *)
From Coq Require Import List NArith Bool Arith Lia Permutation.
From Coq Require Import Strings.Byte.
Import ListNotations.
From JS Require Import Common.Wire Schema.Shape.

(* ------------------------------------------------------------------ *)
(* induction principles for the nested inductives                      *)
(* ------------------------------------------------------------------ *)
Section JvalInd.
  Variable P : jval -> Prop.
  Hypothesis HNull : P JNull.
  Hypothesis HBool : P JBool.
  Hypothesis HStr : P JStr.
  Hypothesis HInt : P JInt.
  Hypothesis HFloat : P JFloat.
  Hypothesis HArr : forall xs, Forall P xs -> P (JArr xs).
  Hypothesis HObj : forall ms, Forall (fun m => P (snd m)) ms -> P (JObj ms).

  Fixpoint jval_ind2 (v : jval) : P v :=
    match v with
    | JNull => HNull
    | JBool => HBool
    | JStr => HStr
    | JInt => HInt
    | JFloat => HFloat
    | JArr xs =>
      HArr xs ((fix go (l : list jval) : Forall P l :=
                  match l with
                  | [] => Forall_nil _
                  | x :: r => Forall_cons x (jval_ind2 x) (go r)
                  end) xs)
    | JObj ms =>
      HObj ms ((fix go (l : list (bytes * jval)) : Forall (fun m => P (snd m)) l :=
                  match l with
                  | [] => Forall_nil _
                  | m :: r =>
                    Forall_cons m
                      (match m as m0 return P (snd m0) with (_, x) => jval_ind2 x end)
                      (go r)
                  end) ms)
    end.
End JvalInd.

Section WnodeInd.
  Variable P : wnode -> Prop.
  Hypothesis HLit : forall k nl an, P (WLit k nl an).
  Hypothesis HObj : forall ms nl an, Forall (fun m => P (snd m)) ms -> P (WObj ms nl an).
  Hypothesis HArr : forall items nl an, Forall P items -> P (WArr items nl an).

  Fixpoint wnode_ind2 (w : wnode) : P w :=
    match w with
    | WLit k nl an => HLit k nl an
    | WObj ms nl an =>
      HObj ms nl an
           ((fix go (l : list (bytes * option bool * wnode)) : Forall (fun m => P (snd m)) l :=
               match l with
               | [] => Forall_nil _
               | m :: r =>
                 Forall_cons m
                   (match m as m0 return P (snd m0) with (_, x) => wnode_ind2 x end)
                   (go r)
               end) ms)
    | WArr items nl an =>
      HArr items nl an
           ((fix go (l : list wnode) : Forall P l :=
               match l with
               | [] => Forall_nil _
               | x :: r => Forall_cons x (wnode_ind2 x) (go r)
               end) items)
    end.
End WnodeInd.

(* ------------------------------------------------------------------ *)
(* key equality                                                        *)
(* ------------------------------------------------------------------ *)
Lemma byte_eqb_sym : forall a b, byte_eqb a b = byte_eqb b a.
Proof. intros a b. unfold byte_eqb. apply N.eqb_sym. Qed.

Lemma byte_eqb_refl : forall a, byte_eqb a a = true.
Proof. intros a. unfold byte_eqb. apply N.eqb_refl. Qed.

Fixpoint beq (a b : bytes) : bool :=
  match a, b with
  | [], [] => true
  | x :: a', y :: b' => (byte_eqb x y && beq a' b')%bool
  | _, _ => false
  end.

Lemma bytes_eqb_beq : forall a b, bytes_eqb a b = beq a b.
Proof.
  unfold bytes_eqb.
  induction a as [|x a IHa]; intros [|y b]; cbn [length Nat.eqb combine forallb fst snd beq andb]; try reflexivity.
  rewrite <- IHa.
  destruct (byte_eqb x y); destruct (Nat.eqb (length a) (length b)); reflexivity.
Qed.

Lemma beq_sym : forall a b, beq a b = beq b a.
Proof.
  induction a as [|x a IHa]; intros [|y b]; cbn [beq]; try reflexivity.
  rewrite IHa, byte_eqb_sym. reflexivity.
Qed.

Lemma beq_refl : forall a, beq a a = true.
Proof.
  induction a as [|x a IHa]; cbn [beq]; [reflexivity|].
  rewrite IHa, byte_eqb_refl. reflexivity.
Qed.

Lemma bytes_eqb_sym : forall a b, bytes_eqb a b = bytes_eqb b a.
Proof. intros a b. rewrite !bytes_eqb_beq. apply beq_sym. Qed.

Lemma bytes_eqb_refl : forall a, bytes_eqb a a = true.
Proof. intros a. rewrite bytes_eqb_beq. apply beq_refl. Qed.

(* ------------------------------------------------------------------ *)
(* the inner loops, named                                              *)
(* ------------------------------------------------------------------ *)
Definition is_any (n : snode) : bool :=
  match n with SLit _ _ a | SObj _ _ a | SArr _ _ a => a end.

Fixpoint members_loop (ms : list (bytes * bool * snode)) (dms : list (bytes * jval)) (req : list bytes)
  : option nat :=
  match dms with
  | [] => match req with [] => None | _ => Some E_REQUIRED_KEY end
  | (key, x) :: r =>
    match find_member key ms with
    | None => Some E_UNKNOWN_KEY
    | Some child =>
      match validate child x with
      | Some e => Some e
      | None => members_loop ms r (remove_key key req)
      end
    end
  end.

Fixpoint elems_loop (items : list snode) (xs : list jval) (i : nat) : option nat :=
  match xs with
  | [] => None
  | x :: r =>
    match last_or items i with
    | None => Some E_ELEMENT_NOT_FOUND
    | Some child =>
      match validate child x with
      | Some e => Some e
      | None => elems_loop items r (S i)
      end
    end
  end.

Fixpoint all_members (ms : list (bytes * bool * snode)) (dms : list (bytes * jval)) : bool :=
  match dms with
  | [] => true
  | (key, x) :: r =>
    (match find_member key ms with Some child => shape_ok child x | None => false end
     && all_members ms r)%bool
  end.

Fixpoint all_elems (items : list snode) (xs : list jval) (i : nat) : bool :=
  match xs with
  | [] => true
  | x :: r =>
    (match last_or items i with Some child => shape_ok child x | None => false end
     && all_elems items r (S i))%bool
  end.

Definition keys_present (dms : list (bytes * jval)) (req : list bytes) : bool :=
  forallb (fun key => existsb (fun d => bytes_eqb (fst d) key) dms) req.

(* unfolding equations of [validate] *)
Lemma validate_any : forall n v, is_any n = true -> validate n v = None.
Proof.
  intros n v H. destruct n as [k nl an|ms nl an|items nl an]; cbn [is_any] in H; subst an;
    destruct v; reflexivity.
Qed.

Lemma validate_lit : forall k nl v,
  validate (SLit k nl false) v =
  if is_container v then Some E_LEX_LITERAL
  else if lit_kind_ok k nl v then None else Some E_VALUE_TYPE.
Proof. intros k nl v. destruct v; reflexivity. Qed.

Lemma validate_obj_obj : forall ms nl dms,
  validate (SObj ms nl false) (JObj dms) = members_loop ms dms (required_keys ms).
Proof.
  intros ms nl dms. cbn [validate]. generalize (required_keys ms).
  induction dms as [|[key x] r IH]; intros req; [reflexivity|].
  cbn [members_loop]. destruct (find_member key ms) as [child|]; [|reflexivity].
  destruct (validate child x) as [e|]; [reflexivity|]. apply IH.
Qed.

Lemma validate_obj_other : forall ms nl v, (forall dms, v <> JObj dms) ->
  validate (SObj ms nl false) v = container_mismatch nl E_LEX_OBJECT v.
Proof.
  intros ms nl v H. destruct v as [| | | | |xs|dms]; try reflexivity.
  exfalso. apply (H dms). reflexivity.
Qed.

(* the one-leaf case: the old "unexpected lexeme" error *)
Lemma validate_obj_other_nn : forall ms v, (forall dms, v <> JObj dms) ->
  validate (SObj ms false false) v = Some E_LEX_OBJECT.
Proof. intros ms v H. rewrite (validate_obj_other ms false v H). reflexivity. Qed.

Lemma validate_arr_arr : forall items nl xs,
  validate (SArr items nl false) (JArr xs) = elems_loop items xs 0.
Proof.
  intros items nl xs. cbn [validate]. generalize 0.
  induction xs as [|x r IH]; intros i; [reflexivity|].
  cbn [elems_loop]. destruct (last_or items i) as [child|]; [|reflexivity].
  destruct (validate child x) as [e|]; [reflexivity|]. apply IH.
Qed.

Lemma validate_arr_other : forall items nl v, (forall xs, v <> JArr xs) ->
  validate (SArr items nl false) v = container_mismatch nl E_LEX_ARRAY v.
Proof.
  intros items nl v H. destruct v as [| | | | |xs|dms]; try reflexivity.
  exfalso. apply (H xs). reflexivity.
Qed.

Lemma validate_arr_other_nn : forall items v, (forall xs, v <> JArr xs) ->
  validate (SArr items false false) v = Some E_LEX_ARRAY.
Proof. intros items v H. rewrite (validate_arr_other items false v H). reflexivity. Qed.

(* [container_mismatch] accepts exactly null under nullable *)
Lemma container_mismatch_none : forall nl e v,
  container_mismatch nl e v = None <-> (nl = true /\ v = JNull).
Proof.
  intros nl e v. destruct nl; destruct v; cbn [container_mismatch]; split;
    try (intros H; discriminate H); try (intros [H1 H2]; discriminate);
    try (intros _; split; reflexivity); intros _; reflexivity.
Qed.

(* unfolding equations of [shape_ok] *)
Lemma shape_any : forall n v, is_any n = true -> shape_ok n v = true.
Proof.
  intros n v H. destruct n as [k nl an|ms nl an|items nl an]; cbn [is_any] in H; subst an;
    destruct v; reflexivity.
Qed.

Lemma shape_lit : forall k nl v,
  shape_ok (SLit k nl false) v = (negb (is_container v) && lit_kind_ok k nl v)%bool.
Proof. intros k nl v. destruct v; reflexivity. Qed.

Lemma shape_obj_obj : forall ms nl dms,
  shape_ok (SObj ms nl false) (JObj dms) = (keys_present dms (required_keys ms) && all_members ms dms)%bool.
Proof.
  intros ms nl dms. cbn [shape_ok]. fold (keys_present dms (required_keys ms)). f_equal.
  induction dms as [|[key x] r IH]; [reflexivity|].
  cbn [all_members]. rewrite <- IH. reflexivity.
Qed.

Lemma shape_obj_null : forall ms nl, shape_ok (SObj ms nl false) JNull = nl.
Proof. intros. reflexivity. Qed.

Lemma shape_obj_other : forall ms nl v, (forall dms, v <> JObj dms) -> v <> JNull ->
  shape_ok (SObj ms nl false) v = false.
Proof.
  intros ms nl v H H0. destruct v; try reflexivity.
  - exfalso. apply H0. reflexivity.
  - exfalso. apply (H ms0). reflexivity.
Qed.

Lemma shape_arr_arr : forall items nl xs,
  shape_ok (SArr items nl false) (JArr xs) = all_elems items xs 0.
Proof.
  intros items nl xs. cbn [shape_ok]. generalize 0.
  induction xs as [|x r IH]; intros i; [reflexivity|].
  cbn [all_elems]. rewrite <- IH. reflexivity.
Qed.

Lemma shape_arr_null : forall items nl, shape_ok (SArr items nl false) JNull = nl.
Proof. intros. reflexivity. Qed.

Lemma shape_arr_other : forall items nl v, (forall xs, v <> JArr xs) -> v <> JNull ->
  shape_ok (SArr items nl false) v = false.
Proof.
  intros items nl v H H0. destruct v; try reflexivity.
  - exfalso. apply H0. reflexivity.
  - exfalso. apply (H xs). reflexivity.
Qed.

(* ------------------------------------------------------------------ *)
(* list helpers                                                        *)
(* ------------------------------------------------------------------ *)
Lemma keys_present_nil : forall req, keys_present [] req = true <-> req = [].
Proof.
  intros [|k req]; unfold keys_present; cbn [forallb existsb andb]; split; intros H;
    try reflexivity; discriminate H.
Qed.

(* removing a document key from the still-required keys = that key counts as present *)
Lemma keys_present_cons : forall key x r req,
  keys_present ((key, x) :: r) req = keys_present r (remove_key key req).
Proof.
  intros key x r req. unfold keys_present, remove_key. cbn [existsb fst].
  induction req as [|k req IH]; [reflexivity|].
  cbn [forallb filter]. rewrite (bytes_eqb_sym k key).
  destruct (bytes_eqb key k); cbn [negb orb forallb andb]; rewrite IH; reflexivity.
Qed.

Lemma find_member_nnc : forall key ms child,
  forallb (fun m => no_nullable_container (snd m)) ms = true ->
  find_member key ms = Some child -> no_nullable_container child = true.
Proof.
  intros key ms child. induction ms as [|[[k b] x] ms IH]; cbn [find_member forallb snd]; intros Hn Hf.
  - discriminate Hf.
  - apply andb_true_iff in Hn. destruct Hn as [Hx Hms].
    destruct (bytes_eqb k key).
    + injection Hf as Hf. subst x. exact Hx.
    + apply IH; assumption.
Qed.

Lemma last_or_in : forall (items : list snode) i child, last_or items i = Some child -> In child items.
Proof.
  intros items i child H. unfold last_or in H. destruct items as [|a items]; [discriminate H|].
  eapply nth_error_In. exact H.
Qed.

Lemma last_or_nnc : forall items i child,
  forallb no_nullable_container items = true ->
  last_or items i = Some child -> no_nullable_container child = true.
Proof.
  intros items i child Hn Hl. rewrite forallb_forall in Hn. apply Hn. eapply last_or_in. exact Hl.
Qed.

(* ------------------------------------------------------------------ *)
(* the agreement of [validate] and [shape_ok]                          *)
(* ------------------------------------------------------------------ *)
Definition agree_at (n : snode) (v : jval) : Prop :=
  validate n v = None <-> shape_ok n v = true.

Definition agree (v : jval) : Prop := forall n, agree_at n v.

Lemma agree_any : forall n v, is_any n = true -> agree_at n v.
Proof.
  intros n v H. split; intros _; [apply shape_any|apply validate_any]; exact H.
Qed.

Lemma agree_lit : forall k nl v, agree_at (SLit k nl false) v.
Proof.
  intros k nl v. unfold agree_at. rewrite validate_lit, shape_lit.
  destruct (is_container v); destruct (lit_kind_ok k nl v); cbn [negb andb];
    split; intros H; try reflexivity; discriminate H.
Qed.

Lemma agree_obj_other : forall ms nl v, (forall dms, v <> JObj dms) -> agree_at (SObj ms nl false) v.
Proof.
  intros ms nl v H. unfold agree_at. rewrite (validate_obj_other ms nl v H).
  destruct v as [| | | | |xs|dms];
    try (destruct nl; cbn [container_mismatch shape_ok]; split; intros H0;
         try reflexivity; discriminate H0).
  exfalso. apply (H dms). reflexivity.
Qed.

Lemma agree_arr_other : forall items nl v, (forall xs, v <> JArr xs) -> agree_at (SArr items nl false) v.
Proof.
  intros items nl v H. unfold agree_at. rewrite (validate_arr_other items nl v H).
  destruct v as [| | | | |xs|dms];
    try (destruct nl; cbn [container_mismatch shape_ok]; split; intros H0;
         try reflexivity; discriminate H0).
  exfalso. apply (H xs). reflexivity.
Qed.

Lemma members_agree : forall ms dms, Forall (fun m => agree (snd m)) dms -> forall req,
  members_loop ms dms req = None <-> (keys_present dms req = true /\ all_members ms dms = true).
Proof.
  intros ms dms HF. induction HF as [|[key x] r Hx HF IH]; intros req.
  - cbn [members_loop all_members]. destruct req as [|k req].
    + split; [intros _; split; reflexivity|intros _; reflexivity].
    + split; [intros H; discriminate H|].
      intros [H _]. apply keys_present_nil in H. discriminate H.
  - cbn [members_loop all_members]. rewrite keys_present_cons. cbn [snd] in Hx.
    destruct (find_member key ms) as [child|] eqn:Hf.
    + destruct (Hx child) as [Hs Hc]. destruct (IH (remove_key key req)) as [IH1 IH2]. split.
      * destruct (validate child x) as [e|] eqn:Hv; [intros H; discriminate H|].
        intros H. apply IH1 in H. destruct H as [Hk Ha]. split; [exact Hk|].
        rewrite (Hs eq_refl), Ha. reflexivity.
      * intros [Hk Ha]. apply andb_true_iff in Ha. destruct Ha as [Ha1 Ha2].
        rewrite (Hc Ha1). apply IH2. split; assumption.
    + split; [intros H; discriminate H|]. intros [_ H]. discriminate H.
Qed.

Lemma elems_agree : forall items xs, Forall agree xs -> forall i,
  elems_loop items xs i = None <-> all_elems items xs i = true.
Proof.
  intros items xs HF. induction HF as [|x r Hx HF IH]; intros i.
  - cbn [elems_loop all_elems]. split; intros _; reflexivity.
  - cbn [elems_loop all_elems].
    destruct (last_or items i) as [child|] eqn:Hl.
    + destruct (Hx child) as [Hs Hc]. destruct (IH (S i)) as [IH1 IH2]. split.
      * destruct (validate child x) as [e|] eqn:Hv; [intros H; discriminate H|].
        intros H. apply IH1 in H. rewrite (Hs eq_refl), H. reflexivity.
      * intros Ha. apply andb_true_iff in Ha. destruct Ha as [Ha1 Ha2].
        rewrite (Hc Ha1). apply IH2. exact Ha2.
    + split; intros H; discriminate H.
Qed.

Lemma agree_obj_obj : forall ms nl dms, Forall (fun m => agree (snd m)) dms ->
  agree_at (SObj ms nl false) (JObj dms).
Proof.
  intros ms nl dms HF. unfold agree_at. rewrite validate_obj_obj, shape_obj_obj.
  destruct (members_agree ms dms HF (required_keys ms)) as [H1 H2]. split.
  - intros H. apply H1 in H. destruct H as [Hk Ha]. rewrite Hk, Ha. reflexivity.
  - intros Hs. apply andb_true_iff in Hs. apply H2. exact Hs.
Qed.

Lemma agree_arr_arr : forall items nl xs, Forall agree xs ->
  agree_at (SArr items nl false) (JArr xs).
Proof.
  intros items nl xs HF. unfold agree_at. rewrite validate_arr_arr, shape_arr_arr.
  exact (elems_agree items xs HF 0).
Qed.

Lemma agree_scalar : forall v, is_container v = false -> agree v.
Proof.
  intros v Hc n. destruct (is_any n) eqn:Ha; [apply agree_any; exact Ha|].
  destruct n as [k nl an|ms nl an|items nl an]; cbn [is_any] in Ha; subst an.
  - apply agree_lit.
  - apply agree_obj_other. intros dms E. subst v. discriminate Hc.
  - apply agree_arr_other. intros xs E. subst v. discriminate Hc.
Qed.

Theorem agree_all : forall v, agree v.
Proof.
  induction v as [| | | | |xs HF|dms HF] using jval_ind2; try (apply agree_scalar; reflexivity).
  - intros n. destruct (is_any n) eqn:Ha; [apply agree_any; exact Ha|].
    destruct n as [k nl an|ms nl an|items nl an]; cbn [is_any] in Ha; subst an.
    + apply agree_lit.
    + apply agree_obj_other. intros dms E. discriminate E.
    + apply agree_arr_arr. exact HF.
  - intros n. destruct (is_any n) eqn:Ha; [apply agree_any; exact Ha|].
    destruct n as [k nl an|ms nl an|items nl an]; cbn [is_any] in Ha; subst an.
    + apply agree_lit.
    + apply agree_obj_obj. exact HF.
    + apply agree_arr_other. intros xs E. discriminate E.
Qed.

(* ------------------------------------------------------------------ *)
(* the theorems                                                        *)
(* ------------------------------------------------------------------ *)
(* unconditional since fix 3827ce7 *)
Theorem validate_iff_shape : forall n v, validate n v = None <-> shape_ok n v = true.
Proof. intros n v. exact (agree_all v n). Qed.

(* the soundness half (the name dates from when completeness failed on nullable containers) *)
Theorem validate_shape_disagree_only_nullable : forall n v,
  (validate n v = None -> shape_ok n v = true).
Proof. intros n v. exact (proj1 (validate_iff_shape n v)). Qed.

Theorem shape_implies_validate : forall n v, shape_ok n v = true -> validate n v = None.
Proof. intros n v. exact (proj2 (validate_iff_shape n v)). Qed.

(* replaces the former finding [nullable_container_refuted] *)
Theorem nullable_container_accepts_null : forall ms items an,
  validate (SObj ms true an) JNull = None /\ validate (SArr items true an) JNull = None.
Proof. intros ms items an. destruct an; split; reflexivity. Qed.

Theorem non_nullable_container_rejects_null : forall ms items,
  validate (SObj ms false false) JNull = Some E_LEX_OBJECT /\
  validate (SArr items false false) JNull = Some E_LEX_ARRAY.
Proof. intros ms items. split; reflexivity. Qed.

(* the error codes of the two-leaf outcome (nullable container, document of another kind) *)
Theorem nullable_container_mismatch_codes : forall ms items v,
  (forall dms, v <> JObj dms) -> (forall xs, v <> JArr xs) -> v <> JNull ->
  validate (SObj ms true false) v = Some E_VALUE_TYPE /\
  validate (SArr items true false) v = Some E_VALUE_TYPE /\
  validate (SObj ms true false) (JArr []) = Some E_OR_RULE_SET /\
  validate (SArr items true false) (JObj []) = Some E_OR_RULE_SET.
Proof.
  intros ms items v Ho Ha Hn. destruct v as [| | | | |xs|dms].
  - exfalso. apply Hn. reflexivity.
  - repeat split; reflexivity.
  - repeat split; reflexivity.
  - repeat split; reflexivity.
  - repeat split; reflexivity.
  - exfalso. apply (Ha xs). reflexivity.
  - exfalso. apply (Ho dms). reflexivity.
Qed.

(* ------------------------------------------------------------------ *)
(* order of the document's properties                                  *)
(* ------------------------------------------------------------------ *)
Lemma existsb_perm : forall A (f : A -> bool) l l', Permutation l l' -> existsb f l = existsb f l'.
Proof.
  intros A f l l' HP. induction HP as [|a l l' HP IH|a b l|l l' l'' HP1 IH1 HP2 IH2]; cbn [existsb].
  - reflexivity.
  - rewrite IH. reflexivity.
  - destruct (f a); destruct (f b); reflexivity.
  - rewrite IH1. exact IH2.
Qed.

Lemma forallb_perm : forall A (f : A -> bool) l l', Permutation l l' -> forallb f l = forallb f l'.
Proof.
  intros A f l l' HP. induction HP as [|a l l' HP IH|a b l|l l' l'' HP1 IH1 HP2 IH2]; cbn [forallb].
  - reflexivity.
  - rewrite IH. reflexivity.
  - destruct (f a); destruct (f b); reflexivity.
  - rewrite IH1. exact IH2.
Qed.

Definition member_ok (ms : list (bytes * bool * snode)) (d : bytes * jval) : bool :=
  match find_member (fst d) ms with Some child => shape_ok child (snd d) | None => false end.

Lemma all_members_forallb : forall ms dms, all_members ms dms = forallb (member_ok ms) dms.
Proof.
  intros ms dms. induction dms as [|[key x] r IH]; [reflexivity|].
  cbn [all_members forallb]. rewrite IH. reflexivity.
Qed.

Lemma keys_present_perm : forall dms dms' req, Permutation dms dms' ->
  keys_present dms req = keys_present dms' req.
Proof.
  intros dms dms' req HP. unfold keys_present.
  induction req as [|k req IH]; [reflexivity|].
  cbn [forallb]. rewrite IH. rewrite (existsb_perm _ _ dms dms' HP). reflexivity.
Qed.

Theorem shape_ok_perm : forall ms nl an dms dms', Permutation dms dms' ->
  shape_ok (SObj ms nl an) (JObj dms) = shape_ok (SObj ms nl an) (JObj dms').
Proof.
  intros ms nl an dms dms' HP. destruct an.
  - rewrite !shape_any; reflexivity.
  - rewrite !shape_obj_obj, !all_members_forallb.
    rewrite (keys_present_perm dms dms' _ HP), (forallb_perm _ (member_ok ms) dms dms' HP).
    reflexivity.
Qed.

Theorem validate_perm : forall ms nl an dms dms', Permutation dms dms' ->
  (validate (SObj ms nl an) (JObj dms) = None <-> validate (SObj ms nl an) (JObj dms') = None).
Proof.
  intros ms nl an dms dms' HP.
  rewrite (validate_iff_shape _ (JObj dms)), (validate_iff_shape _ (JObj dms')).
  rewrite (shape_ok_perm ms nl an dms dms' HP). reflexivity.
Qed.

(* ------------------------------------------------------------------ *)
(* KeysAreOptionalByDefault                                            *)
(* ------------------------------------------------------------------ *)
Definition mark_default (mark : option bool) : option bool :=
  match mark with None => Some true | Some b => Some b end.

Fixpoint mark_unmarked (w : wnode) : wnode :=
  match w with
  | WLit k nl an => WLit k nl an
  | WObj ms nl an =>
    WObj (map (fun m => let '(key, mark, x) := m in (key, mark_default mark, mark_unmarked x)) ms) nl an
  | WArr items nl an => WArr (map mark_unmarked items) nl an
  end.

Lemma required_mark_default : forall mark, required true mark = required false (mark_default mark).
Proof. intros [b|]; reflexivity. Qed.

Theorem keys_optional_by_default : forall w, compile true w = compile false (mark_unmarked w).
Proof.
  induction w as [k nl an|ms nl an HF|items nl an HF] using wnode_ind2.
  - reflexivity.
  - cbn [compile mark_unmarked]. rewrite map_map. f_equal.
    induction HF as [|[[key mark] x] r Hx HF IH]; [reflexivity|].
    cbn [map]. cbn [snd] in Hx. rewrite IH, Hx, required_mark_default. reflexivity.
  - cbn [compile mark_unmarked]. rewrite map_map. f_equal.
    induction HF as [|x r Hx HF IH]; [reflexivity|].
    cbn [map]. rewrite IH, Hx. reflexivity.
Qed.

(* ------------------------------------------------------------------ *)
(* literals and arrays                                                 *)
(* ------------------------------------------------------------------ *)
Theorem literal_cases : forall k nl v, is_container v = false ->
  (validate (SLit k nl false) v = None <-> lit_kind_ok k nl v = true).
Proof.
  intros k nl v Hc. rewrite validate_lit, Hc.
  destruct (lit_kind_ok k nl v); split; intros H; try reflexivity; discriminate H.
Qed.

Theorem empty_array_only_empty : forall nl xs,
  validate (SArr [] nl false) (JArr xs) = None <-> xs = [].
Proof.
  intros nl xs. rewrite validate_arr_arr. destruct xs as [|x r]; cbn [elems_loop last_or].
  - split; intros _; reflexivity.
  - split; intros H; discriminate H.
Qed.

(* element i is governed by example element min(i, last) *)
Lemma last_or_spec : forall (items : list snode) i, items <> [] ->
  last_or items i = nth_error items (Nat.min i (length items - 1)).
Proof. intros [|a items] i H; [exfalso; apply H; reflexivity|reflexivity]. Qed.

Theorem array_elements_by_min_index : forall items nl xs,
  (validate (SArr items nl false) (JArr xs) = None <->
   forall i x, nth_error xs i = Some x ->
     exists child, nth_error items (Nat.min i (length items - 1)) = Some child /\ items <> [] /\
                   validate child x = None).
Proof.
  intros items nl xs. rewrite validate_arr_arr.
  assert (G : forall xs k, elems_loop items xs k = None <->
            forall i x, nth_error xs i = Some x ->
              exists child, nth_error items (Nat.min (k + i) (length items - 1)) = Some child /\
                            items <> [] /\ validate child x = None).
  { clear xs. induction xs as [|x r IH]; intros k; cbn [elems_loop].
    - split; [|intros _; reflexivity]. intros _ i x H. destruct i; discriminate H.
    - split.
      + destruct (last_or items k) as [child|] eqn:Hl; [|intros H; discriminate H].
        destruct (validate child x) as [e|] eqn:Hv; [intros H; discriminate H|].
        intros H i y Hy. destruct i as [|i].
        * cbn [nth_error] in Hy. injection Hy as Hy. subst y. exists child.
          rewrite Nat.add_0_r. destruct items as [|a items]; [discriminate Hl|].
          split; [exact Hl|]. split; [intros E; discriminate E|exact Hv].
        * cbn [nth_error] in Hy. rewrite Nat.add_succ_r.
          apply (proj1 (IH (S k)) H i y Hy).
      + intros H. destruct (H 0 x eq_refl) as [child [Hc [Hne Hv]]].
        rewrite Nat.add_0_r in Hc. rewrite (last_or_spec items k Hne), Hc, Hv.
        apply (proj2 (IH (S k))). intros i y Hy.
        specialize (H (S i) y Hy). rewrite Nat.add_succ_r in H. exact H. }
  exact (G xs 0).
Qed.
