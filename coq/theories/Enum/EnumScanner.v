(* EnumScanner.v — executable model of /repo/rules/enum/scanner.go (the pushdown scanner
   for enum rule texts such as  [1, "a", // comment \n null] ) and of the consumers in
   /repo/rules/enum/enum.go that matter: Enum.Len() (scanner.Length() in
   scannerComputeLength mode, with the trailing-blank trimming) and Enum.Check()
   (doCompile; verdict only).

   The Go scanner is a sibling of formats/json/scanner.go (modelled in Json/Scanner.v):
   [step] is one of 33 stored state functions, [stack] holds the opening lexical events
   not yet closed, [finds] queues the event types found by one step; Next() drains the
   queue (pushing opening events, popping and pairing closing ones, computing spans)
   before it reads the next byte.  Consequently every state function sees a stack to
   which all earlier finds have been applied, and a state function may queue several
   finds itself while reading the *old* stack (stateEndValue looks at the top two
   entries, stateFoundArrayEnd at the depth).  The model keeps exactly this order.

   What is different from the JSON scanner and is modelled here:
   - errors are returned, not panicked; the stream ends at the first error, and the finds
     queued by the failing step are never delivered (EndTop is therefore never delivered:
     it is always queued together with errEOS);
   - the top level must be an array ('[' or ErrEnumArrayExpected);
   - NewLine events; inline (//) and multi-line (/* */) annotations with their text
     events; [returnToStep], the stack of step functions to come back to (after an
     annotation, after a \uXXXX escape); the [annotation] flag;
   - exponent forms of numbers are refused;
   - every completed literal is checked for duplicates (validateValue / newEnumItem:
     TrimSpaces, json.Guess(..).JsonType(), Unquote for strings);
   - the end-of-input rules of processTail (a finished literal, an inline annotation and
     its text are closed by the end of input; each call bumps index once more);
   - scannerComputeLength mode (stateEndTop: EndTop + errEOS on the first foreign byte,
     hasTrailingCharacters; stateEndValue: the InlineAnnotationBegin branch, which
     re-dispatches to a popped step function).
   stateMultiLineAnnotationText peeks at the byte after the current one; the step function
   therefore takes the next byte as an argument.

   Positions are N.  Go's uint arithmetic is modelled by N with truncated subtraction; the
   places where the two could differ (index-1 at index 0, dataSize-1 at dataSize 0) are
   not reachable because something must have been opened first.

   No proofs in this file. *)
From Coq Require Import List NArith Bool Arith.
From Coq Require Import Strings.Byte.
Import ListNotations.
From JS Require Import Common.Wire.
From JS Require Json.Scanner Text.Unquote Num.NumModel.

(* ---------- byte classes (bytes/byte.go); shared with the JSON scanner model ---------- *)
Definition bN (c : byte) : N := Scanner.bN c.
Definition ch (c : byte) (n : N) : bool := Scanner.ch c n.
Definition is_blank (c : byte) : bool := Scanner.is_blank c.          (* space, tab, \n, \r *)
Definition is_newline (c : byte) : bool := (ch c 10 || ch c 13)%bool.
Definition is_digit (c : byte) : bool := Scanner.is_digit c.
Definition is_digit19 (c : byte) : bool := Scanner.is_digit19 c.
Definition is_hex (c : byte) : bool := Scanner.is_hex c.
Definition is_ctl (c : byte) : bool := Scanner.is_ctl c.                (* c < 0x20 *)

Fixpoint bytes_eqb (a b : bytes) : bool :=
  match a, b with
  | [], [] => true
  | x :: a', y :: b' => (byte_eqb x y && bytes_eqb a' b')%bool
  | _, _ => false
  end.

(* ---------- lexical event types (internal/lexeme/lex_event_type.go; the enum subset) ---------- *)
Inductive ev :=
| LiteralBegin | LiteralEnd | ArrayBegin | ArrayEnd | ArrayItemBegin | ArrayItemEnd
| InlineAnnotationBegin | InlineAnnotationEnd | InlineAnnotationTextBegin | InlineAnnotationTextEnd
| MultiLineAnnotationBegin | MultiLineAnnotationEnd
| MultiLineAnnotationTextBegin | MultiLineAnnotationTextEnd
| NewLine | EndTop.

Definition ev_code (e : ev) : nat :=
  match e with
  | LiteralBegin => 0 | LiteralEnd => 1
  | ArrayBegin => 8 | ArrayEnd => 9 | ArrayItemBegin => 10 | ArrayItemEnd => 11
  | InlineAnnotationBegin => 12 | InlineAnnotationEnd => 13
  | InlineAnnotationTextBegin => 14 | InlineAnnotationTextEnd => 15
  | MultiLineAnnotationBegin => 16 | MultiLineAnnotationEnd => 17
  | MultiLineAnnotationTextBegin => 18 | MultiLineAnnotationTextEnd => 19
  | NewLine => 20 | EndTop => 27
  end.
Definition is_opening (e : ev) : bool :=
  match e with
  | LiteralBegin | ArrayBegin | ArrayItemBegin
  | MultiLineAnnotationBegin | InlineAnnotationBegin
  | InlineAnnotationTextBegin | MultiLineAnnotationTextBegin => true
  | _ => false
  end.
(* isNonScalarPair / isScalarPair of rules/enum/scanner.go *)
Definition nonscalar_pair (p e : ev) : bool :=
  match p, e with
  | ArrayBegin, ArrayEnd | MultiLineAnnotationBegin, MultiLineAnnotationEnd => true
  | _, _ => false
  end.
Definition scalar_pair (p e : ev) : bool :=
  match p, e with
  | LiteralBegin, LiteralEnd | ArrayItemBegin, ArrayItemEnd
  | MultiLineAnnotationTextBegin, MultiLineAnnotationTextEnd
  | InlineAnnotationTextBegin, InlineAnnotationTextEnd
  | InlineAnnotationBegin, InlineAnnotationEnd => true
  | _, _ => false
  end.

(* ---------- the 33 stored step functions ---------- *)
Inductive st :=
| SBegin | FoundArrayItemBeginOrEmpty | FoundArrayItemBegin
| EndValue | AfterArrayItem | SEndTop
| InString | InStringEsc | InStringEscU | InStringEscU1 | InStringEscU12 | InStringEscU123
| Neg | S1 | S0 | Dot | Dot0
| ST | STr | STru | SF | SFa | SFal | SFals | SN | SNu | SNul
| StAnyAnnotationStart | StInlineAnnotation | StInlineAnnotationText
| StMultiLineAnnotation | StMultiLineAnnotationText | StMultiLineAnnotationEnd.

(* ---------- enumItemValue (enum_item_value.go): the key of the duplicate check ---------- *)
(* internal/json/json_type.go *)
Inductive jtype := JObject | JArray | JString | JInteger | JFloat | JBoolean | JNull | JMixed.
Definition jtype_code (t : jtype) : nat :=
  match t with
  | JObject => 1 | JArray => 2 | JString => 3 | JInteger => 4 | JFloat => 5
  | JBoolean => 6 | JNull => 7 | JMixed => 8
  end.

Definition lit_true : bytes := [x74; x72; x75; x65].
Definition lit_false : bytes := [x66; x61; x6c; x73; x65].
Definition lit_null : bytes := [x6e; x75; x6c; x6c].

(* bytes.IsValidUserTypeNameByte / Bytes.IsUserTypeName *)
Definition is_user_type_name_byte (c : byte) : bool :=
  let n := bN c in
  (N.eqb n 45 || N.eqb n 95 || (N.leb 97 n && N.leb n 122) || (N.leb 65 n && N.leb n 90)
   || is_digit c)%bool.
Definition is_user_type_name (b : bytes) : bool :=
  match b with
  | c :: ((_ :: _) as r) => (ch c 64 && forallb is_user_type_name_byte r)%bool
  | _ => false
  end.

(* GuessData.JsonType (internal/json/guess.go); None = panic "Node type can't be guessed" *)
Definition json_type (b : bytes) : option jtype :=
  if bytes_eqb b [x7b] then Some JObject
  else if bytes_eqb b [x5b] then Some JArray
  else if Unquote.in_quotes b then Some JString
  else if (bytes_eqb b lit_true || bytes_eqb b lit_false)%bool then Some JBoolean
  else if bytes_eqb b lit_null then Some JNull
  else if NumModel.is_integer b then Some JInteger
  else if NumModel.is_float b then Some JFloat
  else if is_user_type_name b then Some JMixed
  else None.

(* Bytes.TrimSpaces *)
Fixpoint drop_blank (b : bytes) : bytes :=
  match b with
  | c :: r => if is_blank c then drop_blank r else b
  | [] => []
  end.
Definition trim_spaces (b : bytes) : bytes := frev (drop_blank (frev (drop_blank b))).

Definition key := (bytes * jtype)%type.
Definition key_eqb (a b : key) : bool :=
  (Nat.eqb (jtype_code (snd a)) (jtype_code (snd b)) && bytes_eqb (fst a) (fst b))%bool.

(* newEnumItem *)
Definition enum_item (v : bytes) : option key :=
  let b := trim_spaces v in
  match json_type b with
  | None => None
  | Some JString => Some (Unquote.unquote b, JString)
  | Some JInteger => Some (match NumModel.scan b with Some n => NumModel.num_string n | None => b end, JInteger)   (* fix 7bb5f56: numbers of one kind *)
  | Some JFloat => Some (match NumModel.scan b with Some n => NumModel.num_string n | None => b end, JFloat)       (* are keyed by their value *)
  | Some t => Some (b, t)
  end.

(* b[lo:hi]; None = slice bounds out of range *)
Definition slice (data : bytes) (lo hi : N) : option bytes :=
  if (N.leb lo hi && N.leb hi (N.of_nat (length data)))%bool
  then Some (firstn (N.to_nat (hi - lo)) (skipn (N.to_nat lo) data))
  else None.

(* ---------- the scanner structure ---------- *)
Record sc := mksc {
  s_step : st;                  (* step *)
  s_ret : list st;              (* returnToStep, top first *)
  s_stack : list (ev * N);      (* stack of opening events (type, begin), top first *)
  s_uniq : list key;            (* uniqueValues *)
  s_finds : list ev;            (* finds, oldest first *)
  s_ann : bool;                 (* annotation *)
  s_unf : bool;                 (* unfinishedLiteral *)
  s_trail : bool                (* hasTrailingCharacters *)
}.
Definition sc0 : sc := mksc SBegin [] [] [] [] false false false.

Definition set_step (x : st) (s : sc) : sc :=
  mksc x (s_ret s) (s_stack s) (s_uniq s) (s_finds s) (s_ann s) (s_unf s) (s_trail s).
Definition set_ret (x : list st) (s : sc) : sc :=
  mksc (s_step s) x (s_stack s) (s_uniq s) (s_finds s) (s_ann s) (s_unf s) (s_trail s).
Definition set_stack (x : list (ev * N)) (s : sc) : sc :=
  mksc (s_step s) (s_ret s) x (s_uniq s) (s_finds s) (s_ann s) (s_unf s) (s_trail s).
Definition set_uniq (x : list key) (s : sc) : sc :=
  mksc (s_step s) (s_ret s) (s_stack s) x (s_finds s) (s_ann s) (s_unf s) (s_trail s).
Definition set_finds (x : list ev) (s : sc) : sc :=
  mksc (s_step s) (s_ret s) (s_stack s) (s_uniq s) x (s_ann s) (s_unf s) (s_trail s).
Definition set_ann (x : bool) (s : sc) : sc :=
  mksc (s_step s) (s_ret s) (s_stack s) (s_uniq s) (s_finds s) x (s_unf s) (s_trail s).
Definition set_unf (x : bool) (s : sc) : sc :=
  mksc (s_step s) (s_ret s) (s_stack s) (s_uniq s) (s_finds s) (s_ann s) x (s_trail s).
Definition set_trail (x : bool) (s : sc) : sc :=
  mksc (s_step s) (s_ret s) (s_stack s) (s_uniq s) (s_finds s) (s_ann s) (s_unf s) x.

(* s.found(e) *)
Definition found (e : ev) (s : sc) : sc := set_finds (s_finds s ++ [e]) s.

(* error codes (errors/code.go) *)
Definition code_invalid_character : nat := 301.
Definition code_unexpected_eof : nat := 303.
Definition code_duplication_in_enum : nat := 810.
Definition code_enum_array_expected : nat := 1600.

(* result of one state function call *)
Inductive sres :=
| SOk (s : sc)                  (* nil error *)
| SErr (code : nat) (pos : N)   (* a DocumentError *)
| SEos                          (* errEOS *)
| SPanic                        (* a Go panic (empty stack, slice out of range, json.Guess) *)
| SRedo (s : sc).               (* internal: "return s.step(c)" with a popped step function *)

(* newDocumentErrorAtCharacter: ErrInvalidCharacter at s.index-1, the current byte *)
Definition err_char (idx : N) : sres := SErr code_invalid_character idx.

(* the recurring prologue "if bytes.IsNewLine(c) { if s.annotation {error}; found(NewLine) }" *)
Definition new_line (idx : N) (s : sc) : sres :=
  if s_ann s then err_char idx else SOk (found NewLine s).

(* switchToAnnotation *)
Definition switch_to_annotation (idx : N) (s : sc) : sres :=
  if s_ann s then err_char idx
  else SOk (set_step StAnyAnnotationStart (set_ret (s_step s :: s_ret s) s)).

(* stateBeginValue: (opcode = scanBeginLiteral, result) *)
Definition begin_value (idx : N) (s : sc) (c : byte) : bool * sres :=
  if is_newline c then (false, new_line idx s)
  else if is_blank c then (false, SOk s)
  else if ch c 47 then (false, switch_to_annotation idx s)
  else if ch c 34 then (true, SOk (set_unf true (set_step InString s)))
  else if ch c 45 then (true, SOk (set_unf true (set_step Neg s)))
  else if ch c 48 then (true, SOk (set_step S0 s))
  else if ch c 116 then (true, SOk (set_unf true (set_step ST s)))
  else if ch c 102 then (true, SOk (set_unf true (set_step SF s)))
  else if ch c 110 then (true, SOk (set_unf true (set_step SN s)))
  else if is_digit19 c then (true, SOk (set_step S1 s))
  else (false, err_char idx).

(* the tail of stateFoundArrayItemBegin(OrEmpty): ArrayItemBegin + LiteralBegin *)
Definition found_item_literal (r : bool * sres) : sres :=
  match r with
  | (true, SOk s) => SOk (found LiteralBegin (found ArrayItemBegin s))
  | (_, x) => x
  end.

(* stateFoundArrayEnd: tests the stack *before* the queued ArrayEnd is applied *)
Definition found_array_end (s : sc) : sres :=
  let s1 := found ArrayEnd s in
  SOk (set_step (match s_stack s1 with [] => SEndTop | _ => EndValue end) s1).

(* stateFoundArrayItemBeginOrEmpty *)
Definition found_array_item_begin_or_empty (idx : N) (s : sc) (c : byte) : sres :=
  if is_newline c then new_line idx s
  else if ch c 93 then found_array_end s
  else (* stateBeginArrayItemOrEmpty: its own ']' test is shadowed by the one above *)
    found_item_literal (begin_value idx s c).

(* stateAfterArrayItem *)
Definition after_array_item (idx : N) (s : sc) (c : byte) : sres :=
  if is_newline c then new_line idx s
  else if is_blank c then SOk s
  else if ch c 47 then switch_to_annotation idx s
  else if ch c 44 then SOk (set_step FoundArrayItemBegin s)
  else if ch c 93 then found_array_end s
  else err_char idx.

(* stateEndTop; [lc] = lengthComputing *)
Definition end_top (lc : bool) (idx : N) (s : sc) (c : byte) (nxt : option byte) : sres :=
  let rest (s : sc) : sres :=
    if s_trail s then SEos (* found(EndTop) is queued but never delivered *) else SOk s in
  if is_newline c then new_line idx s
  else if ch c 47 then
    (* fix a0479cf: in length mode a slash that does not begin // or /* is the first byte after the rule: found(EndTop); return errEOS *)
    match nxt with
    | Some x => if (lc && negb (ch x 47) && negb (ch x 42))%bool then SEos else switch_to_annotation idx s
    | None => if lc then SEos else switch_to_annotation idx s      (* sixth-round fix: the slash is the last byte of the text *)
    end
  else if negb (is_blank c) then
    if lc then
      match s_stack s with
      | _ :: _ => SOk (set_trail true s)
      | [] => SEos              (* found(EndTop); return errEOS *)
      end
    else if negb (s_ann s) then err_char idx
    else rest s
  else rest s.

(* validateValue: the literal is data[begin : index-1]; inl = error, inr = continue *)
Definition validate_value (data : bytes) (idx : N) (s : sc) : sres + sc :=
  match s_stack s with
  | [] => inl SPanic
  | (_, b) :: _ =>
    match slice data b idx with
    | None => inl SPanic
    | Some v =>
      match enum_item v with
      | None => inl SPanic
      | Some k =>
        if existsb (key_eqb k) (s_uniq s) then inl (SErr code_duplication_in_enum b)
        else inr (set_uniq (k :: s_uniq s) s)
      end
    end
  end.

(* stateEndValue *)
Definition end_value (lc : bool) (data : bytes) (idx : N) (s : sc) (c : byte) (nxt : option byte) : sres :=
  (* the part after "t = ..." : [t] is the type that decides *)
  let after (t : ev) (s : sc) : sres :=
    match t with
    | ArrayItemBegin => after_array_item idx (set_step AfterArrayItem (found ArrayItemEnd s)) c
    | InlineAnnotationBegin =>
      if lc then
        let s1 := set_ann false s in
        match s_stack s1 with
        | [] => SPanic
        | _ :: stk' =>
          match s_ret s1 with
          | [] => SPanic
          | r :: rets => SRedo (set_step r (set_ret rets (set_stack stk' s1)))
          end
        end
      else err_char idx
    | _ => err_char idx
    end in
  match s_stack s with
  | [] => end_top lc idx (set_step SEndTop s) c nxt
  | (LiteralBegin, _) :: rest =>
    match validate_value data idx (found LiteralEnd s) with
    | inl r => r
    | inr s2 =>
      match rest with
      | [] => end_top lc idx (set_step SEndTop s2) c nxt
      | (t2, _) :: _ => after t2 s2
      end
    end
  | (t, _) :: _ => after t s
  end.

(* state0 *)
Definition state0 (lc : bool) (data : bytes) (idx : N) (s : sc) (c : byte) (nxt : option byte) : sres :=
  if ch c 46 then SOk (set_step Dot (set_unf true s))
  else if (ch c 101 || ch c 69)%bool then err_char idx
  else end_value lc data idx s c nxt.

Definition expect (idx : N) (s : sc) (c : byte) (n : N) (nxt : st) : sres :=
  if ch c n then SOk (set_step nxt s) else err_char idx.
(* the last letter of true / false / null *)
Definition expect_last (idx : N) (s : sc) (c : byte) (n : N) : sres :=
  if ch c n then SOk (set_unf false (set_step EndValue s)) else err_char idx.

(* s.step = s.returnToStep.Pop() *)
Definition pop_ret (s : sc) (k : sc -> sc) : sres :=
  match s_ret s with
  | [] => SPanic
  | r :: rets => SOk (k (set_step r (set_ret rets s)))
  end.

(* stateMultiLineAnnotationText; [nxt] = s.data[s.index] when s.index < s.dataSize *)
Definition multi_line_annotation_text (s : sc) (c : byte) (nxt : option byte) : sres :=
  if (ch c 42 && match nxt with Some d => ch d 47 | None => false end)%bool
  then SOk (set_step StMultiLineAnnotationEnd (found MultiLineAnnotationTextEnd s))
  else SOk s.

(* stateInlineAnnotationText *)
Definition inline_annotation_text (s : sc) (c : byte) : sres :=
  if is_newline c then
    pop_ret (found NewLine (found InlineAnnotationEnd (found InlineAnnotationTextEnd s)))
            (set_ann false)
  else SOk s.

(* one call of the stored state function on the byte [c] at offset [idx] (= s.index-1) *)
Definition step1 (lc : bool) (data : bytes) (idx : N) (s : sc) (c : byte) (nxt : option byte) : sres :=
  match s_step s with
  | SBegin =>
    if is_blank c then SOk s
    else if negb (ch c 91) then SErr code_enum_array_expected idx
    else SOk (set_step FoundArrayItemBeginOrEmpty (found ArrayBegin s))
  | FoundArrayItemBeginOrEmpty => found_array_item_begin_or_empty idx s c
  | FoundArrayItemBegin => found_item_literal (begin_value idx s c)
  | EndValue => end_value lc data idx s c nxt
  | AfterArrayItem => after_array_item idx s c
  | SEndTop => end_top lc idx s c nxt
  | InString =>
    if ch c 34 then SOk (set_unf false (set_step EndValue s))
    else if ch c 92 then SOk (set_step InStringEsc s)
    else if is_ctl c then err_char idx
    else SOk s
  | InStringEsc =>
    if (ch c 98 || ch c 102 || ch c 110 || ch c 114 || ch c 116 || ch c 92 || ch c 47 || ch c 34)%bool
    then SOk (set_step InString s)
    else if ch c 117 then SOk (set_step InStringEscU (set_ret (InString :: s_ret s) s))
    else err_char idx
  | InStringEscU => if is_hex c then SOk (set_step InStringEscU1 s) else err_char idx
  | InStringEscU1 => if is_hex c then SOk (set_step InStringEscU12 s) else err_char idx
  | InStringEscU12 => if is_hex c then SOk (set_step InStringEscU123 s) else err_char idx
  | InStringEscU123 => if is_hex c then pop_ret s (fun x => x) else err_char idx
  | Neg =>
    if ch c 48 then SOk (set_unf false (set_step S0 s))
    else if is_digit19 c then SOk (set_unf false (set_step S1 s))
    else err_char idx
  | S1 => if is_digit c then SOk (set_step S1 s) else state0 lc data idx s c nxt
  | S0 => state0 lc data idx s c nxt
  | Dot => if is_digit c then SOk (set_step Dot0 (set_unf false s)) else err_char idx
  | Dot0 =>
    if is_digit c then SOk s
    else if (ch c 101 || ch c 69)%bool then err_char idx
    else end_value lc data idx s c nxt
  | ST => expect idx s c 114 STr
  | STr => expect idx s c 117 STru
  | STru => expect_last idx s c 101
  | SF => expect idx s c 97 SFa
  | SFa => expect idx s c 108 SFal
  | SFal => expect idx s c 115 SFals
  | SFals => expect_last idx s c 101
  | SN => expect idx s c 117 SNu
  | SNu => expect idx s c 108 SNul
  | SNul => expect_last idx s c 108
  | StAnyAnnotationStart =>
    if ch c 47 then SOk (set_step StInlineAnnotation (found InlineAnnotationBegin (set_ann true s)))
    else if ch c 42 then SOk (set_step StMultiLineAnnotation (found MultiLineAnnotationBegin (set_ann true s)))
    else err_char idx
  | StInlineAnnotation =>
    (* fix edd119f: an empty comment ends with its line (before it the new line was skipped as a blank) *)
    if is_newline c then pop_ret (found NewLine (found InlineAnnotationEnd s)) (set_ann false)
    else if is_blank c then SOk s
    else inline_annotation_text (set_step StInlineAnnotationText (found InlineAnnotationTextBegin s)) c
  | StInlineAnnotationText => inline_annotation_text s c
  | StMultiLineAnnotation =>
    if is_newline c then SOk (found NewLine s)
    else if is_blank c then SOk s
    else multi_line_annotation_text
           (set_step StMultiLineAnnotationText (found MultiLineAnnotationTextBegin s)) c nxt
  | StMultiLineAnnotationText => multi_line_annotation_text s c nxt
  | StMultiLineAnnotationEnd =>
    if negb (ch c 47) then err_char idx
    else pop_ret (found MultiLineAnnotationEnd s) (set_ann false)
  end.

(* "return s.step(c)" with a step function popped from returnToStep (stateEndValue in
   length-computing mode): every such re-dispatch pops returnToStep, so its depth is the
   measure. *)
Fixpoint dispatch (fuel : nat) (lc : bool) (data : bytes) (idx : N) (s : sc) (c : byte)
         (nxt : option byte) : sres :=
  match step1 lc data idx s c nxt with
  | SRedo s' =>
    match fuel with
    | S f => dispatch f lc data idx s' c nxt
    | O => SPanic
    end
  | r => r
  end.
Definition step (lc : bool) (data : bytes) (idx : N) (s : sc) (c : byte) (nxt : option byte) : sres :=
  dispatch (length (s_ret s)) lc data idx s c nxt.

(* ---------- processingFoundLexeme: the stack and the spans ---------- *)
Record lexev := mkev { e_type : ev; e_begin : N; e_end : N }.

(* i = s.index - 1.  None = "incorrect ending of the lexical event" (a foreign error) or the
   panic of Pop on an empty stack *)
Definition process_found (i : N) (stk : list (ev * N)) (e : ev) : option (list (ev * N) * lexev) :=
  match e with
  | NewLine | EndTop => Some (stk, mkev e i i)
  | _ =>
    if is_opening e then Some ((e, i) :: stk, mkev e i i)
    else
      match stk with
      | [] => None
      | (p, b) :: rest =>
        if nonscalar_pair p e then Some (rest, mkev e b i)
        else if scalar_pair p e then Some (rest, mkev e b (i - 1)%N)
        else None
      end
  end.

(* drains the queue; [racc] = the delivered events so far, newest first; the boolean is
   false when a find could not be processed (the events before it have been delivered) *)
Fixpoint process_finds (i : N) (stk : list (ev * N)) (fs : list ev) (racc : list lexev)
  : list (ev * N) * list lexev * bool :=
  match fs with
  | [] => (stk, racc, true)
  | e :: r =>
    match process_found i stk e with
    | None => (stk, racc, false)
    | Some (stk', x) => process_finds i stk' r (x :: racc)
    end
  end.

(* ---------- whole run ---------- *)
Inductive outcome :=
| Done                         (* (internal) the input is exhausted; processTail decides *)
| Eos                          (* errEOS *)
| Err (code : nat) (pos : N)   (* a DocumentError *)
| Panic.                       (* a panic, or an error that is not a DocumentError *)

(* consume the remaining bytes; [idx] = index of the next byte; [racc] newest first *)
Fixpoint run (lc : bool) (data : bytes) (s : sc) (idx : N) (bs : bytes) (racc : list lexev)
  : list lexev * outcome * sc * N :=
  match bs with
  | [] => (racc, Done, s, idx)
  | c :: r =>
    match step lc data idx s c (hd_error r) with
    | SOk s1 =>
      let '(stk', racc', ok) := process_finds idx (s_stack s1) (s_finds s1) racc in
      if ok then run lc data (set_finds [] (set_stack stk' s1)) (N.succ idx) r racc'
      else (racc', Panic, s1, idx)
    | SErr code pos => (racc, Err code pos, s, idx)
    | SEos => (racc, Eos, s, idx)
    | SPanic | SRedo _ => (racc, Panic, s, idx)
    end
  end.

(* processTail, once per further Next(): each call bumps index once more; the closing
   events it produces pop exactly the top of the stack *)
Fixpoint tail (unf : bool) (stk : list (ev * N)) (index size : N) (racc : list lexev)
  : list lexev * outcome :=
  match stk with
  | [] => (racc, Eos)
  | (t, b) :: rest =>
    (* s.index++ ; processingFoundLexeme(e) with i = s.index - 1 = index; scalar pair: end = i-1 *)
    match t with
    | LiteralBegin =>
      if unf then (racc, Err code_unexpected_eof (size - 1)%N)
      else tail unf rest (N.succ index) size (mkev LiteralEnd b (index - 1)%N :: racc)
    | InlineAnnotationBegin =>
      tail unf rest (N.succ index) size (mkev InlineAnnotationEnd b (index - 1)%N :: racc)
    | InlineAnnotationTextBegin =>
      tail unf rest (N.succ index) size (mkev InlineAnnotationTextEnd b (index - 1)%N :: racc)
    | _ => (racc, Err code_unexpected_eof (size - 1)%N)
    end
  end.

(* the complete event stream Next() delivers, and how it ends (never [Done]) *)
Definition scan (lc : bool) (bs : bytes) : list lexev * outcome :=
  let '(racc, o, s, idx) := run lc bs sc0 0%N bs [] in
  match o with
  | Done =>
    (* fix 0219b8c: processTail first refuses a text that ends after the first byte of // or /* (unfinishedAnnotationStart is
       true exactly while the step is the state switchToAnnotation installs) *)
    match s_step s with
    | StAnyAnnotationStart => (frev racc, Err code_unexpected_eof (idx - 1)%N)
    | _ => let '(racc', o') := tail (s_unf s) (s_stack s) idx idx racc in (frev racc', o')
    end
  | _ => (frev racc, o)
  end.

(* ---------- consumers (rules/enum/enum.go) ---------- *)
Inductive verdict := VOk | VErr (code : nat) (pos : N) | VPanic | VForeign.

(* scanner.Length(): the loop over the delivered events *)
Fixpoint length_loop (size : N) (evs : list lexev) (len : N) : N :=
  match evs with
  | [] => len
  | e :: r =>
    match e_type e with
    | EndTop => (e_end e - 1)%N
    | _ => length_loop size r (if N.eqb (e_end e) size then e_end e else (e_end e + 1)%N)
    end
  end.
Fixpoint trim_blank_rev (rbs : bytes) : bytes :=
  match rbs with
  | c :: r => if is_blank c then trim_blank_rev r else rbs
  | [] => []
  end.
(* Enum.Len() *)
Definition enum_len (bs : bytes) : verdict * N :=
  let '(evs, o) := scan true bs in
  match o with
  | Err c p => (VErr c p, 0%N)
  | Panic | Done => (VPanic, 0%N)
  | Eos =>
    let size := N.of_nat (length bs) in
    let raw := length_loop size evs 0%N in
    if N.ltb size raw then (VPanic, 0%N)    (* s.data[length-1] out of range *)
    else (VOk, N.of_nat (length (trim_blank_rev (frev (firstn (N.to_nat raw) bs)))))
  end.

(* jschema.GuessSchemaType succeeds *)
Definition guess_schema_type_ok (v : bytes) : bool :=
  (Unquote.in_quotes v || NumModel.is_integer v || NumModel.is_float v
   || bytes_eqb v lit_true || bytes_eqb v lit_false
   || bytes_eqb v [x7b] || bytes_eqb v [x5b] || bytes_eqb v lit_null)%bool.

(* doCompile: what can go wrong while an event is consumed (lex.Value() slices
   data[begin : end+1]; handleLiteralEnd guesses the type).  None = go on. *)
Definition check_event (data : bytes) (e : lexev) : option verdict :=
  match e_type e with
  | LiteralEnd =>
    match slice data (e_begin e) (e_end e + 1)%N with
    | None => Some VPanic
    | Some v => if guess_schema_type_ok v then None else Some VForeign
    end
  | InlineAnnotationTextEnd | MultiLineAnnotationTextEnd =>
    match slice data (e_begin e) (e_end e + 1)%N with
    | None => Some VPanic
    | Some _ => None
    end
  | _ => None
  end.
Fixpoint check_events (data : bytes) (evs : list lexev) (last : verdict) : verdict :=
  match evs with
  | [] => last
  | e :: r => match check_event data e with Some v => v | None => check_events data r last end
  end.
(* Enum.Check() *)
Definition enum_check (bs : bytes) : verdict :=
  let '(evs, o) := scan false bs in
  check_events bs evs
    (match o with Eos => VOk | Err c p => VErr c p | Panic | Done => VPanic end).

(* ---------- wire front end:  "<mode> <hex of the text, or - for empty>" ---------- *)
Definition w_panic : bytes := [x50; x41; x4e; x49; x43].
Definition w_eof : bytes := [x65; x6f; x66].
Definition w_bad : bytes := [x42; x41; x44].
Definition print_err (c : nat) (p : N) : bytes := [x45] ++ print_nat c ++ [x40] ++ print_N p.
Definition print_verdict (v : verdict) : bytes :=
  match v with
  | VOk => [x6f; x6b]
  | VErr c p => print_err c p
  | VPanic => w_panic
  | VForeign => [x46; x4f; x52; x45; x49; x47; x4e]
  end.
Definition print_ev (e : lexev) : bytes :=
  print_nat (ev_code (e_type e)) ++ [colon] ++ print_N (e_begin e) ++ [colon] ++ print_N (e_end e).
Definition print_outcome (o : outcome) : bytes :=
  match o with
  | Eos => w_eof
  | Err c p => print_err c p
  | Panic | Done => w_panic
  end.
Definition enum_events (lc : bool) (bs : bytes) : bytes :=
  let '(evs, o) := scan lc bs in
  join [comma] (map print_ev evs) ++ [bar] ++ print_outcome o.

Definition enum_model_line (line : bytes) : bytes :=
  match split_on sp line with
  | [[m]; h] =>
    match unhex (match h with [x2d] => [] | _ => h end) with
    | None => w_bad
    | Some bs =>
      if byte_eqb m x6e then enum_events false bs
      else if byte_eqb m x4e then enum_events true bs
      else if byte_eqb m x6c then
        (let '(v, n) := enum_len bs in match v with VOk => print_N n | _ => print_verdict v end)
      else if byte_eqb m x63 then print_verdict (enum_check bs)
      else w_bad
    end
  | _ => w_bad
  end.
